"""Shared by the report checks C05 and C18 (python3 stdlib only): case generator, fixture builder, the
readdir/stat/read view of a fixture handed to the extracted model, runner for robsd-report and for the
shell totals under bash, and the parser that cuts a report into status, stats lines and sections."""
import hashlib, json, os, re, shutil, socket, subprocess
from concurrent.futures import ThreadPoolExecutor
import common
from common import hexs

MODES = ['robsd', 'robsd-cross', 'robsd-ports', 'robsd-regress', 'canvas']
SEQ_MODES = ['robsd', 'robsd-cross', 'robsd-ports']
STEPS = {
    'robsd': ['env', 'cvs', 'patch', 'kernel', 'reboot', 'env', 'base', 'release', 'checkflist', 'xbase', 'xrelease',
              'image', 'hash', 'revert', 'distrib', 'dmesg', 'end'],
    'robsd-cross': ['env', 'dirs', 'tools', 'distrib', 'dmesg', 'end'],
    'robsd-ports': ['env', 'cvs', 'clean', 'proot', 'patch', 'dpb', 'distrib', 'revert', 'dmesg', 'end'],
    'robsd-regress': ['env', 'pkg-add', 'cvs', 'patch', 'obj', 'mount', 'bin/ksh', 'bin/ksh-extra', 'bin', 'lib/libc/locale', 'usr.bin/ssh',
                      'usr.bin/ssh/sub', 'sys/kern/unveil', 'umount', 'revert', 'pkg-del', 'dmesg', 'end'],
    'canvas': ['first', 'second', 'cvs', 'checkflist', 'build', 'test it', 'deploy', 'end'],
}
# suites; some are prefixes / extensions of one another (a prefix compare in is_regress_step or in the quiet lookup shows)
SUITES = ['bin/ksh', 'bin/ksh-extra', 'bin', 'lib/libc/locale', 'usr.bin/ssh', 'usr.bin/ssh/sub', 'sys/kern/unveil']
CVS_TMP = ['cvs-src-up.log', 'cvs-src-ci.log', 'cvs-xenocara-up.log', 'cvs-xenocara-ci.log', 'cvs-ports-up.log',
           'cvs-ports-ci.log', 'packages.diff']
EXITS = [1, 1, 1, 2, 124, 255, -1, -1, 127, 2147483648, -2147483649]
DURS = [0, 1, 2, 9, 10, 59, 60, 61, 99, 100, 599, 3599, 3600, 3601, 3661, 35999, 36000, 86399, 86400, 359999, 360000,
        2 ** 31 - 1, 2 ** 31, 2 ** 40 - 1, 2 ** 40]
DELTAS = [0, 0, 0, 1, -1, 59, -59, 60, -60, 61, -61, 3600, -3600, 2 ** 40, -(2 ** 40), 7, -7]
MIB, KIB = 2 ** 20, 2 ** 10
TYPE_LETTER = {'dir': 'D', 'file': 'R'}


# ---------------------------------------------------------------- generator

def gen_log(rng, mode):
    """(content bytes | None for a missing file, kind)"""
    kinds = ['missing', 'empty', 'one', 'nine', 'ten', 'eleven', 'many', 'nonl', 'trace', 'trace_plain', 'blanktail',
             'blankhead', 'blankmid', 'nul', 'nul_last', 'cr', 'nul_early', 'long', 'regress', 'regress', 'onlynl', 'plus_nonl',
             'dir', 'big']
    w = [4, 3, 4, 3, 3, 3, 3, 4, 3, 3, 3, 2, 2, 4, 3, 3, 2, 1, 4 if mode == 'robsd-regress' else 1, 4 if mode == 'robsd-regress' else 0, 1, 1,
         0.5, 0.4]
    k = rng.choices(kinds, w)[0]
    if k == 'dir':
        return 'U', k      # a directory where the log should be: there but unreadable
    if k == 'big':
        # 64 KiB .. just over 1 MiB (the scratch buffers of the regress parser are 1 MiB)
        # (the extracted model is a list program: whole-log modes stay at 64 KiB, the excerpt modes go to 1 MiB)
        n = rng.choice([65536, 70000] if mode in ('canvas', 'robsd-regress') else [65536, 70000, 2 ** 20 - 7, 2 ** 20, 2 ** 20 + 9])
        line = b'0123456789abcdef' * 4 + b'\n'
        body = line * (n // len(line))
        return body + rng.choice([b'', b'tail line\n', b'FAILED\n', b'no newline']), k

    def lines(n, pre=b'line'):
        return b''.join(pre + b' %d\n' % i for i in range(1, n + 1))
    if k == 'missing':
        return None, k
    if k == 'empty':
        return b'', k
    if k == 'one':
        return b'only line\n', k
    if k == 'nine':
        return lines(9), k
    if k == 'ten':
        return lines(10), k
    if k == 'eleven':
        return lines(11), k
    if k == 'many':
        return lines(rng.choice([12, 20, 37])), k
    if k == 'nonl':
        return lines(rng.choice([0, 1, 9, 10, 11])) + b'unfinished', k
    if k == 'trace':
        return b''.join(b'+ cmd %d\n' % i for i in range(rng.choice([1, 3, 12]))), k
    if k == 'plus_nonl':
        return b'+ a\n+ unfinished', k
    if k == 'trace_plain':
        return b'+ cmd\n' + rng.choice([b'plain\n', b'\n', b' + indented\n', b'x', b'\n+ again\n']), k
    if k == 'blanktail':
        return lines(rng.choice([1, 9, 10, 11])) + b'\n' * rng.choice([1, 2, 5]), k
    if k == 'blankhead':
        return b'\n' * rng.choice([1, 3]) + lines(rng.choice([1, 9, 10, 11])), k
    if k == 'blankmid':
        n = rng.choice([9, 10, 11, 14])
        out = b''
        for i in range(1, n + 1):
            out += b'line %d\n' % i
            if rng.random() < 0.4:
                out += b'\n' * rng.choice([1, 2])
        return out, k
    if k == 'nul':
        n = rng.choice([3, 10, 12])
        ls = [b'line %d' % i for i in range(1, n + 1)]
        j = rng.randrange(max(0, n - 10), n)
        ls[j] = ls[j][:2] + b'\x00' + ls[j][2:]
        return b'\n'.join(ls) + b'\n', k
    if k == 'nul_last':
        return lines(rng.choice([0, 2, 11])) + rng.choice([b'last\x00\n', b'\x00\n', b'la\x00st', b'\x00']), k
    if k == 'nul_early':
        # a NUL before the last ten lines only: the excerpt is not affected
        return b'he\x00ad\n' + lines(rng.choice([10, 13])), k
    if k == 'cr':
        return lines(2) + b'progress 1\rprogress 2\r\nlast\r\n', k
    if k == 'long':
        return b'x' * 5000 + b'\n' + lines(3) + b'y' * 9000 + b'\n', k
    if k == 'onlynl':
        return b'\n' * rng.choice([1, 2, 11]), k
    if k == 'regress':
        out = b''
        if rng.random() < 0.5:
            out += b'+ make regress\n'
        for i in range(rng.choice([1, 2, 4])):
            out += rng.choice([b'==== t%d ====\n' % i, b'===> sub%d\n' % i, b'=== near%d ===\n' % i])
            out += rng.choice([b'ok\n', b'cc -o t t.c\n', b'', b'+ late trace\n', b'\x00\n'])
            out += rng.choice([b'FAILED\n', b'SKIPPED\n', b'DISABLED\n', b'EXPECTED_FAIL\n', b'UNEXPECTED_PASS\n', b'passed\n',
                               b'x FAILED y\n', b'', b'SKIP\n', b'a\x00FAILED\n'])
        if rng.random() < 0.3:
            out += b'trailer without marker'
        return out, k
    raise AssertionError(k)


def gen_rows(rng, mode):
    pool = STEPS[mode]
    n = rng.choice([0, 1, 1, 2, 3, 3, 4, 5, 6, 8, len(pool), len(pool)])
    if rng.random() < 0.04:
        # a long schedule: more rows than any fixed mode has (canvas configurations, many regress suites)
        pool = pool[:-1] + ['extra%d' % i for i in range(rng.choice([20, 40, 70]))] + ['end']
        n = len(pool)
    if mode == 'canvas':
        names = pool[:max(0, n - 1)] + (['end'] if n and rng.random() < 0.6 else pool[n - 1:n] if n else [])
    else:
        start = 0 if rng.random() < 0.7 else rng.randrange(len(pool))
        names = pool[start:start + n]
        if names and rng.random() < 0.35 and 'end' not in names:
            names = names[:-1] + ['end']
    if rng.random() < 0.06 and names:
        names[rng.randrange(len(names))] = rng.choice(['cvs', 'checkflist', 'dpb', 'end'])
    n = len(names)
    pattern = rng.choices(['none', 'first', 'middle', 'last', 'several', 'inflight'], [5, 2, 3, 5, 3, 2])[0]
    fail = set()
    work = [i for i in range(n) if names[i] != 'end'] or list(range(n))
    if work and pattern == 'first':
        fail = {work[0]}
    elif work and pattern == 'middle':
        fail = {work[len(work) // 2]}
    elif work and pattern in ('last', 'inflight'):
        fail = {work[-1]}
    elif work and pattern == 'several':
        fail = set(rng.sample(work, min(len(work), rng.choice([2, 2, 3, 5]))))
    rows = []
    t = 1700000000
    for i, nm in enumerate(names):
        skip = 1 if (rng.random() < 0.15 and nm != 'end') else 0
        ex = 0
        if i in fail:
            ex = -1 if pattern == 'inflight' else rng.choice(EXITS)
        if skip and rng.random() < 0.85:
            ex = 0
        dur = rng.choice(DURS) if rng.random() < 0.5 else rng.randrange(0, 5000)
        if ex == -1 and rng.random() < 0.8:
            dur = -1
        delta = rng.choice(DELTAS)
        if rng.random() < 0.03:
            skip = rng.choice([2, -1])
        log = '' if (skip and rng.random() < 0.7) or nm == 'end' or rng.random() < 0.06 else '%03d-%s.log' % (i + 1, nm.replace('/', '-'))
        if rng.random() < 0.02 and log:
            log = 'sub/' + log
        t += rng.choice([0, 1, 30, 3600, 100000]) if mode != 'robsd-regress' or rng.random() < 0.8 else -rng.choice([1, 500])
        rows.append({'step': i + 1, 'name': nm, 'exit': ex, 'duration': dur, 'delta': delta, 'log': log,
                     'user': 'root', 'time': t, 'skip': skip})
    # the end row as the orchestrator writes it: accumulated duration (sometimes anything)
    for r in rows:
        if r['name'] == 'end':
            r['skip'] = 0 if rng.random() < 0.95 else 1
            r['exit'] = 0 if rng.random() < 0.95 else 1
            if rng.random() < 0.6:
                r['duration'] = sum(x['duration'] for x in rows if x['name'] != 'end' and x['skip'] != 1)
            r['delta'] = rng.choice(DELTAS + [59, 60, 61, -59, -60, -61])
    # a sequential mode stops at the first failure: usually cut the file there
    if mode in SEQ_MODES and pattern != 'several' and fail and rng.random() < 0.8:
        last = max(fail)
        rows = rows[:last + 1] + [dict(r, skip=1, exit=0) for r in rows[last + 1:] if rng.random() < 0.3 and r['name'] != 'end']
    return rows


def gen_sizes(rng):
    """current rel entries, previous invocations with their rel entries"""
    names = ['bsd', 'bsd.rd', 'bsd.mp', 'base75.tgz', 'comp75.tgz', 'CHANGELOG', 'src.diff.1', 'x.diff.12', 'a.diff.', 'a.diff.x',
             'SHA256', 'index.txt', 'bsd.rd2', 'B', '.hidden', 'man75.tgz', 'a b', 'bsd!x']
    pick = rng.sample(names, rng.choice([0, 1, 3, 5, 8, len(names)]))
    cur, prev = [], []
    for nm in pick:
        thr = KIB if nm == 'bsd.rd' else MIB
        base = rng.choice([0, 1, 512, 1023, 1024, 1025, 10 * KIB, MIB - 1, MIB, MIB + 1, 5 * MIB, 2 ** 18 * rng.choice([1, 3, 5, 7, 9, 4097]),
                           2 ** 8 * rng.choice([1, 3, 5, 4099]), 102 * KIB + 51, 3 * 2 ** 30, 5 * 2 ** 30 + 2 ** 29,
                           rng.randrange(0, 4 * MIB), rng.randrange(0, 64 * KIB)])
        d = rng.choice([0, 1, thr - 1, thr, thr + 1, 2 * thr, thr // 2, 2 ** 18 * rng.choice([1, 3, 5, 7, 4097]), rng.randrange(0, 3 * thr),
                        3 * 2 ** 30])
        if rng.random() < 0.5:
            a, b = base + d, base
        else:
            a, b = base, base + d
        where = rng.choices(['both', 'cur', 'prev'], [8, 1, 1])[0]
        if where in ('both', 'cur'):
            cur.append([nm, a])
        if where in ('both', 'prev'):
            prev.append([nm, b])
    return cur, prev


def gen_case(rng, mode=None, focus=None):
    if focus == 'sizes':
        mode = 'robsd'
    mode = mode or rng.choice(MODES)
    rows = gen_rows(rng, mode)
    logs = {}
    for r in rows:
        if r['log'] and r['log'] not in logs:
            if r['name'] == 'checkflist' and rng.random() < 0.7:
                c = rng.choice([b'+ one\n+ two\n', b'+ one\n+ two\nhello\n', b'', b'+ x', b'\n', b'+ a\n\n', None, b'extra file\n'])
                logs[r['log']] = None if c is None else c.hex()
                continue
            c, _ = gen_log(rng, mode)
            logs[r['log']] = c if c in (None, 'U') else c.hex()
    tmp = {}
    for nm in CVS_TMP:
        k = rng.random()
        if k < 0.45:
            tmp[nm] = rng.choice([b'M src/file.c\n', b'P a\nP b\n\n\n', b'no newline', b'commit 1\n\ncommit 2\n', b'\n', b'\n\n', b'x\x00y\n', b'cr\r\n']).hex()
        elif k < 0.8:
            tmp[nm] = ''
        elif k < 0.995:
            tmp[nm] = None
        else:
            tmp[nm] = 'U'      # a directory of that name
    case = {'mode': mode, 'rows': rows, 'logs': logs, 'tmp': tmp}
    case['comment'] = rng.choices([None, b'a comment\n'.hex(), b'two\nlines\n\n\n'.hex(), b''.hex(), b'\n\n'.hex(), b'no newline'.hex(),
                                   b'nul \x00\r\nnext\n'.hex(), 'U'], [10, 4, 2, 1, 1, 1, 2, 1])[0]
    case['tags'] = rng.choices([None, b'foo bar\n'.hex(), b''.hex(), b'nonl'.hex(), b'a\x00b\n'.hex()], [8, 6, 1, 1, 1])[0]
    case['target'] = rng.choices([b'arm64\n'.hex(), b'sparc64'.hex(), b'riscv64\nsecond\n'.hex(), b''.hex(), b'ar\x00m\n'.hex(), None],
                                 [6, 2, 1, 1, 1, 1])[0]
    suites = [[s, rng.random() < 0.25] for s in SUITES if rng.random() < 0.8]
    case['regress'] = suites
    case['running'] = rng.random() < 0.985
    case['step_present'] = rng.random() < 0.99
    # invocations in the root: names as build_id makes them (<date>.<n>, n unpadded) and a few others
    me = '2024-01-0%d.%d' % (rng.choice([2, 5]), rng.choice([1, 2, 10, 11]))
    others = []
    pool = ['2024-01-01.1', '2024-01-02.1', '2024-01-02.2', '2024-01-02.9', '2024-01-02.10', '2024-01-03.1', '2024-01-05.1', '2024-01-05.9',
            '2024-01-05.10', '2024-01-09.1', 'attic', '.hidden', 'zzz', 'afile']
    for nm in rng.sample(pool, rng.choice([0, 1, 2, 3, 5, 7])):
        if nm == 'zzz' and rng.random() < 0.85:
            continue      # a directory build_id did not name: rare (C18 does not judge "previous" then)
        if nm != me:
            others.append([nm, 'file' if nm == 'afile' or rng.random() < 0.08 else 'dir'])
    if focus == 'sizes' and not [o for o in others if o[1] == 'dir' and o[0] not in ('attic', '.hidden')]:
        nm = rng.choice(['2024-01-01.1', '2024-01-09.1'])
        others = [o for o in others if o[0] != nm] + [[nm, 'dir']]
    case['builddir'] = me
    case['others'] = others
    # the order in which the entries were created, oldest first (the harness makes them, so it knows): usually the
    # chronological one with this invocation last; sometimes this invocation is not the newest (a report made by
    # hand for an older one), sometimes a name was issued again after its first holder was cleaned away
    names = [o[0] for o in others] + [me]
    k = rng.random()
    if k < 0.5:
        # what build_id and the lock allow: chronological, this invocation the newest - so drop what would be newer
        keep = [o for o in others if natural_key(o[0]) < natural_key(me) or natural_key(o[0])[0] == 1]
        case['others'] = others = keep
        created = sorted([o[0] for o in others], key=natural_key) + [me]
    elif k < 0.9:
        created = sorted([n for n in names if n != me], key=natural_key) + [me]
    elif k < 0.95:
        created = sorted(names, key=natural_key)
    else:
        created = names[:]
        rng.shuffle(created)
    case['created'] = created
    if mode == 'robsd' or rng.random() < 0.2:
        cur, prev = gen_sizes(rng)
        while focus == 'sizes' and len(cur) < 3:
            cur, prev = gen_sizes(rng)
    else:
        cur, prev = [], []
    case['rel'] = None if rng.random() < 0.05 else cur
    prevrel = {}
    for nm, kind in others:
        if kind == 'dir' and nm != '.hidden':
            k = rng.random()
            if k < 0.7 or focus == 'sizes':
                prevrel[nm] = [list(p) for p in prev if rng.random() < 0.9]
            elif k < 0.85:
                prevrel[nm] = []
    case['prevrel'] = prevrel
    return case


def natural_key(name):
    """chronological order of the names build_id makes: by date, then by the number after the dot"""
    m = re.match(r'^(\d{4}-\d{2}-\d{2})\.(\d+)$', name)
    return (0, m.group(1), int(m.group(2))) if m else (1, name, 0)


def created_order(case):
    """names of the root entries, oldest first; cases stored before the field existed: chronological, this one last"""
    if 'created' in case:
        return case['created']
    return sorted([o[0] for o in case['others']], key=natural_key) + [case['builddir']]


# ---------------------------------------------------------------- fixture

def step_csv(rows):
    out = 'step,name,exit,duration,delta,log,user,time,skip\n'
    for r in rows:
        out += '%d,%s,%d,%d,%d,%s,%s,%d,%d\n' % (r['step'], r['name'], r['exit'], r['duration'], r['delta'], r['log'],
                                                r['user'], r['time'], r['skip'])
    return out.encode()


def write_conf(path, mode, root, aux, suites):
    if mode == 'robsd':
        body = ('robsddir "%s"\ndestdir "%s"\nbsd-srcdir "%s"\ncvs-root "example.com:/cvs"\n'
                'cvs-user "nobody"\nx11-srcdir "%s"\n' % (root, aux, aux, aux))
    elif mode == 'robsd-cross':
        body = 'robsddir "%s"\ncrossdir "%s"\nbsd-srcdir "%s"\n' % (root, aux, aux)
    elif mode == 'robsd-ports':
        body = ('robsddir "%s"\nchroot "%s"\ncvs-root "example.com:/cvs"\ncvs-user "nobody"\n'
                'ports-dir "/ports"\nports-user "nobody"\nports { "devel/robsd" }\n' % (root, aux))
    elif mode == 'robsd-regress':
        body = 'robsddir "%s"\nbsd-srcdir "%s"\ncvs-user "nobody"\n' % (root, aux)
        for s, q in suites:
            body += 'regress "%s"%s\n' % (s, ' quiet' if q else '')
        if not suites:
            body += 'regress "never/there"\n'
    elif mode == 'canvas':
        body = 'canvas-name "test canvas"\ncanvas-dir "%s"\nstep "first" command { "true" }\n' % root
    else:
        raise ValueError(mode)
    open(path, 'w').write(body)


def make_fixture(case, d):
    """materialises the case below d; returns the builddir path"""
    os.makedirs(d)
    root = os.path.join(d, 'r')
    aux = os.path.join(d, 'src')
    os.mkdir(root)
    os.mkdir(aux)
    bd = os.path.join(root, case['builddir'])
    os.makedirs(os.path.join(bd, 'tmp'))
    if case['step_present']:
        open(os.path.join(bd, 'step.csv'), 'wb').write(step_csv(case['rows']))
    for name, c in case['logs'].items():
        if c is None:
            continue
        p = os.path.join(bd, name)
        os.makedirs(os.path.dirname(p), exist_ok=True)
        if c == 'U':
            os.makedirs(os.path.join(p, 'x'))
        else:
            open(p, 'wb').write(bytes.fromhex(c))
    for name, c in case['tmp'].items():
        if c == 'U':
            os.makedirs(os.path.join(bd, 'tmp', name, 'x'))
        elif c is not None:
            open(os.path.join(bd, 'tmp', name), 'wb').write(bytes.fromhex(c))
    if case['comment'] == 'U':
        os.mkdir(os.path.join(bd, 'comment'))
    elif case['comment'] is not None:
        open(os.path.join(bd, 'comment'), 'wb').write(bytes.fromhex(case['comment']))
    if case['tags'] is not None:
        open(os.path.join(bd, 'tags'), 'wb').write(bytes.fromhex(case['tags']))
    if case['target'] is not None:
        open(os.path.join(bd, 'target'), 'wb').write(bytes.fromhex(case['target']))
    if case['rel'] is not None:
        os.mkdir(os.path.join(bd, 'rel'))
        for nm, size in case['rel']:
            with open(os.path.join(bd, 'rel', nm), 'wb') as f:
                f.truncate(size)
    for nm, kind in case['others']:
        p = os.path.join(root, nm)
        if kind == 'dir':
            os.mkdir(p)
        else:
            open(p, 'w').write('x\n')
    for nm, ents in case['prevrel'].items():
        p = os.path.join(root, nm, 'rel')
        os.makedirs(p, exist_ok=True)
        for n2, size in ents:
            with open(os.path.join(p, n2), 'wb') as f:
                f.truncate(size)
    if case['running']:
        open(os.path.join(root, '.running'), 'w').write(bd + '\n')
    suites = case['regress']
    write_conf(os.path.join(d, 'conf'), case['mode'], root, aux, suites)
    return bd


def read_or_none(p):
    try:
        with open(p, 'rb') as f:
            return f.read()
    except OSError:
        return None


def opt(b):
    return '!' if b is None else hexs(b)


def fread_token(p, need_size=False):
    """what reading p gives, as the model's fread: A = does not exist (ENOENT), U = there but unreadable (a directory,
    a path through a file), else the content.  For the files report_cvs_log stats first (need_size) an unreadable one
    must have a non-zero st_size, as the model assumes."""
    try:
        with open(p, 'rb') as f:
            return hexs(f.read())
    except FileNotFoundError:
        return 'A'
    except OSError:
        if need_size and os.stat(p).st_size == 0:
            raise common.BuildFailure('the scratch file system gives a directory st_size 0: %s' % p)
        return 'U'


def fixture_tokens(case, d, host, machine, root=None, canvas_name=b'test canvas'):
    """the file system below d as the model's input (readdir / stat / read as the report would see them)"""
    root = root or os.path.join(d, 'r')
    bd = os.path.join(root, case['builddir'])
    t = [str(MODES.index(case['mode'])), hexs(host), hexs(bd.encode()), '1' if os.path.exists(os.path.join(root, '.running')) else '0',
         hexs(root.encode()), hexs((root + '/attic').encode()), hexs(machine), hexs(canvas_name)]
    suites = case['regress'] if case['regress'] else [['never/there', False]]
    t.append(str(len(suites)))
    for s, q in suites:
        t += [hexs(s.encode()), '1' if q else '0']
    t.append(opt(read_or_none(os.path.join(bd, 'step.csv'))))
    logs = []
    for r in case['rows']:
        if r['log'] not in logs:
            logs.append(r['log'])
    t.append(str(len(logs)))
    for l in logs:
        t += [hexs(l.encode()), fread_token(os.path.join(bd, l))]
    t.append(str(len(CVS_TMP)))
    for nm in CVS_TMP:
        t += [hexs(nm.encode()), fread_token(os.path.join(bd, 'tmp', nm), need_size=True)]
    t.append(fread_token(os.path.join(bd, 'comment')))
    t.append(opt(read_or_none(os.path.join(bd, 'tags'))))
    t.append(opt(read_or_none(os.path.join(bd, 'target'))))
    ents = []
    with os.scandir(root) as it:
        for e in it:
            ents.append((e.name, 'L' if e.is_symlink() else 'D' if e.is_dir(follow_symlinks=False) else 'R' if e.is_file(follow_symlinks=False) else 'O'))
    t.append(str(len(ents)))
    for nm, ty in ents:
        t += [hexs(nm.encode()), ty]
    rel = os.path.join(bd, 'rel')
    names = []
    if os.path.isdir(rel):
        with os.scandir(rel) as it:
            names = [e.name for e in it]
        t.append(str(len(names)))
        for nm in names:
            t += [hexs(nm.encode()), str(os.stat(os.path.join(rel, nm)).st_size)]
    else:
        t.append('!')
    prev = []
    for nm, ty in ents:
        if ty != 'D':
            continue
        for n2 in names:
            try:
                st = os.stat(os.path.join(root, nm, 'rel', n2))
            except OSError:
                continue
            prev.append((os.path.join(root, nm), n2, st.st_size))
    t.append(str(len(prev)))
    for p, n2, sz in prev:
        t += [hexs(p.encode()), hexs(n2.encode()), str(sz)]
    age = [os.path.join(root, nm) for nm in created_order(case)]
    t.append(str(len(age)))
    t += [hexs(p.encode()) for p in age]
    return t


def hostname():
    return socket.gethostname().split('.')[0].encode()


def machine_of(impl):
    m = re.search(r'^#define MACHINE\s+"([^"]*)"', open(os.path.join(impl, 'config.h')).read(), re.M)
    if not m:
        raise common.BuildFailure('config.h of the implementation build has no MACHINE')
    return m.group(1).encode()


def run_report(impl, case, d):
    bd = os.path.join(d, 'r', case['builddir'])
    try:
        r = subprocess.run([os.path.join(impl, 'robsd-report'), '-m', case['mode'], '-C', os.path.join(d, 'conf'), bd],
                           stdout=subprocess.PIPE, stderr=subprocess.PIPE, timeout=30)
        return r.returncode, r.stdout, r.stderr
    except subprocess.TimeoutExpired:
        return -999, b'', b'timeout'


SH_TOTALS = r'''
set -u
EXECDIR="$1"; export EXECDIR
ROBSDSTEP="$1/robsd-step"; export ROBSDSTEP
. "$1/util.sh"
. "$1/util-regress.sh"
while read -r _m _f; do
	setmode "${_m}"
	_t="$(duration_total -s "${_f}" 2>/dev/null)" || _t="!"
	echo "${_t:-!}"
done
'''


def run_shell_totals(impl, jobs):
    """jobs: [(mode, step.csv path)] -> list of stdout lines of duration_total under bash, '!' on failure"""
    if not jobs:
        return []
    inp = ''.join('%s %s\n' % (m, p) for m, p in jobs)
    r = subprocess.run(['bash', '-c', SH_TOTALS, 'sh', impl], input=inp, stdout=subprocess.PIPE, stderr=subprocess.PIPE,
                       text=True, timeout=1200)
    out = r.stdout.split('\n')
    if out and out[-1] == '':
        out.pop()
    if len(out) != len(jobs):
        raise RuntimeError('bash duration_total: %d answers for %d jobs (rc=%d, stderr=%s)' % (len(out), len(jobs), r.returncode, r.stderr[-400:]))
    return out


# ---------------------------------------------------------------- report parser (harness side; the oracle parses nothing)

SEC_RE = re.compile(rb'\n> ([^\n]*)\nExit: (-?[0-9]+)\nDuration: ([^\n]*)\nLog: ([^\n]*)\n')


def parse_report(out):
    """-> dict(subject, status, duration, sizes [lines], sections [dict(name, exit, duration, log, body)]) or None"""
    m = re.match(rb'Subject: ([^\n]*)\n\n> stats\nStatus: ([^\n]*)\nDuration: ([^\n]*)\nBuild: ([^\n]*)\n', out)
    if not m:
        return None
    rep = {'subject': m.group(1), 'status': m.group(2), 'duration': m.group(3), 'build': m.group(4)}
    secs = list(SEC_RE.finditer(out, m.end() - 1))
    head_end = secs[0].start() if secs else len(out)
    head = out[m.end():head_end]
    stats = head.split(b'\n\n> comment\n')[0] if b'\n> comment\n' in (b'\n' + head) else head
    rep['sizes'] = [l for l in stats.split(b'\n') if l.startswith(b'Size: ')]
    rep['sections'] = []
    for i, s in enumerate(secs):
        end = secs[i + 1].start() if i + 1 < len(secs) else len(out)
        rep['sections'].append({'name': s.group(1), 'exit': int(s.group(2)), 'duration': s.group(3), 'log': s.group(4),
                                'body': out[s.end():end]})
    return rep


def case_key(case):
    return hashlib.sha1(json.dumps(case, sort_keys=True).encode()).hexdigest()


def big_stack(drv):
    """the extracted model is a list program (a 1 MiB log is a million-element list; ++ and map are not tail recursive in the
    extracted OCaml): run the driver without a stack limit"""
    w = drv + '.sh'
    text = '#!/bin/sh\nulimit -s unlimited 2>/dev/null || ulimit -s $(ulimit -Hs)\nexec "%s" "$@"\n' % drv
    if not os.path.exists(w) or open(w).read() != text:
        open(w + '.tmp', 'w').write(text)
        os.chmod(w + '.tmp', 0o755)
        os.rename(w + '.tmp', w)
    return w


def build_rp_driver(ctx):
    """C05 and C18 share one extraction (coq/extract/ExtractRP.v): every library it imports is compiled against
    the current sources first, whichever of the two properties is being checked; under the framework's lock."""
    targets = ['theories/Report/ReportSpec.vo', 'theories/Report/DurationSpec.vo', 'gen/Gen_Report.vo']
    with common.Lock(os.path.join(common.COQ, '.lock')):
        common.refresh_coqproject()
        # coq/gen is shared by every check that runs on this machine: another check (another VERIF_REPO) may have rewritten it since
        # this check's proof step.  Regenerate from THIS run's repository and extract while the lock is still held, so that the model
        # the driver runs is the model of the tree under test
        ctx.regen([], have_lock=True)
        r = common.sh(['timeout', '900', 'make', '-j8'] + targets, cwd=common.COQ)
        if r.returncode != 0:
            raise common.BuildFailure('libraries of the rp driver do not build:\n' + r.stdout[-1500:])
        return big_stack(ctx.build_driver('rp', withz=True))


def materialise(ctx, impl, cases, work, offset=0):
    """builds every fixture, runs robsd-report on it, returns [(dir, tokens, (rc, out, err))]"""
    host = hostname()
    machine = machine_of(impl)

    def one(ic):
        i, c = ic
        d = os.path.join(work, 'c%d' % (offset + i))
        make_fixture(c, d)
        toks = fixture_tokens(c, d, host, machine)
        return d, toks, run_report(impl, c, d)
    with ThreadPoolExecutor(16) as ex:
        return list(ex.map(one, enumerate(cases)))


# ---------------------------------------------------------------- evaluation shared by c05.py and c18.py

C05_CHECKS = ('exit', 'sane', 'status', 'sections', 'body')
C18_CHECKS = ('total', 'stepdur', 'sizes', 'shell')
SIG_D14 = 'log-excerpt-cut-at-nul'
SIG_D18 = 'failed-step-but-no-report'
SIG_D24 = 'failed-step-but-no-report-log-absent'
SIG_D25 = 'regress-cvs-section-empty'
SIG_AGE = 'previous-is-name-order-not-age'
SRC_LOGS = ('cvs-src-up.log', 'cvs-src-ci.log')


def nonskipped(r):
    return r['skip'] != 1


def failing_rows(case):
    return [r for r in case['rows'] if nonskipped(r) and r['exit'] != 0]


def d18_shape(case):
    """a listed cvs step of a robsd-ports invocation whose cvs logs (one or both) were never written"""
    return (case['mode'] == 'robsd-ports' and any(r['name'] == 'cvs' and r['skip'] != 1 for r in case['rows'])
            and any(case['tmp'].get(n) is None for n in ('cvs-ports-up.log', 'cvs-ports-ci.log')))


def d24_shape(case):
    """a non-skipped row names a log that does not exist: what an invocation killed between the in-flight record of
    step_exec_job and tee's open(2) leaves behind (exit -1); also rows that are listed although they passed (cvs, ...)"""
    return any(r['log'] and case['logs'].get(r['log']) is None for r in case['rows'] if nonskipped(r))


def d25_shape(case):
    """a failing cvs row of a robsd-regress invocation with a non-empty src cvs log below tmp"""
    return (case['mode'] == 'robsd-regress' and any(r['name'] == 'cvs' for r in failing_rows(case))
            and any(case['tmp'].get(n) not in (None, '', 'U') for n in SRC_LOGS))


def age_outside_reason(case):
    """C18 only ("the previous invocation").  build_id issues <date>.<n> with n one above the largest suffix in use that day, and
    robsd-report finds ${builddir}/tags through the lock file, which names an invocation only while it runs - when it is the entry
    created last.  So the creation orders the property ranges over are: chronological by date and number, this invocation last.
    Any other order the generator makes up (a report by hand for an older invocation, a shuffled order) is outside."""
    order = created_order(case)
    dirs = {o[0] for o in case['others'] if o[1] == 'dir'} | {case['builddir']}
    if [n for n in dirs if not n.startswith('.') and n != 'attic' and not re.match(r'^\d{4}-\d{2}-\d{2}\.\d+$', n)]:
        return 'a directory in robsddir that build_id did not name'
    inv = [n for n in order if n in dirs and re.match(r'^\d{4}-\d{2}-\d{2}\.\d+$', n)]
    if inv != sorted(inv, key=natural_key):
        return 'creation order that build_id cannot produce'
    if inv and inv[-1] != case['builddir'] and case['builddir'] in inv:
        return 'this invocation is not the one created last (report outside its own run)'
    return None


def different_length_suffixes(case):
    """the input class of known finding previous-is-name-order-not-age: two invocations of one day (this one included) whose
    numbers have different numbers of digits"""
    by_day = {}
    for n in [o[0] for o in case['others'] if o[1] == 'dir'] + [case['builddir']]:
        m = re.match(r'^(\d{4}-\d{2}-\d{2})\.(\d+)$', n)
        if m:
            by_day.setdefault(m.group(1), set()).add(len(m.group(2)))
    return any(len(v) > 1 for v in by_day.values())


def outside_reason(case, pid='C05'):
    """The predicate on the CASE that puts it outside C05's / C18's quantifier; then no oracle judges it (the
    correspondence between model and implementation still does).  Mirrors ReportSpec.v [names_unreadable],
    [dpb_without_diff], [regress_without_log_name] and the lock-file premise of [inside], a superset of each:

    - a file is a directory: the property ranges over "all log contents"; a directory in the place of a log, of a cvs
      log, of packages.diff or of the comment is not a content.  tee and the scripts create regular files.
    - no lock file: robsd-report resolves ${builddir}/tags through <robsddir>/.running; the orchestrator makes the
      report before lock_release, so "every step file the orchestrator can produce" comes with its lock file.
    - robsd-ports: a passing dpb row without tmp/packages.diff - robsd-ports-dpb.sh creates it with its last command.
    - robsd-regress: a listed row without log name - step_exec_job records the name with every record it writes.
    A log that DOES NOT EXIST is inside (the in-flight record precedes tee's open)."""
    if 'U' in list(case['logs'].values()) + list(case['tmp'].values()) or case.get('comment') == 'U':
        return 'a file is a directory (not a log content)'
    if not case.get('running', True):
        return 'no lock file (report outside a running invocation)'
    if case['mode'] == 'robsd-ports' and case['tmp'].get('packages.diff') is None and \
            any(r['name'] == 'dpb' and r['exit'] == 0 and nonskipped(r) for r in case['rows']):
        return 'passing dpb row without packages.diff'
    if case['mode'] == 'robsd-regress':
        quiet = {s for s, q in case['regress'] if q}
        suites = {s for s, q in case['regress']}
        for r in case['rows']:
            if nonskipped(r) and not r['log'] and (r['exit'] != 0 or (r['name'] in suites and r['name'] not in quiet)):
                return 'regress row without log name'
    if pid == 'C18':
        return age_outside_reason(case)
    return None


def oracle_line(toks, rc, out, rep, sizes_parsable, shell):
    q = ['oracle'] + toks + [str(rc if rc >= 0 else 999), hexs(out)]
    if rep is None:
        q.append('0')
    else:
        q += ['1', hexs(rep['subject']), hexs(rep['status']), hexs(rep['duration'])]
        if sizes_parsable:
            q += [str(len(rep['sizes']))] + [hexs(l) for l in rep['sizes']]
        else:
            q.append('-')
        q.append(str(len(rep['sections'])))
        for s in rep['sections']:
            q += [hexs(s['name']), str(s['exit']), hexs(s['duration']), hexs(s['log']), hexs(s['body'])]
    q.append('!' if shell is None else hexs(shell.encode()))
    return ' '.join(q)


def classify(pid, check, case, rep, rc, guard=True, byname=None, err=b''):
    """stable signature of a failed check; the signatures of known or repaired defects are given only when the CASE
    has the specific shape of that defect"""
    name = check.split(':')[0]
    rows = case['rows']
    if name == 'body' and rep is not None:
        k = int(check.split(':')[1])
        sec = rep['sections'][k]
        logname = sec['log'].decode('latin1')
        c = case['logs'].get(logname)
        if d25_shape(case) and sec['name'] == b'cvs' and sec['exit'] != 0 and sec['body'] == b'\n':
            return SIG_D25, ('robsd-regress: the section of the failed cvs step holds neither the collected cvs logs (tmp/cvs-src-up.log, '
                             'cvs-src-ci.log) nor the tail of its log: report_cvs_log has no ROBSD_REGRESS rows')
        if c not in (None, 'U'):
            c = bytes.fromhex(c)
            raw = sec['body'][1:].replace(b'\\r', b'\r')
            nuls = [i for i, b in enumerate(c) if b == 0]
            cands = [raw] + ([raw[:-1]] if raw.endswith(b'\n') and not c.endswith(b'\n') else [])
            if nuls and b'\\x00' not in sec['body'] and any(c[:p].endswith(x) for p in nuls for x in cands):
                return SIG_D14, 'the excerpt of %s stops at a NUL byte: the lines after it (the last line included) are missing' % logname
        return 'body-mismatch', 'the text after the Log: line of section %r is not the specified excerpt' % sec['name'].decode('latin1')
    if name == 'sections':
        have = [s['name'].decode('latin1') for s in rep['sections']] if rep else []
        failing = [r['name'] for r in rows if r['skip'] != 1 and r['exit'] != 0]
        skipped = [r['name'] for r in rows if r['skip'] == 1 and r['name'] not in [x['name'] for x in rows if x['skip'] != 1]]
        if [f for f in failing if f not in have]:
            return 'failing-row-without-section', 'a non-skipped row with a non-zero exit has no section'
        if [s for s in skipped if s in have]:
            return 'skipped-row-has-section', 'a skipped row has a section'
        return 'sections-mismatch', 'the sections are not the listed rows in order with name, exit and log name'
    if name == 'status':
        failing = [r for r in rows if r['skip'] != 1 and r['exit'] != 0]
        if failing and rep and rep['status'] == b'ok':
            return 'failure-reported-as-ok', 'status says ok although a non-skipped row has a non-zero exit'
        if not failing and rep and rep['status'] != b'ok':
            return 'ok-reported-as-failure', 'status reports a failure although no non-skipped row failed'
        return 'status-mismatch', 'subject/status do not name the failing step or the number of failures'
    if name == 'exit':
        failed = [r['name'] for r in failing_rows(case)]
        if rc == 1 and d24_shape(case) and b'No such file or directory' in err:
            return SIG_D24, ('robsd-report exited 1 without printing a report because the log a listed row names does not exist (an invocation '
                             'killed between the in-flight record and tee\'s open leaves such a row)%s'
                             % ('; the failed step(s) %r go unreported' % failed if failed else ''))
        if rc == 1 and d18_shape(case):
            return SIG_D18, ('robsd-report exited 1 without printing a report because a cvs log below tmp was never written '
                             '(robsd-ports without cvs-root/cvs-user, or a first checkout)%s'
                             % ('; the failed step %r goes unreported' % failed[0] if failed else ''))
        if rc not in (0, 1):
            return 'report-abnormal-exit', 'robsd-report terminated with status %d' % rc
        return 'report-exit-mismatch', 'robsd-report exit %d where the specification says %d' % (rc, 1 - rc)
    if name == 'sane':
        return 'nul-or-cr-in-report', 'a NUL or CR byte reached the report'
    if name == 'sizes' and byname == '1' and not guard and different_length_suffixes(case):
        return SIG_AGE, ('the Size: lines compare with the greatest other NAME, which is not the invocation created last before this one '
                         '(names <date>.<n> are unpadded: .9 sorts after .10 and .11; or this invocation is not the newest)')
    return {'total': ('total-duration-mismatch', 'the Duration: line of the stats block is not the specified total/delta'),
            'stepdur': ('step-duration-mismatch', 'the Duration: line of a section is not the specified duration/delta'),
            'sizes': ('size-lines-mismatch', 'the Size: lines are not the specified ones'),
            'shell': ('shell-total-mismatch', 'duration_total under bash differs from the specified total')}[name]


def judge(pid, res, c, toks_answer, rc, out, err, rep, count_outside=True):
    """the verdict of the extracted oracles on one observation.  toks_answer = "<b5> <b18> <ageguard> <byname> <fields...>".
    The verdict is the BYTES oracle of the property (spec_ok_bytes / spec_ok_bytes_numbers: exit status and standard
    output against the rendering of the specified report); the field checks only name the clause.  C18's shell
    check is a verdict of its own (it is about duration_total's output, not about the report)."""
    impl_s = '%d %s' % (rc if rc >= 0 else 999, hexs(out))
    if toks_answer.startswith('EXN') or toks_answer == 'BAD':
        res.tie_errors.append('oracle driver: ' + toks_answer[:200])
        return
    parts = toks_answer.split(' ')
    b5, b18, guard, byname, fields = parts[0] == '1', parts[1] == '1', parts[2] == '1', parts[3], parts[4:]
    why = outside_reason(c, pid)
    if why is not None:
        if count_outside:
            res.count('outside: ' + why)
        return
    res.count('judged by the oracle')
    mine = C05_CHECKS if pid == 'C05' else C18_CHECKS
    verdict = b5 if pid == 'C05' else b18
    failed = [f for f in fields if f != 'ok' and f.split(':')[0] in mine]
    if pid == 'C18' and 'shell' in failed:
        sig, what = classify(pid, 'shell', c, rep, rc)
        res.oracle_failures.append({'case': c, 'signature': sig, 'what': what, 'check': 'shell', 'impl': impl_s[:600]})
        failed.remove('shell')
    if verdict:
        if failed:
            # the bytes are the specified ones but a field cut out by the harness's parser is not: the parser was misled
            # (e.g. a log line that looks like a section header); not a verdict
            res.count('field checks disagree with the bytes verdict (parser)')
        return
    if pid == 'C18' and byname == '1' and not guard and different_length_suffixes(c):
        # the output is, byte for byte, the report against the greatest other name; name order is not creation order in this case,
        # and the case has the input class of the known finding (two numbers of different length in one day)
        sig, what = classify(pid, 'sizes', c, rep, rc, guard=guard, byname=byname)
        res.oracle_failures.append({'case': c, 'signature': sig, 'what': what, 'check': 'sizes', 'impl': impl_s[:600]})
        return
    if not failed:
        sig = 'report-bytes-differ' if pid == 'C05' else 'report-numbers-differ'
        res.oracle_failures.append({'case': c, 'signature': sig, 'check': 'bytes', 'impl': impl_s[:600], 'stderr': err[-200:].decode('latin1'),
                                    'what': 'exit status / standard output of robsd-report are not the rendering of the specified report'})
        return
    for chk in failed:
        sig, what = classify(pid, chk, c, rep, rc, guard=guard, byname=byname, err=err)
        res.oracle_failures.append({'case': c, 'signature': sig, 'what': what, 'check': chk,
                                    'impl': impl_s[:600], 'stderr': err[-200:].decode('latin1')})


def evaluate(ctx, pid, cases, res, impl, drv, with_shell=0.0):
    """runs the cases; fills res (disagreements, oracle failures of the checks that belong to pid)"""
    work = ctx.mkscratch('rpwork')
    obs = materialise(ctx, impl, cases, work)
    shell = [None] * len(cases)
    if with_shell > 0:
        idx = [i for i in range(len(cases)) if cases[i].get('shell', True) and (with_shell >= 1 or (i * 2654435761 % 1000) / 1000.0 < with_shell)]
        outs = run_shell_totals(impl, [(cases[i]['mode'], os.path.join(obs[i][0], 'r', cases[i]['builddir'], 'step.csv')) for i in idx])
        for i, o in zip(idx, outs):
            shell[i] = o
    qs = []
    reps = []
    for c, (d, toks, (rc, out, err)), sh in zip(cases, obs, shell):
        rep = parse_report(out) if rc == 0 else None
        reps.append(rep)
        tags = c.get('tags')
        sizes_parsable = tags is None or bytes.fromhex(tags).endswith(b'\n')
        qs.append('report ' + ' '.join(toks))
        qs.append(oracle_line(toks, rc, out, rep, sizes_parsable, None if sh in (None, '!') else sh))
        if sh is not None:
            qs.append('shtotal ' + ' '.join(toks))
    ans = common.run_driver(drv, qs, timeout=3000)
    j = 0
    for c, (d, toks, (rc, out, err)), sh, rep in zip(cases, obs, shell, reps):
        model, verdict = ans[j], ans[j + 1]
        j += 2
        res.evaluations += 1
        impl_s = '%d %s' % (rc if rc >= 0 else 999, hexs(out))
        res.count('mode=%s' % c['mode'])
        res.count('exit=%d' % rc)
        if model != impl_s:
            res.disagreements.append({'case': c, 'what': 'robsd-report stdout/exit', 'model': model[:400], 'impl': impl_s[:400],
                                      'stderr': err[-200:].decode('latin1')})
        if sh is not None:
            msh = ans[j]
            j += 1
            res.count('shell_totals')
            if pid == 'C18' and msh != sh:
                res.disagreements.append({'case': c, 'what': 'duration_total under bash', 'model': msh, 'impl': sh})
        judge(pid, res, c, verdict, rc, out, err, rep)
        yield c, rc, out, rep, verdict
    shutil.rmtree(work, ignore_errors=True)


def load_corpus(pid):
    import glob
    d = os.path.join(common.VERIF, 'corpus', pid)
    if not os.path.isdir(d) or not glob.glob(os.path.join(d, '*.json')):
        raise common.BuildFailure('corpus directory %s is missing or empty: the replays of the repaired and known defects would not run' % d)
    cases = []
    for p in sorted(glob.glob(os.path.join(d, '*.json'))):
        if os.path.basename(p).startswith('e2e-'):
            continue       # scenarios of c05.py's end-to-end lane
        j = json.load(open(p))
        cases.append(j.get('case', j))
    return cases


def replay(ctx, pid, rep):
    case = rep.get('case') or (rep.get('first_disagreements') or [{}])[0].get('case')
    if case is None:
        print(json.dumps(rep, indent=1)[:3000])
        return 1
    res = common.Result()
    impl = ctx.build_impl()
    drv = build_rp_driver(ctx)
    for c, rc, out, r, verdict in evaluate(ctx, pid, [case], res, impl, drv, with_shell=1.0 if pid == 'C18' else 0.0):
        print('mode:', c['mode'])
        print('rows:', [(x['name'], x['exit'], x['duration'], x['delta'], x['log'], x['skip']) for x in c['rows']])
        print('implementation: exit %d' % rc)
        sys_out = out.decode('latin1')
        print(sys_out if len(sys_out) < 4000 else sys_out[:4000] + '...')
        print('oracle answer (bytes C05, bytes C18, name order = creation order, sizes as by name, failed field checks):', verdict)
        print('outside the property:', outside_reason(c, pid))
    print('model vs implementation:', 'agree' if not res.disagreements else res.disagreements)
    for f in res.oracle_failures:
        print('ORACLE FAILURE %s: %s' % (f['signature'], f['what']))
    bad = [f for f in res.oracle_failures if not common.match_known(pid, f['signature'])]
    return 1 if (res.disagreements or bad) else 0
