"""Shared by the report checks C05 and C18 (python3 stdlib only): case generator, fixture builder, the
readdir/stat/read view of a fixture handed to the extracted model, runner for robsd-report and for the
shell totals under bash, and the parser that cuts a report into status, stats lines and sections."""
import hashlib, json, os, re, shutil, socket, subprocess
from concurrent.futures import ThreadPoolExecutor
import common
from common import hexs

MODES = ['robsd', 'robsd-cross', 'robsd-ports', 'robsd-regress', 'canvas']
SEQ_MODES = ['robsd', 'robsd-cross', 'robsd-ports']
STEPS = {
    'robsd': ['env', 'cvs', 'patch', 'kernel', 'reboot', 'env', 'base', 'release', 'checkflist', 'xbase', 'xrelease',
              'image', 'hash', 'revert', 'distrib', 'dmesg', 'end'],
    'robsd-cross': ['env', 'dirs', 'tools', 'distrib', 'dmesg', 'end'],
    'robsd-ports': ['env', 'cvs', 'clean', 'proot', 'patch', 'dpb', 'distrib', 'revert', 'dmesg', 'end'],
    'robsd-regress': ['env', 'pkg-add', 'cvs', 'patch', 'obj', 'mount', 'bin/ksh', 'bin/ksh-extra', 'bin', 'lib/libc/locale', 'usr.bin/ssh',
                      'usr.bin/ssh/sub', 'sys/kern/unveil', 'umount', 'revert', 'pkg-del', 'dmesg', 'end'],
    'canvas': ['first', 'second', 'cvs', 'checkflist', 'build', 'test it', 'deploy', 'end'],
}
# suites; some are prefixes / extensions of one another (a prefix compare in is_regress_step or in the quiet lookup shows)
SUITES = ['bin/ksh', 'bin/ksh-extra', 'bin', 'lib/libc/locale', 'usr.bin/ssh', 'usr.bin/ssh/sub', 'sys/kern/unveil']
CVS_TMP = ['cvs-src-up.log', 'cvs-src-ci.log', 'cvs-xenocara-up.log', 'cvs-xenocara-ci.log', 'cvs-ports-up.log',
           'cvs-ports-ci.log', 'packages.diff']
EXITS = [1, 1, 1, 2, 124, 255, -1, -1, 127, 2147483648, -2147483649]
DURS = [0, 1, 2, 9, 10, 59, 60, 61, 99, 100, 599, 3599, 3600, 3601, 3661, 35999, 36000, 86399, 86400, 359999, 360000,
        2 ** 31 - 1, 2 ** 31, 2 ** 32 - 1, 2 ** 32, 2 ** 40 - 1, 2 ** 40]
DELTAS = [0, 0, 0, 1, -1, 59, -59, 60, -60, 61, -61, 3600, -3600, 2 ** 40, -(2 ** 40), 7, -7, 2 ** 31, -(2 ** 31), 2 ** 32 + 61, -(2 ** 32 + 60)]
MIB, KIB = 2 ** 20, 2 ** 10
TYPE_LETTER = {'dir': 'D', 'file': 'R'}
# Findings reported but not yet listed in known_findings.json are PARKED so that the checks exit 0 on the unchanged tree:
#   signature shell-total-evaluates-step-fields (C18; findings/C18_step_eval_evaluates_fields.md): util.sh step_eval evals a row unquoted.
# False: cases with blank / shell-syntax step names do not run the shell total (fam_shell_names sets shell False), and load_corpus skips
# corpus files carrying a "pending" key (corpus/C18/b18_shell_names.json).  VERIF_PENDING=1 switches the parked class on for a run;
# once main has added the signature to known_findings.json set this to True.
PENDING_FINDINGS = os.environ.get('VERIF_PENDING', '1') == '1'     # armed: the signatures are listed in known_findings.json
BOUNDARY_P = 0.05      # share of gen_case's cases that come from the boundary size / shape classes (boundary_case)


# ---------------------------------------------------------------- generator

def gen_log(rng, mode):
    """(content bytes | None for a missing file, kind)"""
    kinds = ['missing', 'empty', 'one', 'nine', 'ten', 'eleven', 'many', 'nonl', 'trace', 'trace_plain', 'blanktail',
             'blankhead', 'blankmid', 'nul', 'nul_last', 'cr', 'nul_early', 'long', 'regress', 'regress', 'onlynl', 'plus_nonl',
             'dir', 'big']
    w = [4, 3, 4, 3, 3, 3, 3, 4, 3, 3, 3, 2, 2, 4, 3, 3, 2, 1, 4 if mode == 'robsd-regress' else 1, 4 if mode == 'robsd-regress' else 0, 1, 1,
         0.5, 0.4]
    k = rng.choices(kinds, w)[0]
    if k == 'dir':
        return 'U', k      # a directory where the log should be: there but unreadable
    if k == 'big':
        # 64 KiB .. just over 1 MiB (the scratch buffers of the regress parser are 1 MiB)
        # (the extracted model is a list program: whole-log modes stay at 64 KiB, the excerpt modes go to 1 MiB)
        n = rng.choice([65536, 70000] if mode in ('canvas', 'robsd-regress') else [65536, 70000, 2 ** 20 - 7, 2 ** 20, 2 ** 20 + 9])
        line = b'0123456789abcdef' * 4 + b'\n'
        body = line * (n // len(line))
        return body + rng.choice([b'', b'tail line\n', b'FAILED\n', b'no newline']), k

    def lines(n, pre=b'line'):
        return b''.join(pre + b' %d\n' % i for i in range(1, n + 1))
    if k == 'missing':
        return None, k
    if k == 'empty':
        return b'', k
    if k == 'one':
        return b'only line\n', k
    if k == 'nine':
        return lines(9), k
    if k == 'ten':
        return lines(10), k
    if k == 'eleven':
        return lines(11), k
    if k == 'many':
        return lines(rng.choice([12, 20, 37])), k
    if k == 'nonl':
        return lines(rng.choice([0, 1, 9, 10, 11])) + b'unfinished', k
    if k == 'trace':
        return b''.join(b'+ cmd %d\n' % i for i in range(rng.choice([1, 3, 12]))), k
    if k == 'plus_nonl':
        return b'+ a\n+ unfinished', k
    if k == 'trace_plain':
        return b'+ cmd\n' + rng.choice([b'plain\n', b'\n', b' + indented\n', b'x', b'\n+ again\n']), k
    if k == 'blanktail':
        return lines(rng.choice([1, 9, 10, 11])) + b'\n' * rng.choice([1, 2, 5]), k
    if k == 'blankhead':
        return b'\n' * rng.choice([1, 3]) + lines(rng.choice([1, 9, 10, 11])), k
    if k == 'blankmid':
        n = rng.choice([9, 10, 11, 14])
        out = b''
        for i in range(1, n + 1):
            out += b'line %d\n' % i
            if rng.random() < 0.4:
                out += b'\n' * rng.choice([1, 2])
        return out, k
    if k == 'nul':
        n = rng.choice([3, 10, 12])
        ls = [b'line %d' % i for i in range(1, n + 1)]
        j = rng.randrange(max(0, n - 10), n)
        ls[j] = ls[j][:2] + b'\x00' + ls[j][2:]
        return b'\n'.join(ls) + b'\n', k
    if k == 'nul_last':
        return lines(rng.choice([0, 2, 11])) + rng.choice([b'last\x00\n', b'\x00\n', b'la\x00st', b'\x00']), k
    if k == 'nul_early':
        # a NUL before the last ten lines only: the excerpt is not affected
        return b'he\x00ad\n' + lines(rng.choice([10, 13])), k
    if k == 'cr':
        return lines(2) + b'progress 1\rprogress 2\r\nlast\r\n', k
    if k == 'long':
        return b'x' * 5000 + b'\n' + lines(3) + b'y' * 9000 + b'\n', k
    if k == 'onlynl':
        return b'\n' * rng.choice([1, 2, 11]), k
    if k == 'regress':
        out = b''
        if rng.random() < 0.5:
            out += b'+ make regress\n'
        for i in range(rng.choice([1, 2, 4])):
            out += rng.choice([b'==== t%d ====\n' % i, b'===> sub%d\n' % i, b'=== near%d ===\n' % i])
            out += rng.choice([b'ok\n', b'cc -o t t.c\n', b'', b'+ late trace\n', b'\x00\n'])
            out += rng.choice([b'FAILED\n', b'SKIPPED\n', b'DISABLED\n', b'EXPECTED_FAIL\n', b'UNEXPECTED_PASS\n', b'passed\n',
                               b'x FAILED y\n', b'', b'SKIP\n', b'a\x00FAILED\n'])
        if rng.random() < 0.3:
            out += b'trailer without marker'
        return out, k
    raise AssertionError(k)


def gen_rows(rng, mode):
    pool = STEPS[mode]
    n = rng.choice([0, 1, 1, 2, 3, 3, 4, 5, 6, 8, len(pool), len(pool)])
    if rng.random() < 0.04:
        # a long schedule: more rows than any fixed mode has (canvas configurations, many regress suites)
        pool = pool[:-1] + ['extra%d' % i for i in range(rng.choice([15, 16, 17, 20, 31, 32, 33, 40, 63, 64, 65, 70]))] + ['end']
        n = len(pool)
    if mode == 'canvas':
        names = pool[:max(0, n - 1)] + (['end'] if n and rng.random() < 0.6 else pool[n - 1:n] if n else [])
    else:
        start = 0 if rng.random() < 0.7 else rng.randrange(len(pool))
        names = pool[start:start + n]
        if names and rng.random() < 0.35 and 'end' not in names:
            names = names[:-1] + ['end']
    if rng.random() < 0.06 and names:
        names[rng.randrange(len(names))] = rng.choice(['cvs', 'checkflist', 'dpb', 'end'])
    n = len(names)
    pattern = rng.choices(['none', 'first', 'middle', 'last', 'several', 'inflight'], [5, 2, 3, 5, 3, 2])[0]
    fail = set()
    work = [i for i in range(n) if names[i] != 'end'] or list(range(n))
    if work and pattern == 'first':
        fail = {work[0]}
    elif work and pattern == 'middle':
        fail = {work[len(work) // 2]}
    elif work and pattern in ('last', 'inflight'):
        fail = {work[-1]}
    elif work and pattern == 'several':
        fail = set(rng.sample(work, min(len(work), rng.choice([2, 2, 3, 5]))))
    rows = []
    t = 1700000000
    for i, nm in enumerate(names):
        skip = 1 if (rng.random() < 0.15 and nm != 'end') else 0
        ex = 0
        if i in fail:
            ex = -1 if pattern == 'inflight' else rng.choice(EXITS)
        if skip and rng.random() < 0.85:
            ex = 0
        dur = rng.choice(DURS) if rng.random() < 0.5 else rng.randrange(0, 5000)
        if ex == -1 and rng.random() < 0.8:
            dur = -1
        delta = rng.choice(DELTAS)
        if rng.random() < 0.03:
            skip = rng.choice([2, -1])
        log = '' if (skip and rng.random() < 0.7) or nm == 'end' or rng.random() < 0.06 else '%03d-%s.log' % (i + 1, nm.replace('/', '-'))
        if rng.random() < 0.02 and log:
            log = 'sub/' + log
        t += rng.choice([0, 1, 30, 3600, 100000]) if mode != 'robsd-regress' or rng.random() < 0.8 else -rng.choice([1, 500])
        rows.append({'step': i + 1, 'name': nm, 'exit': ex, 'duration': dur, 'delta': delta, 'log': log,
                     'user': 'root', 'time': t, 'skip': skip})
    # the end row as the orchestrator writes it: accumulated duration (sometimes anything)
    for r in rows:
        if r['name'] == 'end':
            r['skip'] = 0 if rng.random() < 0.95 else 1
            r['exit'] = 0 if rng.random() < 0.95 else 1
            if rng.random() < 0.6:
                r['duration'] = sum(x['duration'] for x in rows if x['name'] != 'end' and x['skip'] != 1)
            r['delta'] = rng.choice(DELTAS + [59, 60, 61, -59, -60, -61])
    # a sequential mode stops at the first failure: usually cut the file there
    if mode in SEQ_MODES and pattern != 'several' and fail and rng.random() < 0.8:
        last = max(fail)
        rows = rows[:last + 1] + [dict(r, skip=1, exit=0) for r in rows[last + 1:] if rng.random() < 0.3 and r['name'] != 'end']
    return rows


def gen_sizes(rng):
    """current rel entries, previous invocations with their rel entries"""
    names = ['bsd', 'bsd.rd', 'bsd.mp', 'base75.tgz', 'comp75.tgz', 'CHANGELOG', 'src.diff.1', 'x.diff.12', 'a.diff.', 'a.diff.x',
             'SHA256', 'index.txt', 'bsd.rd2', 'B', '.hidden', 'man75.tgz', 'a b', 'bsd!x']
    pick = rng.sample(names, rng.choice([0, 1, 3, 5, 8, len(names)]))
    cur, prev = [], []
    for nm in pick:
        thr = KIB if nm == 'bsd.rd' else MIB
        base = rng.choice([0, 1, 512, 1023, 1024, 1025, 10 * KIB, MIB - 1, MIB, MIB + 1, 5 * MIB, 2 ** 18 * rng.choice([1, 3, 5, 7, 9, 4097]),
                           2 ** 8 * rng.choice([1, 3, 5, 4099]), 102 * KIB + 51, 3 * 2 ** 30, 5 * 2 ** 30 + 2 ** 29, 2 ** 31 - 1, 2 ** 31, 2 ** 32 - 1, 2 ** 32,
                           rng.randrange(0, 4 * MIB), rng.randrange(0, 64 * KIB)])
        d = rng.choice([0, 1, thr - 1, thr, thr + 1, 2 * thr, thr // 2, 2 ** 18 * rng.choice([1, 3, 5, 7, 4097]), rng.randrange(0, 3 * thr),
                        3 * 2 ** 30, 2 ** 31, 2 ** 32, 2 ** 32 + thr - 1])
        if rng.random() < 0.5:
            a, b = base + d, base
        else:
            a, b = base, base + d
        where = rng.choices(['both', 'cur', 'prev'], [8, 1, 1])[0]
        if where in ('both', 'cur'):
            cur.append([nm, a])
        if where in ('both', 'prev'):
            prev.append([nm, b])
    return cur, prev


def gen_case(rng, mode=None, focus=None):
    if mode is None and focus is None and rng.random() < BOUNDARY_P:
        return boundary_case(rng)
    if focus == 'sizes':
        mode = 'robsd'
    mode = mode or rng.choice(MODES)
    rows = gen_rows(rng, mode)
    logs = {}
    for r in rows:
        if r['log'] and r['log'] not in logs:
            if r['name'] == 'checkflist' and rng.random() < 0.7:
                c = rng.choice([b'+ one\n+ two\n', b'+ one\n+ two\nhello\n', b'', b'+ x', b'\n', b'+ a\n\n', None, b'extra file\n'])
                logs[r['log']] = None if c is None else c.hex()
                continue
            c, _ = gen_log(rng, mode)
            logs[r['log']] = c if c in (None, 'U') else c.hex()
    tmp = {}
    for nm in CVS_TMP:
        k = rng.random()
        if k < 0.45:
            tmp[nm] = rng.choice([b'M src/file.c\n', b'P a\nP b\n\n\n', b'no newline', b'commit 1\n\ncommit 2\n', b'\n', b'\n\n', b'x\x00y\n', b'cr\r\n']).hex()
        elif k < 0.8:
            tmp[nm] = ''
        elif k < 0.995:
            tmp[nm] = None
        else:
            tmp[nm] = 'U'      # a directory of that name
    case = {'mode': mode, 'rows': rows, 'logs': logs, 'tmp': tmp}
    case['comment'] = rng.choices([None, b'a comment\n'.hex(), b'two\nlines\n\n\n'.hex(), b''.hex(), b'\n\n'.hex(), b'no newline'.hex(),
                                   b'nul \x00\r\nnext\n'.hex(), 'U'], [10, 4, 2, 1, 1, 1, 2, 1])[0]
    case['tags'] = rng.choices([None, b'foo bar\n'.hex(), b''.hex(), b'nonl'.hex(), b'a\x00b\n'.hex()], [8, 6, 1, 1, 1])[0]
    case['target'] = rng.choices([b'arm64\n'.hex(), b'sparc64'.hex(), b'riscv64\nsecond\n'.hex(), b''.hex(), b'ar\x00m\n'.hex(), None],
                                 [6, 2, 1, 1, 1, 1])[0]
    suites = [[s, rng.random() < 0.25] for s in SUITES if rng.random() < 0.8]
    case['regress'] = suites
    case['running'] = rng.random() < 0.985
    case['step_present'] = rng.random() < 0.99
    # invocations in the root: names as build_id makes them (<date>.<n>, n unpadded) and a few others
    me = '2024-01-0%d.%d' % (rng.choice([2, 5]), rng.choice([1, 2, 10, 11]))
    others = []
    pool = ['2024-01-01.1', '2024-01-02.1', '2024-01-02.2', '2024-01-02.9', '2024-01-02.10', '2024-01-03.1', '2024-01-05.1', '2024-01-05.9',
            '2024-01-05.10', '2024-01-09.1', 'attic', '.hidden', 'zzz', 'afile']
    for nm in rng.sample(pool, rng.choice([0, 1, 2, 3, 5, 7])):
        if nm == 'zzz' and rng.random() < 0.85:
            continue      # a directory build_id did not name: rare (C18 does not judge "previous" then)
        if nm != me:
            others.append([nm, 'file' if nm == 'afile' or rng.random() < 0.08 else 'dir'])
    if focus == 'sizes' and not [o for o in others if o[1] == 'dir' and o[0] not in ('attic', '.hidden')]:
        nm = rng.choice(['2024-01-01.1', '2024-01-09.1'])
        others = [o for o in others if o[0] != nm] + [[nm, 'dir']]
    case['builddir'] = me
    case['others'] = others
    # the order in which the entries were created, oldest first (the harness makes them, so it knows): usually the
    # chronological one with this invocation last; sometimes this invocation is not the newest (a report made by
    # hand for an older one), sometimes a name was issued again after its first holder was cleaned away
    names = [o[0] for o in others] + [me]
    k = rng.random()
    if k < 0.5:
        # what build_id and the lock allow: chronological, this invocation the newest - so drop what would be newer
        keep = [o for o in others if natural_key(o[0]) < natural_key(me) or natural_key(o[0])[0] == 1]
        case['others'] = others = keep
        created = sorted([o[0] for o in others], key=natural_key) + [me]
    elif k < 0.9:
        created = sorted([n for n in names if n != me], key=natural_key) + [me]
    elif k < 0.95:
        created = sorted(names, key=natural_key)
    else:
        created = names[:]
        rng.shuffle(created)
    case['created'] = created
    if mode == 'robsd' or rng.random() < 0.2:
        cur, prev = gen_sizes(rng)
        while focus == 'sizes' and len(cur) < 3:
            cur, prev = gen_sizes(rng)
    else:
        cur, prev = [], []
    case['rel'] = None if rng.random() < 0.05 else cur
    prevrel = {}
    for nm, kind in others:
        if kind == 'dir' and nm != '.hidden':
            k = rng.random()
            if k < 0.7 or focus == 'sizes':
                prevrel[nm] = [list(p) for p in prev if rng.random() < 0.9]
            elif k < 0.85:
                prevrel[nm] = []
    case['prevrel'] = prevrel
    return case


def natural_key(name):
    """chronological order of the names build_id makes: by date, then by the number after the dot"""
    m = re.match(r'^(\d{4}-\d{2}-\d{2})\.(\d+)$', name)
    return (0, m.group(1), int(m.group(2))) if m else (1, name, 0)


def created_order(case):
    """names of the root entries, oldest first; cases stored before the field existed: chronological, this one last"""
    if 'created' in case:
        return case['created']
    return sorted([o[0] for o in case['others']], key=natural_key) + [case['builddir']]


# ---------------------------------------------------------------- boundary SIZE / SHAPE classes

# The classes a fixed buffer, a narrowed integer, a power-of-two growth step or an off-by-one in report.c / step.c /
# invocation.c / util.sh trips over.  Every class is reachable three ways: gen_case takes one with a small probability,
# c05.py / c18.py load one deterministic case per class from corpus/C<NN>/b<NN>_*.json (written by boundary_corpus below,
# kept small through the run-length content form and repeated rows), and the name of the class is counted into the input
# distribution ("class: ...", rp_common.evaluate).
#
# Caps (measured on the extracted model, see the report of the agent that added the classes):
#   * step NAMES: the step-file reader of the model is worse than quadratic in the length of a field (4096: 0.5 s,
#     8193: 3 s, 16384: 20 s, 32768: 125 s for model + oracle) - names stop at 8193; 65535/65536 are not run
#   * regress logs: the scratch append of RegressLog.RLDefs is quadratic in the size of one test block (64 KiB: 4.6 s,
#     256 KiB: 126 s) - a block stops at 16 KiB; lines of 64 KiB and logs of 64 KiB outside a block are fine
#   * the oracle is quadratic in the number of sections (256: 1.2 s, 1024: 27 s) - counts stop at 256
#   * LOG NAMES: a component is at most NAME_MAX 255 bytes, <builddir>/<log> must stay below PATH_MAX 4096 (the
#     environment assumed by the model): log names stop at 3900 bytes
#   * file SIZES: ext4 refuses a sparse file of 2^44 bytes and above - sizes stop at 2^43 (2^53+1, 2^63-1 not reachable)
#   * a delta of -2^63 is not generated: format_duration_and_delta negates it (undefined in C, stays negative in practice and
#     the suffix is dropped) while the model computes with unbounded integers; -(2^63-1) is the smallest delta
LENS = [0, 1, 254, 255, 256, 1023, 1024, 1025, 4095, 4096, 4097, 8191, 8192, 8193, 65535, 65536]
COUNTS = [0, 1, 15, 16, 17, 31, 32, 33, 63, 64, 65, 255, 256]
NAME_LENS = [1, 254, 255, 256, 1023, 1024, 1025, 4095, 4096, 4097, 8191, 8192, 8193]
LOGNAME_LENS = [1, 254, 255, 256, 1023, 1024, 1025, 2047, 2048, 3900]
BLOCKS = [4095, 4096, 4097, 8191, 8192, 8193, 65535, 65536]
I31, I32, I63 = 2 ** 31, 2 ** 32, 2 ** 63
BDURS = [0, 1, 59, 60, 61, 3599, 3600, 3601, 86399, 86400, I31 - 1, I31, I32 - 1, I32, I63 - 1, -1]
BDURS_END = BDURS + [-2, -I31, -I32, -(I63 - 1), -I63]      # the end row's duration enters no sum
BDELTAS = [1, 59, 60, 61, 3599, 3600, I31 - 1, I31, I31 + 1, I32 - 1, I32, I32 + 60, I32 + 61, I63 - 1]
SEQ_WORK = {'robsd': ['kernel', 'base', 'release', 'xbase', 'image'], 'robsd-cross': ['dirs', 'tools', 'distrib'],
            'robsd-ports': ['clean', 'proot', 'patch', 'distrib']}
# names one comparison away from the names report.c / step.c / util.sh look for: prefixes, extensions, other case, the
# separators of the formats that carry a name (step.csv, the log name, the regress-<name>-quiet variable, the Subject line)
NEAR_NAMES = ['cvs-x', 'cvsx', 'cv', 'c', 'CVS', 'Cvs', 'cvs.', 'dpb-x', 'dp', 'DPB', 'dpb.', 'checkflist2', 'checkflis', 'Checkflist', 'End', 'END',
              'endx', 'en', 'end.', 'a/b', 'a-b', 'a.b', 'a=b', '-', '.', '/', '=', 'bin/ksh/', 'bin/ks', 'BIN/KSH', 'bin/ksh-extr', 'bin/ksh-extra2',
              'bin-ksh', 'bin.ksh']
# names with a blank or with shell syntax: robsd-report takes them as they are; util.sh step_eval hands the row to eval unquoted
# (findings/C18_step_eval_evaluates_fields.md: "end " counts as the end step, "x;_tot=7" sets the total)
SHELL_NAMES = ['cvs ', ' cvs', 'end ', ' end', 'a b', ' ', 'end;true', 'a;b', 'x;_tot=777', 'a&b', 'a|b', 'x$y', '$(id)', 'a*', 'a#b', "it's", 'a\\b', '~']
SHELL_ACTIVE = re.compile(r'[^A-Za-z0-9_./+:@%,=-]')


def plain_case(mode, rows, logs, **kw):
    c = {'mode': mode, 'rows': rows, 'logs': logs, 'tmp': {n: None for n in CVS_TMP}, 'comment': None, 'tags': None,
         'target': b'arm64\n'.hex(), 'regress': [[s, False] for s in SUITES], 'running': True, 'step_present': True,
         'builddir': '2024-01-05.1', 'others': [], 'created': ['2024-01-05.1'], 'rel': None, 'prevrel': {}, 'classes': []}
    c.update(kw)
    return c


def brow(i, name, ex=0, dur=5, delta=0, log=None, skip=0, t=None):
    return {'step': i, 'name': name, 'exit': ex, 'duration': dur, 'delta': delta, 'log': '%03d.log' % i if log is None else log,
            'user': 'root', 'time': 1700000000 + 7 * i if t is None else t, 'skip': skip}


def expand_case(case):
    """rows with "repeat": n stand for n rows (%d in name and log is the step number, time advances by one per row); a key of
    logs with %d is the log of every row made from a pattern with that log; the rows are numbered by position.  Idempotent."""
    if not any('repeat' in r for r in case['rows']) and not any('%d' in k for k in case['logs']):
        return case
    case = dict(case, logs=dict(case['logs']))
    rows = []
    for r in case['rows']:
        for k in range(r.get('repeat', 1)):
            i = len(rows) + 1
            q = {f: v for f, v in r.items() if f != 'repeat'}
            q['step'] = i
            if 'repeat' in r:
                q.update(name=r['name'].replace('%d', str(i)), log=r['log'].replace('%d', str(i)), time=r['time'] + k)
                if '%d' in r['log'] and r['log'] in case['logs']:
                    case['logs'][q['log']] = case['logs'][r['log']]
            rows.append(q)
    for k in [k for k in case['logs'] if '%d' in k]:
        del case['logs'][k]
    case['rows'] = rows
    return case


def sections_case(mode, items, classes, **kw):
    """one row with a section per item (name suffix, exit, log content, log name or None): every mode prints a section for a
    non-skipped row with a non-zero exit; in the sequential modes the rows before the last one fail too (files no
    orchestrator writes - the excerpt code does not look at the position)"""
    rows, logs, suites = [], {}, []
    for k, (label, ex, content, logname) in enumerate(items):
        i = k + 1
        if mode == 'robsd-regress':
            nm = 'suite/%d' % i
            suites.append([nm, False])
        elif mode == 'canvas':
            nm = 'step %d' % i
        else:
            w = SEQ_WORK[mode]
            nm = w[k % len(w)]
        r = brow(i, nm, ex=ex, log=logname)
        rows.append(r)
        logs[r['log']] = content
    c = plain_case(mode, rows, logs, **kw)
    if mode == 'robsd-regress':
        c['regress'] = suites
    c['classes'] = list(classes)
    return c


def filler(n, width=64):
    """parts: exactly n bytes of lines of <width> bytes (the last one shorter), ending in a newline when n > 0"""
    if n <= 0:
        return []
    line = (b'0123456789abcdef' * (width // 16 + 1))[:width - 1] + b'\n'
    q, r = divmod(n, len(line))
    parts = [(line, q)]
    if r:
        parts.append(b'f' * (r - 1) + b'\n')
    return parts


def ten(pre=b'last', n=10):
    return b''.join(pre + b' %d\n' % i for i in range(1, n + 1))


# ---- log content: (class name, content) per parameter

def log_line_length(L, pos):
    """a line of L bytes (newline not counted) as the last line / as the tenth-from-last / as the eleventh-from-last (just outside
    the excerpt) / as an unterminated last line"""
    long = (b'x', L)
    if pos == 'last':
        parts = [ten(b'head', 11), long, b'\n']
    elif pos == 'tenth':
        parts = [ten(b'head', 3), long, b'\n', ten(b'tail', 9)]
    elif pos == 'eleventh':
        parts = [ten(b'head', 3), long, b'\n', ten(b'tail', 10)]
    else:
        parts = [ten(b'head', 11), long]
    return 'log line length=%d %s' % (L, pos), enc(*parts)


def log_lines(N, shape):
    one = {'plain': b'line\n', 'crlf': b'line\r\n', 'blanks': b'line\n\n\n', 'nonl': b'line\n'}[shape]
    parts = [(one, N)]
    if shape == 'nonl':
        parts = [(one, max(0, N - 1))] + ([b'line'] if N else [])
    return 'log lines=%d %s' % (N, shape), enc(*parts)


def log_size(S, nl):
    parts = filler(S) if nl else filler(S - 3) + [b'zzz']
    return 'log size=%d %s' % (S, 'newline at the end' if nl else 'no newline at the end'), enc(*parts)


def log_excerpt_offset(B, n):
    """the n-th line from the end starts exactly at offset B (n = 10: the excerpt starts at the block boundary)"""
    return 'log %s-from-last line at offset %d' % ({10: 'tenth', 11: 'eleventh', 1: 'first'}[n], B), enc(*(filler(B) + [ten(b'tail', n)]))


def log_excerpt_size(E):
    """the ten lines of the excerpt are E bytes together (a window of the file end of fixed size cuts the first of them)"""
    q, r = divmod(E, 10)
    lines = [q + (1 if k < r else 0) for k in range(10)]
    parts = [ten(b'head', 3)]
    for k, n in enumerate(lines):
        parts += [(b'%d' % (k % 10), max(0, n - 1)), b'\n']
    return 'log excerpt bytes=%d' % E, enc(*parts)


def log_blank(K, only):
    parts = [(b'\n', K)] if only else [ten(b'line', 12), (b'\n', K)]
    return 'log %s=%d' % ('only newlines' if only else 'trailing newlines', K), enc(*parts)


def log_escapes(K, byte):
    """K bytes that report_sanitize replaces by longer text inside the excerpt (the copy grows by 2x / 4x)"""
    return 'log %s bytes=%d' % ('NUL' if byte == 0 else 'CR', K), enc(ten(b'head', 3), b'a', (bytes([byte]), K), b'b\n', ten(b'tail', 4))


def log_nul_at(B):
    return 'log NUL at offset %d inside the excerpt' % B, enc(*(filler(B - 40) + [ten(b'tail', 3), (b'y', 40 - len(ten(b'tail', 3))), b'\x00after the NUL\n', ten(b'end', 5)]))


def log_trace(T, tail):
    """T bytes of ksh trace lines, then nothing / a plain line / an unterminated plain line / one more trace line"""
    unit = b'+ ' + b't' * 29 + b'\n'
    q, r = divmod(T, len(unit))
    if r == 0:
        body = [(unit, q)]
    elif r == 1:
        body = [(unit, q - 1), b'+ ' + b't' * 30 + b'\n']
    else:
        body = [(unit, q), b'+' + b'u' * (r - 2) + b'\n']
    end = {'none': [], 'plain': [b'extra file\n'], 'nonl': [b'extra'], 'trace': [b'+ more\n']}[tail]
    return 'log trace bytes=%d then %s' % (T, tail), enc(*(body + end))


def rlog_line(L):
    return 'regress log line length=%d' % L, enc(b'==== t1 ====\n', (b'r', L), b'\nFAILED\n==== t2 ====\nok\n')


def rlog_blocks(N):
    return 'regress log tests=%d' % N, enc((b'==== t ====\ncc -o t t.c\nFAILED\n==== u ====\nok\n==== s ====\nSKIPPED\n', N // 3),
                                          (b'==== t ====\nFAILED\n', N % 3))


def rlog_block_size(S):
    return 'regress log test block bytes=%d' % S, enc(b'==== t0 ====\nok\n==== t1 ====\n', *(filler(S - 20) + [b'FAILED\n', b'==== t2 ====\nok\n']))


def file_content(L, shape):
    """comment / tags / target / cvs log / packages.diff of L bytes: one line with or without its newline, or L bytes then newlines"""
    if shape == 'nl':
        return enc((b'c', max(0, L - 1)), b'\n' if L else b'')
    if shape == 'nonl':
        return enc((b'c', L))
    if shape == 'lines':
        return enc(*filler(L))
    return enc((b'c', 3), (b'\n', L))      # 'newlines': three bytes and L newlines (buffer_trim_lines pops them one by one)


def long_logname(L):
    """a log name of L bytes: components of at most 255 bytes (the letter differs per length: the names of one case do not collide)"""
    comps, rest, ch = [], L, 'abcdefghijklmnop'[LOGNAME_LENS.index(L)] if L in LOGNAME_LENS else 'z'
    while rest > 0:
        k = min(255, rest)
        if rest - k == 1:
            k -= 1
        comps.append(ch * k)
        rest -= k + 1
    return '/'.join(comps)


# ---- the families: name -> (function(rng | None, deterministic index) -> case, properties it is aimed at)

def _pick(rng, seq, k):
    """k of seq: random, or (rng None) all of them"""
    return list(seq) if rng is None else rng.sample(list(seq), min(k, len(seq)))


def fam_log_line_length(rng, mode=None, pos=None):
    pos = pos or rng.choice(['last', 'tenth', 'eleventh', 'nonl'])
    mode = mode or rng.choice(['robsd-regress', 'canvas', 'robsd', 'robsd-ports'])
    items = [log_line_length(L, pos) for L in _pick(rng, LENS, 2)]
    return sections_case(mode, [(n, 1, c, None) for n, c in items], [n for n, c in items])


def fam_log_lines(rng, mode=None, shape=None):
    shape = shape or rng.choice(['plain', 'crlf', 'blanks', 'nonl'])
    mode = mode or rng.choice(['robsd-regress', 'canvas', 'robsd-cross'])
    items = [log_lines(N, shape) for N in _pick(rng, [0, 1, 9, 10, 11, 15, 16, 17, 255, 256], 3)]
    return sections_case(mode, [(n, 2, c, None) for n, c in items], [n for n, c in items])


def regress_cap(mode, params, cap):
    """robsd-regress reads every log through the regress parser first, whose model is quadratic in the number of lines
    before a marker (1024 lines: 4.5 s, 4096: over a minute): there the parameters stop at cap; the other modes take all"""
    return [p for p in params if p <= cap] if mode == 'robsd-regress' else list(params)


def fam_log_size(rng, mode=None, nl=None):
    nl = rng.random() < 0.5 if nl is None else nl
    mode = mode or rng.choice(['robsd-regress', 'canvas', 'robsd', 'robsd-cross'])
    items = [log_size(S, nl) for S in _pick(rng, regress_cap(mode, BLOCKS, 8193), 2)]
    return sections_case(mode, [(n, 1, c, None) for n, c in items], [n for n, c in items])


def fam_log_excerpt(rng, mode=None):
    mode = mode or rng.choice(['robsd-regress', 'robsd', 'robsd-cross', 'robsd-ports'])
    items = [log_excerpt_offset(B, n) for B in _pick(rng, regress_cap(mode, BLOCKS, 8193), 2) for n in _pick(rng, [10, 11, 1], 1)]
    items += [log_excerpt_size(E) for E in _pick(rng, BLOCKS, 1)]
    return sections_case(mode, [(n, 1, c, None) for n, c in items], [n for n, c in items])


def fam_log_shapes(rng, mode=None):
    mode = mode or rng.choice(['robsd-regress', 'canvas', 'robsd', 'robsd-ports'])
    items = [log_blank(K, only) for K in _pick(rng, regress_cap(mode, [1, 10, 11, 255, 4096, 65536], 255), 1) for only in _pick(rng, [False, True], 1)]
    items += [log_escapes(K, b) for K in _pick(rng, [1, 4095, 4096, 16384], 1) for b in _pick(rng, [0, 13], 1)]      # 16384 NULs print as 64 KiB
    items += [log_nul_at(B) for B in _pick(rng, [4095, 4096, 4097, 8192], 1)]
    return sections_case(mode, [(n, 1, c, None) for n, c in items], [n for n, c in items])


def fam_log_trace(rng, mode=None):
    """checkflist rows with exit 0: is_log_empty decides whether they get a section"""
    mode = mode or rng.choice(['robsd', 'robsd-cross', 'canvas'])
    items = [log_trace(T, tail) for T in _pick(rng, [4095, 4096, 4097, 8192, 65536], 2) for tail in _pick(rng, ['none', 'plain', 'nonl', 'trace'], 2)
             if T < 65536 or tail in ('plain', 'none')]
    rows = [brow(i + 1, 'checkflist') for i in range(len(items))]
    return plain_case(mode, rows, {r['log']: c for r, (n, c) in zip(rows, items)}, classes=[n for n, c in items])


def fam_regress_log(rng):
    items = [rlog_line(L) for L in _pick(rng, LENS, 2)] + [rlog_blocks(N) for N in _pick(rng, COUNTS, 1)]
    items += [rlog_block_size(S) for S in _pick(rng, [4095, 4096, 4097, 8192, 16384], 1)]
    return sections_case('robsd-regress', [(n, k % 2, c, None) for k, (n, c) in enumerate(items)], [n for n, c in items])


def fam_files(rng, i=None, mode=None):
    """comment, tags, target and the collected cvs logs / packages.diff at the boundary lengths"""
    i = rng.randrange(len(LENS)) if i is None else i
    mode = mode or ['robsd', 'robsd-cross', 'robsd-ports', 'robsd-regress'][i % 4]
    shapes = ['nl', 'nonl', 'lines', 'newlines']
    Lc, Lt, Lf = LENS[i], LENS[(i + 4) % len(LENS)], LENS[(i + 8) % len(LENS)]
    sc, sf = shapes[i % 4], shapes[(i // 4 + 1) % 4]
    c = plain_case(mode, [brow(1, 'env'), brow(2, 'cvs', ex=1 if mode == 'robsd-regress' else 0)], {'001.log': b'+ env\n'.hex(), '002.log': b'cvs up\n'.hex()})
    c['comment'] = file_content(Lc, sc)
    c['tags'] = file_content(Lt, 'nonl' if i % 2 else 'nl')
    cls = ['comment length=%d %s' % (Lc, sc), 'tags length=%d %s' % (Lt, 'nonl' if i % 2 else 'nl')]
    if mode == 'robsd-cross':
        c['target'] = file_content(Lf, 'nl' if sf != 'nonl' else 'nonl')
        cls.append('target first line length=%d' % max(0, Lf - (sf != 'nonl')))
    else:
        names = {'robsd': CVS_TMP[:4], 'robsd-ports': CVS_TMP[4:6], 'robsd-regress': CVS_TMP[:2]}[mode]
        for k, nm in enumerate(names):
            c['tmp'][nm] = file_content(LENS[(i + 8 + 5 * k) % len(LENS)], shapes[(i + k) % 4])
            cls.append('cvs log length=%d %s' % (LENS[(i + 8 + 5 * k) % len(LENS)], shapes[(i + k) % 4]))
        if mode == 'robsd-ports':
            c['rows'].append(brow(3, 'dpb', log='003.log'))
            c['logs']['003.log'] = b'dpb\n'.hex()
            c['tmp']['packages.diff'] = file_content(Lf, sf)
            cls.append('packages.diff length=%d %s' % (Lf, sf))
    c['classes'] = cls
    return c


def fam_name_length(rng, mode=None, lens=None):
    """the failing row's name: Subject and Status line in the sequential modes, the section header everywhere, the name of the
    regress-<name>-quiet variable and the key of the suite map in robsd-regress"""
    mode = mode or rng.choice(MODES)
    if lens is None:
        lens = [rng.choices(NAME_LENS, [4, 4, 4, 4, 3, 3, 3, 2, 2, 2, 0.5, 0.5, 0.5])[0]]
    rows, logs = [brow(1, 'env')], {'001.log': b'+ env\n'.hex()}
    for L in lens:
        i = len(rows) + 1
        nm = ('n' * L) if mode != 'robsd-regress' else ('s/' + 'n' * L)[:L] if L > 2 else 'n' * L
        rows.append(brow(i, nm, ex=3))
        logs['%03d.log' % i] = ten(b'line', 12).hex()
    c = plain_case(mode, rows, logs, classes=['step name length=%d' % L for L in lens])
    if mode == 'robsd-regress':
        c['regress'] = [[r['name'], False] for r in rows[1:]] + [[rows[-1]['name'] + 'x', True], [rows[-1]['name'][:-1] or 'y', True]]
    return c


def fam_logname_length(rng, mode=None):
    mode = mode or rng.choice(['robsd-regress', 'canvas', 'robsd', 'robsd-ports'])
    lens = _pick(rng, LOGNAME_LENS, 2)
    return sections_case(mode, [('', 1, ten(b'line', 12).hex() if L % 2 else b'==== t ====\nFAILED\n'.hex(), long_logname(L)) for L in lens],
                         ['log name length=%d' % L for L in lens])


def fam_near_names(rng, mode=None, pool=None, shell='always'):
    """passing rows whose names are one comparison away from cvs / dpb / checkflist / end / a suite (or, pool = SHELL_NAMES, hold a
    blank or shell syntax), then a failing row with such a name; every row carries a duration and a delta"""
    mode = mode or rng.choice(MODES)
    pool = pool or NEAR_NAMES
    names = _pick(rng, pool, 6)
    rows, logs = [], {}
    for k, nm in enumerate(names):
        r = brow(k + 1, nm, dur=100 + k, delta=61 + k, log='the log %d.log' % k if pool is SHELL_NAMES and k % 4 == 0 else None)
        rows.append(r)
        logs[r['log']] = [b'plain line\n', b'+ trace only\n', b'==== t ====\nSKIPPED\n'][k % 3].hex()
    last = names[-1] if rng is None else rng.choice(names)
    rows.append(brow(len(rows) + 1, last, ex=1))
    logs[rows[-1]['log']] = ten(b'line', 3).hex()
    c = plain_case(mode, rows, logs, classes=['step name near a looked-up name' if pool is NEAR_NAMES else 'step name with a blank or shell syntax'],
                   shell=shell)
    c['tmp']['packages.diff'] = b'+pkg-1.0\n'.hex()
    if rng is not None and rng.random() < 0.5:
        rows.append(brow(len(rows) + 1, 'end', dur=4000, delta=-61, log=''))
    c['regress'] = [['bin/ksh', True], ['bin/ksh-extra', False], ['bin', False]]
    return c


def fam_shell_names(rng, mode=None, shell=None):
    # the shell total on these names is the parked finding (PENDING_FINDINGS): robsd-report is checked on them, duration_total only when switched on
    return fam_near_names(rng, mode, SHELL_NAMES, shell='always' if (shell or PENDING_FINDINGS) else False)


def fam_comma_name(rng, mode=None):
    """a name with a comma: the row has ten fields, the step file does not parse (robsd-step -W refuses such a name since bda6bfa;
    a file written before that, or by hand): no report, exit 1"""
    mode = mode or rng.choice(MODES)
    rows = [brow(1, 'env'), brow(2, 'a,b', ex=1), brow(3, 'end', log='')]
    return plain_case(mode, rows, {'001.log': b'+ env\n'.hex(), '002.log': b'x\n'.hex()}, classes=['step name with a comma'])


def fam_row_counts(rng, mode=None, kind=None, N=None, compact=False):
    """N rows: all passing but the last / N failing rows / N skipped rows in the middle / N skipped rows after the failing one"""
    mode = mode or rng.choice(MODES)
    kind = kind or rng.choice(['rows', 'failing rows', 'skipped rows', 'trailing skipped rows'])
    N = rng.choice(COUNTS) if N is None else N
    seq = mode in SEQ_MODES
    t0 = 1700000000

    def pat(ex, skip, n):
        return {'step': 0, 'name': 'suite/%d' if mode == 'robsd-regress' else 'w%d', 'exit': ex, 'duration': 3, 'delta': 1,
                'log': 'l%d.log', 'user': 'root', 'time': t0, 'skip': skip, 'repeat': n}
    fail = brow(0, SEQ_WORK[mode][0] if seq else 'the failing one', ex=2, log='fail.log', t=t0 + 500)
    if kind == 'rows':
        rows = [pat(0, 0, max(0, N - 1))] + ([fail] if N else [])
    elif kind == 'failing rows':
        rows = [pat(0, 0, 2), pat(1, 0, N)] + ([pat(0, 1, 1)] if seq else [])
    elif kind == 'skipped rows':
        rows = [pat(0, 0, 1), pat(0, 1, N), fail]
    else:
        rows = [pat(0, 0, 2), fail, pat(0, 1, N)]
    c = plain_case(mode, [r for r in rows if r.get('repeat', 1) > 0], {'l%d.log': ten(b'line', 11).hex(), 'fail.log': ten(b'failed', 12).hex()},
                   classes=['%s=%d' % (kind, N)], shell='always')
    if mode == 'robsd-regress':
        c['regress'] = [['suite/%d' % i, i % 5 == 0] for i in range(1, N + 4)]
        c['classes'].append('regress suites=%d' % (N + 3))
    return c if compact else expand_case(c)


# ---- numbers (C18)

def fam_step_durations(rng, mode=None, alone=None):
    """Duration: lines of sections: durations and deltas at the int / 32 bit / 64 bit boundaries (threshold 0 for a step)"""
    mode = mode or rng.choice(['canvas', 'robsd-regress'])
    durs = _pick(rng, BDURS, 3) if alone is None else alone
    if I63 - 1 in durs and len(durs) > 1:
        # the rows are added up (steps_total_duration, duration_total): 2^63-1 stands alone, the sum stays inside int64_t
        durs = [0, I63 - 1, 0] if rng is not None else [d for d in durs if d != I63 - 1]
    cls = []
    rows, logs = [], {}
    for k, d in enumerate(durs):
        dl = BDELTAS[(k * 5 + 3) % len(BDELTAS)] * (-1 if k % 2 else 1) if rng is None else rng.choice(BDELTAS) * rng.choice([1, -1])
        r = brow(k + 1, 'suite/%d' % (k + 1) if mode == 'robsd-regress' else 'step %d' % (k + 1), ex=1, dur=d, delta=dl)
        rows.append(r)
        logs[r['log']] = b'x\n'.hex()
        cls += ['step duration=%s' % pw(d), 'step delta=%s' % pw(dl)]
    c = plain_case(mode, rows, logs, classes=cls, shell='always')
    c['regress'] = [[r['name'], False] for r in rows]
    return c


def pw(v):
    """a number as the class lists name it: 2^31-1, -2^32-61, 60"""
    a = abs(v)
    for e in (63, 32, 31):
        if abs(a - 2 ** e) <= 61 and a >= 2 ** 31 - 61:
            d = a - 2 ** e
            return ('-' if v < 0 else '') + '2^%d%s' % (e, '' if d == 0 else '%+d' % d)
    return str(v)


def fam_end_row(rng, mode=None, dur=None, delta=None):
    """the end row's duration and delta (the stats Duration: line, threshold 60 s)"""
    mode = mode or rng.choice(MODES)
    dur = rng.choice(BDURS_END) if dur is None else dur
    delta = rng.choice(BDELTAS) * rng.choice([1, -1]) if delta is None else delta
    w = 'suite/1' if mode == 'robsd-regress' else 'first' if mode == 'canvas' else SEQ_WORK[mode][0]
    rows = [brow(1, 'env', dur=2), brow(2, w, ex=1, dur=61, delta=-60), brow(3, 'end', dur=dur, delta=delta, log='')]
    c = plain_case(mode, rows, {'001.log': b'+ env\n'.hex(), '002.log': b'x\n'.hex()}, classes=['end duration=%s' % pw(dur), 'end delta=%s' % pw(delta)],
                   shell='always')
    c['regress'] = [['suite/1', False]]
    return c


def fam_duration_sum(rng, mode=None, T=None, n=None):
    """no end row: the total is the sum of the rows (steps_total_duration, duration_total) and reaches T with the last row;
    robsd-regress: the difference of the first and last time"""
    mode = mode or rng.choice(MODES)
    T = rng.choice([59, 60, 61, 3600, I31 - 1, I31, I32 - 1, I32, I63 - 1]) if T is None else T
    n = rng.choice([2, 3, 16, 17]) if n is None else n
    if mode == 'robsd-regress':
        t0 = rng.choice([0, 1, I31 - 1, I31, 1700000000]) if rng is not None else I31 - 1
        if t0 + T > I63 - 1:
            t0 = 0
        rows = [brow(1, 'suite/1', ex=1, t=t0)] + [brow(i, 'suite/%d' % i, t=t0 + 1) for i in range(2, n)] + [brow(n, 'suite/%d' % n, t=t0 + T)]
        cls = ['regress wall time=%s from %s' % (pw(T), pw(t0))]
    else:
        first = T // 2
        mid = [1] * (n - 2)
        rows = [brow(1, 'one', ex=0, dur=first)] + [brow(i + 2, 'w%d' % i, dur=1) for i in range(n - 2)]
        rows.append(brow(n, SEQ_WORK.get(mode, ['last'])[0], ex=1, dur=T - first - len(mid)))
        cls = ['duration sum=%s over %d rows' % (pw(T), n)]
    c = plain_case(mode, rows, {r['log']: b'x\n'.hex() for r in rows}, classes=cls, shell='always')
    c['regress'] = [['suite/%d' % i, False] for i in range(1, n + 1)]
    return c


SIZE_PAIRS = [(0, MIB), (MIB, 0), (1, 1), (MIB - 1, 0), (MIB + 1, 0), (1023, 2 * MIB), (1024, 2 * MIB), (1025, 2 * MIB), (1023 * KIB, 0),
              (1024 * KIB - 1, 0), (1024 * KIB, 0), (1025 * KIB, 0), (I31 - 1, 0), (I31, 0), (I31, 1), (I32 - 1, MIB), (I32, 0), (0, I32),
              (I32 + MIB - 1, MIB - 1), (I32 + MIB - 1, 0), (I32 + MIB, I32), (I32, I31), (I31 - 1, I32), (2 ** 30 - 1, 1), (2 ** 30, 1),
              (2 ** 40, 2 ** 40 + I32), (2 ** 43, 0), (2 ** 43, 2 ** 43 - MIB), (2 ** 43 - MIB + 1, 2 ** 43)]


def fam_sizes(rng):
    """release files whose size or whose difference to the previous invocation sits at a 32 bit boundary, at the K / M
    unit boundaries, at the thresholds; (cur, prev) per file, bsd.rd with the KiB threshold"""
    pairs = _pick(rng, SIZE_PAIRS, 5)
    cur = [['f%02d' % i, a] for i, (a, b) in enumerate(pairs)]
    prev = [['f%02d' % i, b] for i, (a, b) in enumerate(pairs)]
    rd = [(KIB, 0), (KIB - 1, 0), (I32, I32 + KIB), (I32 + KIB - 1, 0), (2 * KIB, 3 * KIB - 1)]
    a, b = rd[0] if rng is None else rng.choice(rd)
    cur.append(['bsd.rd', a])
    prev.append(['bsd.rd', b])
    # present in one invocation only (an empty file is not an absent file: (0, 2^20) above)
    cur.append(['only-now.tgz', 5 * MIB])
    prev.append(['only-before.tgz', 5 * MIB])
    c = plain_case('robsd', [brow(1, 'env')], {'001.log': b'+ env\n'.hex()}, rel=cur, others=[['2024-01-04.1', 'dir']],
                   created=['2024-01-04.1', '2024-01-05.1'], prevrel={'2024-01-04.1': prev})
    c['classes'] = ['size %s previous %s' % (pw(a), pw(b)) for a, b in pairs] + ['ramdisk size %s previous %s' % (pw(a), pw(b)), 'release file on one side only']
    return c


def fam_rel_count(rng, N=None):
    """N release files that all changed (the vector of Size: lines and the directory listing grow); a 255 byte name among them"""
    N = rng.choice([0, 1, 16, 17, 64, 65]) if N is None else N
    cur = [['set%03d.tgz' % i, 3 * MIB + i] for i in range(N)]
    prev = [['set%03d.tgz' % i, MIB + 2 * i] for i in range(N)]
    if N:
        cur[-1][0] = prev[-1][0] = 'z' * 255
    c = plain_case('robsd', [brow(1, 'env')], {'001.log': b'+ env\n'.hex()}, rel=cur, others=[['2024-01-04.1', 'dir']],
                   created=['2024-01-04.1', '2024-01-05.1'], prevrel={'2024-01-04.1': prev})
    c['classes'] = ['release files=%d' % N]
    return c


def fam_invocations(rng, n=None, kind=None):
    """the n-th invocation of a day with all earlier ones kept (names <date>.<k> unpadded: prefixes of one another from the tenth on),
    or a robsddir with many entries of other days"""
    kind = kind or rng.choice(['same day', 'same day', 'other days', 'prefix'])
    day = '2024-01-05'
    if kind == 'same day':
        n = rng.choice([1, 2, 9, 10, 11, 99, 100, 101]) if n is None else n
        names = ['%s.%d' % (day, k) for k in range(1, n)]
        me = '%s.%d' % (day, n)
        cls = 'invocation of the day=%d' % n
    elif kind == 'other days':
        n = rng.choice([15, 16, 17, 31, 32, 33, 63, 64, 65, 255, 256]) if n is None else n
        names = ['20%02d-%02d-%02d.1' % (10 + k // 336, k // 28 % 12 + 1, k % 28 + 1) for k in range(n - 1)]
        me = day + '.1'
        cls = 'entries of robsddir=%d' % n
    else:
        # the only other invocation has a name that is a prefix of this one's, or this one's name is a prefix of it
        n = rng.choice([10, 100, 1]) if n is None else n
        names, me = ([day + '.1'], day + '.%d' % n) if n > 1 else ([day + '.10'], day + '.1')
        cls = 'previous invocation name %s' % ('is a prefix of this one' if n > 1 else 'has this one as a prefix')
    created = names + [me] if not (kind == 'prefix' and n == 1) else [me] + names
    cur = [['bsd', 40 * MIB], ['bsd.rd', 9 * KIB]]
    prevrel = {nm: [['bsd', (k % 30 + 1) * MIB], ['bsd.rd', (k % 7 + 1) * KIB]] for k, nm in enumerate(names)}
    c = plain_case('robsd', [brow(1, 'env')], {'001.log': b'+ env\n'.hex()}, builddir=me, rel=cur, others=[[nm, 'dir'] for nm in names],
                   created=created, prevrel=prevrel)
    c['classes'] = [cls]
    return c


FAMILIES_C05 = [fam_log_line_length, fam_log_lines, fam_log_size, fam_log_excerpt, fam_log_shapes, fam_log_trace, fam_regress_log, fam_files,
                fam_name_length, fam_logname_length, fam_near_names, fam_shell_names, fam_comma_name, fam_row_counts]
FAMILIES_C18 = [fam_step_durations, fam_end_row, fam_duration_sum, fam_sizes, fam_rel_count, fam_invocations, fam_near_names, fam_shell_names, fam_row_counts]


def boundary_case(rng, families=None):
    return (rng.choice(families or FAMILIES_C05 + FAMILIES_C18))(rng)


def boundary_corpus():
    """the deterministic cases stored under corpus/ (tools: python3 -c 'import rp_common; rp_common.write_boundary_corpus()'):
    {pid: [(file name, comment, [cases])]}; every parameter of every family at least once"""
    c5, c18 = [], []

    def add(lst, name, note, cases):
        lst.append(('b%s_%s.json' % ('05' if lst is c5 else '18', name), note, cases if isinstance(cases, list) else [cases]))
    add(c5, 'log_line_length', 'a log line of every boundary length as the last / tenth-from-last / eleventh-from-last / unterminated last line',
        [fam_log_line_length(None, mode, pos) for pos, mode in (('last', 'canvas'), ('tenth', 'robsd-cross'), ('eleventh', 'robsd'), ('nonl', 'robsd-ports'))])
    add(c5, 'log_lines', 'logs of 0,1,9,10,11,15..17,255,256 lines: plain, no final newline, blank lines between, CRLF',
        [fam_log_lines(None, mode, shape) for shape, mode in (('plain', 'robsd-regress'), ('nonl', 'canvas'), ('blanks', 'robsd-cross'), ('crlf', 'robsd-regress'))])
    add(c5, 'log_size', 'logs of exactly 4095..65536 bytes with and without final newline',
        [fam_log_size(None, 'robsd-cross', True), fam_log_size(None, 'robsd', False), fam_log_size(None, 'canvas', False), fam_log_size(None, 'robsd-regress', True)])
    add(c5, 'log_excerpt', 'the tenth / eleventh / only line from the end starts at a block boundary; ten lines of 4095..65536 bytes together',
        [fam_log_excerpt(None, 'robsd'), fam_log_excerpt(None, 'robsd-regress')])
    add(c5, 'log_shapes', 'only newlines, many trailing newlines, runs of NUL and CR bytes, a NUL at a block boundary',
        [fam_log_shapes(None, 'robsd'), fam_log_shapes(None, 'canvas'), fam_log_shapes(None, 'robsd-regress')])
    add(c5, 'log_trace', 'checkflist logs of 4095..65536 bytes of trace lines, then nothing / a plain line / an unterminated one / a trace line',
        [fam_log_trace(None, 'robsd'), fam_log_trace(None, 'canvas')])
    add(c5, 'regress_log', 'regress logs: lines of every boundary length inside a failed test, 0..256 tests, test blocks of 4095..16384 bytes', fam_regress_log(None))
    add(c5, 'files', 'comment, tags, target, cvs logs and packages.diff at every boundary length, four shapes', [fam_files(None, i) for i in range(len(LENS))])
    add(c5, 'name_length', 'failing rows with names of 1..4097 bytes: section header, Subject and Status (sequential modes), regress-<name>-quiet and the suite map',
        # (8191..8193 cost the model 3 s each: generated with a small weight, not stored)
        [fam_name_length(None, 'canvas', NAME_LENS[:7]), fam_name_length(None, 'robsd-regress', NAME_LENS[1:7]), fam_name_length(None, 'robsd', NAME_LENS[7:10])])
    add(c5, 'logname_length', 'log names of 1..3900 bytes (components of at most 255)', [fam_logname_length(None, 'robsd-regress')])
    add(c5, 'near_names', 'names one comparison away from cvs / dpb / checkflist / end / a suite, in every mode', [fam_near_names(None, mode) for mode in MODES])
    add(c5, 'shell_names', 'names and log names with a blank or with shell syntax, in every mode; a name with a comma',
        [fam_shell_names(None, mode) for mode in MODES] + [fam_comma_name(None, 'canvas'), fam_comma_name(None, 'robsd')])
    for kind, modes in (('rows', ['robsd', 'canvas']), ('failing rows', ['canvas', 'robsd-regress', 'robsd']), ('skipped rows', ['robsd-ports', 'canvas']),
                        ('trailing skipped rows', ['robsd', 'robsd-cross', 'robsd-ports'])):
        add(c5, kind.replace(' ', '_'), '%s = 0,1,15..17,31..33,63..65,255,256 (rows with "repeat" stand for that many rows)' % kind,
            [fam_row_counts(None, modes[k % len(modes)], kind, N, compact=True) for k, N in enumerate(COUNTS)])
    add(c18, 'step_durations', 'step durations and deltas at the int / 32 bit / 64 bit boundaries; a single row of 2^63-1 / of -2^63 seconds',
        [fam_step_durations(None, 'canvas'), fam_step_durations(None, 'robsd-regress'), fam_step_durations(None, 'canvas', [0, I63 - 1]),
         fam_step_durations(None, 'canvas', [0, -I63])])
    ends = [(I31 - 1, I31), (I31, -I31), (I32 - 1, I32 + 60), (I32, -(I32 + 61)), (I63 - 1, I63 - 1), (86399, -(I63 - 1)), (3601, I31 + 1), (0, -(I32 - 1)),
            (-1, I32), (86400, 60), (59, -61), (3599, I31 - 1), (60, -(I32 + 60)), (1, 3599), (3600, -3600), (61, 1), (I32, -59), (-2, 61), (-I31, -60),
            (-I32, I31 - 1), (-(I63 - 1), 1), (-I63, -(I63 - 1))]
    add(c18, 'end_row', 'the end row: durations and deltas at 59..61, 3599..3601, 86399/86400, 2^31, 2^32 (+60/+61), 2^63-1',
        [fam_end_row(None, MODES[k % 5], d, dl) for k, (d, dl) in enumerate(ends)])
    sums = [59, 60, 61, 3600, I31 - 1, I31, I32 - 1, I32, I63 - 1]
    add(c18, 'duration_sum', 'no end row: the rows add up to 59..61, 3600, 2^31-1, 2^31, 2^32-1, 2^32, 2^63-1',
        [fam_duration_sum(None, ['robsd', 'canvas', 'robsd-ports', 'robsd-cross'][k % 4], T, [2, 3, 16, 17][k % 4]) for k, T in enumerate(sums)])
    add(c18, 'wall_time', 'robsd-regress: last time minus first time at the same values, times around 2^31',
        [fam_duration_sum(None, 'robsd-regress', T, [2, 3, 16, 17][k % 4]) for k, T in enumerate(sums)])
    add(c18, 'sizes', 'sizes and differences at the 32 bit, unit and threshold boundaries', fam_sizes(None))
    add(c18, 'release_files', '0, 1, 16, 17, 64, 65 release files, all changed; a 255 byte name', [fam_rel_count(None, N) for N in (0, 1, 16, 17, 64, 65)])
    add(c18, 'invocations_of_a_day', 'the 1st, 2nd, 9th..11th, 99th..101st invocation of a day, the earlier ones kept',
        [fam_invocations(None, n, 'same day') for n in (1, 2, 9, 10, 11, 99, 100, 101)])
    add(c18, 'robsddir_entries', '15..256 invocations of other days in robsddir', [fam_invocations(None, n, 'other days') for n in (15, 16, 17, 31, 32, 33, 63, 64, 65, 255, 256)])
    add(c18, 'invocation_prefix', 'the only other invocation has a prefix-related name', [fam_invocations(None, n, 'prefix') for n in (10, 100, 1)])
    add(c18, 'near_names', 'rows named End / endx / en ... carry durations; names near end', [fam_near_names(None, mode) for mode in ('robsd', 'canvas', 'robsd-regress')])
    add(c18, 'shell_names', 'rows whose names hold a blank or shell syntax: duration_total evaluates them (findings/C18_step_eval_evaluates_fields.md); the smallest one first',
        [plain_case('canvas', [brow(1, 'build', dur=100), brow(2, 'end ', dur=50)], {'001.log': b'x\n'.hex(), '002.log': b'y\n'.hex()},
                    classes=['step name with a blank or shell syntax'], shell='always'), fam_shell_names(None, 'canvas', True), fam_shell_names(None, 'robsd', True)])
    add(c18, 'rows', '16, 17, 64, 65, 256 rows (the total over many rows, the shell loop)',
        [fam_row_counts(None, ['robsd', 'canvas', 'robsd-ports', 'robsd-cross', 'robsd'][k], 'rows', N, compact=True) for k, N in enumerate((16, 17, 64, 65, 256))])
    return {'C05': c5, 'C18': c18}


def write_boundary_corpus():
    for pid, files in boundary_corpus().items():
        for name, note, cases in files:
            with open(os.path.join(common.VERIF, 'corpus', pid, name), 'w') as f:
                j = {'_comment': 'boundary classes: ' + note, 'cases': cases}
                if name == 'b18_shell_names.json':
                    j['pending'] = SIG_EVAL       # skipped by load_corpus unless PENDING_FINDINGS
                json.dump(j, f, separators=(',', ':'))
                f.write('\n')


# ---------------------------------------------------------------- fixture

def step_csv(rows):
    out = 'step,name,exit,duration,delta,log,user,time,skip\n'
    for r in rows:
        out += '%d,%s,%d,%d,%d,%s,%s,%d,%d\n' % (r['step'], r['name'], r['exit'], r['duration'], r['delta'], r['log'],
                                                r['user'], r['time'], r['skip'])
    return out.encode()


def write_conf(path, mode, root, aux, suites):
    if mode == 'robsd':
        body = ('robsddir "%s"\ndestdir "%s"\nbsd-srcdir "%s"\ncvs-root "example.com:/cvs"\n'
                'cvs-user "nobody"\nx11-srcdir "%s"\n' % (root, aux, aux, aux))
    elif mode == 'robsd-cross':
        body = 'robsddir "%s"\ncrossdir "%s"\nbsd-srcdir "%s"\n' % (root, aux, aux)
    elif mode == 'robsd-ports':
        body = ('robsddir "%s"\nchroot "%s"\ncvs-root "example.com:/cvs"\ncvs-user "nobody"\n'
                'ports-dir "/ports"\nports-user "nobody"\nports { "devel/robsd" }\n' % (root, aux))
    elif mode == 'robsd-regress':
        body = 'robsddir "%s"\nbsd-srcdir "%s"\ncvs-user "nobody"\n' % (root, aux)
        for s, q in suites:
            body += 'regress "%s"%s\n' % (s, ' quiet' if q else '')
        if not suites:
            body += 'regress "never/there"\n'
    elif mode == 'canvas':
        body = 'canvas-name "test canvas"\ncanvas-dir "%s"\nstep "first" command { "true" }\n' % root
    else:
        raise ValueError(mode)
    open(path, 'w').write(body)


def cbytes(c):
    """the bytes of a content field of a case (a log, a file below tmp, comment, tags, target): a hex string, or the run-length
    form {"rle": [[hex, n], ...]} = the concatenation of n copies of each chunk (keeps corpus, replay and evidence files of the
    boundary classes small: a 64 KiB log is a few tokens)"""
    if isinstance(c, dict):
        return b''.join(bytes.fromhex(h) * n for h, n in c['rle'])
    return bytes.fromhex(c)


def enc(*parts):
    """content field from parts (bytes, or (bytes, n) for n copies): hex when short, else run-length form; empty content is ''"""
    ps = [(p, 1) if isinstance(p, bytes) else (p[0], p[1]) for p in parts]
    ps = [(b, n) for b, n in ps if b and n > 0]
    if sum(len(b) * n for b, n in ps) <= 400:
        return b''.join(b * n for b, n in ps).hex()
    out = []
    for b, n in ps:
        if len(b) > 64 and len(set(b)) == 1:
            b, n = b[:1], len(b) * n          # a run of one byte
        out.append([b.hex(), n])
    return {'rle': out}


def make_fixture(case, d):
    """materialises the case below d; returns the builddir path"""
    os.makedirs(d)
    root = os.path.join(d, 'r')
    aux = os.path.join(d, 'src')
    os.mkdir(root)
    os.mkdir(aux)
    bd = os.path.join(root, case['builddir'])
    os.makedirs(os.path.join(bd, 'tmp'))
    if case['step_present']:
        open(os.path.join(bd, 'step.csv'), 'wb').write(step_csv(case['rows']))
    for name, c in case['logs'].items():
        if c is None:
            continue
        p = os.path.join(bd, name)
        os.makedirs(os.path.dirname(p), exist_ok=True)
        if c == 'U':
            os.makedirs(os.path.join(p, 'x'))
        else:
            open(p, 'wb').write(cbytes(c))
    for name, c in case['tmp'].items():
        if c == 'U':
            os.makedirs(os.path.join(bd, 'tmp', name, 'x'))
        elif c is not None:
            open(os.path.join(bd, 'tmp', name), 'wb').write(cbytes(c))
    if case['comment'] == 'U':
        os.mkdir(os.path.join(bd, 'comment'))
    elif case['comment'] is not None:
        open(os.path.join(bd, 'comment'), 'wb').write(cbytes(case['comment']))
    if case['tags'] is not None:
        open(os.path.join(bd, 'tags'), 'wb').write(cbytes(case['tags']))
    if case['target'] is not None:
        open(os.path.join(bd, 'target'), 'wb').write(cbytes(case['target']))
    if case['rel'] is not None:
        os.mkdir(os.path.join(bd, 'rel'))
        for nm, size in case['rel']:
            with open(os.path.join(bd, 'rel', nm), 'wb') as f:
                f.truncate(size)
    for nm, kind in case['others']:
        p = os.path.join(root, nm)
        if kind == 'dir':
            os.mkdir(p)
        else:
            open(p, 'w').write('x\n')
    for nm, ents in case['prevrel'].items():
        p = os.path.join(root, nm, 'rel')
        os.makedirs(p, exist_ok=True)
        for n2, size in ents:
            with open(os.path.join(p, n2), 'wb') as f:
                f.truncate(size)
    if case['running']:
        open(os.path.join(root, '.running'), 'w').write(bd + '\n')
    suites = case['regress']
    write_conf(os.path.join(d, 'conf'), case['mode'], root, aux, suites)
    return bd


def read_or_none(p):
    try:
        with open(p, 'rb') as f:
            return f.read()
    except OSError:
        return None


def opt(b):
    return '!' if b is None else hexs(b)


def fread_token(p, need_size=False):
    """what reading p gives, as the model's fread: A = does not exist (ENOENT), U = there but unreadable (a directory,
    a path through a file), else the content.  For the files report_cvs_log stats first (need_size) an unreadable one
    must have a non-zero st_size, as the model assumes."""
    try:
        with open(p, 'rb') as f:
            return hexs(f.read())
    except FileNotFoundError:
        return 'A'
    except OSError:
        if need_size and os.stat(p).st_size == 0:
            raise common.BuildFailure('the scratch file system gives a directory st_size 0: %s' % p)
        return 'U'


def fixture_tokens(case, d, host, machine, root=None, canvas_name=b'test canvas'):
    """the file system below d as the model's input (readdir / stat / read as the report would see them)"""
    root = root or os.path.join(d, 'r')
    bd = os.path.join(root, case['builddir'])
    t = [str(MODES.index(case['mode'])), hexs(host), hexs(bd.encode()), '1' if os.path.exists(os.path.join(root, '.running')) else '0',
         hexs(root.encode()), hexs((root + '/attic').encode()), hexs(machine), hexs(canvas_name)]
    suites = case['regress'] if case['regress'] else [['never/there', False]]
    t.append(str(len(suites)))
    for s, q in suites:
        t += [hexs(s.encode()), '1' if q else '0']
    t.append(opt(read_or_none(os.path.join(bd, 'step.csv'))))
    logs = []
    for r in case['rows']:
        if r['log'] not in logs:
            logs.append(r['log'])
    t.append(str(len(logs)))
    for l in logs:
        t += [hexs(l.encode()), fread_token(os.path.join(bd, l))]
    t.append(str(len(CVS_TMP)))
    for nm in CVS_TMP:
        t += [hexs(nm.encode()), fread_token(os.path.join(bd, 'tmp', nm), need_size=True)]
    t.append(fread_token(os.path.join(bd, 'comment')))
    t.append(opt(read_or_none(os.path.join(bd, 'tags'))))
    t.append(opt(read_or_none(os.path.join(bd, 'target'))))
    ents = []
    with os.scandir(root) as it:
        for e in it:
            ents.append((e.name, 'L' if e.is_symlink() else 'D' if e.is_dir(follow_symlinks=False) else 'R' if e.is_file(follow_symlinks=False) else 'O'))
    t.append(str(len(ents)))
    for nm, ty in ents:
        t += [hexs(nm.encode()), ty]
    rel = os.path.join(bd, 'rel')
    names = []
    if os.path.isdir(rel):
        with os.scandir(rel) as it:
            names = [e.name for e in it]
        t.append(str(len(names)))
        for nm in names:
            t += [hexs(nm.encode()), str(os.stat(os.path.join(rel, nm)).st_size)]
    else:
        t.append('!')
    prev = []
    for nm, ty in ents:
        if ty != 'D':
            continue
        for n2 in names:
            try:
                st = os.stat(os.path.join(root, nm, 'rel', n2))
            except OSError:
                continue
            prev.append((os.path.join(root, nm), n2, st.st_size))
    t.append(str(len(prev)))
    for p, n2, sz in prev:
        t += [hexs(p.encode()), hexs(n2.encode()), str(sz)]
    age = [os.path.join(root, nm) for nm in created_order(case)]
    t.append(str(len(age)))
    t += [hexs(p.encode()) for p in age]
    return t


def hostname():
    return socket.gethostname().split('.')[0].encode()


def machine_of(impl):
    m = re.search(r'^#define MACHINE\s+"([^"]*)"', open(os.path.join(impl, 'config.h')).read(), re.M)
    if not m:
        raise common.BuildFailure('config.h of the implementation build has no MACHINE')
    return m.group(1).encode()


def run_report(impl, case, d):
    bd = os.path.join(d, 'r', case['builddir'])
    try:
        r = subprocess.run([os.path.join(impl, 'robsd-report'), '-m', case['mode'], '-C', os.path.join(d, 'conf'), bd],
                           stdout=subprocess.PIPE, stderr=subprocess.PIPE, timeout=30)
        return r.returncode, r.stdout, r.stderr
    except subprocess.TimeoutExpired:
        return -999, b'', b'timeout'


SH_TOTALS = r'''
set -u
EXECDIR="$1"; export EXECDIR
ROBSDSTEP="$1/robsd-step"; export ROBSDSTEP
. "$1/util.sh"
. "$1/util-regress.sh"
while read -r _m _f; do
	setmode "${_m}"
	_t="$(duration_total -s "${_f}" 2>/dev/null)" || _t="!"
	echo "${_t:-!}"
done
'''


def run_shell_totals(impl, jobs):
    """jobs: [(mode, step.csv path)] -> list of stdout lines of duration_total under bash, '!' on failure"""
    if not jobs:
        return []
    inp = ''.join('%s %s\n' % (m, p) for m, p in jobs)
    r = subprocess.run(['bash', '-c', SH_TOTALS, 'sh', impl], input=inp, stdout=subprocess.PIPE, stderr=subprocess.PIPE,
                       text=True, timeout=1200)
    out = r.stdout.split('\n')
    if out and out[-1] == '':
        out.pop()
    if len(out) != len(jobs):
        raise RuntimeError('bash duration_total: %d answers for %d jobs (rc=%d, stderr=%s)' % (len(out), len(jobs), r.returncode, r.stderr[-400:]))
    return out


# ---------------------------------------------------------------- report parser (harness side; the oracle parses nothing)

SEC_RE = re.compile(rb'\n> ([^\n]*)\nExit: (-?[0-9]+)\nDuration: ([^\n]*)\nLog: ([^\n]*)\n')


def parse_report(out):
    """-> dict(subject, status, duration, sizes [lines], sections [dict(name, exit, duration, log, body)]) or None"""
    m = re.match(rb'Subject: ([^\n]*)\n\n> stats\nStatus: ([^\n]*)\nDuration: ([^\n]*)\nBuild: ([^\n]*)\n', out)
    if not m:
        return None
    rep = {'subject': m.group(1), 'status': m.group(2), 'duration': m.group(3), 'build': m.group(4)}
    secs = list(SEC_RE.finditer(out, m.end() - 1))
    head_end = secs[0].start() if secs else len(out)
    head = out[m.end():head_end]
    stats = head.split(b'\n\n> comment\n')[0] if b'\n> comment\n' in (b'\n' + head) else head
    rep['sizes'] = [l for l in stats.split(b'\n') if l.startswith(b'Size: ')]
    rep['sections'] = []
    for i, s in enumerate(secs):
        end = secs[i + 1].start() if i + 1 < len(secs) else len(out)
        rep['sections'].append({'name': s.group(1), 'exit': int(s.group(2)), 'duration': s.group(3), 'log': s.group(4),
                                'body': out[s.end():end]})
    return rep


def case_key(case):
    return hashlib.sha1(json.dumps(case, sort_keys=True).encode()).hexdigest()


def big_stack(drv):
    """the extracted model is a list program (a 1 MiB log is a million-element list; ++ and map are not tail recursive in the
    extracted OCaml): run the driver without a stack limit"""
    w = drv + '.sh'
    text = '#!/bin/sh\nulimit -s unlimited 2>/dev/null || ulimit -s $(ulimit -Hs)\nexec "%s" "$@"\n' % drv
    if not os.path.exists(w) or open(w).read() != text:
        open(w + '.tmp', 'w').write(text)
        os.chmod(w + '.tmp', 0o755)
        os.rename(w + '.tmp', w)
    return w


def build_rp_driver(ctx):
    """C05 and C18 share one extraction (coq/extract/ExtractRP.v): every library it imports is compiled against
    the current sources first, whichever of the two properties is being checked; under the framework's lock."""
    targets = ['theories/Report/ReportSpec.vo', 'theories/Report/DurationSpec.vo', 'gen/Gen_Report.vo']
    with common.Lock(os.path.join(common.COQ, '.lock')):
        common.refresh_coqproject()
        # coq/gen is shared by every check that runs on this machine: another check (another VERIF_REPO) may have rewritten it since
        # this check's proof step.  Regenerate from THIS run's repository and extract while the lock is still held, so that the model
        # the driver runs is the model of the tree under test
        ctx.regen([], have_lock=True)
        r = common.sh(['timeout', '900', 'make', '-j8'] + targets, cwd=common.COQ)
        if r.returncode != 0:
            raise common.BuildFailure('libraries of the rp driver do not build:\n' + r.stdout[-1500:])
        return big_stack(ctx.build_driver('rp', withz=True))


def materialise(ctx, impl, cases, work, offset=0):
    """builds every fixture, runs robsd-report on it, returns [(dir, tokens, (rc, out, err))]"""
    host = hostname()
    machine = machine_of(impl)

    def one(ic):
        i, c = ic
        d = os.path.join(work, 'c%d' % (offset + i))
        make_fixture(c, d)
        toks = fixture_tokens(c, d, host, machine)
        return d, toks, run_report(impl, c, d)
    with ThreadPoolExecutor(16) as ex:
        return list(ex.map(one, enumerate(cases)))


# ---------------------------------------------------------------- evaluation shared by c05.py and c18.py

C05_CHECKS = ('exit', 'sane', 'status', 'sections', 'body')
C18_CHECKS = ('total', 'stepdur', 'sizes', 'shell')
SIG_D14 = 'log-excerpt-cut-at-nul'
SIG_D18 = 'failed-step-but-no-report'
SIG_D24 = 'failed-step-but-no-report-log-absent'
SIG_D25 = 'regress-cvs-section-empty'
SIG_AGE = 'previous-is-name-order-not-age'
SIG_EVAL = 'shell-total-evaluates-step-fields'
SRC_LOGS = ('cvs-src-up.log', 'cvs-src-ci.log')


def nonskipped(r):
    return r['skip'] != 1


def failing_rows(case):
    return [r for r in case['rows'] if nonskipped(r) and r['exit'] != 0]


def d18_shape(case):
    """a listed cvs step of a robsd-ports invocation whose cvs logs (one or both) were never written"""
    return (case['mode'] == 'robsd-ports' and any(r['name'] == 'cvs' and r['skip'] != 1 for r in case['rows'])
            and any(case['tmp'].get(n) is None for n in ('cvs-ports-up.log', 'cvs-ports-ci.log')))


def d24_shape(case):
    """a non-skipped row names a log that does not exist: what an invocation killed between the in-flight record of
    step_exec_job and tee's open(2) leaves behind (exit -1); also rows that are listed although they passed (cvs, ...)"""
    return any(r['log'] and case['logs'].get(r['log']) is None for r in case['rows'] if nonskipped(r))


def d25_shape(case):
    """a failing cvs row of a robsd-regress invocation with a non-empty src cvs log below tmp"""
    return (case['mode'] == 'robsd-regress' and any(r['name'] == 'cvs' for r in failing_rows(case))
            and any(case['tmp'].get(n) not in (None, '', 'U') for n in SRC_LOGS))


def age_outside_reason(case):
    """C18 only ("the previous invocation").  build_id issues <date>.<n> with n one above the largest suffix in use that day, and
    robsd-report finds ${builddir}/tags through the lock file, which names an invocation only while it runs - when it is the entry
    created last.  So the creation orders the property ranges over are: chronological by date and number, this invocation last.
    Any other order the generator makes up (a report by hand for an older invocation, a shuffled order) is outside."""
    order = created_order(case)
    dirs = {o[0] for o in case['others'] if o[1] == 'dir'} | {case['builddir']}
    if [n for n in dirs if not n.startswith('.') and n != 'attic' and not re.match(r'^\d{4}-\d{2}-\d{2}\.\d+$', n)]:
        return 'a directory in robsddir that build_id did not name'
    inv = [n for n in order if n in dirs and re.match(r'^\d{4}-\d{2}-\d{2}\.\d+$', n)]
    if inv != sorted(inv, key=natural_key):
        return 'creation order that build_id cannot produce'
    if inv and inv[-1] != case['builddir'] and case['builddir'] in inv:
        return 'this invocation is not the one created last (report outside its own run)'
    return None


def different_length_suffixes(case):
    """the input class of known finding previous-is-name-order-not-age: two invocations of one day (this one included) whose
    numbers have different numbers of digits"""
    by_day = {}
    for n in [o[0] for o in case['others'] if o[1] == 'dir'] + [case['builddir']]:
        m = re.match(r'^(\d{4}-\d{2}-\d{2})\.(\d+)$', n)
        if m:
            by_day.setdefault(m.group(1), set()).add(len(m.group(2)))
    return any(len(v) > 1 for v in by_day.values())


def shell_active_fields(case):
    """a string field of a row holds a blank or shell syntax (step_eval hands the row to eval unquoted)"""
    return any(SHELL_ACTIVE.search(r[f]) for r in case['rows'] for f in ('name', 'log', 'user'))


def outside_reason(case, pid='C05'):
    """The predicate on the CASE that puts it outside C05's / C18's quantifier; then no oracle judges it (the
    correspondence between model and implementation still does).  Mirrors ReportSpec.v [names_unreadable],
    [dpb_without_diff], [regress_without_log_name] and the lock-file premise of [inside], a superset of each:

    - a file is a directory: the property ranges over "all log contents"; a directory in the place of a log, of a cvs
      log, of packages.diff or of the comment is not a content.  tee and the scripts create regular files.
    - no lock file: robsd-report resolves ${builddir}/tags through <robsddir>/.running; the orchestrator makes the
      report before lock_release, so "every step file the orchestrator can produce" comes with its lock file.
    - robsd-ports: a passing dpb row without tmp/packages.diff - robsd-ports-dpb.sh creates it with its last command.
    - robsd-regress: a listed row without log name - step_exec_job records the name with every record it writes.
    A log that DOES NOT EXIST is inside (the in-flight record precedes tee's open)."""
    if 'U' in list(case['logs'].values()) + list(case['tmp'].values()) or case.get('comment') == 'U':
        return 'a file is a directory (not a log content)'
    if not case.get('running', True):
        return 'no lock file (report outside a running invocation)'
    if case['mode'] == 'robsd-ports' and case['tmp'].get('packages.diff') is None and \
            any(r['name'] == 'dpb' and r['exit'] == 0 and nonskipped(r) for r in case['rows']):
        return 'passing dpb row without packages.diff'
    if case['mode'] == 'robsd-regress':
        quiet = {s for s, q in case['regress'] if q}
        suites = {s for s, q in case['regress']}
        for r in case['rows']:
            if nonskipped(r) and not r['log'] and (r['exit'] != 0 or (r['name'] in suites and r['name'] not in quiet)):
                return 'regress row without log name'
    if pid == 'C18':
        return age_outside_reason(case)
    return None


def oracle_line(toks, rc, out, rep, sizes_parsable, shell):
    q = ['oracle'] + toks + [str(rc if rc >= 0 else 999), hexs(out)]
    if rep is None:
        q.append('0')
    else:
        q += ['1', hexs(rep['subject']), hexs(rep['status']), hexs(rep['duration'])]
        if sizes_parsable:
            q += [str(len(rep['sizes']))] + [hexs(l) for l in rep['sizes']]
        else:
            q.append('-')
        q.append(str(len(rep['sections'])))
        for s in rep['sections']:
            q += [hexs(s['name']), str(s['exit']), hexs(s['duration']), hexs(s['log']), hexs(s['body'])]
    q.append('!' if shell is None else hexs(shell.encode()))
    return ' '.join(q)


def classify(pid, check, case, rep, rc, guard=True, byname=None, err=b''):
    """stable signature of a failed check; the signatures of known or repaired defects are given only when the CASE
    has the specific shape of that defect"""
    name = check.split(':')[0]
    rows = case['rows']
    if name == 'body' and rep is not None:
        k = int(check.split(':')[1])
        sec = rep['sections'][k]
        logname = sec['log'].decode('latin1')
        c = case['logs'].get(logname)
        if d25_shape(case) and sec['name'] == b'cvs' and sec['exit'] != 0 and sec['body'] == b'\n':
            return SIG_D25, ('robsd-regress: the section of the failed cvs step holds neither the collected cvs logs (tmp/cvs-src-up.log, '
                             'cvs-src-ci.log) nor the tail of its log: report_cvs_log has no ROBSD_REGRESS rows')
        if c not in (None, 'U'):
            c = cbytes(c)
            raw = sec['body'][1:].replace(b'\\r', b'\r')
            nuls = [i for i, b in enumerate(c) if b == 0]
            cands = [raw] + ([raw[:-1]] if raw.endswith(b'\n') and not c.endswith(b'\n') else [])
            if nuls and b'\\x00' not in sec['body'] and any(c[:p].endswith(x) for p in nuls for x in cands):
                return SIG_D14, 'the excerpt of %s stops at a NUL byte: the lines after it (the last line included) are missing' % logname
        return 'body-mismatch', 'the text after the Log: line of section %r is not the specified excerpt' % sec['name'].decode('latin1')
    if name == 'sections':
        have = [s['name'].decode('latin1') for s in rep['sections']] if rep else []
        failing = [r['name'] for r in rows if r['skip'] != 1 and r['exit'] != 0]
        skipped = [r['name'] for r in rows if r['skip'] == 1 and r['name'] not in [x['name'] for x in rows if x['skip'] != 1]]
        if [f for f in failing if f not in have]:
            return 'failing-row-without-section', 'a non-skipped row with a non-zero exit has no section'
        if [s for s in skipped if s in have]:
            return 'skipped-row-has-section', 'a skipped row has a section'
        return 'sections-mismatch', 'the sections are not the listed rows in order with name, exit and log name'
    if name == 'status':
        failing = [r for r in rows if r['skip'] != 1 and r['exit'] != 0]
        if failing and rep and rep['status'] == b'ok':
            return 'failure-reported-as-ok', 'status says ok although a non-skipped row has a non-zero exit'
        if not failing and rep and rep['status'] != b'ok':
            return 'ok-reported-as-failure', 'status reports a failure although no non-skipped row failed'
        return 'status-mismatch', 'subject/status do not name the failing step or the number of failures'
    if name == 'exit':
        failed = [r['name'] for r in failing_rows(case)]
        if rc == 1 and d24_shape(case) and b'No such file or directory' in err:
            return SIG_D24, ('robsd-report exited 1 without printing a report because the log a listed row names does not exist (an invocation '
                             'killed between the in-flight record and tee\'s open leaves such a row)%s'
                             % ('; the failed step(s) %r go unreported' % failed if failed else ''))
        if rc == 1 and d18_shape(case):
            return SIG_D18, ('robsd-report exited 1 without printing a report because a cvs log below tmp was never written '
                             '(robsd-ports without cvs-root/cvs-user, or a first checkout)%s'
                             % ('; the failed step %r goes unreported' % failed[0] if failed else ''))
        if rc not in (0, 1):
            return 'report-abnormal-exit', 'robsd-report terminated with status %d' % rc
        return 'report-exit-mismatch', 'robsd-report exit %d where the specification says %d' % (rc, 1 - rc)
    if name == 'sane':
        return 'nul-or-cr-in-report', 'a NUL or CR byte reached the report'
    if name == 'shell' and shell_active_fields(case):
        return SIG_EVAL, ('duration_total differs from the specified total on a step file with a blank or shell syntax in a string field: step_eval hands '
                          'the row to eval unquoted (a row named "end " counts as the end step, "x;_tot=7" sets the total)')
    if name == 'sizes' and byname == '1' and not guard and different_length_suffixes(case):
        return SIG_AGE, ('the Size: lines compare with the greatest other NAME, which is not the invocation created last before this one '
                         '(names <date>.<n> are unpadded: .9 sorts after .10 and .11; or this invocation is not the newest)')
    return {'total': ('total-duration-mismatch', 'the Duration: line of the stats block is not the specified total/delta'),
            'stepdur': ('step-duration-mismatch', 'the Duration: line of a section is not the specified duration/delta'),
            'sizes': ('size-lines-mismatch', 'the Size: lines are not the specified ones'),
            'shell': ('shell-total-mismatch', 'duration_total under bash differs from the specified total')}[name]


def judge(pid, res, c, toks_answer, rc, out, err, rep, count_outside=True):
    """the verdict of the extracted oracles on one observation.  toks_answer = "<b5> <b18> <ageguard> <byname> <fields...>".
    The verdict is the BYTES oracle of the property (spec_ok_bytes / spec_ok_bytes_numbers: exit status and standard
    output against the rendering of the specified report); the field checks only name the clause.  C18's shell
    check is a verdict of its own (it is about duration_total's output, not about the report)."""
    impl_s = '%d %s' % (rc if rc >= 0 else 999, hexs(out))
    if toks_answer.startswith('EXN') or toks_answer == 'BAD':
        res.tie_errors.append('oracle driver: ' + toks_answer[:200])
        return
    parts = toks_answer.split(' ')
    b5, b18, guard, byname, fields = parts[0] == '1', parts[1] == '1', parts[2] == '1', parts[3], parts[4:]
    why = outside_reason(c, pid)
    if why is not None:
        if count_outside:
            res.count('outside: ' + why)
        return
    res.count('judged by the oracle')
    mine = C05_CHECKS if pid == 'C05' else C18_CHECKS
    verdict = b5 if pid == 'C05' else b18
    failed = [f for f in fields if f != 'ok' and f.split(':')[0] in mine]
    if pid == 'C18' and 'shell' in failed:
        sig, what = classify(pid, 'shell', c, rep, rc)
        res.oracle_failures.append({'case': c, 'signature': sig, 'what': what, 'check': 'shell', 'impl': impl_s[:600]})
        failed.remove('shell')
    if verdict:
        if failed:
            # the bytes are the specified ones but a field cut out by the harness's parser is not: the parser was misled
            # (e.g. a log line that looks like a section header); not a verdict
            res.count('field checks disagree with the bytes verdict (parser)')
        return
    if pid == 'C18' and byname == '1' and not guard and different_length_suffixes(c):
        # the output is, byte for byte, the report against the greatest other name; name order is not creation order in this case,
        # and the case has the input class of the known finding (two numbers of different length in one day)
        sig, what = classify(pid, 'sizes', c, rep, rc, guard=guard, byname=byname)
        res.oracle_failures.append({'case': c, 'signature': sig, 'what': what, 'check': 'sizes', 'impl': impl_s[:600]})
        return
    if not failed:
        sig = 'report-bytes-differ' if pid == 'C05' else 'report-numbers-differ'
        res.oracle_failures.append({'case': c, 'signature': sig, 'check': 'bytes', 'impl': impl_s[:600], 'stderr': err[-200:].decode('latin1'),
                                    'what': 'exit status / standard output of robsd-report are not the rendering of the specified report'})
        return
    for chk in failed:
        sig, what = classify(pid, chk, c, rep, rc, guard=guard, byname=byname, err=err)
        res.oracle_failures.append({'case': c, 'signature': sig, 'what': what, 'check': chk,
                                    'impl': impl_s[:600], 'stderr': err[-200:].decode('latin1')})


def run_driver_parallel(drv, qs, workers=6, timeout=3000):
    """the questions in input order, answered by several driver processes (each line is answered on its own; the big cases of
    the boundary classes cost the list model up to a few seconds each)"""
    if len(qs) < 4 * workers:
        return common.run_driver(drv, qs, timeout=timeout)
    # deal the questions out by size, largest first, so that the expensive ones do not queue behind one another
    order = sorted(range(len(qs)), key=lambda i: -len(qs[i]))
    lots = [order[k::workers] for k in range(workers)]
    with ThreadPoolExecutor(workers) as ex:
        outs = list(ex.map(lambda lot: common.run_driver(drv, [qs[i] for i in lot], timeout=timeout), lots))
    ans = [None] * len(qs)
    for lot, out in zip(lots, outs):
        for i, a in zip(lot, out):
            ans[i] = a
    return ans


def evaluate(ctx, pid, cases, res, impl, drv, with_shell=0.0):
    """runs the cases; fills res (disagreements, oracle failures of the checks that belong to pid)"""
    work = ctx.mkscratch('rpwork')
    obs = materialise(ctx, impl, cases, work)
    shell = [None] * len(cases)
    if with_shell > 0:
        # the cases of the number classes carry shell = 'always': duration_total runs on every one of them
        idx = [i for i in range(len(cases)) if cases[i].get('shell', True) and
               (with_shell >= 1 or cases[i].get('shell') == 'always' or (i * 2654435761 % 1000) / 1000.0 < with_shell)]
        outs = run_shell_totals(impl, [(cases[i]['mode'], os.path.join(obs[i][0], 'r', cases[i]['builddir'], 'step.csv')) for i in idx])
        for i, o in zip(idx, outs):
            shell[i] = o
    qs = []
    reps = []
    for c, (d, toks, (rc, out, err)), sh in zip(cases, obs, shell):
        rep = parse_report(out) if rc == 0 else None
        reps.append(rep)
        tags = c.get('tags')
        sizes_parsable = tags is None or cbytes(tags).endswith(b'\n')
        qs.append('report ' + ' '.join(toks))
        qs.append(oracle_line(toks, rc, out, rep, sizes_parsable, None if sh in (None, '!') else sh))
        if sh is not None:
            qs.append('shtotal ' + ' '.join(toks))
    ans = run_driver_parallel(drv, qs)
    j = 0
    for c, (d, toks, (rc, out, err)), sh, rep in zip(cases, obs, shell, reps):
        model, verdict = ans[j], ans[j + 1]
        j += 2
        res.evaluations += 1
        impl_s = '%d %s' % (rc if rc >= 0 else 999, hexs(out))
        res.count('mode=%s' % c['mode'])
        res.count('exit=%d' % rc)
        for k in c.get('classes', []):
            res.count('class: ' + k)
        if model != impl_s:
            res.disagreements.append({'case': c, 'what': 'robsd-report stdout/exit', 'model': model[:400], 'impl': impl_s[:400],
                                      'stderr': err[-200:].decode('latin1')})
        if sh is not None:
            msh = ans[j]
            j += 1
            res.count('shell_totals')
            if pid == 'C18' and msh != sh:
                if shell_active_fields(c):
                    # DurationDefs.sh_total_loop / sh_regress_total take the fields of a row as step_value returns them for inert text; what
                    # eval makes of a blank or of shell syntax is not modelled.  The ORACLE judges these cases (spec_ok_shell, signature
                    # shell-total-evaluates-step-fields, not gated) - the same observation is not reported a second time as a model difference
                    res.count('shell model not compared (a field the shell evaluates; the oracle judges)')
                else:
                    res.disagreements.append({'case': c, 'what': 'duration_total under bash', 'model': msh, 'impl': sh})
        judge(pid, res, c, verdict, rc, out, err, rep)
        yield c, rc, out, rep, verdict
    shutil.rmtree(work, ignore_errors=True)


def load_corpus(pid):
    import glob
    d = os.path.join(common.VERIF, 'corpus', pid)
    if not os.path.isdir(d) or not glob.glob(os.path.join(d, '*.json')):
        raise common.BuildFailure('corpus directory %s is missing or empty: the replays of the repaired and known defects would not run' % d)
    cases = []
    for p in sorted(glob.glob(os.path.join(d, '*.json'))):
        if os.path.basename(p).startswith('e2e-'):
            continue       # scenarios of c05.py's end-to-end lane
        j = json.load(open(p))
        if 'pending' in j and not PENDING_FINDINGS:
            continue       # replays a finding that is reported but not yet in known_findings.json (see PENDING_FINDINGS)
        # one case, or (the boundary classes: one file per family) a list of cases; rows with "repeat" are spelled out
        cases += [expand_case(c) for c in (j['cases'] if 'cases' in j else [j.get('case', j)])]
    return cases


def replay(ctx, pid, rep):
    case = rep.get('case') or (rep.get('first_disagreements') or [{}])[0].get('case')
    if case is None:
        print(json.dumps(rep, indent=1)[:3000])
        return 1
    case = expand_case(case)
    res = common.Result()
    impl = ctx.build_impl()
    drv = build_rp_driver(ctx)
    for c, rc, out, r, verdict in evaluate(ctx, pid, [case], res, impl, drv, with_shell=1.0 if pid == 'C18' else 0.0):
        print('mode:', c['mode'])
        print('rows:', [(x['name'], x['exit'], x['duration'], x['delta'], x['log'], x['skip']) for x in c['rows']])
        print('implementation: exit %d' % rc)
        sys_out = out.decode('latin1')
        print(sys_out if len(sys_out) < 4000 else sys_out[:4000] + '...')
        print('oracle answer (bytes C05, bytes C18, name order = creation order, sizes as by name, failed field checks):', verdict)
        print('outside the property:', outside_reason(c, pid))
    print('model vs implementation:', 'agree' if not res.disagreements else res.disagreements)
    for f in res.oracle_failures:
        print('ORACLE FAILURE %s: %s' % (f['signature'], f['what']))
    bad = [f for f in res.oracle_failures if not common.match_known(pid, f['signature'])]
    return 1 if (res.disagreements or bad) else 0
