"""Translator for C06: step-exec.c / step-exec.h / conf.c / conf-*.c -> coq/gen/Gen_Exec.v
(module RobsdGen.Gen_Exec).

What is extracted (raises when a pattern stops matching; nothing is guessed):
  * `exitstatus` of step-exec.c from clang's JSON AST of the file as the repository compiles
    it, i.e. with glibc's WIFEXITED/WEXITSTATUS/WIFSIGNALED/WTERMSIG, SIGALRM and EX_TIMEOUT
    already expanded, into Gallina over the typed C operations of Base/CInt.v (the translator
    class of harness/t_arith.py, extended here by the one conversion the W* macros need:
    (signed char) of an int and back).  The harness validates the translation on every run
    against the compiled function over all 16-bit wait statuses (harness/c06_exitstatus.c).
  * EX_TIMEOUT (step-exec.h).
  * the argv template of config_steps_add_script (conf.c): the sequence of
    variable_value_append() calls, each a string literal, the script parameter or the
    step-name parameter.
  * whether config_get_steps drops arguments that interpolate to the empty string and appends
    the NULL sentinel; whether hook_to_argv (robsd-hook.c) drops anything.
  * which of the two known bodies find_step (step-exec.c) has: as shipped (the schedule
    returned by config_get_steps is used unchecked) or with the NULL check of
    findings/D5_find_step_null.diff.  Anything else raises.
  * the static step tables of the four script modes, the position of the ${regress}
    placeholder, the script of the regress steps and the trailing "end" step of canvas.
  * per mode, the grammar keywords that have a parser (the names `robsd-hook -v` refuses).
"""
import os, re
import t_arith
from t_arith import Unsupported


# ---- exitstatus via clang ---------------------------------------------------------------

def qual(node):
    t = node.get('type', {})
    q = t.get('desugaredQualType', t.get('qualType')) or ''
    return re.sub(r'\b(const|volatile)\b', '', q).strip()


class ExecFn(t_arith.Fn):
    """t_arith.Fn plus (signed char) <-> int conversions"""

    def expr(self, n):
        k = n.get('kind')
        if k in ('ImplicitCastExpr', 'CStyleCastExpr') and n.get('castKind') == 'IntegralCast':
            inner = n.get('inner', [])
            src = qual(t_arith.strip_parens(inner[0]))
            dst = qual(n)
            if dst == 'signed char' and src == 'int':
                return '(ccast_schar %s)' % self.expr(inner[0])
            if dst == 'int' and src == 'signed char':
                return '(ccast_schar_int %s)' % self.expr(inner[0])
        return super().expr(n)


def clang_ast_with_fallback(repo, relfile, fn):
    """config.h is produced by ./configure; a pristine checkout has none.  exitstatus does not
    depend on it, so an empty stand-in is put on the include path after the repository."""
    if os.path.exists(os.path.join(repo, 'config.h')):
        return t_arith.clang_ast(repo, relfile, fn)
    import json, subprocess, tempfile, shutil
    d = tempfile.mkdtemp(prefix='t_exec.')
    try:
        open(os.path.join(d, 'config.h'), 'w').write('#define _GNU_SOURCE\n')
        cmd = ['clang', '-fsyntax-only', '-Xclang', '-ast-dump=json', '-Xclang', '-ast-dump-filter=' + fn,
               '-I' + repo, '-I' + d, os.path.join(repo, relfile)]
        r = subprocess.run(cmd, stdout=subprocess.PIPE, stderr=subprocess.PIPE, text=True, timeout=120)
        if r.returncode != 0:
            raise Unsupported('clang failed on %s: %s' % (relfile, r.stderr[-400:]))
        dec = json.JSONDecoder()
        txt, i, docs = r.stdout, 0, []
        while i < len(txt):
            while i < len(txt) and txt[i].isspace():
                i += 1
            if i >= len(txt):
                break
            o, i = dec.raw_decode(txt, i)
            docs.append(o)
        defs = [x for x in docs if x.get('kind') == 'FunctionDecl' and x.get('name') == fn
                and any(c.get('kind') == 'CompoundStmt' for c in x.get('inner', []))]
        if len(defs) != 1:
            raise Unsupported('%s: expected exactly one definition in %s, found %d' % (fn, relfile, len(defs)))
        return defs[0]
    finally:
        shutil.rmtree(d, ignore_errors=True)


def translate_exitstatus(repo):
    f = ExecFn(clang_ast_with_fallback(repo, 'step-exec.c', 'exitstatus'))
    if [p[0] for p in f.params] != ['status', 'signal'] or f.outptr is not None:
        raise Unsupported('exitstatus: expected (int status, int signal), got %r' % (f.params,))
    if [p[1] for p in f.params] != ['TInt', 'TInt']:
        raise Unsupported('exitstatus: parameter types %r' % (f.params,))
    return f.gallina()


# ---- text helpers -------------------------------------------------------------------------

def strip_comments(src):
    return re.sub(r'/\*.*?\*/', lambda m: re.sub(r'[^\n]', ' ', m.group(0)), src, flags=re.S)


def drop_verif(body):
    out, skip = [], False
    for line in body.split('\n'):
        if re.match(r'\s*#\s*ifdef\s+ROBSD_VERIF', line):
            skip = True
            continue
        if skip:
            if re.match(r'\s*#\s*endif', line):
                skip = False
            continue
        out.append(line)
    return '\n'.join(out)


def function(src, name, where):
    """(parameter text, body) of the definition `name(...)\\n{ ... \\n}` at column 0"""
    m = re.search(r'^%s\(([^{;]*?)\)\n\{\n(.*?)^\}\n' % re.escape(name), src, re.M | re.S)
    if not m:
        raise ValueError('%s: definition of %s not found' % (where, name))
    return re.sub(r'\s+', ' ', m.group(1)).strip(), drop_verif(m.group(2))


def norm(body):
    return re.sub(r'\s+', ' ', body).strip()


def coq_bytes(s):
    b = s if isinstance(s, bytes) else s.encode()
    return '[' + '; '.join(str(c) for c in b) + ']'


def c_string(lit):
    """value of a C string literal without escapes other than \\\\ and \\" (anything else raises)"""
    body = lit[1:-1]
    if re.search(r'\\[^\\"]', body):
        raise ValueError('string literal %s uses an escape this translator does not read' % lit)
    return body.replace('\\"', '"').replace('\\\\', '\\')


# ---- find_step: the two known bodies ------------------------------------------------------

FIND_STEP_HEAD = ('VECTOR(const struct config_step) steps; size_t i; unsigned int flags; '
                  'flags = (c->flags & STEP_EXEC_TRACE) ? CONFIG_STEPS_TRACE_COMMAND : 0; '
                  'steps = config_get_steps(c->config, flags, s); ')
FIND_STEP_CHECK = 'if (steps == NULL) return NULL; '
FIND_STEP_TAIL = ('for (i = 0; i < VECTOR_LENGTH(steps); i++) { const struct config_step *cs = &steps[i]; '
                  'if (strcmp(cs->name, step_name) == 0) return cs; } return NULL;')
RESOLVE_BODY = ('const struct config_step *cs; cs = find_step(c, step_name, s); if (cs == NULL) return NULL; '
                'return cs->command.val.list;')


def find_step_variant(src):
    _, body = function(src, 'find_step', 'step-exec.c')
    b = norm(body)
    if b == FIND_STEP_HEAD + FIND_STEP_TAIL:
        checked = False
    elif b == FIND_STEP_HEAD + FIND_STEP_CHECK + FIND_STEP_TAIL:
        checked = True
    else:
        raise ValueError('step-exec.c find_step: body is neither the shipped one nor the one with the NULL check '
                         'of findings/D5_find_step_null.diff: %r' % b)
    _, rbody = function(src, 'resolve_step_command', 'step-exec.c')
    if norm(rbody) != RESOLVE_BODY:
        raise ValueError('step-exec.c resolve_step_command: body changed: %r' % norm(rbody))
    _, ebody = function(src, 'step_exec', 'step-exec.c')
    e = norm(ebody)
    if not re.search(r'command = resolve_step_command\(&c, step_name, &s\); if \(command == NULL\) \{ '
                     r'warnx\("%s: step script not found", step_name\); return (\d+); \}', e):
        raise ValueError('step-exec.c step_exec: handling of an unresolved step changed')
    nf = int(re.search(r'step script not found", step_name\); return (\d+);', e).group(1))
    # two known continuations: step_fork at once (as shipped: a command of which nothing is left after interpolation
    # reaches execvp(NULL, ...) in the child), or the check of /repo 8e76449 in between
    m_plain = re.search(r'step script not found", step_name\); return \d+; \} error = step_fork\(&c, command, &pid\);', e)
    m_chk = re.search(r'step script not found", step_name\); return \d+; \} if \(command\[0\] == NULL\) \{ '
                      r'warnx\("%s: empty step command", step_name\); return (\d+); \} error = step_fork\(&c, command, &pid\);', e)
    if m_chk:
        empty = (True, int(m_chk.group(1)))
    elif m_plain:
        empty = (False, 0)
    else:
        raise ValueError('step-exec.c step_exec: what happens between resolve_step_command and step_fork is neither the shipped '
                         'code nor the empty-command check of /repo 8e76449')
    if not re.search(r'error = exitstatus\(status, gotsig\); if \(error\) warnx\("process group exited %d", error\); '
                     r'return error;$', e):
        raise ValueError('step-exec.c step_exec: the wait status is no longer returned through exitstatus(status, gotsig)')
    return checked, nf, empty


# ---- conf.c: template, dropping of empty arguments, sentinel ---------------------------------

def script_template(conf):
    params, body = function(conf, 'config_steps_add_script', 'conf.c')
    m = re.fullmatch(r'struct config_step \*(\w+), const char \*(\w+), const char \*(\w+)', params)
    if not m:
        raise ValueError('conf.c config_steps_add_script: parameters changed: %r' % params)
    steps_p, script_p, name_p = m.groups()
    b = norm(body)
    if ('dst->name = %s;' % name_p) not in b:
        raise ValueError('conf.c config_steps_add_script: the step is no longer named by its last parameter')
    if 'val = &dst->command.val; variable_value_init(val, LIST);' not in b:
        raise ValueError('conf.c config_steps_add_script: command list initialisation changed')
    calls = re.findall(r'variable_value_append\(\s*(\w+)\s*,\s*("(?:[^"\\]|\\.)*"|\w+)\s*\)', b)
    if len(calls) != b.count('variable_value_append('):
        raise ValueError('conf.c config_steps_add_script: an append call has an argument this translator does not read')
    elems = []
    for target, arg in calls:
        if target != 'val':
            raise ValueError('conf.c config_steps_add_script: append to %s' % target)
        if arg.startswith('"'):
            elems.append('TLit %s' % coq_bytes(c_string(arg)))
        elif arg == script_p:
            elems.append('TScript')
        elif arg == name_p:
            elems.append('TName')
        else:
            raise ValueError('conf.c config_steps_add_script: appended value %s is neither a literal nor a parameter' % arg)
    if not elems:
        raise ValueError('conf.c config_steps_add_script: empty template')
    return elems, [a for _, a in calls]


# the whole normalised body is pinned; what may vary is what the model has a switch for (the two optional statements)
GET_STEPS_BODY = (
    'VECTOR(struct config_step) steps; size_t i; int error = 0; '
    'cf->interpolate.trace = (flags & CONFIG_STEPS_TRACE_COMMAND) ? 1 : 0; steps = cf->callbacks->get_steps(cf, s); '
    'for (i = 0; i < VECTOR_LENGTH(steps); i++) { struct variable_value *val = &steps[i].command.val; '
    'struct variable_value newval; size_t j; variable_value_init(&newval, LIST); '
    'for (j = 0; j < VECTOR_LENGTH(val->list); j++) { const char *arg; arg = config_interpolate_str(cf, val->list[j]); '
    'if (arg == NULL) { error = 1; goto out; } @DROP@variable_value_append(&newval, arg); } @SENTINEL@'
    'variable_value_clear(&steps[i].command.val); steps[i].command.val = newval; } '
    'out: cf->interpolate.trace = 0; if (error) return NULL; return steps;')
DROP_STMT = "if (arg[0] == '\\0') continue; "
SENTINEL_STMT = 'variable_value_append(&newval, NULL); '
HOOK_BODY = (
    'VECTOR(char *) args; VECTOR(char *) hook; size_t i, nargs; int error = 0; '
    'hook = config_value(config, "hook", list, NULL); if (hook == NULL) return 0; '
    'nargs = VECTOR_LENGTH(hook); if (nargs == 0) return 0; if (VECTOR_INIT(args)) err(1, NULL); '
    'if (VECTOR_RESERVE(args, nargs + 1)) err(1, NULL); args[nargs] = NULL; '
    'for (i = 0; i < VECTOR_LENGTH(hook); i++) { char **dst; const char *str = hook[i]; const char *arg; '
    'arg = interpolate_str(str, &(struct interpolate_arg){ .lookup = config_interpolate_lookup, .arg = config, '
    '.eternal = eternal, .scratch = scratch, }); if (arg == NULL) { error = 1; break; } @DROP@'
    'dst = VECTOR_ALLOC(args); if (dst == NULL) err(1, NULL); *dst = (char *)arg; } '
    'if (error) { VECTOR_FREE(args); return -1; } *out = args; return 1;')
TRACE_BODY = ('struct variable_value val; variable_value_init(&val, STRING); '
              'val.str = cf->interpolate.trace ? @ON@ : @OFF@; return config_append(cf, name, &val);')


def match_variants(body, template, holes):
    """the body must be the template with every @HOLE@ replaced by one of its alternatives; returns the choice made
    for each hole (index), raises otherwise"""
    import itertools
    names = list(holes)
    for choice in itertools.product(*[range(len(holes[n])) for n in names]):
        t = template
        for n, c in zip(names, choice):
            t = t.replace('@%s@' % n, holes[n][c])
        if t == body:
            return dict(zip(names, choice))
    return None


def get_steps_facts(conf):
    _, body = function(conf, 'config_get_steps', 'conf.c')
    b = norm(body)
    m = match_variants(b, GET_STEPS_BODY, {'DROP': ['', DROP_STMT], 'SENTINEL': ['', SENTINEL_STMT]})
    if m is None:
        raise ValueError('conf.c config_get_steps: the body is not the known one (with or without the test that drops empty '
                         'arguments, with or without the NULL sentinel): %r' % b)
    drop, sentinel = bool(m['DROP']), bool(m['SENTINEL'])
    _, tbody = function(conf, 'config_default_trace', 'conf.c')
    t = norm(tbody)
    lit = r'("(?:[^"\\]|\\.)*")'
    mm = re.fullmatch(re.escape(TRACE_BODY).replace('@ON@', lit).replace('@OFF@', lit), t)
    if not mm:
        raise ValueError('conf.c config_default_trace: body changed: %r' % t)
    return drop, sentinel, c_string(mm.group(1)), c_string(mm.group(2))


def hook_facts(hook):
    _, body = function(hook, 'hook_to_argv', 'robsd-hook.c')
    b = norm(body)
    m = match_variants(b, HOOK_BODY, {'DROP': ['', "if (arg[0] == '\\0') continue; "]})
    if m is None:
        raise ValueError('robsd-hook.c hook_to_argv: the body is not the known one (with or without a test dropping empty '
                         'arguments): %r' % b)
    return bool(m['DROP'])


# ---- step tables -------------------------------------------------------------------------------

TABLES = [('MRobsd', 'conf-robsd.c', 'robsd_steps'), ('MCross', 'conf-robsd-cross.c', 'robsd_cross_steps'),
          ('MPorts', 'conf-robsd-ports.c', 'robsd_ports_steps'), ('MRegress', 'conf-robsd-regress.c', 'robsd_regress_steps')]


def step_table(src, fname, tname):
    m = re.search(r'^static (?:const )?struct config_step %s\[\] = \{\n(.*?)^\};' % tname, src, re.M | re.S)
    if not m:
        raise ValueError('%s: table %s not found' % (fname, tname))
    rows = []
    for line in m.group(1).split('\n'):
        line = re.sub(r'/\*.*?\*/', '', line).strip()
        if not line:
            continue
        mm = re.fullmatch(r'\{\s*"((?:[^"\\])*)"\s*,\s*\{\s*"((?:[^"\\])*)"\s*\}\s*,\s*\{0\}\s*\},', line)
        if mm:
            rows.append((mm.group(1), mm.group(2)))
            continue
        if re.fullmatch(r'\{\s*NULL\s*,\s*\{\s*NULL\s*\}\s*,\s*\{0\}\s*\},', line):
            rows.append(None)
            continue
        raise ValueError('%s: row of %s not understood: %r' % (fname, tname, line))
    return rows


def grammar_keywords(src, fname, gname):
    m = re.search(r'^static const struct grammar %s\[\] = \{\n(.*?)^\};' % gname, src, re.M | re.S)
    if not m:
        raise ValueError('%s: grammar %s not found' % (fname, gname))
    kws = []
    for line in m.group(1).split('\n'):
        line = line.strip()
        if not line:
            continue
        mm = re.match(r'\{\s*"([^"]+)"\s*,\s*(\w+)\s*,\s*(\w+)\s*,', line)
        if not mm:
            raise ValueError('%s: row of %s not understood: %r' % (fname, gname, line))
        if mm.group(3) != 'NULL':
            kws.append(mm.group(1))
    return kws


GRAMMARS = [('MRobsd', 'conf-robsd.c', 'robsd_grammar'), ('MCross', 'conf-robsd-cross.c', 'robsd_cross_grammar'),
            ('MPorts', 'conf-robsd-ports.c', 'robsd_ports_grammar'), ('MRegress', 'conf-robsd-regress.c', 'robsd_regress_grammar'),
            ('MCanvas', 'conf-canvas.c', 'canvas_grammar')]


def facts(repo):
    rd = lambda f: strip_comments(open(os.path.join(repo, f)).read())
    raw = lambda f: open(os.path.join(repo, f)).read()
    se = rd('step-exec.c')
    conf = rd('conf.c')
    hdr = raw('step-exec.h')
    m = re.search(r'^#define\s+EX_TIMEOUT\s+(\d+)\s*$', hdr, re.M)
    if not m:
        raise ValueError('step-exec.h: EX_TIMEOUT not found')
    f = {'ex_timeout': int(m.group(1))}
    f['checked'], f['notfound_exit'], f['empty'] = find_step_variant(se)
    f['template'], f['template_src'] = script_template(conf)
    f['drop'], f['sentinel'], f['trace_on'], f['trace_off'] = get_steps_facts(conf)
    f['hook_drop'] = hook_facts(rd('robsd-hook.c'))
    f['tables'] = {}
    for mode, fname, tname in TABLES:
        rows = step_table(raw(fname), fname, tname)
        nph = sum(1 for r in rows if r is None)
        if (mode == 'MRegress') != (nph == 1) or nph > 1:
            raise ValueError('%s: %d ${regress} placeholders in %s' % (fname, nph, tname))
        f['tables'][mode] = rows
    rg = rd('conf-robsd-regress.c')
    scripts = re.findall(r'config_steps_add_script\(steps,\s*"((?:[^"\\])*)",\s*(regress\[r\]|regress_no_parallel\[r\])\)', rg)
    if sorted(s[1] for s in scripts) != ['regress[r]', 'regress_no_parallel[r]'] or scripts[0][0] != scripts[1][0]:
        raise ValueError('conf-robsd-regress.c: the two config_steps_add_script calls for ${regress} entries changed')
    f['regress_script'] = scripts[0][0]
    _, gb = function(rg, 'config_robsd_regress_get_steps', 'conf-robsd-regress.c')
    g = norm(gb)
    order = [g.find('if (cs->name == NULL) break;'), g.find('cs->flags.parallel = 1;'),
             g.find('regress_no_parallel[r]);'), g.find('for (i++; i < cf->steps.len; i++)')]
    if -1 in order or order != sorted(order):
        raise ValueError('conf-robsd-regress.c config_robsd_regress_get_steps: order of the four parts changed')
    cv = rd('conf-canvas.c')
    m = re.search(r'config_steps_add_script\(cf->canvas\.steps,\s*"((?:[^"\\])*)",\s*"((?:[^"\\])*)"\);', cv)
    if not m:
        raise ValueError('conf-canvas.c: trailing step added after parsing not found')
    f['canvas_end'] = (m.group(2), m.group(1))
    if 'return cf->canvas.steps;' not in norm(function(cv, 'config_canvas_get_steps', 'conf-canvas.c')[1]):
        raise ValueError('conf-canvas.c config_canvas_get_steps changed')
    common = grammar_keywords(raw('conf.c'), 'conf.c', 'common_grammar')
    f['reserved'] = {}
    for mode, fname, gname in GRAMMARS:
        f['reserved'][mode] = grammar_keywords(raw(fname), fname, gname) + common
    return f


def generate(repo):
    f = facts(repo)
    out = ['(* Gen_Exec.v - GENERATED on every check by harness/t_exec.py from step-exec.c, step-exec.h,',
           '   conf.c, conf-*.c and robsd-hook.c.  Do not edit. *)',
           'From Coq Require Import ZArith List.',
           'From Robsd Require Import Base.Bytes Base.CInt Exec.ArgvTypes.',
           'Import ListNotations.', 'Local Open Scope N_scope.', '']
    out.append('(* step-exec.h *)')
    out.append('Definition ex_timeout : Z := %d%%Z.' % f['ex_timeout'])
    import signal
    out.append('(* <signal.h> of this platform *)')
    out.append('Definition sigalrm : Z := %d%%Z.' % int(signal.SIGALRM))
    out.append('')
    out.append('(* step-exec.c find_step: %s *)' % ('schedule checked against NULL' if f['checked'] else
                                                   'as shipped, the schedule is used unchecked'))
    out.append('Definition find_step_null_checked : bool := %s.' % ('true' if f['checked'] else 'false'))
    out.append('Definition notfound_exit : Z := %d%%Z.' % f['notfound_exit'])
    out.append('(* step-exec.c step_exec: a command of which nothing is left after interpolation is %s *)'
               % ('refused with "empty step command" (/repo 8e76449)' if f['empty'][0] else 'handed to step_fork as it is (as shipped)'))
    out.append('Definition empty_command_checked : bool := %s.' % ('true' if f['empty'][0] else 'false'))
    out.append('Definition empty_exit : Z := %d%%Z.' % f['empty'][1])
    out.append('')
    out.append('(* conf.c config_steps_add_script: %s *)' % ' '.join(f['template_src']))
    out.append('Definition script_template : list tmpl :=\n  [' + ';\n   '.join(f['template']) + '].')
    out.append('(* conf.c config_get_steps / config_default_trace; robsd-hook.c hook_to_argv *)')
    out.append('Definition steps_drop_empty : bool := %s.' % ('true' if f['drop'] else 'false'))
    out.append('Definition steps_null_sentinel : bool := %s.' % ('true' if f['sentinel'] else 'false'))
    out.append('Definition hook_drop_empty : bool := %s.' % ('true' if f['hook_drop'] else 'false'))
    out.append('Definition trace_on : list N := %s.' % coq_bytes(f['trace_on']))
    out.append('Definition trace_off : list N := %s.' % coq_bytes(f['trace_off']))
    out.append('')
    out.append('(* static step tables; None is the ${regress} placeholder *)')
    for mode, _, tname in TABLES:
        rows = f['tables'][mode]
        out.append('Definition %s : list (option (list N * list N)) :=' % tname)
        out.append('  [' + ';\n   '.join('None' if r is None else '(* %s %s *) Some (%s, %s)' % (r[0], r[1], coq_bytes(r[0]), coq_bytes(r[1]))
                                         for r in rows) + '].')
    out.append('Definition regress_script : list N := %s.  (* %s *)' % (coq_bytes(f['regress_script']), f['regress_script']))
    out.append('Definition canvas_end : list N * list N := (%s, %s).  (* %s %s *)' % (
        coq_bytes(f['canvas_end'][0]), coq_bytes(f['canvas_end'][1]), f['canvas_end'][0], f['canvas_end'][1]))
    out.append('Definition static_steps (m : emode) : list (option (list N * list N)) :=')
    out.append('  match m with MRobsd => robsd_steps | MCross => robsd_cross_steps | MPorts => robsd_ports_steps')
    out.append('  | MRegress => robsd_regress_steps | MCanvas => [] end.')
    out.append('')
    out.append('(* grammar keywords with a parser (mode grammar, then the common grammar) *)')
    out.append('Definition reserved_keywords (m : emode) : list (list N) :=\n  match m with')
    for mode, _, _ in GRAMMARS:
        out.append('  | %s => [%s]' % (mode, '; '.join('(* %s *) %s' % (k, coq_bytes(k)) for k in f['reserved'][mode])))
    out.append('  end.')
    out.append('')
    out.append('Local Open Scope Z_scope.')
    out.append(translate_exitstatus(repo))
    return {'Gen_Exec.v': '\n'.join(out)}


if __name__ == '__main__':
    import sys
    print(generate(sys.argv[1] if len(sys.argv) > 1 else '/repo')['Gen_Exec.v'])
