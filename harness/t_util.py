"""Translator util.sh -> coq/gen/Gen_Util.v (tables and variants the invocation models C16/C17 depend on).

Extracted by anchored patterns from the function bodies of util.sh:
  build_id   which of the three known algorithms it is: count+1 (as shipped), count+1 advanced to the
             next free suffix (findings/D10_build_id.diff, /repo 70fb0eb), or the largest suffix in use
             today plus one (findings/D23_build_id_monotone.diff)
  lock_acquire  its statements as a small program (read the owner, the refusal test, the write) that
             Inv/LockTie.v interprets and proves equal to the model NameNewDefs.lock_acquire
  log_id     the printf format of the log name (pad width, extension), the dups threshold
  purge      the +1 compensation when not running, `tail -n "+${_n}"`, the whitelist of preserved
             names (find -not \\( -name P -o ... \\) -delete), the attic name transformation tr '-' '/',
             the removal of tmp, the copy/remove sequence
  robsd-clean  (the script, not util.sh) the count argument with its default, the fallback to ${keep}, the
             exit status when the retention is 0, which of the two purge forms runs for keep-attic 1 / otherwise,
             and the texts handed to info
Anything that no longer matches raises: the tie is reported as broken rather than guessed."""
import os, re


def func_body(src, name):
    m = re.search(r'^%s\(\) \{\n(.*?)^\}\n' % re.escape(name), src, re.S | re.M)
    if not m:
        raise ValueError('util.sh: function %s not found' % name)
    return m.group(1)


def norm(body):
    lines = []
    for l in body.split('\n'):
        l = re.sub(r'\s+', ' ', l.strip())
        if not l or l.startswith('#') or l.startswith('local '):
            continue
        lines.append(l)
    return lines


BUILD_ID_ORIG = [
    '_d="$(date \'+%Y-%m-%d\')"',
    '_c="$(find "$1" -type d -name "${_d}*" | wc -l)"',
    'printf \'%s.%d\\n\' "${_d}" "$((_c + 1))"',
]
BUILD_ID_FIXED = [
    '_d="$(date \'+%Y-%m-%d\')"',
    '_c="$(find "$1" -type d -name "${_d}*" | wc -l)"',
    '_c="$((_c + 1))"',
    'while [ -e "$1/${_d}.${_c}" ] || [ -L "$1/${_d}.${_c}" ]; do',
    '_c="$((_c + 1))"',
    'done',
    'printf \'%s.%d\\n\' "${_d}" "${_c}"',
]

BUILD_ID_MAX = [
    '_d="$(date \'+%Y-%m-%d\')"',
    'for _p in "$1/${_d}".*; do',
    '_n="${_p##*.}"',
    'case "${_n}" in',
    '""|0*|*[!0-9]*) continue;;',
    'esac',
    '[ "${_n}" -gt "${_c}" ] && _c="${_n}"',
    'done',
    'printf \'%s.%d\\n\' "${_d}" "$((_c + 1))"',
]
BUILD_ID_MAX_LOCALS = ['local _c=0', 'local _d', 'local _n', 'local _p']

BUILD_INIT = [
    '_builddir="$1"; : "${_builddir:?}"',
    '_steps="$(step_path "${_builddir}")"',
    '[ -d "${_builddir}" ] || mkdir "${_builddir}"',
    '[ -d "${_builddir}/tmp" ] || mkdir "${_builddir}/tmp"',
    '[ -e "${_builddir}/robsd.log" ] || : >"${_builddir}/robsd.log"',
    '[ -e "${_steps}" ] || : >"${_steps}"',
    'return 0',
]


def coq_bytes(s):
    return '[' + '; '.join(str(b) for b in s.encode()) + ']'


def glob_to_coq(pat):
    if re.search(r'[?\[\]\\]', pat):
        raise ValueError('util.sh purge: whitelist pattern %r uses more than literals and *' % pat)
    toks = []
    for part in re.split(r'(\*)', pat):
        if part == '*':
            toks.append('GStar')
        elif part:
            toks.append('GLit %s' % coq_bytes(part))
    return '[' + '; '.join(toks) + ']'


# ---- lock_acquire as a program.  Every line of the body must be one of the statement forms below; the
# forms carry what distinguishes one lock discipline from another (which file, which tests joined how,
# which status, what is written), so an edit of the function changes the generated program - and then
# Inv/LockTie.v no longer proves it equal to the model - instead of being compared with a fixed text.
def lock_value(tok):
    m = {'"${_owner}"': 'VOwner', '"${_builddir}"': 'VBuilddir', '"${_rootdir}"': 'VRootdir'}
    if tok not in m:
        raise ValueError('util.sh lock_acquire: operand %r not understood' % tok)
    return m[tok]


def lock_test(t):
    m = re.fullmatch(r'\[ (-n|-z) (\S+) \]', t)
    if m:
        return '(%s %s)' % ('TNonEmpty' if m.group(1) == '-n' else 'TEmpty', lock_value(m.group(2)))
    m = re.fullmatch(r'\[ (\S+) (!=|=) (\S+) \]', t)
    if m:
        return '(%s %s %s)' % ('TNe' if m.group(2) == '!=' else 'TEq', lock_value(m.group(1)), lock_value(m.group(3)))
    raise ValueError('util.sh lock_acquire: test %r not understood' % t)


def lock_cond(c):
    if ' || ' in c:
        a, b = c.split(' || ', 1)
        return '(TOr %s %s)' % (lock_cond(a), lock_cond(b))
    if ' && ' in c:
        a, b = c.split(' && ', 1)
        return '(TAnd %s %s)' % (lock_test(a), lock_cond(b))
    return lock_test(c)


def lock_program(lines):
    """lines (normalised) -> Coq term of type list lstmt"""
    def block(i, until):
        out = []
        while i < len(lines) and lines[i] not in until:
            l = lines[i]
            m = re.fullmatch(r'_(rootdir|builddir)="\$([12])"; : "\$\{_\1:\?\}"', l)
            if m:
                if (m.group(1), m.group(2)) not in (('rootdir', '1'), ('builddir', '2')):
                    raise ValueError('util.sh lock_acquire: arguments swapped: %r' % l)
                i += 1
                continue
            m = re.fullmatch(r'_owner="\$\(cat "\$\{_rootdir\}/([^"/$]+)" 2>/dev/null \|\| :\)"', l)
            if m:
                out.append('SReadOwner %s' % coq_bytes(m.group(1)))
                i += 1
                continue
            m = re.fullmatch(r'if (.*); then', l)
            if m:
                body, i = block(i + 1, ('fi', 'else'))
                if lines[i] != 'fi':
                    raise ValueError('util.sh lock_acquire: if with an else branch')
                out.append('SIf %s [%s]' % (lock_cond(m.group(1)), '; '.join(body)))
                i += 1
                continue
            if re.fullmatch(r'info "\$\{_owner\}: lock already acquired"', l):
                out.append('SInfo')
                i += 1
                continue
            m = re.fullmatch(r'return (\d+)', l)
            if m:
                out.append('SReturn %s' % m.group(1))
                i += 1
                continue
            m = re.fullmatch(r'echo (\S+) >"\$\{_rootdir\}/([^"/$]+)"', l)
            if m:
                out.append('SWriteLine %s %s' % (lock_value(m.group(1)), coq_bytes(m.group(2))))
                i += 1
                continue
            raise ValueError('util.sh lock_acquire: statement %r not understood' % l)
        return out, i
    prog, i = block(0, ())
    if i != len(lines):
        raise ValueError('util.sh lock_acquire: unbalanced body')
    return '[' + '; '.join(prog) + ']'


ENTRY_SCRIPTS = ['robsd', 'robsd-cross', 'robsd-ports', 'robsd-regress', 'canvas']


def new_invocation_sequence(repo):
    """every entry script: BUILDDIR="${ROBSDDIR}/$(build_id "${ROBSDDIR}")", then build_init, then lock_acquire"""
    for name in ENTRY_SCRIPTS:
        src = open(os.path.join(repo, name)).read()
        calls = re.findall(r'^\s*(BUILDDIR="\$\{ROBSDDIR\}/\$\(build_id "\$\{ROBSDDIR\}"\)"|build_init "\$\{BUILDDIR\}"|'
                           r'lock_acquire "\$\{ROBSDDIR\}" "\$\{BUILDDIR\}")\s*$', src, re.M)
        if [c.split(' ')[0].split('=')[0] for c in calls] != ['BUILDDIR', 'build_init', 'lock_acquire']:
            raise ValueError('%s: build_id / build_init / lock_acquire sequence changed: %r' % (name, calls))


def clean_script(repo):
    """the part of robsd-clean after option parsing: configuration variables, retention, the two loops"""
    src = open(os.path.join(repo, 'robsd-clean')).read()
    m = re.search(r"^config_load <<'EOF'\n(.*?)^EOF\n", src, re.S | re.M)
    if not m:
        raise ValueError('robsd-clean: config_load here-document not found')
    conf = [l for l in m.group(1).split('\n') if l]
    if conf != ['ROBSDDIR="${robsddir}"', 'KEEPDIR="${keep-dir}"', 'KEEP="${keep}"']:
        raise ValueError('robsd-clean: configuration variables changed: %r' % conf)
    tail = norm(src[m.end():])
    m1 = re.fullmatch(r'_keep="\$\{1:-(\d+)\}"', tail[0]) if tail else None
    if not m1:
        raise ValueError('robsd-clean: count argument / default changed: %r' % tail[:1])
    default = int(m1.group(1))
    want = ['if [ "${_keep}" -eq %d ]; then' % default, '_keep="${KEEP}"', 'fi',
            'if [ "${_keep}" -eq 0 ]; then']
    if tail[1:5] != want:
        raise ValueError('robsd-clean: retention selection changed: %r' % tail[1:5])
    m2 = re.fullmatch(r'exit (\d+)', tail[5])
    if not m2 or tail[6] != 'fi':
        raise ValueError('robsd-clean: exit for retention 0 changed: %r' % tail[5:7])
    rest = tail[7:]
    m3 = re.fullmatch(r'if \[ "\$\(config_value keep-attic\)" -eq (\d+) \]; then', rest[0]) if rest else None
    if not m3:
        raise ValueError('robsd-clean: keep-attic test changed: %r' % rest[:1])
    if rest[1] != 'purge "${ROBSDDIR}" "${_keep}" | while read -r _d; do' or rest[3:5] != ['done', 'else'] or \
       rest[5] != 'purge -d "${ROBSDDIR}" "${_keep}" | while read -r _d; do' or \
       rest[7:] != ['rm -rf "${_d}"', 'done', 'fi']:
        raise ValueError('robsd-clean: the two purge loops changed: %r' % rest)
    mm = re.fullmatch(r'info "(.*)\$\{_d\}(.*)\$\{KEEPDIR\}"', rest[2])
    mr = re.fullmatch(r'info "(.*)\$\{_d\}"', rest[6])
    if not mm or not mr:
        raise ValueError('robsd-clean: messages changed: %r / %r' % (rest[2], rest[6]))
    if not re.search(r'^setprogname "robsd-clean"$', src, re.M):
        raise ValueError('robsd-clean: setprogname changed')
    return {'default': default, 'zero_exit': int(m2.group(1)), 'attic_value': int(m3.group(1)),
            'moving': mm.group(1), 'to': mm.group(2), 'removing': mr.group(1)}


def generate(repo):
    src = open(os.path.join(repo, 'util.sh')).read()
    out = []
    # ---- build_id
    raw = func_body(src, 'build_id')
    b = norm(raw)
    if b == BUILD_ID_ORIG:
        variant = 0
    elif b == BUILD_ID_FIXED:
        variant = 1
    elif b == BUILD_ID_MAX:
        # the loop starts from _c=0: the initial value sits on the `local` line, which norm() drops
        locs = [re.sub(r'\s+', ' ', l.strip()) for l in raw.split('\n') if l.strip().startswith('local ')]
        if locs != BUILD_ID_MAX_LOCALS:
            raise ValueError('util.sh build_id: local declarations / initial value of the maximum changed: %r' % locs)
        variant = 2
    else:
        raise ValueError('util.sh build_id: body matches none of the count+1, next-free-suffix and largest-suffix+1 forms: %r' % b)
    # ---- build_init
    b = norm(func_body(src, 'build_init'))
    if b != BUILD_INIT:
        raise ValueError('util.sh build_init: body changed: %r' % b)
    if not re.search(r'^step_path\(\) \{\n(?:\s*local .*\n|\s*\n)*\s*_dir="\$1"; : "\$\{_dir:\?\}"\n\s*echo "\$\{_dir\}/step\.csv"\n\}', src, re.M):
        raise ValueError('util.sh step_path: body changed')
    # ---- log_id
    b = norm(func_body(src, 'log_id'))
    if b[:-8] != ['while [ $# -gt 0 ]; do', 'case "$1" in', '-b) shift; _builddir="$1";;', '-n) shift; _name="$1";;',
                  '-s) shift; _step="$1";;', '*) break;;', 'esac', 'shift', 'done', ': "${_name:?}"', ': "${_builddir:?}"',
                  ': "${_step:?}"']:
        raise ValueError('util.sh log_id: argument handling changed: %r' % b[:-8])
    tail = b[-8:]
    want_head = ['_name="$(echo "${_name}" | tr \'/\' \'-\')"']
    if tail[0] != want_head[0]:
        raise ValueError('util.sh log_id: name transformation changed: %r' % tail[0])
    m = re.fullmatch(r'_id="\$\(printf \'%0(\d+)d-%s(\.[A-Za-z]+)\' "\$\{_step\}" "\$\{_name\}"\)"', tail[1])
    if not m:
        raise ValueError('util.sh log_id: printf format changed: %r' % tail[1])
    pad, ext = int(m.group(1)), m.group(2)
    if tail[2] != '_dups="$(find "${_builddir}" -name "${_id}*" | wc -l)"':
        raise ValueError('util.sh log_id: duplicate count changed: %r' % tail[2])
    m = re.fullmatch(r'if \[ "\$\{_dups\}" -gt (\d+) \]; then', tail[3])
    if not m:
        raise ValueError('util.sh log_id: threshold test changed: %r' % tail[3])
    thr = int(m.group(1))
    if tail[4:] != ['printf \'%s.%d\' "${_id}" "${_dups}"', 'else', 'echo "${_id}"', 'fi']:
        raise ValueError('util.sh log_id: output changed: %r' % tail[4:])
    # ---- purge
    body = func_body(src, 'purge')
    b = norm(body)
    txt = '\n'.join(b)
    m = re.search(r'if ! config_value builddir >/dev/null 2>&1; then\n_n="\$\(\(_n \+ (\d+)\)\)"\nfi\n'
                  r'prev_release -B \|\ntail -n "\+\$\{_n\}" \|\nwhile read -r _d; do\n', txt)
    if not m:
        raise ValueError('util.sh purge: victim selection (compensation / prev_release -B | tail -n +N) changed')
    comp = int(m.group(1))
    if '_attic="$(config_value keep-dir)"' not in b:
        raise ValueError('util.sh purge: attic directory no longer ${keep-dir}')
    # everything before the victim selection: option parsing and the three assignments, nothing else
    head = b[:b.index('if ! config_value builddir >/dev/null 2>&1; then')]
    if head != ['while [ $# -gt 0 ]; do', 'case "$1" in', '-d) _dry=1;;', '*) break;;', 'esac', 'shift', 'done',
                '_dir="$1"; : "${_dir:?}"', '_n="$2"; : "${_n:?}"', '_attic="$(config_value keep-dir)"']:
        raise ValueError('util.sh purge: statements before the victim selection changed: %r' % head)
    if len(b) != len(head) + 3 + 3 + 7 + (len(re.findall(r"-name '", txt)) + 1) + 7:
        raise ValueError('util.sh purge: the body holds statements the translator does not account for (%d lines)' % len(b))
    m = re.search(r'find "\$\{_d\}" -mindepth 1 -not \\\( \\\n((?:-name \'[^\']*\' -o \\\n)*-name \'[^\']*\') \\\) -delete', txt)
    if not m:
        raise ValueError('util.sh purge: whitelist find expression changed')
    pats = re.findall(r"-name '([^']*)'", m.group(1))
    seq = txt[txt.index('while read -r _d; do'):]
    want = ['while read -r _d; do', 'if [ "${_dry}" -eq 1 ]; then', 'echo "${_d}"', 'continue', 'fi',
            '[ -d "${_attic}" ] || mkdir "${_attic}"',
            '_tim="$(stat -f \'%Sm\' -t \'%FT%T\' "${_d}")"',
            'rm -rf "${_d}/tmp"']
    if seq.split('\n')[:len(want)] != want:
        raise ValueError('util.sh purge: loop head changed: %r' % seq.split('\n')[:len(want)])
    after = seq[seq.index('-delete') + len('-delete'):].strip().split('\n')
    want2 = ['_dst="${_attic}/$(echo "${_d##*/}" | tr \'-\' \'/\')"', 'mkdir -p "${_dst%/*}"', 'cp -pr "${_d}" "${_dst}"',
             'touch -d "${_tim}" "${_dst}"', 'rm -r "${_d}"', 'echo "${_d}"', 'done']
    if after != want2:
        raise ValueError('util.sh purge: move to the attic changed: %r' % after)
    out.append('(* Gen_Util.v - GENERATED by harness/t_util.py from util.sh; do not edit. *)')
    out.append('From Robsd Require Import Base.Bytes Inv.NameDefs Inv.Glob Inv.LockSrc.')
    out.append('Local Open Scope N_scope.')
    out.append('')
    out.append('(* build_id: %s *)' % ['count+1', 'count+1 advanced to the next free suffix',
                                        'largest suffix in use today + 1'][variant])
    out.append('Definition build_id_variant : N := %d.' % variant)
    out.append('Definition build_id_current := %s.' % ['build_id', 'build_id_fixed', 'build_id_max'][variant])
    out.append('Definition gen_build_id_current := %s.' % ['gen_build_id', 'gen_build_id_fixed', 'gen_build_id_max'][variant])
    out.append('')
    out.append('(* log_id: printf \'%%0%dd-%%s%s\'; suffix when dups > %d *)' % (pad, ext, thr))
    out.append('Definition log_pad_width : nat := %d%%nat.' % pad)
    out.append('Definition log_ext : bytes := %s.' % coq_bytes(ext))
    out.append('Definition log_dups_threshold : nat := %d%%nat.' % thr)
    out.append('')
    out.append('(* purge *)')
    out.append('Definition purge_not_running_compensation : nat := %d%%nat.' % comp)
    out.append('Definition purge_whitelist : list glob :=')
    out.append('  [' + ';\n   '.join(glob_to_coq(p) for p in pats) + '].')
    out.append('Definition purge_whitelist_patterns_text : list bytes :=')
    out.append('  [' + ';\n   '.join(coq_bytes(p) for p in pats) + '].')
    out.append('Definition purge_attic_tr_from : N := %d.' % ord('-'))
    out.append('Definition purge_attic_tr_to : N := %d.' % ord('/'))
    out.append('')
    b = norm(func_body(src, 'lock_acquire'))
    new_invocation_sequence(repo)
    out.append('(* lock_acquire, statement by statement (interpreted by Inv/LockTie.v); the order build_id, build_init,')
    out.append('   lock_acquire in the five entry scripts is checked by the translator itself (pinned as text) *)')
    out.append('Definition lock_acquire_src : list lstmt :=')
    out.append('  %s.' % lock_program(b))
    out.append('')
    cs = clean_script(repo)
    out.append('(* robsd-clean: _keep="${1:-%d}", 0 -> ${keep}, still 0 -> exit %d; keep-attic %d -> purge, otherwise purge -d + rm -rf *)'
               % (cs['default'], cs['zero_exit'], cs['attic_value']))
    out.append('Definition clean_count_default : nat := %d%%nat.' % cs['default'])
    out.append('Definition clean_zero_exit : N := %d.' % cs['zero_exit'])
    out.append('Definition clean_attic_value : nat := %d%%nat.' % cs['attic_value'])
    out.append('Definition clean_msg_moving : bytes := %s.' % coq_bytes(cs['moving']))
    out.append('Definition clean_msg_to : bytes := %s.' % coq_bytes(cs['to']))
    out.append('Definition clean_msg_removing : bytes := %s.' % coq_bytes(cs['removing']))
    out.append('')
    return {'Gen_Util.v': '\n'.join(out)}


if __name__ == '__main__':
    import sys
    print(generate(sys.argv[1] if len(sys.argv) > 1 else '/repo')['Gen_Util.v'])
