"""Shared by harness/c08.py and harness/c10.py: scratch world, configuration generators, runners for
robsd-config / robsd-step / robsd-exec, stderr canonicalisation, the driver round trips that resolve the
model's environment queries against the real file system."""
import errno, glob, os, pwd, re, subprocess, threading
from concurrent.futures import ThreadPoolExecutor
import common
from common import hexs

MODES = ['robsd', 'robsd-cross', 'robsd-ports', 'robsd-regress', 'canvas']
PH = b'@R@'          # placeholder for the scratch root inside stored cases
NOUSER = 'nosuchuser9'

STRERR = {}
for _e in range(1, 134):
    try:
        STRERR.setdefault(os.strerror(_e).encode(), _e)
    except ValueError:
        pass

TOKNAMES = ['UNKNOWN', 'BOOLEAN', 'INTEGER', 'STRING', 'KEYWORD', 'LBRACE', 'RBRACE', 'COMMAND', 'ENV', 'HOURS', 'MINUTES', 'NO',
            'NO_PARALLEL', 'OBJ', 'PACKAGES', 'PARALLEL', 'QUIET', 'ROOT', 'SECONDS', 'TARGETS', 'YES', 'EOF']


def build_driver(ctx, name, withz=False):
    """build an extracted driver after compiling, under the framework's lock, the libraries its extraction file imports: the
    proof target of one property does not depend on all of them (cf: the schedule files; rl, st, ip: other areas)"""
    up = name.upper()
    text = common.strip_coq_comments(open(os.path.join(common.COQ, 'extract', 'Extract%s.v' % up)).read())
    targets = []
    for m in re.finditer(r'From\s+(Robsd|RobsdGen)\s+Require\s+(?:Import|Export)\s+(.*?)\.(?=\s|$)', text, re.S):
        for mod in m.group(2).split():
            targets.append(('theories/' if m.group(1) == 'Robsd' else 'gen/') + mod.replace('.', '/') + '.vo')
    if targets:
        with common.Lock(os.path.join(common.COQ, '.lock')):
            common.refresh_coqproject()
            r = common.sh(['timeout', '1500', 'make', '-j8'] + targets, cwd=common.COQ)
        if r.returncode != 0:
            raise common.BuildFailure('libraries of the %s driver do not build:\n%s' % (name, r.stdout[-1500:]))
    return ctx.build_driver(name, withz=withz)


def unlimited_stack(ctx, drv):
    """the extracted reader is not tail recursive over the lines of a template / the entries of a file (65536 template lines
    overflow the default 8 MiB stack): start the driver through a wrapper that lifts the limit"""
    d = ctx.mkscratch('drvwrap')
    w = os.path.join(d, os.path.basename(drv))
    open(w, 'w').write('#!/bin/sh\nulimit -s unlimited 2>/dev/null || ulimit -s 1000000 2>/dev/null\nexec %s "$@"\n' % drv)
    os.chmod(w, 0o755)
    return w


class World:
    """A scratch root with real directories, a plain file, glob targets; and the facts about this machine the
    model takes as inputs."""

    def __init__(self, ctx, impl):
        self.impl = impl
        self.dir = ctx.mkscratch('cfw')
        self.R = self.dir.encode()
        # root: no lock file; rroot: a lock file naming an invocation; eroot: empty lock file; nroot: no newline in it
        for d in ('root', 'rroot', 'eroot', 'nroot', 'd1', 'd2', 'root/sub', 'exec'):
            os.makedirs(os.path.join(self.dir, d))
        open(os.path.join(self.dir, 'rroot', '.running'), 'w').write('%s/rroot/2024-01-02.1\nsecond line\n' % self.dir)
        open(os.path.join(self.dir, 'eroot', '.running'), 'w').write('')
        open(os.path.join(self.dir, 'nroot', '.running'), 'w').write('no newline here')
        for f in ('f1', 'root/p-one.diff', 'root/p-two.diff', 'root/q.txt'):
            open(os.path.join(self.dir, f), 'w').write('x\n')
        os.makedirs(os.path.join(self.dir, 'cases'))
        self.ncpu = os.sysconf('SC_NPROCESSORS_ONLN')
        ch = open(os.path.join(impl, 'config.h')).read()
        self.machine = re.search(r'#define MACHINE\s+"([^"]*)"', ch).group(1).encode()
        self.arch = re.search(r'#define MACHINE_ARCH\s+"([^"]*)"', ch).group(1).encode()
        # egress addresses: an environment fact, read through the implementation once
        conf = os.path.join(self.dir, 'probe.conf')
        open(conf, 'w').write('robsddir "%s/root"\ncrossdir "x"\n' % self.dir)
        r = subprocess.run([os.path.join(impl, 'robsd-config'), '-m', 'robsd-cross', '-C', conf, '-'],
                           input=b'${inet}\n${inet6}\n', stdout=subprocess.PIPE, stderr=subprocess.PIPE)
        ls = r.stdout.split(b'\n')
        self.inet4, self.inet6 = (ls[0], ls[1]) if r.returncode == 0 and len(ls) >= 2 else (b'', b'')
        self.n = 0

    def sub(self, b):
        return b.replace(PH, self.R)

    def base_env(self, case):
        x = case.get('execdir')
        toks = ['x:' + ('!' if x is None else hexs(self.sub(bytes.fromhex(x)))), 'c:%d' % self.ncpu, '4:' + hexs(self.inet4),
                '6:' + hexs(self.inet6), 'M:' + hexs(self.machine), 'A:' + hexs(self.arch)]
        return toks

    def resolve(self, case, tok):
        """answer one environment query of the model from the real world"""
        kind, h = tok.split(':', 1)
        b = common.unhex(h)
        if kind == 'd':
            try:
                st = os.stat(b)
                import stat as S
                return 'd:%s:%s' % (h, 'd' if S.S_ISDIR(st.st_mode) else 'n')
            except OSError as e:
                return 'd:%s:e%d' % (h, e.errno)
            except ValueError:
                return 'd:%s:e%d' % (h, errno.ENOENT)
        if kind == 'u':
            try:
                pwd.getpwnam(b.decode('latin1'))
                return 'u:%s:1' % h
            except (KeyError, ValueError):
                return 'u:%s:0' % h
        if kind == 'g':
            if re.search(rb'[\[\]\\{}~]', b):
                raise RuntimeError('glob pattern outside the modelled subset: %r' % b)
            try:
                l = sorted(glob.glob(b))
            except Exception:
                l = []
            return 'g:%s:%s' % (h, 'n' if not l else 'm,' + ','.join(hexs(x) for x in l))
        if kind == 'f':
            try:
                return 'f:%s:%s' % (h, hexs(open(b, 'rb').read()))
            except (OSError, ValueError):
                return 'f:%s:!' % h
        raise RuntimeError('unknown query ' + tok)


def classify_line(line, conf):
    """one stderr line -> the canonical diagnostic string the driver prints"""
    if not line.startswith(b'robsd-config: ') and not line.startswith(b'robsd-step: ') and not line.startswith(b'robsd-exec: '):
        return 'other|0|' + hexs(line)
    rest = line.split(b': ', 1)[1]
    path, lno, msg = 'n', 0, rest
    for tag, pfx in (('c', conf), ('s', b'/dev/stdin')):
        if rest.startswith(pfx + b':'):
            r2 = rest[len(pfx) + 1:]
            m = re.match(rb'(\d+): (.*)$', r2, re.S)
            if m:
                path, lno, msg = tag, int(m.group(1)), m.group(2)
            elif r2.startswith(b' '):
                path, lno, msg = tag, 0, r2[1:]
            else:
                continue
            break
    else:
        m = re.match(rb'(\d+):(.*)$', rest, re.S)
        if m:
            lno, msg = int(m.group(1)), m.group(2)
    return '%s|%d|%s' % (path, lno, classify_msg(msg))


def classify_msg(msg):
    m = re.fullmatch(rb'want (\w+), got (\w+)', msg)
    if m and m.group(1).decode() in TOKNAMES and m.group(2).decode() in TOKNAMES:
        return 'want:%s:%s' % (m.group(1).decode(), m.group(2).decode())
    for pat, name in ((rb"unknown keyword '(.*)'", 'unknown_keyword'), (rb"variable '(.*)' already defined", 'already_defined'),
                      (rb"mandatory variable '(.*)' missing", 'mandatory_missing'), (rb"user '(.*)' not found", 'user_not_found'),
                      (rb"(.*): is not a directory", 'not_a_directory'), (rb"(.*): line not found", 'line_not_found'),
                      (rb"missing variable separator in '(.*)'", 'no_separator'), (rb"variable '(.*)' cannot be defined", 'cannot_define')):
        m = re.fullmatch(pat, msg, re.S)
        if m:
            return '%s:%s' % (name, hexs(m.group(1)))
    fixed = {b'integer too big': 'integer_too_big', b'unterminated string': 'unterminated_string', b'empty string': 'empty_string',
             b"mandatory step option 'command' missing": 'step_command_missing', b'unknown timeout unit': 'unknown_timeout_unit',
             b'timeout too large': 'timeout_too_large', b"invalid substitution, expected '{'": 'interp:brace',
             b"invalid substitution, expected '}'": 'interp:close', b'invalid substitution, empty variable name': 'interp:empty',
             b'invalid substitution, recursion too deep': 'interp:deep'}
    if msg in fixed:
        return fixed[msg]
    m = re.fullmatch(rb"invalid substitution, unknown variable '(.*)'", msg, re.S)
    if m:
        return 'interp:unknown:' + hexs(m.group(1))
    if msg.startswith(b'glob: '):
        return 'glob_error'
    best = None
    for text, num in STRERR.items():
        if msg.endswith(b': ' + text) and (best is None or len(text) > len(best[0])):
            best = (text, num)
    if best:
        return 'dir_error:%s:%d' % (hexs(msg[:-len(best[0]) - 2]), best[1])
    return 'other:' + hexs(msg)


def classify_stderr(err, conf):
    if not err:
        return []
    if err.endswith(b'\n'):
        err = err[:-1]
    # a message may quote a name that contains a newline: split only where a new message starts
    lines = re.split(rb'\n(?=robsd-(?:config|step|exec): )', err)
    return [classify_line(l, conf) for l in lines]


_nlock = threading.Lock()


def write_case_files(world, case):
    with _nlock:            # called from worker threads
        world.n += 1
        n = world.n
    conf = os.path.join(world.dir, 'cases', '%d.conf' % n)
    open(conf, 'wb').write(world.sub(bytes.fromhex(case['text'])))
    return conf


def impl_env(world, case):
    env = {'PATH': os.environ.get('PATH', '/usr/bin:/bin'), 'LC_ALL': 'C'}
    x = case.get('execdir')
    if x is not None:
        env['EXECDIR'] = world.sub(bytes.fromhex(x))
    return env


def run_config(world, case, conf, stdin):
    args = [os.path.join(world.impl, 'robsd-config'), '-m', case['mode'], '-C', conf]
    for v in case.get('vars', []):
        args += ['-v', bytes.fromhex(v)]
    args.append('-')
    try:
        r = subprocess.run(args, input=stdin, stdout=subprocess.PIPE, stderr=subprocess.PIPE, timeout=20, env=impl_env(world, case))
        return (r.returncode, r.stdout, r.stderr)
    except subprocess.TimeoutExpired:
        return (-999, b'', b'timeout')


def run_driver_par(drv, lines, procs=8):
    """common.run_driver over several driver processes: the questions are dealt round-robin (the expensive ones - long strings -
    come in runs), the answers put back in order.  The driver keeps no state between lines."""
    if len(lines) < 2 * procs:
        return common.run_driver(drv, lines)
    parts = [lines[i::procs] for i in range(procs)]
    with ThreadPoolExecutor(procs) as ex:
        outs = list(ex.map(lambda ls: common.run_driver(drv, ls), parts))
    res = [None] * len(lines)
    for i, o in enumerate(outs):
        res[i::procs] = o
    return res


def driver_rounds(world, drv, questions, cases, mkq):
    """questions: list of (case index, prefix tokens); the driver is asked with the base environment, every
    reported miss is resolved against the real world and the question repeated until no miss remains.
    mkq(prefix, envtoks) -> line.  Returns the final answer lines (without the miss tail)."""
    envs = [list(world.base_env(cases[ci])) for ci, _ in questions]
    answers = [None] * len(questions)
    todo = list(range(len(questions)))
    for _ in range(12):
        if not todo:
            break
        lines = [mkq(questions[i][1], envs[i]) for i in todo]
        out = run_driver_par(drv, lines)
        nxt = []
        for i, a in zip(todo, out):
            if ' ? ' in a or a.endswith(' ?'):
                head, tail = a.split(' ? ', 1) if ' ? ' in a else (a[:-2], '')
                for t in tail.split():
                    envs[i].append(world.resolve(cases[questions[i][0]], t))
                nxt.append(i)
                answers[i] = head
            else:
                answers[i] = a
        todo = nxt
    if todo:
        raise RuntimeError('environment queries of the model did not settle')
    return answers, envs
