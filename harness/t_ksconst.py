"""Translator T1 (C20 part): constants of the libks containers -> coq/gen/Gen_KsConst.v.

Anchored regular expressions on the source text; a pattern that no longer matches raises, and the
check reports the tie as broken (DESIGN.md 4.1)."""
import os, re


def one(text, pattern, what):
    m = re.findall(pattern, text, re.M)
    if len(m) != 1:
        raise ValueError('%s: pattern %r matched %d times' % (what, pattern, len(m)))
    return m[0]


def constants(repo):
    rd = lambda f: open(os.path.join(repo, 'libks', f)).read()
    vec, buf, mp = rd('vector.c'), rd('buffer.c'), rd('map.c')
    c = {}
    c['vector_init_cap'] = int(one(vec, r'^\s*newsiz = vc->vc_siz \? vc->vc_siz : (\d+);', 'vector.c initial capacity'))
    c['buffer_init_cap'] = int(one(buf, r'^\s*newsiz = bf->bf_siz \? bf->bf_siz : (\d+);', 'buffer.c initial capacity'))
    c['map_init_buckets'] = int(one(mp, r'^#define HASH_INITIAL_NUM_BUCKETS (\d+)U\b', 'map.c HASH_INITIAL_NUM_BUCKETS'))
    c['map_init_buckets_log2'] = int(one(mp, r'^#define HASH_INITIAL_NUM_BUCKETS_LOG2 (\d+)U\b', 'map.c HASH_INITIAL_NUM_BUCKETS_LOG2'))
    c['map_bkt_thresh'] = int(one(mp, r'^#define HASH_BKT_CAPACITY_THRESH (\d+)U\b', 'map.c HASH_BKT_CAPACITY_THRESH'))
    return c


def generate(repo):
    c = constants(repo)
    out = ['(* Gen_KsConst.v - GENERATED on every check by harness/t_ksconst.py from libks/{vector,buffer,map}.c.  Do not edit. *)',
           'From Coq Require Import ZArith.', 'Local Open Scope Z_scope.', '']
    for k in sorted(c):
        out.append('Definition %s : Z := %d.' % (k, c[k]))
    return {'Gen_KsConst.v': '\n'.join(out) + '\n'}


if __name__ == '__main__':
    import sys
    print(generate(sys.argv[1] if len(sys.argv) > 1 else '/repo')['Gen_KsConst.v'])
