"""Translator T1 (C20 part): constants of the libks containers -> coq/gen/Gen_KsConst.v.

Anchored regular expressions on the source text; a pattern that no longer matches raises, and the
check reports the tie as broken (DESIGN.md 4.1)."""
import os, re


def one(text, pattern, what):
    m = re.findall(pattern, text, re.M)
    if len(m) != 1:
        raise ValueError('%s: pattern %r matched %d times' % (what, pattern, len(m)))
    return m[0]


def constants(repo):
    rd = lambda f: open(os.path.join(repo, 'libks', f)).read()
    vec, buf, mp = rd('vector.c'), rd('buffer.c'), rd('map.c')
    c = {}
    c['vector_init_cap'] = int(one(vec, r'^\s*newsiz = vc->vc_siz \? vc->vc_siz : (\d+);', 'vector.c initial capacity'))
    c['buffer_init_cap'] = int(one(buf, r'^\s*newsiz = bf->bf_siz \? bf->bf_siz : (\d+);', 'buffer.c initial capacity'))
    c['map_init_buckets'] = int(one(mp, r'^#define HASH_INITIAL_NUM_BUCKETS (\d+)U\b', 'map.c HASH_INITIAL_NUM_BUCKETS'))
    c['map_init_buckets_log2'] = int(one(mp, r'^#define HASH_INITIAL_NUM_BUCKETS_LOG2 (\d+)U\b', 'map.c HASH_INITIAL_NUM_BUCKETS_LOG2'))
    c['map_bkt_thresh'] = int(one(mp, r'^#define HASH_BKT_CAPACITY_THRESH (\d+)U\b', 'map.c HASH_BKT_CAPACITY_THRESH'))
    return c


def size_expr(text, names, what):
    """a C size expression over the given lvalues, + * ( ) and decimal literals -> Gallina over Z; anything else raises"""
    toks = re.findall(r'sizeof\(\*?[a-z]+\)|[A-Za-z_][A-Za-z_0-9]*(?:(?:->|\.)[A-Za-z_][A-Za-z_0-9]*)*|\d+|[-+*/()%]|\S', text)
    out = []
    for t in toks:
        if t in names:
            out.append(names[t])
        elif t in '+*()':
            out.append(t)
        elif t.isdigit():
            out.append(t)
        else:
            raise ValueError('%s: token %r in %r is outside the supported size expressions' % (what, t, text))
    return ' '.join(out)


def old_sizes(repo):
    """the 'old size' argument the containers pass to their realloc callback (arena_realloc copies exactly that many bytes)"""
    rd = lambda f: open(os.path.join(repo, 'libks', f)).read()
    vec, buf = rd('vector.c'), rd('buffer.c')
    arg = one(vec, r'vc->vc_callbacks\.realloc\(vc,\s*([^,]+),\s*totlen,', 'vector.c realloc callback call')
    if arg.strip() != 'oldlen':
        raise ValueError('vector.c: realloc callback is passed %r as old size, expected the local oldlen' % arg)
    rhs = one(vec, r'^\s*oldlen = ([^;]+);', 'vector.c oldlen')
    vnames = {'sizeof(*vc)': 'hdr', 'vc->p.len': 'len', 'vc->vc_stride': 'stride', 'vc->vc_siz': 'siz'}
    v = size_expr(rhs, vnames, 'vector.c oldlen')
    barg = one(buf, r'bf->bf_callbacks\.realloc\(bf->bf_ptr,\s*([^,]+),\s*newsiz,', 'buffer.c realloc callback call')
    b = size_expr(barg, {'bf->bf_siz': 'siz', 'bf->bf_len': 'len'}, 'buffer.c realloc old size')
    return v, b, rhs.strip(), barg.strip()


def offsets(repo):
    """two more size expressions of buffer.c that the models use: how far one buffer_getline call advances its
    offset, and how many bytes buffer_vprintf reserves for a formatted string of n bytes"""
    buf = open(os.path.join(repo, 'libks', 'buffer.c')).read()
    adv = one(buf, r'^\s*getline->off \+= ([^;]+);', 'buffer.c buffer_getline_impl offset advance')
    g = size_expr(adv, {'linelen': 'linelen'}, 'buffer.c getline advance')
    res = one(buf, r'n < 0 \|\| buffer_reserve\(bf, \(size_t\)([^)]+)\)', 'buffer.c buffer_vprintf reservation')
    r = size_expr(res, {'n': 'n'}, 'buffer.c vprintf reservation')
    # the line handed out is the bytes up to the newline, NUL-terminated: pinned as text
    for pat, what in ((r'buffer_puts\(getline->bf, line, linelen\);\s*buffer_putc\(getline->bf, \'\\0\'\);', 'buffer_getline_impl copies linelen bytes and a NUL'),
                      (r'if \(getline->off >= bf->bf_len\)\s*goto done;', 'buffer_getline_impl end test'),
                      (r'newline = memchr\(line, \'\\n\', bf->bf_len - getline->off\);', 'buffer_getline_impl newline search')):
        one(buf, pat, 'buffer.c ' + what)
    return g, r, adv.strip(), res.strip()


def generate(repo):
    c = constants(repo)
    out = ['(* Gen_KsConst.v - GENERATED on every check by harness/t_ksconst.py from libks/{vector,buffer,map}.c.  Do not edit. *)',
           'From Coq Require Import ZArith.', 'Local Open Scope Z_scope.', '']
    for k in sorted(c):
        out.append('Definition %s : Z := %d.' % (k, c[k]))
    v, b, vsrc, bsrc = old_sizes(repo)
    vsrc, bsrc = vsrc.replace('(*', '( *').replace('*)', '* )'), bsrc.replace('(*', '( *').replace('*)', '* )')   # no comment delimiters inside the comment
    out += ['', '(* vector_reserve1: oldlen = %s; passed as old size to vc_callbacks.realloc *)' % vsrc,
            'Definition vector_oldlen (hdr len stride siz : Z) : Z := %s.' % v,
            '(* buffer_reserve: bf_callbacks.realloc(bf->bf_ptr, %s, newsiz, ...) *)' % bsrc,
            'Definition buffer_oldlen (len siz : Z) : Z := %s.' % b]
    g, r, gsrc, rsrc = offsets(repo)
    out += ['(* buffer_getline_impl: getline->off += %s *)' % gsrc,
            'Definition getline_advance (linelen : Z) : Z := %s.' % g,
            '(* buffer_vprintf: buffer_reserve(bf, (size_t)%s) *)' % rsrc,
            'Definition printf_reserve (n : Z) : Z := %s.' % r]
    return {'Gen_KsConst.v': '\n'.join(out) + '\n'}


if __name__ == '__main__':
    import sys
    print(generate(sys.argv[1] if len(sys.argv) > 1 else '/repo')['Gen_KsConst.v'])
