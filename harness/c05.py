"""C05 - a failed step is never hidden in the report: model/spec vs robsd-report -m <mode> -C <conf> <builddir>
(DESIGN.md 7, C05; shares model, extraction and fixtures with C18 through rp_common)."""
import json, os, shutil, signal, subprocess, tempfile, time
from concurrent.futures import ThreadPoolExecutor
import common, rp_common, orch_env

TRANSLATORS = ['t_report', 't_step', 't_interp', 't_shell']
TRUSTED = ['modelled, not verified: open/read/stat/readdir as delivered by the kernel, vsnprintf ("%s" and "%.*s" stop at a NUL byte, '
           '"%d", "%02d"), printf("%s", NULL) printing "(null)" (glibc; reached only without <builddir>/target in robsd-cross mode), '
           'qsort(3) on the Size: lines and the invocation directories (total orders: any sorting function gives the same result), '
           'strcmp/strchr/memchr/fnmatch of libc, gethostname (the host name is an input of the model); the configuration loader is '
           'exercised (five modes, regress suites with and without quiet), not modelled: the model receives robsddir, keep-dir, the '
           'regress list, canvas-name and MACHINE (read from the build\'s config.h)',
           'environment assumed for every case: <robsddir>/.running names the directory given on the command line (so ${builddir}/comment, '
           '/tags, /tmp are looked up there) or is absent; paths shorter than PATH_MAX; an unreadable file is produced as a missing file or '
           'as a directory (the checks run as uid 0); log lines never look like a section header ("> name" followed by "Exit: ") so that the '
           'harness can cut the report into sections (only to NAME the clause of a failed verdict: the verdict itself is spec_ok_bytes on exit status '
           'and standard output, C05_bytes_oracle_accepts_model); step names and log names come from the step file and hold no NUL, comma or newline',
           'status theorem hypotheses (explicit in C05_status_ok_iff): skipped rows carry exit 0 (regress, canvas); sequential modes: '
           'every non-skipped row other than the last non-skipped one has exit 0 - that the orchestrator only produces such files is '
           'proved (C05_status_orchestrated: entry scripts, sequential and parallel loop under every schedule, crashes and resumed runs, on the '
           'same rows of the step file); the status oracle is applied to the generated files meeting the hypotheses, the correspondence to every '
           'generated file (the generator also produces files no orchestrator writes)',
           'outside the property, by a predicate on the case (rp_common.outside_reason, argued there and in ReportSpec.v; C05_error_only_outside): a file '
           'that is a directory, a missing lock file, a passing dpb row without packages.diff, a regress row without log name - no oracle judges '
           'those cases, the correspondence with the model does.  A log that does NOT EXIST is inside (C05_never_hidden, D24)',
           'end-to-end lane: the real canvas script under bash with the stand-ins of harness/orch_env.py (tools/orch/robsd-wait, probe step commands, '
           'tools/shims) and, for the window between the in-flight record and tee\'s open, a tee on PATH that is never scheduled for one step']


def stats(res, c, rc, rep):
    rows = c['rows']
    failing = [i for i, r in enumerate(rows) if r['skip'] != 1 and r['exit'] != 0]
    work = [i for i, r in enumerate(rows) if r['skip'] != 1]
    if not failing:
        pos = 'none'
    elif len(failing) > 1:
        pos = 'several'
    elif failing[0] == work[0] and failing[0] == work[-1]:
        pos = 'only'
    elif failing[0] == work[0]:
        pos = 'first'
    elif failing[0] == work[-1]:
        pos = 'last'
    else:
        pos = 'middle'
    res.count('failure=%s' % pos)
    for i in failing:
        e = rows[i]['exit']
        res.count('exit_code=%s' % (e if e in (-1, 1, 2, 124, 127, 255) else 'wide'))
    # the hypotheses of C05_status_ok_iff (discharged for orchestrator-written files by C05_status_orchestrated):
    # where they hold the status oracle judges the implementation, elsewhere only the correspondence does
    if c['mode'] in ('robsd-regress', 'canvas'):
        hyp = all(r['exit'] == 0 for r in rows if r['skip'] == 1)
    else:
        hyp = all(all(x['skip'] == 1 for x in rows[i + 1:]) for i in failing)
    res.count('status_hypotheses=%s' % ('hold (oracle judges)' if hyp else 'violated (correspondence only)'))
    if rp_common.d24_shape(c):
        res.count('a failing row names a log that does not exist (D24 class)')
    if rp_common.d25_shape(c):
        res.count('failing cvs row of a regress invocation with src cvs logs (D25 class)')
    if any(r['skip'] == 1 for r in rows):
        res.count('has_skipped_row')
    if any(r['name'] == 'end' for r in rows):
        res.count('has_end_row')
    for name, content in c['logs'].items():
        if content is None:
            res.count('log=missing')
        elif content == 'U':
            res.count('log=directory')
        else:
            b = rp_common.cbytes(content)
            n = b.count(b'\n')
            if b'\x00' in b:
                res.count('log=nul')
            if b'\r' in b:
                res.count('log=cr')
            if not b:
                res.count('log=empty')
            elif not b.endswith(b'\n'):
                res.count('log=no-trailing-newline')
            if b.endswith(b'\n\n'):
                res.count('log=trailing-blank-lines')
            if b and all(l.startswith(b'+') for l in b.split(b'\n') if l):
                res.count('log=trace-only')
            if b'====' in b or b'===>' in b:
                res.count('log=regress-markers')
            res.count('log_lines=%s' % (n if n in (0, 1, 9, 10, 11) else 'other'))
            if len(b) >= 65536:
                res.count('log>=64KiB')
    if len(rows) > 17:
        res.count('rows>17')
    if rep is not None:
        res.count('sections=%s' % (len(rep['sections']) if len(rep['sections']) < 4 else '4+'))


def run_cases(ctx, cases, res):
    impl = ctx.build_impl()
    drv = rp_common.build_rp_driver(ctx)
    chunk = 1500
    for i in range(0, len(cases), chunk):
        for c, rc, out, rep, verdict in rp_common.evaluate(ctx, 'C05', cases[i:i + chunk], res, impl, drv):
            stats(res, c, rc, rep)
            if rc == 0 and rep is not None and (rep['sections'] or rep['status'] != b'ok'):
                res.nontrivial.add(rp_common.case_key(c))
    return res


# ---------------------------------------------------------------- end-to-end lane: step files the orchestrator really wrote

E2E_SCENARIOS = ['complete', 'seq-failure', 'parallel-failure', 'killed-in-flight', 'killed-before-tee', 'killed-before-tee-after-failure']


def gen_e2e(rng, kind=None):
    kind = kind or rng.choice(E2E_SCENARIOS)
    n = rng.choice([2, 3, 4])
    steps = [{'name': 's%d' % i, 'parallel': False} for i in range(1, n + 1)]
    codes = {s['name']: 0 for s in steps}
    sc = {'kind': kind, 'steps': steps, 'codes': codes, 'kill': None, 'notee': None, 'skip': []}
    if rng.random() < 0.3:
        sc['skip'] = [steps[0]['name']]
    if kind == 'seq-failure':
        codes[steps[rng.randrange(n)]['name']] = rng.choice([1, 2, 124, 255])
    elif kind == 'parallel-failure':
        steps[0]['parallel'] = steps[1]['parallel'] = True
        codes[steps[0]['name']] = rng.choice([1, 3])
        sc['skip'] = []
    elif kind == 'killed-in-flight':
        sc['kill'] = steps[rng.randrange(n)]['name']
    elif kind == 'killed-before-tee':
        sc['notee'] = steps[rng.randrange(1, n)]['name']
    elif kind == 'killed-before-tee-after-failure':
        steps[0]['parallel'] = steps[1]['parallel'] = True
        codes[steps[0]['name']] = rng.choice([1, 3])
        if n == 2:
            steps.append({'name': 's3', 'parallel': False})
            codes['s3'] = 0
        sc['notee'] = steps[2]['name']
        sc['skip'] = []
    return sc


def e2e_one(ctx, impl, sc, root_work):
    """runs the real canvas script on probe steps, kills it where the scenario says, returns what it left behind:
    (case-like dict for the fixture tokens, work dir, Canvas)"""
    work = tempfile.mkdtemp(dir=root_work)
    cv = orch_env.Canvas(ctx, impl, work, sc['steps'], skip=sc['skip'], ncpu=2)
    env = cv.env()
    if sc['notee']:
        # a tee that is never scheduled for the log of one step: the window between the in-flight record of step_exec_job
        # and tee's open(2) stays open until the invocation is killed (same device as tools/regresslog/latetee)
        bindir = os.path.join(work, 'bin')
        os.makedirs(bindir)
        i = [s['name'] for s in sc['steps']].index(sc['notee']) + 1
        open(os.path.join(bindir, 'tee'), 'w').write('#!/bin/sh\ncase "$1" in */%03d-%s.log) exec sleep 100000;; esac\nexec /usr/bin/tee "$@"\n' % (i, sc['notee']))
        os.chmod(os.path.join(bindir, 'tee'), 0o755)
        env['PATH'] = bindir + ':' + env['PATH']
    proc = subprocess.Popen(['bash', os.path.join(impl, 'canvas'), '-C', cv.conf, '-d'], env=env, cwd=work,
                            stdout=subprocess.PIPE, stderr=subprocess.STDOUT, start_new_session=True)
    stop_at = sc['kill'] or sc['notee']
    names = [s['name'] for s in sc['steps']]
    try:
        deadline = time.time() + 25
        opened = set()
        while time.time() < deadline and proc.poll() is None:
            started = [t[1] for t in cv.trace() if t[0] == 'start']
            bds = cv.builddirs()
            rows = cv.rows(bds[0]) if bds else []
            if sc['notee'] and any(r['name'] == sc['notee'] and r['exit'] == '-1' for r in rows):
                time.sleep(0.05)
                break
            for nm in started:
                if nm == sc['kill']:
                    continue
                if nm not in opened:
                    cv.open_gate(nm, sc['codes'][nm])
                    opened.add(nm)
            if sc['kill'] and sc['kill'] in started:
                time.sleep(0.05)
                break
            time.sleep(0.005)
        killed = False
        if proc.poll() is None:
            cv.kill_all(proc)
            killed = True
    finally:
        cv.reap_strays()
        if proc.poll() is None:
            cv.kill_all(proc)
    bds = cv.builddirs()
    if not bds:
        return None
    bd = bds[0]
    # the lock of a killed invocation is still there; a finished one released it after making its report: put it back, the
    # report is made while the lock is held
    lock = os.path.join(cv.root, '.running')
    if not os.path.exists(lock):
        open(lock, 'w').write(bd + '\n')
    rows = []
    for r in cv.rows(bd):
        rows.append({'step': int(r['step']), 'name': r['name'], 'exit': int(r['exit']), 'duration': int(r['duration']), 'delta': int(r['delta']),
                     'log': r['log'], 'user': r['user'], 'time': int(r['time']), 'skip': int(r['skip'])})
    logs = {}
    for r in rows:
        if r['log']:
            p = os.path.join(bd, r['log'])
            logs[r['log']] = open(p, 'rb').read().hex() if os.path.isfile(p) else None
    case = {'mode': 'canvas', 'rows': rows, 'logs': logs, 'tmp': {n: None for n in rp_common.CVS_TMP}, 'comment': None, 'tags': None, 'target': None,
            'regress': [], 'running': True, 'step_present': True, 'builddir': os.path.basename(bd), 'others': [], 'rel': None, 'prevrel': {},
            'created': [os.path.basename(bd)], 'e2e': dict(sc, killed=killed)}
    return case, work, cv


def e2e_lane(ctx, impl, drv, res, n):
    """C05 on step files and logs the real orchestrator wrote: canvas with probe steps, completed / failed / killed in flight / killed
    between the in-flight record and tee's open; then the real robsd-report on the directory, the model on the same files, the oracle"""
    import glob
    scs = [json.load(open(p)) for p in sorted(glob.glob(os.path.join(common.VERIF, 'corpus', 'C05', 'e2e-*.json')))]
    scs += [gen_e2e(ctx.rng, kind=k) for k in E2E_SCENARIOS] + [gen_e2e(ctx.rng) for _ in range(max(0, n - len(E2E_SCENARIOS)))]
    root_work = ctx.mkscratch('c05e2e')
    host, machine = rp_common.hostname(), rp_common.machine_of(impl)
    with ThreadPoolExecutor(6) as ex:
        obs = list(ex.map(lambda sc: e2e_one(ctx, impl, sc, root_work), scs))
    qs, kept = [], []
    for sc, ob in zip(scs, obs):
        res.count('e2e scenario=%s' % sc['kind'])
        if ob is None:
            res.tie_errors.append('end-to-end lane: canvas left no build directory for scenario %s' % json.dumps(sc)[:300])
            continue
        case, work, cv = ob
        toks = rp_common.fixture_tokens(case, work, host, machine, root=cv.root, canvas_name=b't')
        r = subprocess.run([os.path.join(impl, 'robsd-report'), '-m', 'canvas', '-C', cv.conf, os.path.join(cv.root, case['builddir'])],
                           stdout=subprocess.PIPE, stderr=subprocess.PIPE, timeout=30)
        rep = rp_common.parse_report(r.stdout) if r.returncode == 0 else None
        qs.append('report ' + ' '.join(toks))
        qs.append(rp_common.oracle_line(toks, r.returncode, r.stdout, rep, True, None))
        kept.append((sc, case, r, rep))
    ans = common.run_driver(drv, qs, timeout=600) if qs else []
    for i, (sc, case, r, rep) in enumerate(kept):
        model, verdict = ans[2 * i], ans[2 * i + 1]
        res.evaluations += 1
        impl_s = '%d %s' % (r.returncode, common.hexs(r.stdout))
        if model != impl_s:
            res.disagreements.append({'case': case, 'what': 'robsd-report on a directory the orchestrator wrote', 'model': model[:400], 'impl': impl_s[:400],
                                      'stderr': r.stderr[-200:].decode('latin1')})
        if any(x['exit'] == -1 for x in case['rows']):
            res.count('e2e: in-flight record in the step file')
        if rp_common.d24_shape(case):
            res.count('e2e: in-flight record whose log tee never created')
        elif sc['notee']:
            res.tie_errors.append('end-to-end lane: scenario %s did not leave a row whose log is missing' % sc['kind'])
        rp_common.judge('C05', res, case, verdict, r.returncode, r.stdout, r.stderr, rep)
        if r.returncode == 0 and rep is not None and (rep['sections'] or rep['status'] != b'ok'):
            res.nontrivial.add(rp_common.case_key({k: v for k, v in case.items() if k != 'e2e'}))
    shutil.rmtree(root_work, ignore_errors=True)


def run(ctx, n=None):
    res = common.Result()
    res.rule = ('build directories generated per mode from the case splits of the proofs: failure position none/first/middle/last/several, '
                'exit in {-1,1,2,124,127,255,beyond int}, skipped rows before and after, end row present/absent, in-flight -1 rows, missing/empty/1/9/10/11/many-line '
                'logs up to 1 MiB, no final newline, trace-only, blank lines at either end, NUL and CR bytes, regress markers and outcome keywords, suite names that '
                'are prefixes of one another, more than 17 rows, cvs logs present/empty/missing/a directory, comment/tags/target variants, missing lock file or step '
                'file; plus build directories written by the real canvas script (completed, failed, killed in flight, killed between the in-flight record and '
                'tee\'s open); about 5 % of the generated cases and corpus/C05/b05_*.json (one family per file) come from the boundary classes of rp_common ("class: ..." in '
                'the input distribution): log lines / logs / excerpts of 0, 1, 254..256, 1023..1025, 4095..4097, 8191..8193, 65535/65536 bytes, 0..256 lines, the tenth-from-last '
                'line at a block boundary, runs of NUL / CR / newlines, trace-only logs of a block size, comment / tags / target / cvs logs at those lengths, step names up to '
                '8193 and log names up to 3900 bytes, names next to cvs / dpb / checkflist / end / a suite, names with blanks or shell syntax, 0..256 rows / failing / '
                'skipped / trailing skipped rows; non-trivial = a report was produced with at least one section or a non-ok status; distinct by content hash of the case')
    n = n or ctx.budget(450, 12000)
    cases = rp_common.load_corpus('C05') + [rp_common.gen_case(ctx.rng) for _ in range(n)]
    res.samples = [{'mode': c['mode'], 'rows': c['rows'][:3]} for c in cases[:3]]
    res.assumptions = ['bytes 0..255; up to 259 rows, logs up to 1 MiB, step names up to 8193 bytes (the model\'s step-file reader is too slow beyond), regress test '
                       'blocks up to 16 KiB, log paths below PATH_MAX in the correspondence (the theorems have no bound)']
    run_cases(ctx, cases, res)
    ctx.shims_used = orch_env.SHIMS_USED
    e2e_lane(ctx, ctx.build_impl(), rp_common.build_rp_driver(ctx), res, ctx.budget(12, 120))
    res.traces_validated = res.evaluations
    return res


def extended_search(ctx, res, proof):
    more = common.Result()
    cases = [rp_common.gen_case(ctx.rng) for _ in range(6000)]
    return run_cases(ctx, cases, more)


def replay(ctx, rep):
    case = rep.get('case') or {}
    if isinstance(case, dict) and case.get('e2e'):
        # a case of the end-to-end lane: the directory the orchestrator left is in the case (rows, logs); replay it as a fixture
        case = {k: v for k, v in case.items() if k != 'e2e'}
        rep = dict(rep, case=case)
    return rp_common.replay(ctx, 'C05', rep)
