"""C05 - a failed step is never hidden in the report: model/spec vs robsd-report -m <mode> -C <conf> <builddir>
(DESIGN.md 7, C05; shares model, extraction and fixtures with C18 through rp_common)."""
import json, os
import common, rp_common

TRANSLATORS = ['t_report', 't_step', 't_interp', 't_shell']
TRUSTED = ['modelled, not verified: open/read/stat/readdir as delivered by the kernel, vsnprintf ("%s" and "%.*s" stop at a NUL byte, '
           '"%d", "%02d"), printf("%s", NULL) printing "(null)" (glibc; reached only without <builddir>/target in robsd-cross mode), '
           'qsort(3) on the Size: lines and the invocation directories (total orders: any sorting function gives the same result), '
           'strcmp/strchr/memchr/fnmatch of libc, gethostname (the host name is an input of the model); the configuration loader is '
           'exercised (five modes, regress suites with and without quiet), not modelled: the model receives robsddir, keep-dir, the '
           'regress list, canvas-name and MACHINE (read from the build\'s config.h)',
           'environment assumed for every case: <robsddir>/.running names the directory given on the command line (so ${builddir}/comment, '
           '/tags, /tmp are looked up there) or is absent; paths shorter than PATH_MAX; an unreadable file is produced as a missing file or '
           'as a directory (the checks run as uid 0); log lines never look like a section header ("> name" followed by "Exit: ") so that the '
           'harness can cut the report into sections; step names and log names come from the step file and hold no NUL, comma or newline',
           'status theorem hypotheses (explicit in C05_status_ok_iff): skipped rows carry exit 0 (regress, canvas); sequential modes: '
           'every non-skipped row other than the last non-skipped one has exit 0 - that the orchestrator only produces such files is '
           'proved (C05_status_orchestrated: entry scripts, sequential and parallel loop under every schedule, crashes and resumed runs, on the '
           'same rows of the step file); the status oracle is applied to the generated files meeting the hypotheses, the correspondence to every '
           'generated file (the generator also produces files no orchestrator writes)',
           'no report at all (exit 1, empty output) when a file of a listed row cannot be read is the specified behaviour (C05_report_main_silent): '
           'outside the property for the orchestrator\'s own files (tee creates every log); counted in the input distribution']


def stats(res, c, rc, rep):
    rows = c['rows']
    failing = [i for i, r in enumerate(rows) if r['skip'] != 1 and r['exit'] != 0]
    work = [i for i, r in enumerate(rows) if r['skip'] != 1]
    if not failing:
        pos = 'none'
    elif len(failing) > 1:
        pos = 'several'
    elif failing[0] == work[0] and failing[0] == work[-1]:
        pos = 'only'
    elif failing[0] == work[0]:
        pos = 'first'
    elif failing[0] == work[-1]:
        pos = 'last'
    else:
        pos = 'middle'
    res.count('failure=%s' % pos)
    for i in failing:
        e = rows[i]['exit']
        res.count('exit_code=%s' % (e if e in (-1, 1, 2, 124, 127, 255) else 'wide'))
    # the hypotheses of C05_status_ok_iff (discharged for orchestrator-written files by C05_status_orchestrated):
    # where they hold the status oracle judges the implementation, elsewhere only the correspondence does
    if c['mode'] in ('robsd-regress', 'canvas'):
        hyp = all(r['exit'] == 0 for r in rows if r['skip'] == 1)
    else:
        hyp = all(all(x['skip'] == 1 for x in rows[i + 1:]) for i in failing)
    res.count('status_hypotheses=%s' % ('hold (oracle judges)' if hyp else 'violated (correspondence only)'))
    if rc == 1 and failing and c.get('running', True) and c.get('step_present', True):
        res.count('caveat: a step failed and a file of a listed row is missing: no report at all, as specified (C05_report_main_silent)')
    if any(r['skip'] == 1 for r in rows):
        res.count('has_skipped_row')
    if any(r['name'] == 'end' for r in rows):
        res.count('has_end_row')
    for name, content in c['logs'].items():
        if content is None:
            res.count('log=missing')
        else:
            b = bytes.fromhex(content)
            n = b.count(b'\n')
            if b'\x00' in b:
                res.count('log=nul')
            if b'\r' in b:
                res.count('log=cr')
            if not b:
                res.count('log=empty')
            elif not b.endswith(b'\n'):
                res.count('log=no-trailing-newline')
            if b.endswith(b'\n\n'):
                res.count('log=trailing-blank-lines')
            if b and all(l.startswith(b'+') for l in b.split(b'\n') if l):
                res.count('log=trace-only')
            if b'====' in b or b'===>' in b:
                res.count('log=regress-markers')
            res.count('log_lines=%s' % (n if n in (0, 1, 9, 10, 11) else 'other'))
    if rep is not None:
        res.count('sections=%s' % (len(rep['sections']) if len(rep['sections']) < 4 else '4+'))


def run_cases(ctx, cases, res):
    impl = ctx.build_impl()
    drv = rp_common.build_rp_driver(ctx)
    chunk = 1500
    for i in range(0, len(cases), chunk):
        for c, rc, out, rep, verdict in rp_common.evaluate(ctx, 'C05', cases[i:i + chunk], res, impl, drv):
            stats(res, c, rc, rep)
            if rc == 0 and rep is not None and (rep['sections'] or rep['status'] != b'ok'):
                res.nontrivial.add(rp_common.case_key(c))
    return res


def run(ctx, n=None):
    res = common.Result()
    res.rule = ('build directories generated per mode from the case splits of the proofs: failure position none/first/middle/last/several, '
                'exit in {-1,1,2,124,127,255,beyond int}, skipped rows before and after, end row present/absent, in-flight -1 rows, missing/empty/1/9/10/11/many-line '
                'logs, no final newline, trace-only, blank lines at either end, NUL and CR bytes, regress markers and outcome keywords, cvs logs present/empty/'
                'missing, comment/tags/target variants, missing lock file or step file; non-trivial = a report was produced with at least one section or '
                'a non-ok status; distinct by content hash of the case')
    n = n or ctx.budget(450, 12000)
    cases = rp_common.load_corpus('C05') + [rp_common.gen_case(ctx.rng) for _ in range(n)]
    res.samples = [{'mode': c['mode'], 'rows': c['rows'][:3]} for c in cases[:3]]
    res.assumptions = ['bytes 0..255; up to 17 rows and logs up to ~14 kB in the correspondence (the theorems have no bound)']
    run_cases(ctx, cases, res)
    res.traces_validated = res.evaluations
    return res


def extended_search(ctx, res, proof):
    more = common.Result()
    cases = [rp_common.gen_case(ctx.rng) for _ in range(6000)]
    return run_cases(ctx, cases, more)


def replay(ctx, rep):
    return rp_common.replay(ctx, 'C05', rep)
