#!/bin/bash
# replay of the witnesses of Conf/ConfDocWitness.v on the real robsd-config
I=$1; W=$2; R=$W/r
run() { # mode conf template [-v ...]
  local m=$1 conf=$2 t=$3; shift 3
  printf '%b' "$conf" > $W/c.conf
  printf '%b' "$t" | env -u EXECDIR $I/robsd-config -m $m -C $W/c.conf "$@" - 2>&1 | sed "s#$W#<W>#g"; echo "  -> exit ${PIPESTATUS[1]}"
}
RM="robsddir \"$R\"\ndestdir \"$R\"\n"; GM="robsddir \"$R\"\nregress \"a\"\n"; CM="robsddir \"$R\"\ncrossdir \"x\"\n"
PM() { printf 'robsddir "%s"\\nchroot "%s"\\nports-user "root"\\nports { "p" }\\n' $R $1; }
echo "# XC_undocumented_variable"; run robsd "$RM" '${build-user} [${trace}] ${exec-dir}\n'
run robsd "${RM}bsd-srcdir \"\${trace}$R\"\n" 'accepted\n'
run robsd-regress "$GM" '${regress-a-targets} ${regress-a-parallel}\n'
echo "# XC_documented_without_row"; run robsd-regress "$GM" '${regress-obj}\n'; run robsd-regress "$GM" '${regress-a-quiet}\n'; run robsd-regress "$GM" '${regress-a-root}\n'; run robsd-cross "$CM" '${target}\n'
run robsd-regress "robsddir \"$R\"\nregress \"a\" quiet obj { \"o\" }\n" '${regress-a-quiet} ${regress-obj}\n'
echo "# XC_directory_not_checked"; run robsd-ports "$(PM /nonexistent)" 'accepted ${chroot}\n'; run robsd-ports "$(PM $R)ports-dir \"/nonexistent\"\n" 'accepted ${ports-dir}\n'
run robsd "robsddir \"$R\"\ndestdir \"/nonexistent\"\n" 'accepted\n'
echo "# XC_repeatable_undocumented"; run robsd-regress "${GM}regress-env { \"A=1\" }\nregress-env { \"B=2\" }\n" '${regress-env}\n'
run robsd-regress "${GM}parallel yes\nparallel no\n" '${parallel}\n'
echo "# XC_default_text"; run robsd-regress "$GM" '${regress-user}\n'; run robsd-regress "$GM" '${regress-user}\n' -v build-user=x
echo "# XC_representation"; run robsd "$RM" '${reboot}\n'; run robsd-regress "$GM" '${rdonly}\n'
echo "# token s"; run robsd "${RM}s\n" 'x\n'; run robsd "${RM}keep 1 s\n" 'x\n'
echo "# canvas step without command"; run canvas "canvas-name \"x\"\ncanvas-dir \"$R\"\nstep \"a\"\n" 'x\n'; run canvas "canvas-name \"x\"\ncanvas-dir \"$R\"\nstep \"a\" parallel\n" 'x\n'
echo "# glob without match, twice"; run robsd "${RM}bsd-diff \"$R/nomatch-*\"\nbsd-diff \"$R/nomatch2-*\"\n" '[${bsd-diff}]\n'
echo "# crossdir: the example of the page"; run robsd-cross "robsddir \"$R\"\ncrossdir \"/home/robsd-cross/\${target}\"\n" '${crossdir}\n' -v target=amd64
