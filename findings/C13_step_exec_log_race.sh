#!/bin/bash
# Demonstration: util.sh step_exec decides "failed regress run" from a log that tee is still writing.
# usage: bash C13_step_exec_log_race.sh [tree]      (tree = a checkout with util.sh, util-regress.sh and a built
#                                                    robsd-regress-log; default: a scratch build of $VERIF_REPO or /repo)
# Prints how often a step whose runner exits 0 and whose log ends in "x FAILED" is returned as 0 (passed):
#   lane 1: 300 runs on an idle machine, lane 2: 300 runs with one busy loop per CPU, lane 3: 5 runs with a tee
#   that starts 0.2 s late (tools/regresslog/latetee/tee).  Expected for a correct step_exec: 0 misses in every lane.
set -u
V=/verif
tree=${1:-}
if [ -z "$tree" ]; then
	tree=$(mktemp -d /tmp/c13race.XXXXXX); trap 'rm -rf "$tree" "$work"' EXIT
	"$V/bin/build-impl" "$tree" >/dev/null 2>&1 || { echo "build failed"; exit 2; }
fi
work=$(mktemp -d /tmp/c13racew.XXXXXX)
[ -n "${1:-}" ] && trap 'rm -rf "$work"' EXIT
lane() {   # name n late
	local n=$2 i=0
	rm -rf "$work"/*; while [ $i -lt $n ]; do
		printf '+ make regress\n==== t1 ====\nok\n==== t2 ====\nx FAILED\n' >"$work/$i.log"
		echo 0 >"$work/$i.rc"; echo robsd-regress >"$work/$i.mode"; [ "$3" = late ] && : >"$work/$i.late"
		i=$((i + 1)); done
	echo "$1: $(bash "$V/tools/regresslog/step_exec_cases.sh" "$tree" "$work" "$n" | grep -c ' 0$') of $n runs returned 0 for a log with a FAILED line"
}
lane "idle machine" 300 -
pids=""; for j in $(seq 1 "$(nproc)"); do (while :; do :; done) & pids="$pids $!"; done
sleep 0.2; lane "one busy loop per cpu" 300 -
kill $pids 2>/dev/null; wait 2>/dev/null
lane "tee scheduled 0.2 s late" 5 late
