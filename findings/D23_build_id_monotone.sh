#!/bin/bash
# Replay for findings/D23_build_id_monotone.md on the REAL scripts.
# usage: D23_build_id_monotone.sh <built copy of the repository> [keep2|tenth|report|all]
#   <built copy> = a directory made by /verif/bin/build-impl (helpers compiled, scripts next to them)
# Needs /verif/tools/shims (date via VERIF_FAKE_DATE, BSD stat/find stand-ins, chflags, logname, sendmail,
# robsd-clean wrapper).  Everything happens below a mktemp directory that is removed at the end.
set -u
IMPL=${1:?usage: $0 <built copy> [keep2|tenth|report|all]}
WHAT=${2:-all}
SHIMS=/verif/tools/shims
W=$(mktemp -d /tmp/d23.XXXXXX)
trap 'rm -rf "$W"' EXIT
export PATH="$SHIMS:$PATH" EXECDIR="$IMPL" ROBSDCLEAN="$SHIMS/robsd-clean" TMPDIR="$W/tmp"
mkdir -p "$W/tmp"
DAY=2024-03-05
export VERIF_FAKE_DATE=$DAY

state() {	# root
	printf '   root: %s\n' "$(cd "$1" && ls -d $DAY.* 2>/dev/null | tr '\n' ' ')"
	printf '   who is who: '
	for d in "$1"/$DAY.*; do [ -f "$d/comment" ] && printf '%s=%s ' "${d##*/}" "$(cat "$d/comment")"; done
	printf '\n'
	printf '   robsd-ls (the order every consumer uses): %s\n' \
	    "$("$IMPL/robsd-ls" -m canvas -C "$W/conf" | sed 's,.*/,,' | tr '\n' ' ')"
	if [ -d "$1/attic" ]; then
		printf '   attic: '
		(cd "$1/attic" && find . -name comment | sort | while read -r f; do printf '%s=%s ' "${f%/comment}" "$(cat "$f")"; done)
		printf '\n'
	fi
}

run() {	# root n
	printf 'run-%d' "$2" >"$W/comment"
	out=$(bash "$IMPL/canvas" -d -c "$W/comment" -C "$W/conf" 2>&1)
	printf 'run %d: %s\n' "$2" "$(printf '%s\n' "$out" | sed -n 's,.*using directory .*/\([^ ]*\) at step.*,build_id -> \1,p')"
	printf '%s\n' "$out" | sed -n 's,.*\(moving [^ ]*\) to .*,   robsd-clean: \1,p' | sed "s,$1/,,"
	state "$1"
}

keep2() {
	echo "=== (a) keep 2, keep-attic yes, seven complete invocations on $DAY (each ends before the next starts)"
	R="$W/root"; mkdir "$R"
	cat >"$W/conf" <<EOF
canvas-name "test"
canvas-dir "$R"
keep 2
keep-attic yes
step "a" command { "true" }
EOF
	for n in 1 2 3 4 5 6 7; do run "$R" $n; done
	echo "--- expected by the property texts: after run 7 the root holds run 7 and run 6; the attic holds runs 1-5, one"
	echo "    directory each.  Observed: see the last state above."
	rm -rf "$R"
}

tenth() {
	echo "=== (b) keep 9, keep-attic yes, eleven complete invocations on $DAY (the tenth name sorts below the ninth)"
	R="$W/root"; mkdir "$R"
	cat >"$W/conf" <<EOF
canvas-name "test"
canvas-dir "$R"
keep 9
keep-attic yes
step "a" command { "true" }
EOF
	for n in 1 2 3 4 5 6 7 8 9 10 11; do run "$R" $n >"$W/log" 2>&1; [ $n -ge 9 ] && cat "$W/log"; done
	echo "--- expected: run 11 archives run 2 and keeps runs 3-11.  Observed: see the last state above."
	rm -rf "$R"
}

report() {
	echo "=== (c) robsd-report: which invocation the Size: lines are compared with (report.c previous_builddir)"
	R="$W/rr"; A="$W/aux"; mkdir "$R" "$A"
	cat >"$W/rconf" <<EOF
robsddir "$R"
destdir "$A"
bsd-srcdir "$A"
cvs-root "example.com:/cvs"
cvs-user "nobody"
x11-srcdir "$A"
EOF
	mk() {	# name size-of-rel/bsd
		mkdir -p "$R/$1/rel" "$R/$1/tmp"
		truncate -s "$2" "$R/$1/rel/bsd"
		printf 'step,name,exit,duration,delta,log,user,time,skip\n1,env,0,1,0,,root,1700000000,0\n2,end,0,1,0,,root,1700000001,0\n' >"$R/$1/step.csv"
	}
	mk $DAY.9  1000000	# ninth invocation of the day
	mk $DAY.10 5000000	# tenth: the one before the current one
	mk $DAY.11 5000000	# current: same size as the tenth, 4 MB more than the ninth
	echo "$R/$DAY.11" >"$R/.running"
	echo "   rel/bsd: .9 = 1000000 bytes, .10 = 5000000 bytes, .11 (current) = 5000000 bytes"
	echo "   robsd-ls -B: $("$IMPL/robsd-ls" -m robsd -C "$W/rconf" -B | sed 's,.*/,,' | tr '\n' ' ')"
	"$IMPL/robsd-report" -m robsd -C "$W/rconf" "$R/$DAY.11" | grep -E '^(Build|Size):' | sed "s,$R/,,"
	echo "--- expected: no Size: line (nothing changed since the previous invocation .10); observed: compared with .9"
	rm -rf "$R" "$A"
}

case "$WHAT" in
keep2)	keep2;;
tenth)	tenth;;
report)	report;;
all)	keep2; tenth; report;;
esac
