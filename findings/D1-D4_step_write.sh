#!/bin/bash
# Demonstrations for C01 (run: bash D1-D4_step_write.sh <dir with robsd-step>)
# Each case prints what happened; exit status = number of violations seen.
B=${1:-/repo}/robsd-step
T=$(mktemp -d); trap 'rm -rf $T' EXIT
bad=0
w() { "$B" -W -f "$T/s.csv" -i "$1" -- "${@:2}"; }
r() { echo "$2" | "$B" -R -f "$T/s.csv" -i "$1"; }
fresh() { : >"$T/s.csv"; w 1 name=one exit=0 duration=1 user=root time=10 >/dev/null 2>&1; }

fresh; w 2 'name=a,b' exit=0 duration=1 user=root time=10 2>/dev/null; rc=$?
if [ $rc -eq 0 ] && ! r 1 '${name}' >/dev/null 2>&1; then echo "D1: write of name='a,b' exited 0 and the file is now unreadable"; bad=$((bad+1)); fi
fresh; w 2 'name=' exit=0 duration=1 user=root time=10 2>/dev/null; rc=$?
if [ $rc -eq 0 ] && ! r 1 '${name}' >/dev/null 2>&1; then echo "D2: write of empty name exited 0 and the file is now unreadable"; bad=$((bad+1)); fi
fresh; w 2 'name=${user}' exit=0 duration=1 user=root time=10 2>/dev/null; rc=$?
got=$(r 2 '${name}' 2>/dev/null)
if [ $rc -eq 0 ] && [ "$got" != '${user}' ]; then echo "D3: wrote name='\${user}', read back '$got'"; bad=$((bad+1)); fi
fresh
( trap '' XFSZ; ulimit -f 0; w 2 name=two exit=0 duration=1 user=root time=10 2>/dev/null ); rc=$?
if [ $rc -eq 0 ] && ! r 2 '${name}' >/dev/null 2>&1; then echo "D4: write under a refusing file system (ulimit -f 0) exited 0, file size $(stat -c %s "$T/s.csv")"; bad=$((bad+1)); fi
exit $bad
