#include <stdio.h>
#include <string.h>
#include <stdlib.h>
#include <stdint.h>
#include <unistd.h>
#include <sys/wait.h>
#include "libks/arena.h"
static int variant;
int main(int argc, char **argv) {
	variant = argc > 1 ? atoi(argv[1]) : 0;
	pid_t pid = fork();
	if (pid == 0) {
		struct arena *a = arena_alloc();
		struct arena_scope outer = arena_scope_enter(a);
		char *pa = arena_malloc(&outer, 16);
		memset(pa, 'A', 16);
		struct arena_scope inner = arena_scope_enter(a);
		char *pb = arena_malloc(&inner, 16);
		memset(pb, 'B', 16);
		arena_scope_leave(&outer);            /* not the innermost scope: no diagnostic */
		if (variant == 0) {
			/* inner has not been left: pb is live */
			struct arena_scope third = arena_scope_enter(a);
			char *pc = arena_malloc(&third, 32);
			memset(pc, 'C', 32);
			int overlap = (pc < pb + 16 && pb < pc + 32);
			fprintf(stderr, "pb=%p..+16 pc=%p..+32 overlap=%d pb[0]=%c (expected B)\n", (void *)pb, (void *)pc, overlap, pb[0]);
			_exit(overlap ? 1 : 0);
		} else {
			arena_scope_leave(&inner);         /* frame_len > len: len = 0 */
			struct arena_scope third = arena_scope_enter(a);
			char *pc = arena_malloc(&third, 16);   /* the frame header itself */
			fprintf(stderr, "pc=%p (frame header)\n", (void *)pc);
			memset(pc, 0xff, 16);              /* the client's own write into its own block */
			char *pd = arena_malloc(&third, 16);
			fprintf(stderr, "pd=%p aligned=%d\n", (void *)pd, ((uintptr_t)pd & 7) == 0);
			_exit(((uintptr_t)pd & 7) == 0 ? 0 : 1);
		}
	}
	int st; waitpid(pid, &st, 0);
	if (WIFSIGNALED(st)) { printf("child died with signal %d\n", WTERMSIG(st)); return 0; }
	printf("child exit %d\n", WEXITSTATUS(st));
	return 0;
}
