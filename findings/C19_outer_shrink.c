/* C19 (fixed in /repo 4eb1227): arena_realloc with new_size <= old_size returned the pointer
 * unchanged without looking at the scope it was given ("Always allow existing allocations to
 * shrink").  Shrinking a block that was allocated in an INNER scope through an OUTER scope was
 * therefore not detected, although the caller then believes the block lives as long as the outer
 * scope: when the inner scope left, the same bytes were handed out again.
 * (Growing through the outer scope traps since 08bdded, see D11_realloc_outer.c.)
 * Write-up: findings/C19_outer_shrink.md; Coq: C19_outer_use_dichotomy, C19_outer_shrink_damage,
 * C19_outer_alloc_detected, C19_outer_shrink_traps_example;
 * replay on the real code: bin/check C19 --replay corpus/C19/outer_shrink_undetected.json
 * build: cc -I$REPO C19_outer_shrink.c $REPO/libks/arena.c $REPO/libks/arithmetic.c
 * exit 0 = detected (trap), 1 = silent overlap */
#include <stdio.h>
#include <string.h>
#include <stdlib.h>
#include <unistd.h>
#include <sys/wait.h>
#include "libks/arena.h"
int main(void) {
	pid_t pid = fork();
	if (pid == 0) {
		struct arena *a = arena_alloc();
		struct arena_scope outer = arena_scope_enter(a);
		char *q;
		{
			struct arena_scope inner = arena_scope_enter(a);
			char *p = arena_malloc(&inner, 16);
			memset(p, 'A', 16);
			/* "move" the block to the outer scope by shrinking it: no trap, same pointer */
			q = arena_realloc(&outer, p, 16, 8);
			arena_scope_leave(&inner);
		}
		char *r = arena_malloc(&outer, 16);
		memset(r, 'B', 16);
		int overlap = (r < q + 8 && q < r + 16);
		fprintf(stderr, "q=%p..+8 r=%p..+16 overlap=%d q[0]=%c\n", (void *)q, (void *)r, overlap, q[0]);
		_exit(overlap ? 1 : 0);
	}
	int st; waitpid(pid, &st, 0);
	if (WIFSIGNALED(st)) { printf("detected: child trapped with signal %d\n", WTERMSIG(st)); return 0; }
	printf("child exit %d\n", WEXITSTATUS(st));
	return WEXITSTATUS(st) ? 1 : 2;
}
