/* D11 (C19): arena_realloc's fast path grew a block of an OUTER scope while a
 * nested scope was open without validating the scope; after the nested scope
 * left, the grown tail was handed out again (two live blocks overlap).
 * Expected: the outer-scope reallocation is detected (trap), like arena_malloc.
 * build: cc -I$REPO D11_realloc_outer.c $REPO/libks/arena.c $REPO/libks/arithmetic.c
 * exit 0 = detected (child trapped), 1 = silent overlap */
#include <stdio.h>
#include <string.h>
#include <stdlib.h>
#include <unistd.h>
#include <sys/wait.h>
#include "libks/arena.h"
int main(void) {
	pid_t pid = fork();
	if (pid == 0) {
		struct arena *a = arena_alloc();
		struct arena_scope outer = arena_scope_enter(a);
		char *p = arena_malloc(&outer, 16);
		memset(p, 'A', 16);
		{
			struct arena_scope inner = arena_scope_enter(a);
			/* p is the last allocation: fast path, grows into the inner scope's region */
			p = arena_realloc(&outer, p, 16, 64);
			memset(p, 'A', 64);
			arena_scope_leave(&inner);
		}
		char *q = arena_malloc(&outer, 32);
		memset(q, 'B', 32);
		int overlap = (q < p + 64 && p < q + 32);
		fprintf(stderr, "p=%p..+64 q=%p..+32 overlap=%d p[20]=%c\n", (void *)p, (void *)q, overlap, p[20]);
		_exit(overlap ? 1 : 0);
	}
	int st; waitpid(pid, &st, 0);
	if (WIFSIGNALED(st)) { printf("detected: child trapped with signal %d\n", WTERMSIG(st)); return 0; }
	printf("child exit %d\n", WEXITSTATUS(st));
	return WEXITSTATUS(st) ? 1 : 2;
}
