/* D12 (C20): UNSIGNED_MUL_OVERFLOW divided by b without a zero check:
 * KS_u32_mul_overflow0(5, 0, &c) died with SIGFPE instead of storing 0.
 * build: cc -I$REPO D12_mul_zero.c $REPO/libks/arithmetic.c */
#include <stdio.h>
#include <stdint.h>
#include "libks/arithmetic.h"
int main(void) {
	uint32_t c = 7; uint64_t d = 7; size_t e = 7;
	int r1 = KS_u32_mul_overflow0(5, 0, &c);
	int r2 = KS_u64_mul_overflow0(5, 0, &d);
	int r3 = KS_size_mul_overflow0(5, 0, &e);
	printf("%d %u %d %llu %d %zu\n", r1, c, r2, (unsigned long long)d, r3, e);
	return !(r1 == 0 && c == 0 && r2 == 0 && d == 0 && r3 == 0 && e == 0);
}
