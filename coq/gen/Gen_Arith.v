(* Gen_Arith.v - GENERATED on every check by harness/t_arith.py from libks/arithmetic.c
   (clang JSON AST, macros expanded) and libks/arithmetic.h (entry points).  Do not edit. *)
From Coq Require Import ZArith List.
From Robsd Require Import Base.CInt Ks.ArithBuiltinDefs.
Import ListNotations.
Local Open Scope Z_scope.

(* KS_i32_add_overflow0
   int32_t a : int = TInt
   int32_t b : int = TInt
   int32_t * c : out-pointer to TInt *)
Definition KS_i32_add_overflow0 (a b : Z) : cres :=
  let st : option Z := None in
  (cif (cor (cand (cgt TInt (cvar b) (clit TInt 0)) (cgt TInt (cvar a) (csub TInt (clit TInt 2147483647) (cvar b)))) (cand (clt TInt (cvar b) (clit TInt 0)) (clt TInt (cvar a) (csub TInt (csub TInt (cneg TInt (clit TInt 2147483647)) (clit TInt 1)) (cvar b)))))
    (creturn (clit TInt 1) st)
    (cstore TInt (cadd TInt (cvar a) (cvar b)) (fun st =>
    (creturn (clit TInt 0) st)))).
Definition KS_i32_add_overflow0_sig : list cty * cty := ([TInt; TInt], TInt).

(* KS_i32_sub_overflow0
   int32_t a : int = TInt
   int32_t b : int = TInt
   int32_t * c : out-pointer to TInt *)
Definition KS_i32_sub_overflow0 (a b : Z) : cres :=
  let st : option Z := None in
  (cif (cor (cand (cgt TInt (cvar b) (clit TInt 0)) (clt TInt (cvar a) (cadd TInt (csub TInt (cneg TInt (clit TInt 2147483647)) (clit TInt 1)) (cvar b)))) (cand (clt TInt (cvar b) (clit TInt 0)) (cgt TInt (cvar a) (cadd TInt (clit TInt 2147483647) (cvar b)))))
    (creturn (clit TInt 1) st)
    (cstore TInt (csub TInt (cvar a) (cvar b)) (fun st =>
    (creturn (clit TInt 0) st)))).
Definition KS_i32_sub_overflow0_sig : list cty * cty := ([TInt; TInt], TInt).

(* KS_i32_mul_overflow0
   int32_t a : int = TInt
   int32_t b : int = TInt
   int32_t * c : out-pointer to TInt *)
Definition KS_i32_mul_overflow0 (a b : Z) : cres :=
  let st : option Z := None in
  (cif (cand (cand (cgt TInt (cvar a) (clit TInt 0)) (cgt TInt (cvar b) (clit TInt 0))) (cgt TInt (cvar a) (cdiv TInt (clit TInt 2147483647) (cvar b))))
    (creturn (clit TInt 1) st)
    (cif (cand (cand (cgt TInt (cvar a) (clit TInt 0)) (clt TInt (cvar b) (clit TInt 0))) (clt TInt (cvar b) (cdiv TInt (csub TInt (cneg TInt (clit TInt 2147483647)) (clit TInt 1)) (cvar a))))
    (creturn (clit TInt 1) st)
    (cif (cand (cand (clt TInt (cvar a) (clit TInt 0)) (cgt TInt (cvar b) (clit TInt 0))) (clt TInt (cvar a) (cdiv TInt (csub TInt (cneg TInt (clit TInt 2147483647)) (clit TInt 1)) (cvar b))))
    (creturn (clit TInt 1) st)
    (cif (cand (cand (clt TInt (cvar a) (clit TInt 0)) (clt TInt (cvar b) (clit TInt 0))) (clt TInt (cvar b) (cdiv TInt (clit TInt 2147483647) (cvar a))))
    (creturn (clit TInt 1) st)
    (cstore TInt (cmul TInt (cvar a) (cvar b)) (fun st =>
    (creturn (clit TInt 0) st))))))).
Definition KS_i32_mul_overflow0_sig : list cty * cty := ([TInt; TInt], TInt).

(* KS_i64_add_overflow0
   int64_t a : long = TLong
   int64_t b : long = TLong
   int64_t * c : out-pointer to TLong *)
Definition KS_i64_add_overflow0 (a b : Z) : cres :=
  let st : option Z := None in
  (cif (cor (cand (cgt TLong (cvar b) (ccast TInt TLong (clit TInt 0))) (cgt TLong (cvar a) (csub TLong (clit TLong 9223372036854775807) (cvar b)))) (cand (clt TLong (cvar b) (ccast TInt TLong (clit TInt 0))) (clt TLong (cvar a) (csub TLong (csub TLong (cneg TLong (clit TLong 9223372036854775807)) (ccast TInt TLong (clit TInt 1))) (cvar b)))))
    (creturn (clit TInt 1) st)
    (cstore TLong (cadd TLong (cvar a) (cvar b)) (fun st =>
    (creturn (clit TInt 0) st)))).
Definition KS_i64_add_overflow0_sig : list cty * cty := ([TLong; TLong], TLong).

(* KS_i64_sub_overflow0
   int64_t a : long = TLong
   int64_t b : long = TLong
   int64_t * c : out-pointer to TLong *)
Definition KS_i64_sub_overflow0 (a b : Z) : cres :=
  let st : option Z := None in
  (cif (cor (cand (cgt TLong (cvar b) (ccast TInt TLong (clit TInt 0))) (clt TLong (cvar a) (cadd TLong (csub TLong (cneg TLong (clit TLong 9223372036854775807)) (ccast TInt TLong (clit TInt 1))) (cvar b)))) (cand (clt TLong (cvar b) (ccast TInt TLong (clit TInt 0))) (cgt TLong (cvar a) (cadd TLong (clit TLong 9223372036854775807) (cvar b)))))
    (creturn (clit TInt 1) st)
    (cstore TLong (csub TLong (cvar a) (cvar b)) (fun st =>
    (creturn (clit TInt 0) st)))).
Definition KS_i64_sub_overflow0_sig : list cty * cty := ([TLong; TLong], TLong).

(* KS_i64_mul_overflow0
   int64_t a : long = TLong
   int64_t b : long = TLong
   int64_t * c : out-pointer to TLong *)
Definition KS_i64_mul_overflow0 (a b : Z) : cres :=
  let st : option Z := None in
  (cif (cand (cand (cgt TLong (cvar a) (ccast TInt TLong (clit TInt 0))) (cgt TLong (cvar b) (ccast TInt TLong (clit TInt 0)))) (cgt TLong (cvar a) (cdiv TLong (clit TLong 9223372036854775807) (cvar b))))
    (creturn (clit TInt 1) st)
    (cif (cand (cand (cgt TLong (cvar a) (ccast TInt TLong (clit TInt 0))) (clt TLong (cvar b) (ccast TInt TLong (clit TInt 0)))) (clt TLong (cvar b) (cdiv TLong (csub TLong (cneg TLong (clit TLong 9223372036854775807)) (ccast TInt TLong (clit TInt 1))) (cvar a))))
    (creturn (clit TInt 1) st)
    (cif (cand (cand (clt TLong (cvar a) (ccast TInt TLong (clit TInt 0))) (cgt TLong (cvar b) (ccast TInt TLong (clit TInt 0)))) (clt TLong (cvar a) (cdiv TLong (csub TLong (cneg TLong (clit TLong 9223372036854775807)) (ccast TInt TLong (clit TInt 1))) (cvar b))))
    (creturn (clit TInt 1) st)
    (cif (cand (cand (clt TLong (cvar a) (ccast TInt TLong (clit TInt 0))) (clt TLong (cvar b) (ccast TInt TLong (clit TInt 0)))) (clt TLong (cvar b) (cdiv TLong (clit TLong 9223372036854775807) (cvar a))))
    (creturn (clit TInt 1) st)
    (cstore TLong (cmul TLong (cvar a) (cvar b)) (fun st =>
    (creturn (clit TInt 0) st))))))).
Definition KS_i64_mul_overflow0_sig : list cty * cty := ([TLong; TLong], TLong).

(* KS_u32_add_overflow0
   uint32_t a : unsigned int = TUInt
   uint32_t b : unsigned int = TUInt
   uint32_t * c : out-pointer to TUInt *)
Definition KS_u32_add_overflow0 (a b : Z) : cres :=
  let st : option Z := None in
  (cif (cgt TUInt (cvar a) (csub TUInt (clit TUInt 4294967295) (cvar b)))
    (creturn (clit TInt 1) st)
    (cstore TUInt (cadd TUInt (cvar a) (cvar b)) (fun st =>
    (creturn (clit TInt 0) st)))).
Definition KS_u32_add_overflow0_sig : list cty * cty := ([TUInt; TUInt], TUInt).

(* KS_u32_sub_overflow0
   uint32_t a : unsigned int = TUInt
   uint32_t b : unsigned int = TUInt
   uint32_t * c : out-pointer to TUInt *)
Definition KS_u32_sub_overflow0 (a b : Z) : cres :=
  let st : option Z := None in
  (cif (cgt TUInt (cvar b) (cvar a))
    (creturn (clit TInt 1) st)
    (cstore TUInt (csub TUInt (cvar a) (cvar b)) (fun st =>
    (creturn (clit TInt 0) st)))).
Definition KS_u32_sub_overflow0_sig : list cty * cty := ([TUInt; TUInt], TUInt).

(* KS_u32_mul_overflow0
   uint32_t a : unsigned int = TUInt
   uint32_t b : unsigned int = TUInt
   uint32_t * c : out-pointer to TUInt *)
Definition KS_u32_mul_overflow0 (a b : Z) : cres :=
  let st : option Z := None in
  (cif (cand (cne TUInt (cvar b) (ccast TInt TUInt (clit TInt 0))) (cgt TUInt (cvar a) (cdiv TUInt (clit TUInt 4294967295) (cvar b))))
    (creturn (clit TInt 1) st)
    (cstore TUInt (cmul TUInt (cvar a) (cvar b)) (fun st =>
    (creturn (clit TInt 0) st)))).
Definition KS_u32_mul_overflow0_sig : list cty * cty := ([TUInt; TUInt], TUInt).

(* KS_u64_add_overflow0
   uint64_t a : unsigned long = TULong
   uint64_t b : unsigned long = TULong
   uint64_t * c : out-pointer to TULong *)
Definition KS_u64_add_overflow0 (a b : Z) : cres :=
  let st : option Z := None in
  (cif (cgt TULong (cvar a) (csub TULong (clit TULong 18446744073709551615) (cvar b)))
    (creturn (clit TInt 1) st)
    (cstore TULong (cadd TULong (cvar a) (cvar b)) (fun st =>
    (creturn (clit TInt 0) st)))).
Definition KS_u64_add_overflow0_sig : list cty * cty := ([TULong; TULong], TULong).

(* KS_u64_sub_overflow0
   uint64_t a : unsigned long = TULong
   uint64_t b : unsigned long = TULong
   uint64_t * c : out-pointer to TULong *)
Definition KS_u64_sub_overflow0 (a b : Z) : cres :=
  let st : option Z := None in
  (cif (cgt TULong (cvar b) (cvar a))
    (creturn (clit TInt 1) st)
    (cstore TULong (csub TULong (cvar a) (cvar b)) (fun st =>
    (creturn (clit TInt 0) st)))).
Definition KS_u64_sub_overflow0_sig : list cty * cty := ([TULong; TULong], TULong).

(* KS_u64_mul_overflow0
   uint64_t a : unsigned long = TULong
   uint64_t b : unsigned long = TULong
   uint64_t * c : out-pointer to TULong *)
Definition KS_u64_mul_overflow0 (a b : Z) : cres :=
  let st : option Z := None in
  (cif (cand (cne TULong (cvar b) (ccast TInt TULong (clit TInt 0))) (cgt TULong (cvar a) (cdiv TULong (clit TULong 18446744073709551615) (cvar b))))
    (creturn (clit TInt 1) st)
    (cstore TULong (cmul TULong (cvar a) (cvar b)) (fun st =>
    (creturn (clit TInt 0) st)))).
Definition KS_u64_mul_overflow0_sig : list cty * cty := ([TULong; TULong], TULong).

(* KS_size_add_overflow0
   size_t a : unsigned long = TULong
   size_t b : unsigned long = TULong
   size_t * c : out-pointer to TULong *)
Definition KS_size_add_overflow0 (a b : Z) : cres :=
  let st : option Z := None in
  (cif (cgt TULong (cvar a) (csub TULong (clit TULong 18446744073709551615) (cvar b)))
    (creturn (clit TInt 1) st)
    (cstore TULong (cadd TULong (cvar a) (cvar b)) (fun st =>
    (creturn (clit TInt 0) st)))).
Definition KS_size_add_overflow0_sig : list cty * cty := ([TULong; TULong], TULong).

(* KS_size_sub_overflow0
   size_t a : unsigned long = TULong
   size_t b : unsigned long = TULong
   size_t * c : out-pointer to TULong *)
Definition KS_size_sub_overflow0 (a b : Z) : cres :=
  let st : option Z := None in
  (cif (cgt TULong (cvar b) (cvar a))
    (creturn (clit TInt 1) st)
    (cstore TULong (csub TULong (cvar a) (cvar b)) (fun st =>
    (creturn (clit TInt 0) st)))).
Definition KS_size_sub_overflow0_sig : list cty * cty := ([TULong; TULong], TULong).

(* KS_size_mul_overflow0
   size_t a : unsigned long = TULong
   size_t b : unsigned long = TULong
   size_t * c : out-pointer to TULong *)
Definition KS_size_mul_overflow0 (a b : Z) : cres :=
  let st : option Z := None in
  (cif (cand (cne TULong (cvar b) (ccast TInt TULong (clit TInt 0))) (cgt TULong (cvar a) (cdiv TULong (clit TULong 18446744073709551615) (cvar b))))
    (creturn (clit TInt 1) st)
    (cstore TULong (cmul TULong (cvar a) (cvar b)) (fun st =>
    (creturn (clit TInt 0) st)))).
Definition KS_size_mul_overflow0_sig : list cty * cty := ([TULong; TULong], TULong).

(* arithmetic.h: static inline entry points; with the builtin: __builtin_<op>_overflow(a, b, c) ? 1 : 0,
   without it: the fallback above *)
Definition KS_i32_add_overflow_builtin (a b : Z) : cres := cbuiltin_overflow TInt BAdd a b.
Definition KS_i32_add_overflow_nobuiltin (a b : Z) : cres := KS_i32_add_overflow0 a b.
Definition KS_i32_sub_overflow_builtin (a b : Z) : cres := cbuiltin_overflow TInt BSub a b.
Definition KS_i32_sub_overflow_nobuiltin (a b : Z) : cres := KS_i32_sub_overflow0 a b.
Definition KS_i32_mul_overflow_builtin (a b : Z) : cres := cbuiltin_overflow TInt BMul a b.
Definition KS_i32_mul_overflow_nobuiltin (a b : Z) : cres := KS_i32_mul_overflow0 a b.
Definition KS_i64_add_overflow_builtin (a b : Z) : cres := cbuiltin_overflow TLong BAdd a b.
Definition KS_i64_add_overflow_nobuiltin (a b : Z) : cres := KS_i64_add_overflow0 a b.
Definition KS_i64_sub_overflow_builtin (a b : Z) : cres := cbuiltin_overflow TLong BSub a b.
Definition KS_i64_sub_overflow_nobuiltin (a b : Z) : cres := KS_i64_sub_overflow0 a b.
Definition KS_i64_mul_overflow_builtin (a b : Z) : cres := cbuiltin_overflow TLong BMul a b.
Definition KS_i64_mul_overflow_nobuiltin (a b : Z) : cres := KS_i64_mul_overflow0 a b.
Definition KS_u32_add_overflow_builtin (a b : Z) : cres := cbuiltin_overflow TUInt BAdd a b.
Definition KS_u32_add_overflow_nobuiltin (a b : Z) : cres := KS_u32_add_overflow0 a b.
Definition KS_u32_sub_overflow_builtin (a b : Z) : cres := cbuiltin_overflow TUInt BSub a b.
Definition KS_u32_sub_overflow_nobuiltin (a b : Z) : cres := KS_u32_sub_overflow0 a b.
Definition KS_u32_mul_overflow_builtin (a b : Z) : cres := cbuiltin_overflow TUInt BMul a b.
Definition KS_u32_mul_overflow_nobuiltin (a b : Z) : cres := KS_u32_mul_overflow0 a b.
Definition KS_u64_add_overflow_builtin (a b : Z) : cres := cbuiltin_overflow TULong BAdd a b.
Definition KS_u64_add_overflow_nobuiltin (a b : Z) : cres := KS_u64_add_overflow0 a b.
Definition KS_u64_sub_overflow_builtin (a b : Z) : cres := cbuiltin_overflow TULong BSub a b.
Definition KS_u64_sub_overflow_nobuiltin (a b : Z) : cres := KS_u64_sub_overflow0 a b.
Definition KS_u64_mul_overflow_builtin (a b : Z) : cres := cbuiltin_overflow TULong BMul a b.
Definition KS_u64_mul_overflow_nobuiltin (a b : Z) : cres := KS_u64_mul_overflow0 a b.
Definition KS_size_add_overflow_builtin (a b : Z) : cres := cbuiltin_overflow TULong BAdd a b.
Definition KS_size_add_overflow_nobuiltin (a b : Z) : cres := KS_size_add_overflow0 a b.
Definition KS_size_sub_overflow_builtin (a b : Z) : cres := cbuiltin_overflow TULong BSub a b.
Definition KS_size_sub_overflow_nobuiltin (a b : Z) : cres := KS_size_sub_overflow0 a b.
Definition KS_size_mul_overflow_builtin (a b : Z) : cres := cbuiltin_overflow TULong BMul a b.
Definition KS_size_mul_overflow_nobuiltin (a b : Z) : cres := KS_size_mul_overflow0 a b.
