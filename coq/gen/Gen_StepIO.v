(* generated from step.c by harness/t_step.py - do not edit *)
From Robsd Require Import Step.StepIOTypes.
(* how steps_write tests the result of fwrite *)
Definition fwrite_check : wcheck := WholeObject.
