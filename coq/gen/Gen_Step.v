(* generated from step.c / robsd-step.c by harness/t_step.py - do not edit *)
From Robsd Require Import Step.StepTypes.
From Coq Require Import ZArith.
Definition fields : list fdef := [
  mkfdef [115; 116; 101; 112]%N FInt 0 false []%N;
  mkfdef [110; 97; 109; 101]%N FStr 1 false []%N;
  mkfdef [101; 120; 105; 116]%N FInt 2 false []%N;
  mkfdef [100; 117; 114; 97; 116; 105; 111; 110]%N FInt 3 false []%N;
  mkfdef [100; 101; 108; 116; 97]%N FInt 4 true [48]%N;
  mkfdef [108; 111; 103]%N FStr 5 true []%N;
  mkfdef [117; 115; 101; 114]%N FStr 6 false []%N;
  mkfdef [116; 105; 109; 101]%N FInt 7 false []%N;
  mkfdef [115; 107; 105; 112]%N FInt 8 true [48]%N
].
Definition int_min : Z := (-9223372036854775808)%Z.
Definition int_max : Z := (9223372036854775807)%Z.
Definition id_min : Z := (-2147483647)%Z.
Definition id_max : Z := (2147483647)%Z.
(* bytes step_set_keyval refuses in string values; whether it refuses empty mandatory strings *)
Definition rejected_bytes : list N := [44; 10; 36]%N.
Definition reject_empty_required : bool := true.
(* whether steps_write checks the result of fclose *)
Definition close_checked : bool := true.
(* whether action_write refuses a step=... argument that changes the id given by -i *)
Definition step_key_checked : bool := true.
