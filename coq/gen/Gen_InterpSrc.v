(* Gen_InterpSrc.v - GENERATED on every check by harness/t_interpsrc.py from interpolate.c.  Do not edit. *)
From Coq Require Import List NArith.
Import ListNotations.

(* interpolate_inner: strchr(str, '$'), *vs != '{', strchr(vs, '}') *)
Definition src_dollar : N := 36%N.
Definition src_lbrace : N := 123%N.
Definition src_rbrace : N := 125%N.
(* the order of the tests behind a reference opener, the IGNORE_LOOKUP_ERRORS copy and the place of the increment and
   decrement are pinned as TEXT by the translator (anchored patterns over the three function bodies), not as constants *)
(* interpolate: occurrences of the depth counter besides its declaration (one pre-increment test, one decrement) *)
Definition src_depth_sites : nat := 2.
Definition src_depth_limit : nat := 5.
(* diagnostics after "invalid substitution, ": brace, close, empty, unknown, deep *)
Definition src_messages : list (list N) :=
  [[101; 120; 112; 101; 99; 116; 101; 100; 32; 39; 123; 39]%N;
   [101; 120; 112; 101; 99; 116; 101; 100; 32; 39; 125; 39]%N;
   [101; 109; 112; 116; 121; 32; 118; 97; 114; 105; 97; 98; 108; 101; 32; 110; 97; 109; 101]%N;
   [117; 110; 107; 110; 111; 119; 110; 32; 118; 97; 114; 105; 97; 98; 108; 101]%N;
   [114; 101; 99; 117; 114; 115; 105; 111; 110; 32; 116; 111; 111; 32; 100; 101; 101; 112]%N].
(* expected '{' | expected '}' | empty variable name | unknown variable | recursion too deep *)
