(* generated from lexer.c by harness/t_lexer.py - do not edit *)
Definition getc_checks_end : bool := true.
Definition ungetc_checks_zero : bool := true.
Definition ungetc_checks_eof : bool := true.
