(* generated from step.c / robsd-step.c by harness/t_lock.py - do not edit *)
From Robsd Require Import Lock.LockOps.
From Coq Require Import List.
Import ListNotations.
(* file-system calls and sync points, in textual order, error exits left out *)
Definition parse_path : list fsop := [FOpenRd; FPoint 0; FLockEx; FPoint 1; FReadAll; FPoint 2; FParse].
Definition write_path : list fsop := [FSerialize; FPoint 3; FTruncate; FPoint 4; FWrite; FFlushClose; FPoint 5].
Definition free_path : list fsop := [FUnlock; FCloseFd; FPoint 6].
(* robsd-step.c: what main does for -W and -R before the common exit (steps_free first), and action_write *)
Definition main_write_calls : list call := [CParse; CActionWrite; CFree].
Definition main_read_calls : list call := [CParse; CRead; CFree].
Definition action_write_calls : list call := [CFind; CSetKeyval; CWrite].
