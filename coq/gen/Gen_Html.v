(* Gen_Html.v - GENERATED on every check by harness/t_html.py from regress-html.c and step-exec.h.  Do not edit. *)
From Coq Require Import List NArith ZArith.
Import ListNotations.

(* FOR_RUN_STATUSES: name, failure flag, in enum order *)
Definition run_statuses : list (list N * bool) :=
  [([80; 65; 83; 83]%N, false);
   ([70; 65; 73; 76]%N, true);
   ([88; 70; 65; 73; 76]%N, false);
   ([88; 80; 65; 83; 83]%N, true);
   ([83; 75; 73; 80]%N, false);
   ([78; 79; 84; 69; 82; 77]%N, true)].

(* EX_TIMEOUT *)
Definition ex_timeout : Z := 124%Z.

(* duration_delta: threshold_s *)
Definition delta_threshold : Z := 600%Z.

(* sort_suites: passing suites with this prefix come last *)
Definition nonregress_prefix : list N := [46; 46; 47]%N.

(* render_rate: integer arithmetic *)
Definition rate_is_integer : bool := true.

(* render_suite: column pointer bounded by the number of invocations *)
Definition walk_is_bounded : bool := true.
(* end = ri + VECTOR_LENGTH(r->invocations) + walk_end_extra; loop test ri < end (strict) or ri <= end; break test ri == end or ri >= end *)
Definition walk_end_extra : Z := (0)%Z.
Definition walk_end_strict : bool := true.
Definition walk_break_eq : bool := true.

Definition cvsweb_prefix : list N := [104; 116; 116; 112; 115; 58; 47; 47; 99; 118; 115; 119; 101; 98; 46; 111; 112; 101; 110; 98; 115; 100; 46; 111; 114; 103; 47; 99; 103; 105; 45; 98; 105; 110; 47; 99; 118; 115; 119; 101; 98; 47; 115; 114; 99; 47; 114; 101; 103; 114; 101; 115; 115; 47]%N.   (* https://cvsweb.openbsd.org/cgi-bin/cvsweb/src/regress/ *)
Definition name_attic : list N := [97; 116; 116; 105; 99]%N.   (* attic *)
Definition name_comment : list N := [99; 111; 109; 109; 101; 110; 116]%N.   (* comment *)
Definition name_diff : list N := [100; 105; 102; 102]%N.   (* diff *)
Definition name_dmesg : list N := [100; 109; 101; 115; 103]%N.   (* dmesg *)
Definition name_end : list N := [101; 110; 100]%N.   (* end *)
Definition name_index : list N := [105; 110; 100; 101; 120; 46; 104; 116; 109; 108]%N.   (* index.html *)
Definition name_step_csv : list N := [115; 116; 101; 112; 46; 99; 115; 118]%N.   (* step.csv *)
Definition name_tag_cvs : list N := [99; 118; 115]%N.   (* cvs *)
Definition patch_prefix : list N := [115; 114; 99; 46; 100; 105; 102; 102; 46]%N.   (* src.diff.* *)
