(* generated from interpolate.c by harness/t_interp.py - do not edit *)
Definition depth_limit : nat := 5.
