(* Gen_RegressLog.v - GENERATED on every check by harness/t_regresslog.py from regress-log.c, regress-log.h,
   robsd-regress-log.c, util-regress.sh, util.sh, regress-html.c and step-exec.h.  Do not edit. *)
From Coq Require Import List NArith.
Import ListNotations.

Inductive gflag := GF_FAILED | GF_SKIPPED | GF_XFAILED | GF_XPASSED.
Inductive gpred := GP_isskipped | GP_isfailed | GP_isxfailed | GP_isxpassed.

(* strstr needles, in source order; each predicate is the disjunction of its needles *)
Definition needles_isskipped : list (list N) := [[83; 75; 73; 80; 80; 69; 68]%N; [68; 73; 83; 65; 66; 76; 69; 68]%N].   (* SKIPPED, DISABLED *)
Definition needles_isfailed : list (list N) := [[70; 65; 73; 76; 69; 68]%N].   (* FAILED *)
Definition needles_isxfailed : list (list N) := [[69; 88; 80; 69; 67; 84; 69; 68; 95; 70; 65; 73; 76]%N].   (* EXPECTED_FAIL *)
Definition needles_isxpassed : list (list N) := [[85; 78; 69; 88; 80; 69; 67; 84; 69; 68; 95; 80; 65; 83; 83]%N].   (* UNEXPECTED_PASS *)

(* isxtrace: first character of a shell-trace line *)
Definition xtrace_char : N := 43%N.

(* ismarker_subdir: prefix *)
Definition marker_subdir_needle : list N := [61; 61; 61; 62]%N.   (* ===> *)

(* ismarker_regress: needle at both ends, separator after the first, the scan stops at str[-1] == prev && str[0] == cur *)
Definition marker_regress_needle : list N := [61; 61; 61; 61]%N.   (* ==== *)
Definition marker_regress_sep : N := 32%N.
Definition marker_scan_prev : N := 32%N.
Definition marker_scan_cur : N := 61%N.

(* regress_log_parse_impl: a line is selected iff for some pair the flag is set and the predicate holds *)
Definition selection : list (gflag * gpred) := [(GF_SKIPPED, GP_isskipped); (GF_FAILED, GP_isfailed); (GF_XFAILED, GP_isxfailed); (GF_XPASSED, GP_isxpassed)].

(* regress-log.h: FAILED, SKIPPED, XFAILED, XPASSED, NEWLINE, PEEK *)
Definition flag_bits : list N := [1; 2; 4; 8; 16; 32]%N.

(* robsd-regress-log.c *)
Definition optstring : list N := [70; 80; 83; 88; 110]%N.   (* FPSXn *)
Definition opt_flags : list (N * gflag) := [(70%N, GF_FAILED); (80%N, GF_XPASSED); (83%N, GF_SKIPPED); (88%N, GF_XFAILED)].   (* -F FAILED, -P XPASSED, -S SKIPPED, -X XFAILED *)
Definition opt_noprint : N := 110%N.   (* -n *)
Definition exit_error : N := 2%N.
Definition exit_none : N := 1%N.
Definition exit_found : N := 0%N.
Definition exit_usage : N := 1%N.

(* util-regress.sh regress_failed: options given to robsd-regress-log *)
Definition regress_failed_opts : list N := [70; 80; 110]%N.   (* -FPn *)
(* util.sh step_exec: in this mode a successful regress_failed overwrites the status *)
Definition step_exec_mode : list N := [114; 111; 98; 115; 100; 45; 114; 101; 103; 114; 101; 115; 115]%N.   (* robsd-regress *)
Definition step_exec_override : N := 1%N.
(* the log is examined inside the pipeline that tee is still writing it from (true), or after it (false) *)
Definition step_exec_checks_inside_pipeline : bool := false.

(* step-exec.h *)
Definition ex_timeout : N := 124%N.

(* regress-html.c FOR_RUN_STATUSES: statuses that count as failure *)
Definition failure_statuses : list (list N) := [[70; 65; 73; 76]%N; [88; 80; 65; 83; 83]%N; [78; 79; 84; 69; 82; 77]%N].   (* FAIL, XPASS, NOTERM *)
(* regress-html.c parse_run_log *)
Definition html_timeout_status : list N := [78; 79; 84; 69; 82; 77]%N.   (* NOTERM *)
Definition html_nonzero : gflag * list N * list N := (GF_XPASSED, [88; 80; 65; 83; 83]%N, [70; 65; 73; 76]%N).   (* peek XPASSED ? XPASS : FAIL *)
Definition html_zero_chain : list (gflag * list N) := [(GF_XFAILED, [88; 70; 65; 73; 76]%N); (GF_SKIPPED, [83; 75; 73; 80]%N)].   (* XFAILED -> XFAIL, SKIPPED -> SKIP *)
Definition html_zero_default : list N := [80; 65; 83; 83]%N.   (* PASS *)

(* report.c regress_report_skip_step: a regress row with exit 0 gets a section iff regress_log_peek with these flags is > 0 *)
Definition report_peek_flags : list gflag := [GF_SKIPPED; GF_XFAILED].
(* report.c regress_report_step_log: flags given to regress_log_parse: always, and in addition unless the suite is quiet *)
Definition report_log_flags : list gflag := [GF_FAILED; GF_XPASSED].
Definition report_log_flags_unless_quiet : list gflag := [GF_SKIPPED; GF_XFAILED].

(* regress_log_trim: initial xbeg / xend; the leading trace lines are passed over; on a trace line xend is set to the
   length collected so far only while it is 0 (true) or every time (false); every other line resets it to 0;
   the byte appended after every kept line; the final copy stops at xend when xend is not 0 *)
Definition trim_xbeg_init : nat := 1.
Definition trim_xend_init : nat := 0.
Definition trim_skip_lead : bool := true.
Definition trim_xend_set_once : bool := true.
Definition trim_xend_reset : bool := true.
Definition trim_line_end : N := 10%N.
Definition trim_cut_at_xend : bool := true.
