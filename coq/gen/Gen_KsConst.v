(* Gen_KsConst.v - GENERATED on every check by harness/t_ksconst.py from libks/{vector,buffer,map}.c.  Do not edit. *)
From Coq Require Import ZArith.
Local Open Scope Z_scope.

Definition buffer_init_cap : Z := 16.
Definition map_bkt_thresh : Z := 10.
Definition map_init_buckets : Z := 32.
Definition map_init_buckets_log2 : Z := 5.
Definition vector_init_cap : Z := 16.

(* vector_reserve1: oldlen = sizeof( *vc) + vc->p.len * vc->vc_stride; passed as old size to vc_callbacks.realloc *)
Definition vector_oldlen (hdr len stride siz : Z) : Z := hdr + len * stride.
(* buffer_reserve: bf_callbacks.realloc(bf->bf_ptr, bf->bf_siz, newsiz, ...) *)
Definition buffer_oldlen (len siz : Z) : Z := siz.
(* buffer_getline_impl: getline->off += linelen + 1 *)
Definition getline_advance (linelen : Z) : Z := linelen + 1.
(* buffer_vprintf: buffer_reserve(bf, (size_t)n + 1) *)
Definition printf_reserve (n : Z) : Z := n + 1.
