(* Gen_KsConst.v - GENERATED on every check by harness/t_ksconst.py from libks/{vector,buffer,map}.c.  Do not edit. *)
From Coq Require Import ZArith.
Local Open Scope Z_scope.

Definition buffer_init_cap : Z := 16.
Definition map_bkt_thresh : Z := 10.
Definition map_init_buckets : Z := 32.
Definition map_init_buckets_log2 : Z := 5.
Definition vector_init_cap : Z := 16.
