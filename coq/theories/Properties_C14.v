(* Properties_C14.v - the regress HTML matrix shows every run under its own
   invocation.  Only theorem statements, each closed by [exact] and followed by
   Print Assumptions.

   [run_html q inp] is the model of `robsd-regress-html -o out arch:path ...`
   (Html/HtmlDefs.v; tied to the binary by the correspondence check and, for
   the tables, constants, render_rate and the pointer arithmetic of render_suite,
   by the translator harness/t_html.py -> gen/Gen_Html.v): None = exit 1,
   Some page = the header columns, the body rows as rendered and the output
   tree.  [q] is libc's qsort, about which only [qsorts_ok] is assumed: it
   returns a permutation of its input that is ordered by the comparison
   function.  [view] is what the command line denotes (Html/HtmlSpec.v): the
   invocations with their start time and their runs (suite, exit code, log).

   Quantifiers: every command line (any number of arch arguments and
   invocations, any step files, any log contents), every qsort.

   The matrix clause of the property:
     for all inputs, the cell of suite S under the column of invocation I shows
     a status iff S ran in I, namely the status of that run, linking to its log
     below I's arch/date directory.
   What holds FOR ALL INPUTS (no guard): every rendered cell is the status and
   the arch/date/log link of SOME run of that suite, in a column that did not
   start later than the run's own invocation; no row is longer than the header
   (C14_cells_sound); and the row is exactly the placement by counting of
   C14_row_placement.  The "iff S ran in I" part is VIOLATED by the code (known
   finding run-shown-under-wrong-invocation: runs are matched to columns by
   start time only): C14_cell_iff_ran_refuted(_any_qsort), and
   C14_cell_iff_ran_partial under the PER-ROW guard [row_guard v S] (S recorded
   at most once per invocation; an invocation in which S ran shares its start
   time with no other).  C14_wrong_invocation_iff says exactly when a run is
   shown under another invocation (suite recorded at most once per invocation).

   Two defects were repaired in /repo and their clauses are stated at full
   strength for the code as it is now: the pass rate (D8: computed in float and
   truncated; now integer arithmetic) and the bound of the column pointer (D9:
   out-of-bounds read when a suite is recorded twice in an invocation).
   gen/Gen_Html.v says which render_rate the source contains and what the end
   pointer of render_suite is; Html/HtmlProofs.v (walk_params_sane) and
   Html/HtmlTie.v stop compiling when either repair is taken out or the bound is
   off by one, and the check then replays corpus/C14 on the real binary.
   Theorems named C14_historical_* are pins of the shipped code that no longer
   exists in /repo; they are not results about the current tree.

   The oracle is tied to the theorems row by row (C14_oracle_clause6_is_per_row,
   C14_oracle_row_accepts_model): the harness may call a failing row the known
   finding only when that row's own suite violates [row_guard] and the row is
   still sound.  index.html itself is modelled as bytes (Html/HtmlPage.v: html.c
   and the render_* functions) and read by a strict reader written in Gallina
   (Html/HtmlParse.v); C14_index_roundtrip says that reading the rendered file
   gives back the columns and rows these theorems speak about, for names that do
   not change the markup; C14_index_roundtrip_refuted is a name that does (html.c
   escapes nothing - outside the property, findings/C14_html_no_escaping.md). *)
From Robsd Require Import Html.HtmlProofs Html.HtmlWitness Html.HtmlTie Html.HtmlSuccess Html.HtmlRow Html.HtmlOracle.
From Robsd Require Import Html.HtmlRowOracle Html.HtmlPageProofs Html.HtmlPageSafe Html.HtmlRerun Html.HtmlLink.
From Robsd Require RegressLog.RLCallDefs RegressLog.RLHtmlBridge.
From RobsdGen Require Import Gen_Html.
From RobsdGen Require Gen_RegressLog.
From Coq Require Import String Sorting.Sorted Sorting.Permutation.
Local Open Scope N_scope.

(* ---- what the translator read out of regress-html.c / step-exec.h ---- *)

(* the status table in enum order with the failure flags, the timeout exit code *)
Theorem C14_tables :
  run_statuses = map (fun s => (status_str s, status_failure s)) all_statuses /\
  (forall s, status_failure s = true <-> s = FAIL \/ s = XPASS \/ s = NOTERM) /\
  ex_timeout = 124%Z /\ delta_threshold = 600%Z /\ nonregress_prefix = [46; 46; 47] /\
  name_end = [101; 110; 100] /\ name_attic = [97; 116; 116; 105; 99].
Proof. exact (conj statuses_tie (conj failure_statuses constants_tie)). Qed.
Print Assumptions C14_tables.

(* which forms regress-html.c contains: integer pass rate; column pointer bounded
   by end = ri + VECTOR_LENGTH(r->invocations) + 0, loop test ri < end *)
Theorem C14_source_variants :
  rate_is_integer = true /\ walk_is_bounded = true /\ walk_end_extra = 0%Z /\ walk_end_strict = true.
Proof. exact variants_full. Qed.
Print Assumptions C14_source_variants.

(* the sorting function the extracted driver runs is one of the qsorts quantified over *)
Theorem C14_exec_qsort_admissible : qsorts_ok exec_qsorts.
Proof. exact exec_qsorts_ok. Qed.
Print Assumptions C14_exec_qsort_admissible.

(* ---- status of a run: NOTERM for the timeout code, XPASS or FAIL for other
   failures, XFAIL, SKIP or PASS otherwise; the model's classification through
   regress_log_peek is this comprehension over the log's lines after the
   leading shell trace ---- *)
Theorem C14_status : forall exit log,
  classify exit log = spec_status exit log /\
  let after := drop_trace (clines log) in
  (spec_status exit log = NOTERM <-> exit = ex_timeout) /\
  (spec_status exit log = XPASS <-> exit <> ex_timeout /\ exit <> 0%Z /\ existsb isxpassed after = true) /\
  (spec_status exit log = FAIL <-> exit <> ex_timeout /\ exit <> 0%Z /\ existsb isxpassed after = false) /\
  (spec_status exit log = XFAIL <-> exit <> ex_timeout /\ exit = 0%Z /\ existsb isxfailed after = true) /\
  (spec_status exit log = SKIP <-> exit <> ex_timeout /\ exit = 0%Z /\ existsb isxfailed after = false /\
                                   existsb isskipped after = true) /\
  (spec_status exit log = PASS <-> exit <> ex_timeout /\ exit = 0%Z /\ existsb isxfailed after = false /\
                                   existsb isskipped after = false).
Proof. exact (fun exit log => conj (classify_spec exit log) (status_cases exit log)). Qed.
Print Assumptions C14_status.

(* the copy of a run's log is the specified extraction *)
Theorem C14_log_extract : forall st log, extract_log st log = spec_extract st log.
Proof. exact extract_spec. Qed.
Print Assumptions C14_log_extract.

(* ---- exit status: for every qsort whatsoever, exit 1 exactly when nothing is
   named, an invocation is invalid, or the arch/date directory of an invocation
   (or its diff directory) is a path the invocations before it wrote already ---- *)
Theorem C14_exit_iff : forall q inp,
  run_html q inp = None <->
  inp = [] \/ view (walk_dirs q) inp = None \/
  exists v, view (walk_dirs q) inp = Some v /\
    exists v1 I v2, v = v1 ++ I :: v2 /\
      (In (sinv_dir I) (map fst (flat_map spec_tree_inv v1)) \/
       In (pjoin (sinv_dir I) name_diff) (map fst (flat_map spec_tree_inv v1))).
Proof. exact run_html_none. Qed.
Print Assumptions C14_exit_iff.

(* a page always means pairwise different arch/date directories; for arch and
   directory names without '/' the converse holds: there is a page exactly when
   the input is valid and no arch/date pair repeats *)
Theorem C14_page_iff_partial : forall q inp,
  (forall pg v, run_html q inp = Some pg -> view (walk_dirs q) inp = Some v -> NoDup (map sinv_dir v)) /\
  (forall v, view (walk_dirs q) inp = Some v -> (forall I, In I v -> plain I) ->
     ((exists pg, run_html q inp = Some pg) <-> inp <> [] /\ NoDup (map sinv_dir v))).
Proof. exact page_iff_plain. Qed.
Print Assumptions C14_page_iff_partial.

(* ... and not for names with '/': arch "a/b" with directory "c", then arch "a"
   with directory "b" - distinct arch/date pairs, exit 1 (on the real program
   mkdir fails for such an arch) *)
Theorem C14_page_iff_refuted :
  exists v, view (walk_dirs exec_qsorts) w_slash = Some v /\ NoDup (map sinv_dir v) /\ w_slash <> [] /\
            run_html_exec w_slash = None.
Proof. exact page_slash_witness. Qed.
Print Assumptions C14_page_iff_refuted.

(* ---- one column per invocation, in descending start-time order ---- *)
Theorem C14_columns_sorted : forall q inp pg,
  qsorts_ok q -> run_html q inp = Some pg ->
  exists v vs, page_of_view q inp pg v vs /\
    List.length (p_cols pg) = List.length v /\
    (forall j I, nth_error vs j = Some I ->
       exists c, nth_error (p_cols pg) j = Some c /\ c_arch c = si_arch I /\ c_date c = si_date I /\
                 c_dmesg c = pjoin (pjoin (si_arch I) (si_date I)) name_dmesg) /\
    (forall i j I J, (i < j)%nat -> nth_error vs i = Some I -> nth_error vs j = Some J ->
       (si_time J <= si_time I)%Z).
Proof. exact columns_sorted. Qed.
Print Assumptions C14_columns_sorted.

(* ---- the matrix, for all inputs ---- *)

(* every row is a row of cells, never longer than the header; every non-empty
   cell shows the status derived from the exit code and log of SOME run of that
   suite and links to that run's log below its own arch/date directory; the
   column it stands in belongs to an invocation that started no later than the
   run's own *)
Theorem C14_cells_sound : forall q inp pg,
  qsorts_ok q -> run_html q inp = Some pg ->
  exists v vs, page_of_view q inp pg v vs /\
    forall S row, In (S, row) (p_rows pg) ->
      exists cells, row = RowOk cells /\ (List.length cells <= List.length (p_cols pg))%nat /\
        forall j st href, nth_error cells j = Some (Some (st, href)) ->
          exists I sr J, In I v /\ In sr (si_runs I) /\ sr_suite sr = S /\
            st = spec_status (sr_exit sr) (sr_content sr) /\
            href = pjoin (pjoin (si_arch I) (si_date I)) (sr_log sr) /\
            nth_error vs j = Some J /\ (si_time J <= si_time I)%Z.
Proof. exact cells_sound. Qed.
Print Assumptions C14_cells_sound.

(* what the row of a suite is, exactly: its runs (with the invocation each
   belongs to), in the order irs qsort left them (descending start time), are
   placed by counting - run number k stands at column index
     place_k = max (number of invocations that started after it, place_(k-1) + 1)
   if there is such a column; nothing else is shown; no empty cell follows the
   last run.  [newer]/[place] count over the view as given, not over the sorted
   columns the program walks. *)
Theorem C14_row_placement : forall q inp pg,
  qsorts_ok q -> run_html q inp = Some pg ->
  exists v vs, page_of_view q inp pg v vs /\
    forall S row, In (S, row) (p_rows pg) ->
      exists cells irs, row = RowOk cells /\
        qs_runs q (map run_of' (suite_runs v S)) = map run_of' irs /\
        Permutation (suite_runs v S) irs /\
        StronglySorted (fun a b => (irun_time b <= irun_time a)%Z) irs /\
        let ps := place (map si_time v) 0 (map irun_time irs) in
        (List.length cells <= List.length v)%nat /\
        (forall k p x, nth_error ps k = Some p -> nth_error irs k = Some x -> (p < List.length v)%nat ->
                       nth_error cells p = Some (Some (irun_cell x))) /\
        (forall j c, nth_error cells j = Some (Some c) ->
                     exists k x, nth_error ps k = Some j /\ nth_error irs k = Some x /\ c = irun_cell x) /\
        trim_cells cells = cells.
Proof. exact row_unguarded. Qed.
Print Assumptions C14_row_placement.

(* the suites of the page are exactly the suites of these run lists *)
Theorem C14_suite_runs : forall v S I sr,
  In (I, sr) (suite_runs v S) <-> In I v /\ In sr (si_runs I) /\ sr_suite sr = S.
Proof. exact in_suite_runs. Qed.
Print Assumptions C14_suite_runs.

(* ---- "shows a status iff S ran in I" ---- *)

(* REFUTED as stated for all inputs (known finding run-shown-under-wrong-invocation).
   (a) two invocations with equal start times (two arches): the column of I is
       a1's, the row of x/only2 shows a status there with a2's log, and x/only2
       did not run in I - although every suite ran at most once per invocation;
   (b) a suite recorded twice in one invocation, start times distinct: the
       second run is shown under the next invocation, in which the suite did
       not run. *)
Theorem C14_cell_iff_ran_refuted :
  (exists pg v I S st href,
     run_html_exec w_tie = Some pg /\ view (walk_dirs exec_qsorts) w_tie = Some v /\
     one_run_per_suite v /\ In I v /\
     nth_error (p_cols pg) 0 = Some (render_column (rinv_of I)) /\
     In (S, RowOk [Some (st, href)]) (p_rows pg) /\
     ~ ran_in S I /\ spec_cell S I = None /\
     si_arch I = bs "a1" /\ href = bs "a2/2022-10-25.1/o.log") /\
  (exists pg v I S c0 st href,
     run_html_exec w_dup = Some pg /\ view (walk_dirs exec_qsorts) w_dup = Some v /\
     distinct_times v /\ In I v /\
     nth_error (p_cols pg) 1 = Some (render_column (rinv_of I)) /\
     In (S, RowOk [c0; Some (st, href)]) (p_rows pg) /\ ~ ran_in S I /\
     href = bs "a1/2022-10-25.1/s2.log" /\ si_date I = bs "2022-10-24.1").
Proof. exact (conj tie_witness dup_witness). Qed.
Print Assumptions C14_cell_iff_ran_refuted.

(* ... and neither is an artefact of how the sort breaks ties: for EVERY qsort,
   (a) on two arches with equal start times and one suite each, the first column
   belongs to one invocation and the row of the suite that ran only in the other
   one shows its run there; (b) on the duplicate-suite input the second column is
   the older invocation and shows a link into the newer invocation's directory *)
Theorem C14_cell_iff_ran_refuted_any_qsort : forall q, qsorts_ok q ->
  (exists pg v I S st href,
    run_html q w_tie2 = Some pg /\ view (walk_dirs q) w_tie2 = Some v /\
    one_run_per_suite v /\ In I v /\
    nth_error (p_cols pg) 0 = Some (render_column (rinv_of I)) /\
    In (S, RowOk [Some (st, href)]) (p_rows pg) /\ ~ ran_in S I) /\
  (exists pg v I S c0 st href,
    run_html q w_dup = Some pg /\ view (walk_dirs q) w_dup = Some v /\
    distinct_times v /\ In I v /\
    nth_error (p_cols pg) 1 = Some (render_column (rinv_of I)) /\
    In (S, RowOk [c0; Some (st, href)]) (p_rows pg) /\ ~ ran_in S I /\
    si_date I = bs "2022-10-24.1" /\ prefixb (bs "a1/2022-10-25.1/") href = true).
Proof. exact (fun q Hq => conj (tie_any_qsort q Hq) (dup_any_qsort q Hq)). Qed.
Print Assumptions C14_cell_iff_ran_refuted_any_qsort.

(* under the PER-ROW guard: for every qsort and every input, the row of a suite
   S that is recorded at most once per invocation and whose invocations share
   their start time with no other invocation is the specified row (spec_row =
   the cells spec_cell S I of the columns, trailing empty cells not rendered):
   the cell in the column of invocation I is non-empty iff S ran in I, and then
   carries the status derived from that run's exit code and log and links to
   arch/date/log of I.  Ties among invocations in which S did not run are
   harmless; the guard of one row says nothing about the others. *)
Theorem C14_cell_iff_ran_partial : forall q inp pg,
  qsorts_ok q -> run_html q inp = Some pg ->
  exists v vs, page_of_view q inp pg v vs /\ NoDup (map sinv_dir v) /\
    forall S row, In (S, row) (p_rows pg) -> row_guard v S ->
      row = RowOk (spec_row vs S) /\
      (List.length (spec_row vs S) <= List.length vs)%nat /\
      forall j I, nth_error vs j = Some I ->
        (nth j (spec_row vs S) None <> None <-> ran_in S I) /\
        (forall st href, nth j (spec_row vs S) None = Some (st, href) ->
           exists sr, In sr (si_runs I) /\ sr_suite sr = S /\
                      st = spec_status (sr_exit sr) (sr_content sr) /\
                      href = pjoin (pjoin (si_arch I) (si_date I)) (sr_log sr)).
Proof. exact row_guarded. Qed.
Print Assumptions C14_cell_iff_ran_partial.

(* the two global guards of the earlier formulation (all start times pairwise
   distinct, every suite at most once per invocation) are a special case *)
Theorem C14_global_guards_suffice : forall v S,
  NoDup v -> distinct_times v -> one_run_per_suite v -> row_guard v S.
Proof. exact global_guards_row. Qed.
Print Assumptions C14_global_guards_suffice.

(* the finding, characterised for every input and every qsort: when S is
   recorded at most once per invocation, EVERY run of S is shown, under a column
   whose invocation has the run's own start time t - at index
     (number of invocations that started after t) + (number of runs of S with
      start time t that stand before it in S's sorted run list);
   it is the run's own column exactly when that rank equals the rank of its
   invocation among the columns with start time t.  Hence a run is shown under
   another invocation exactly when the two ranks differ, which takes another
   invocation with the same start time. *)
Theorem C14_wrong_invocation_iff : forall q inp pg,
  qsorts_ok q -> run_html q inp = Some pg ->
  exists v vs, page_of_view q inp pg v vs /\
    forall S row, In (S, row) (p_rows pg) -> (forall I, In I v -> once S I) ->
      exists cells irs, row = RowOk cells /\ Permutation (suite_runs v S) irs /\
        forall k I sr, nth_error irs k = Some (I, sr) ->
          let t := si_time I in
          let rank_run := count_eq t (map irun_time (firstn k irs)) in
          let p := (newer (map si_time v) t + rank_run)%nat in
          nth_error cells p = Some (Some (irun_cell (I, sr))) /\
          (exists J, nth_error vs p = Some J /\ si_time J = t) /\
          (forall i, nth_error vs i = Some I ->
             (i = p <-> count_eq t (map si_time (firstn i vs)) = rank_run)).
Proof. exact run_column. Qed.
Print Assumptions C14_wrong_invocation_iff.

(* ---- one row per suite; failing suites first ---- *)
Theorem C14_rows : forall q inp pg,
  qsorts_ok q -> run_html q inp = Some pg ->
  exists v, view (walk_dirs q) inp = Some v /\
    Permutation (map fst (p_rows pg)) (spec_suites v) /\ NoDup (map fst (p_rows pg)) /\
    StronglySorted (fun S T => row_le v S T = true) (map fst (p_rows pg)).
Proof. exact rows_order. Qed.
Print Assumptions C14_rows.

(* ... as an equation: the rows are the insertion sort of the suites (in order of
   first appearance) by the row order - group (failing somewhere / never failing /
   never failing and outside the regress directory), failures descending, name;
   that order is total and antisymmetric on names, so the arrangement is unique
   whatever qsort does *)
Theorem C14_rows_sorted_spec : forall q inp pg,
  qsorts_ok q -> run_html q inp = Some pg ->
  exists v, view (walk_dirs q) inp = Some v /\ map fst (p_rows pg) = isort (row_le v) (spec_suites v).
Proof. exact rows_eq_isort. Qed.
Print Assumptions C14_rows_sorted_spec.

(* whenever the row of S is above the row of T: T failing somewhere implies S
   failing somewhere, at least as often; S a never-failing ../ suite implies T
   one too; equal failure counts and kind imply S before T by name *)
Theorem C14_failing_first : forall q inp pg,
  qsorts_ok q -> run_html q inp = Some pg ->
  exists v, view (walk_dirs q) inp = Some v /\
    forall a S b T c, map fst (p_rows pg) = a ++ S :: b ++ T :: c ->
      ((0 < spec_fail v T)%nat -> (0 < spec_fail v S)%nat) /\
      ((0 < spec_fail v T)%nat -> (spec_fail v T <= spec_fail v S)%nat) /\
      (spec_fail v S = 0%nat -> prefixb nonregress_prefix S = true ->
         spec_fail v T = 0%nat /\ prefixb nonregress_prefix T = true) /\
      (spec_fail v S = spec_fail v T ->
       prefixb nonregress_prefix S = prefixb nonregress_prefix T -> strcmp S T = Lt).
Proof. exact failing_first. Qed.
Print Assumptions C14_failing_first.

(* ---- pass rate = floor(100 * (total - fail) / total), 0 when nothing ran ---- *)

(* for every qsort and every input: every column's pass rate is the share of
   non-failing runs of its invocation, rounded down (total = the recorded runs:
   a suite recorded twice counts twice) *)
Theorem C14_rate : forall q inp pg, qsorts_ok q -> run_html q inp = Some pg ->
  exists v vs, page_of_view q inp pg v vs /\
    map c_rate (p_cols pg) =
    map (fun I => render_Z (spec_rate (si_total I) (si_fail I)) ++ [PERCENT]) vs.
Proof. exact rate_full. Qed.
Print Assumptions C14_rate.

(* the integer arithmetic of the source is the specified rate for ALL counts,
   including no runs at all; the failing runs are among the runs; the rate lies
   in 0..100 and is 100 exactly when nothing failed *)
Theorem C14_rate_all_counts :
  (forall total fail, rate_int (Z.of_nat total) (Z.of_nat fail) = spec_rate total fail) /\
  (forall I, (si_fail I <= si_total I)%nat) /\
  (forall total fail,
     spec_rate 0 fail = 0%Z /\
     ((fail <= total)%nat -> (0 <= spec_rate total fail <= 100)%Z) /\
     ((0 < total)%nat -> spec_rate total 0 = 100%Z) /\
     ((0 < total)%nat -> (fail <= total)%nat -> (spec_rate total fail = 100%Z <-> fail = 0%nat))).
Proof. exact (conj rate_int_spec (conj si_fail_le spec_rate_facts)). Qed.
Print Assumptions C14_rate_all_counts.

(* HISTORICAL PIN, not a result about /repo: the float form that /repo had before
   ea4de2c (1 - fail/(float)total, times 100, truncated; [rate_float] is a model
   of code that no longer exists) showed 2 of 5 passing as 39%; by enumeration
   of all totals up to 64 (a bounded statement) it is right or one too small,
   the latter only where the exact quotient is an integer *)
Theorem C14_historical_float_rate :
  (rate_float 5 3 = 39%Z /\ spec_rate 5 3 = 40%Z /\ rate_int 5 3 = 40%Z) /\
  (forall total, rate_float 0 0 = 0%Z /\ ((0 < total)%Z -> rate_float total 0 = 100%Z)) /\
  (forall total fail, (1 <= total <= 64)%nat -> (fail <= total)%nat ->
     rate_float (Z.of_nat total) (Z.of_nat fail) = spec_rate total fail \/
     (rate_float (Z.of_nat total) (Z.of_nat fail) = (spec_rate total fail - 1)%Z /\
      ((100 * (Z.of_nat total - Z.of_nat fail)) mod Z.of_nat total = 0)%Z)).
Proof. exact (conj rate_float_witness (conj rate_float_trivial rate_float_upto_64)). Qed.
Print Assumptions C14_historical_float_rate.

(* ---- rendering never reads outside its data: the column pointer ---- *)

(* [render_suite] is modelled with the pointer arithmetic the source has
   (HtmlDefs.walk_ix: end = ri + VECTOR_LENGTH + walk_end_extra, loop test <
   or <=, break test == or >=, all read by the translator), every read of
   ri->time through a checked accessor.  For every input and every qsort
   whatsoever (not even a sorting one): no row reports a read at or beyond the end
   of the invocation vector, and no row has more cells than the header *)
Theorem C14_no_oob : forall q inp pg S row,
  run_html q inp = Some pg -> In (S, row) (p_rows pg) ->
  exists cells, row = RowOk cells /\ (List.length cells <= List.length (p_cols pg))%nat.
Proof. exact no_oob_width. Qed.
Print Assumptions C14_no_oob.

(* the bound is exact: the limit the source has excludes index VECTOR_LENGTH,
   and with one invocation ANY end pointer/loop test that lets the loop look at index 1 reads
   outside the vector when a suite is recorded twice (so an off-by-one in
   render_suite is a different model, not the same one) *)
Theorem C14_bound_is_tight :
  (forall cols, in_range (walk_limit cols) (List.length cols) = false) /\
  (forall wl, in_range (Some wl) 1 = true ->
     walk_ix (Some wl) [oob_col] 0 [oob_r1; oob_r2] [] = RowOOB [Some (PASS, [108; 49])]).
Proof. exact (conj source_limit_exact bound_is_tight). Qed.
Print Assumptions C14_bound_is_tight.

(* HISTORICAL PIN, not a result about /repo: the walk without an end pointer that
   /repo had before 4acd4e2 ([walk false], [walk_ix None]) leaves the pointer
   at the end of the vector after the first of two runs of one suite, and the
   loop condition reads it; the walk of the current source renders the first run
   and stops *)
Theorem C14_historical_unbounded_walk :
  (walk false [oob_col] 0 [oob_r1; oob_r2] [] = RowOOB [Some (PASS, [108; 49])] /\
   walk_ix None [oob_col] 0 [oob_r1; oob_r2] [] = RowOOB [Some (PASS, [108; 49])] /\
   walk_ix (walk_limit [oob_col]) [oob_col] 0 [oob_r1; oob_r2] [] = RowOk [Some (PASS, [108; 49])]) /\
  exists pg, run_html_exec w_oob = Some pg /\
    p_rows pg = [(bs "x/s", RowOk [Some (PASS, bs "a1/2022-10-25.1/s1.log")])].
Proof. exact (conj oob_walks oob_page_current). Qed.
Print Assumptions C14_historical_unbounded_walk.

(* ---- the output tree: every file and directory below the output directory
   is the specified one (copies of dmesg, comment, patches, and per run the
   extraction of its log; an existing path is never overwritten) ---- *)
Theorem C14_output_tree : forall q inp pg, run_html q inp = Some pg ->
  exists v, view (walk_dirs q) inp = Some v /\ p_tree pg = spec_tree v.
Proof. exact page_tree. Qed.
Print Assumptions C14_output_tree.

(* the link of every run of every invocation names exactly one entry of that
   tree, and that entry is a file holding the extraction of THAT run's log -
   provided every creation of that path writes this content *)
Theorem C14_link_target_partial : forall q inp pg, run_html q inp = Some pg ->
  exists v, view (walk_dirs q) inp = Some v /\ NoDup (map fst (p_tree pg)) /\
    forall I sr, In I v -> In sr (si_runs I) ->
      let href := pjoin (pjoin (si_arch I) (si_date I)) (sr_log sr) in
      let copy := spec_extract (spec_status (sr_exit sr) (sr_content sr)) (sr_content sr) in
      (forall c, In (href, c) (flat_map spec_tree_inv v) -> c = Some copy) ->
      tree_lookup (p_tree pg) href = Some (Some copy).
Proof. exact link_target. Qed.
Print Assumptions C14_link_target_partial.

(* the proviso discharged from conditions that can be checked on the input: arch
   and directory names without '/', and - in the run's invocation - log names
   pairwise distinct, without '/', none of dmesg, comment, diff (robsd's own
   NNN-name.log names are such names): then the link of every run leads to a file
   holding the extraction of that run's log *)
Theorem C14_link_target_checkable : forall q inp pg, run_html q inp = Some pg ->
  exists v, view (walk_dirs q) inp = Some v /\
    forall I sr, (forall J, In J v -> plain J) -> In I v -> In sr (si_runs I) ->
      (NoDup (map sr_log (si_runs I)) /\
       forall sr', In sr' (si_runs I) ->
         noslash (sr_log sr') /\ sr_log sr' <> name_dmesg /\ sr_log sr' <> name_comment /\ sr_log sr' <> name_diff) ->
      tree_lookup (p_tree pg) (pjoin (pjoin (si_arch I) (si_date I)) (sr_log sr)) =
      Some (Some (spec_extract (spec_status (sr_exit sr) (sr_content sr)) (sr_content sr))).
Proof. exact link_target_checkable. Qed.
Print Assumptions C14_link_target_checkable.

(* without the proviso it fails: two steps of one invocation naming the same
   log file, one exiting 0 (SKIP) and one exiting 1 (FAIL) - the FAIL cell
   links to the extraction made for the SKIP run *)
Theorem C14_link_target_refuted :
  exists pg v I sr other,
    run_html_exec w_shared = Some pg /\ view (walk_dirs exec_qsorts) w_shared = Some v /\
    In I v /\ In sr (si_runs I) /\ sr_suite sr = bs "x/b" /\
    tree_lookup (p_tree pg) (pjoin (pjoin (si_arch I) (si_date I)) (sr_log sr)) = Some (Some other) /\
    other <> spec_extract (spec_status (sr_exit sr) (sr_content sr)) (sr_content sr).
Proof. exact link_witness. Qed.
Print Assumptions C14_link_target_refuted.

(* ---- the oracle applied to what the implementation rendered means the
   specification: exit status, columns = the invocations by descending start
   time, header fields, pass rates, rows in the specified order, every cell the
   specified cell, no row longer than the header, the specified tree ---- *)
Theorem C14_oracle_sound : forall inp o,
  (spec_ok inp o = true -> view (walk_dirs exec_qsorts) inp = None -> o_exit o = 1) /\
  (forall v, spec_ok inp o = true -> view (walk_dirs exec_qsorts) inp = Some v ->
     inp <> [] -> nodupb (map sinv_dir v) = true ->
     o_exit o = 0 /\
     exists cols, all_some (map (find_inv v) (o_cols o)) = Some cols /\
       List.length cols = List.length v /\ nodupb (map sinv_dir cols) = true /\
       sorted_desc (map si_time cols) = true /\
       forallb (fun p => column_ok (fst p) (snd p)) (combine cols (o_cols o)) = true /\
       forallb (fun p => rate_ok (fst p) (snd p)) (combine cols (o_cols o)) = true /\
       list_eqb beq (map or_suite (o_rows o)) (isort (row_le v) (spec_suites v)) = true /\
       (forall r, In r (o_rows o) ->
          beq (or_href r) (suite_href (or_suite r)) = true /\
          list_all2 ocell_ok (spec_row cols (or_suite r)) (or_cells r) = true /\
          (List.length (or_cells r) <= List.length cols)%nat) /\
       tree_ok (spec_tree v) (o_tree o) = true).
Proof. exact (fun inp o => conj (spec_ok_reject inp o) (fun v => spec_ok_sound inp o v)). Qed.
Print Assumptions C14_oracle_sound.

(* ... and it is tied to the theorems.  HYPOTHESIS [plain_input]: arch and directory
   names free of '/' (without it the exit-status clause and the model differ:
   C14_oracle_accepts_model_refuted).  Applied to what the MODEL renders for such
   a command line the oracle can only ever fail clause 6 (a cell), and it accepts
   the page as soon as every suite satisfies the per-row guard.  Which rows may
   fail is said row by row, without any hypothesis, by C14_oracle_row_accepts_model *)
Theorem C14_oracle_accepts_model_partial : forall inp, plain_input inp ->
  (forall k, In k (spec_check inp (obs_of (run_html_exec inp))) -> k = 6) /\
  (forall v, view (walk_dirs exec_qsorts) inp = Some v ->
     (forall S, In S (spec_suites v) -> row_guard v S) ->
     spec_ok inp (obs_of (run_html_exec inp)) = true).
Proof. exact oracle_accepts_model. Qed.
Print Assumptions C14_oracle_accepts_model_partial.

(* outside that guard the oracle's exit-status clause (distinct arch/date) and
   the program disagree: see C14_page_iff_refuted *)
Theorem C14_oracle_accepts_model_refuted :
  ~ plain_input w_slash /\ run_html_exec w_slash = None /\
  spec_check w_slash (obs_of (run_html_exec w_slash)) = [1].
Proof. exact oracle_slash_witness. Qed.
Print Assumptions C14_oracle_accepts_model_refuted.

(* ---- the cell clause of the oracle, row by row (what the harness is entitled to
   call the known finding) ---- *)

(* clause 6 of spec_check says exactly: the observation has a matrix to judge and
   some row of [rows_report] is not the specified row *)
Theorem C14_oracle_clause6_is_per_row : forall inp o,
  In 6 (spec_check inp o) <->
  exists v rep, view (walk_dirs exec_qsorts) inp = Some v /\
    inp <> [] /\ nodupb (map sinv_dir v) = true /\ o_exit o = 0 /\
    rows_report inp o = Some rep /\ existsb (fun r => negb (rr_cells_ok r)) rep = true.
Proof. exact clause6_rows. Qed.
Print Assumptions C14_oracle_clause6_is_per_row.

(* the two booleans of a report row are the per-row guard of C14_cell_iff_ran_partial
   (for pairwise distinct arch/date directories - every page has them, C14_page_iff_partial) *)
Theorem C14_row_guard_booleans : forall v S, NoDup (map sinv_dir v) ->
  (row_guardb v S = true <-> row_guard v S) /\
  row_guardb v S = row_onceb v S && row_notiesb v S.
Proof. exact (fun v S Hnd => conj (row_guardb_iff v S Hnd) eq_refl). Qed.
Print Assumptions C14_row_guard_booleans.

(* the oracle accepts the model ROW BY ROW, for every command line whatsoever: in
   the report on the model's own page every row is sound (never longer than the
   header; every non-empty cell is the status and arch/date/log link of some run
   of that suite, in a column that started no later than that run's invocation),
   and every row whose own suite satisfies the guard is the specified row.  Hence
   a failing row with the guard is never the known finding, and a failing row
   without it is the known finding only as long as it is sound. *)
Theorem C14_oracle_row_accepts_model : forall inp rep,
  rows_report inp (obs_of (run_html_exec inp)) = Some rep ->
  forall r, In r rep ->
    rr_sound r = true /\ (rr_once r = true -> rr_noties r = true -> rr_cells_ok r = true).
Proof. exact rows_report_model. Qed.
Print Assumptions C14_oracle_row_accepts_model.

(* ---- the status decision is the one property C13's caller model makes ---- *)
Theorem C14_status_is_C13_html_status : forall exit log,
  RLHtmlBridge.to_hstatus (classify (Z.of_N exit) log) =
  RLCallDefs.html_status Gen_RegressLog.ex_timeout exit log.
Proof. exact RLHtmlBridge.html_status_is_classify. Qed.
Print Assumptions C14_status_is_C13_html_status.

(* ---- index.html as bytes ---- *)

(* [page_bytes pg] (Html/HtmlPage.v) is the file html.c + the render_* functions
   write for the page pg (compared byte for byte with the real file by the check);
   [parse_index] (Html/HtmlParse.v) is the strict reader whose matrix the oracle
   judges.  Reading the model's file back gives the model's matrix - columns and
   rows as the theorems above talk about them - whenever page_safe holds: dates,
   arch names, suite names (and rates) non-empty, without a less-than sign and
   without white space at either end; no double quote in any link *)
Theorem C14_index_roundtrip : forall pg, page_safeb pg = true ->
  parse_index (page_bytes pg) = POk (p_cols pg) (map orow_of (p_rows pg)).
Proof. exact index_roundtrip. Qed.
Print Assumptions C14_index_roundtrip.

(* the same on the input: every qsort, every command line whose arch, directory and
   suite names are such names and whose log names hold no double quote *)
Theorem C14_index_roundtrip_input : forall q inp pg v,
  qsorts_ok q -> run_html q inp = Some pg -> view (walk_dirs q) inp = Some v ->
  (forall I, In I v ->
     (text_okb (si_arch I) = true /\ attr_okb (si_arch I) = true) /\
     (text_okb (si_date I) = true /\ attr_okb (si_date I) = true) /\
     forall sr, In sr (si_runs I) ->
       (text_okb (sr_suite sr) = true /\ attr_okb (sr_suite sr) = true) /\ attr_okb (sr_log sr) = true) ->
  parse_index (page_bytes pg) = POk (p_cols pg) (map orow_of (p_rows pg)).
Proof. exact index_roundtrip_view. Qed.
Print Assumptions C14_index_roundtrip_input.

(* so the observation built from the files the model leaves (exit status, bytes of
   index.html, output tree) is the observation the oracle theorems are about *)
Theorem C14_observation_from_files : forall p, (forall pg, p = Some pg -> page_safeb pg = true) ->
  obs_of_files (match p with Some _ => 0 | None => 1 end) (index_bytes p)
               (match p with Some pg => p_tree pg | None => [] end) = Some (obs_of p).
Proof. exact obs_of_files_model. Qed.
Print Assumptions C14_observation_from_files.

(* outside that guard it fails, because html.c escapes nothing: a suite named
   a<b>/c is written into the markup as it is and the file is not well formed *)
Theorem C14_index_roundtrip_refuted :
  exists pg v, run_html_exec w_markup = Some pg /\ view (walk_dirs exec_qsorts) w_markup = Some v /\
    map fst (p_rows pg) = [bs "a<b>/c"] /\ ~ view_safe v /\ page_safeb pg = false /\
    parse_index (page_bytes pg) = PFail 2.
Proof. exact index_unsafe_witness. Qed.
Print Assumptions C14_index_roundtrip_refuted.

(* ---- the assumption "empty output directory" ---- *)

(* [run_html] starts from an empty output directory.  Otherwise: when the arch/date
   directory of the first invocation the program walks exists already (a second
   generation into the same directory), the model exits 1 whatever else the input
   holds - a page cannot be regenerated in place.  (Observed by the check's rerun
   lane on the real program: exit 1 at that mkdir, nothing below the output
   directory touched, index.html left as it was.) *)
Theorem C14_regeneration_refused : forall q a inp e es st,
  walk_dirs q (a_entries a) = e :: es ->
  tree_has (st_tree st) (pjoin (a_arch a) (e_name e)) = true ->
  parse_all q (a :: inp) st = None.
Proof. exact regeneration_refused. Qed.
Print Assumptions C14_regeneration_refused.

(* non-vacuity: two arches, three invocations with distinct start times, a
   suite that appears later, one that disappears, a failing one, a timeout:
   the guards hold, the page exists, and its rows are the specified ones *)
Example C14_example :
  exists pg v, run_html_exec w_example = Some pg /\ view (walk_dirs exec_qsorts) w_example = Some v /\
    List.length v = 3%nat /\ distinct_times v /\ one_run_per_suite v /\
    map fst (p_rows pg) = w_example_suites /\
    map snd (p_rows pg) = w_example_rows.
Proof. exact example_page. Qed.

(* non-vacuity of the byte-level statements: the same example's index.html (more
   than 2000 bytes) satisfies the guard and is read back to its three columns and
   three rows *)
Example C14_example_index :
  exists pg, run_html_exec w_example = Some pg /\ page_safeb pg = true /\
    parse_index (page_bytes pg) = POk (p_cols pg) (map orow_of (p_rows pg)) /\
    List.length (p_cols pg) = 3%nat /\ List.length (p_rows pg) = 3%nat /\
    Nat.ltb 2000 (List.length (page_bytes pg)) = true.
Proof. exact example_index. Qed.
