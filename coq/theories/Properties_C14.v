(* Properties_C14.v - the regress HTML matrix shows every run under its own
   invocation.  Only theorem statements, each closed by [exact] and followed by
   Print Assumptions.

   [run_html q inp] is the model of `robsd-regress-html -o out arch:path ...`
   (Html/HtmlDefs.v; tied to the binary by the correspondence check and, for
   the tables, constants and the two repairable functions, by the translator
   harness/t_html.py -> gen/Gen_Html.v): None = exit 1, Some page = the header
   columns, the body rows as rendered and the output tree.  [q] is libc's
   qsort, about which only [qsorts_ok] is assumed: it returns a permutation of
   its input that is ordered by the comparison function.  [view] is what the
   command line denotes (Html/HtmlSpec.v): the invocations with their start
   time and their runs (suite, exit code, log).

   Quantifiers: every command line (any number of arch arguments and
   invocations, any step files, any log contents), every qsort.

   Full statement of the matrix clause:
     for all inputs, the cell of suite S under the column of invocation I shows
     a status iff S ran in I, namely the status of that run, linking to its log
     below I's arch/date directory; rendering never reads outside its data.
   The code VIOLATES the first half (defect D9, recorded as a known finding):
   runs are matched to columns by start time only.  Hence
   C14_cell_iff_ran_refuted (witnesses replayed on the real binary by
   corpus/C14) and the _partial versions under the exact guards
   [distinct_times] and [one_run_per_suite].

   Two defects were repaired in /repo and their clauses are stated at full
   strength for the code as it is now: the pass rate (D8: computed in float and
   truncated; now integer arithmetic) and the bound of the column pointer (D9:
   out-of-bounds read when a suite is recorded twice in an invocation).
   gen/Gen_Html.v says which render_rate / render_suite the source contains;
   Html/HtmlTie.v - and with it C14_rate and C14_no_oob - stop compiling when
   either repair is taken out again, and the check then replays
   C14_regression_float_rate / C14_regression_unbounded_walk's inputs
   (corpus/C14) on the real binary. *)
From Robsd Require Import Html.HtmlProofs Html.HtmlWitness Html.HtmlTie.
From RobsdGen Require Import Gen_Html.
From Coq Require Import String Sorting.Sorted Sorting.Permutation.
Local Open Scope N_scope.

(* ---- what the translator read out of regress-html.c / step-exec.h ---- *)

(* the status table in enum order with the failure flags, the timeout exit code *)
Theorem C14_tables :
  run_statuses = map (fun s => (status_str s, status_failure s)) all_statuses /\
  (forall s, status_failure s = true <-> s = FAIL \/ s = XPASS \/ s = NOTERM) /\
  ex_timeout = 124%Z /\ delta_threshold = 600%Z /\ nonregress_prefix = [46; 46; 47] /\
  name_end = [101; 110; 100] /\ name_attic = [97; 116; 116; 105; 99].
Proof. exact (conj statuses_tie (conj failure_statuses constants_tie)). Qed.
Print Assumptions C14_tables.

(* the sorting function the extracted driver runs is one of the qsorts quantified over *)
Theorem C14_exec_qsort_admissible : qsorts_ok exec_qsorts.
Proof. exact exec_qsorts_ok. Qed.
Print Assumptions C14_exec_qsort_admissible.

(* ---- status of a run: NOTERM for the timeout code, XPASS or FAIL for other
   failures, XFAIL, SKIP or PASS otherwise; the model's classification through
   regress_log_peek is this comprehension over the log's lines after the
   leading shell trace ---- *)
Theorem C14_status : forall exit log,
  classify exit log = spec_status exit log /\
  let after := drop_trace (clines log) in
  (spec_status exit log = NOTERM <-> exit = ex_timeout) /\
  (spec_status exit log = XPASS <-> exit <> ex_timeout /\ exit <> 0%Z /\ existsb isxpassed after = true) /\
  (spec_status exit log = FAIL <-> exit <> ex_timeout /\ exit <> 0%Z /\ existsb isxpassed after = false) /\
  (spec_status exit log = XFAIL <-> exit <> ex_timeout /\ exit = 0%Z /\ existsb isxfailed after = true) /\
  (spec_status exit log = SKIP <-> exit <> ex_timeout /\ exit = 0%Z /\ existsb isxfailed after = false /\
                                   existsb isskipped after = true) /\
  (spec_status exit log = PASS <-> exit <> ex_timeout /\ exit = 0%Z /\ existsb isxfailed after = false /\
                                   existsb isskipped after = false).
Proof. exact (fun exit log => conj (classify_spec exit log) (status_cases exit log)). Qed.
Print Assumptions C14_status.

(* the copy of a run's log is the specified extraction *)
Theorem C14_log_extract : forall st log, extract_log st log = spec_extract st log.
Proof. exact extract_spec. Qed.
Print Assumptions C14_log_extract.

(* ---- invalid input is answered with exit 1 ---- *)
Theorem C14_invalid_rejected : forall q inp,
  view (walk_dirs q) inp = None -> run_html q inp = None.
Proof. exact run_html_invalid. Qed.
Print Assumptions C14_invalid_rejected.

(* ---- one column per invocation, in descending start-time order ---- *)
Theorem C14_columns_sorted : forall q inp pg,
  qsorts_ok q -> run_html q inp = Some pg ->
  exists v vs, page_of_view q inp pg v vs /\
    List.length (p_cols pg) = List.length v /\
    (forall j I, nth_error vs j = Some I ->
       exists c, nth_error (p_cols pg) j = Some c /\ c_arch c = si_arch I /\ c_date c = si_date I /\
                 c_dmesg c = pjoin (pjoin (si_arch I) (si_date I)) name_dmesg) /\
    (forall i j I J, (i < j)%nat -> nth_error vs i = Some I -> nth_error vs j = Some J ->
       (si_time J <= si_time I)%Z).
Proof. exact columns_sorted. Qed.
Print Assumptions C14_columns_sorted.

(* ---- the matrix ---- *)

(* REFUTED as stated for all inputs (defect D9).
   (a) two invocations with equal start times (two arches): the column of I is
       a1's, the row of x/only2 shows a status there with a2's log, and x/only2
       did not run in I - although every suite ran at most once per invocation;
   (b) a suite recorded twice in one invocation, start times distinct: the
       second run is shown under the next invocation, in which the suite did
       not run. *)
Theorem C14_cell_iff_ran_refuted :
  (exists pg v I S st href,
     run_html_exec w_tie = Some pg /\ view (walk_dirs exec_qsorts) w_tie = Some v /\
     one_run_per_suite v /\ In I v /\
     nth_error (p_cols pg) 0 = Some (render_column (rinv_of I)) /\
     In (S, RowOk [Some (st, href)]) (p_rows pg) /\
     ~ ran_in S I /\ spec_cell S I = None /\
     si_arch I = bs "a1" /\ href = bs "a2/2022-10-25.1/o.log") /\
  (exists pg v I S c0 st href,
     run_html_exec w_dup = Some pg /\ view (walk_dirs exec_qsorts) w_dup = Some v /\
     distinct_times v /\ In I v /\
     nth_error (p_cols pg) 1 = Some (render_column (rinv_of I)) /\
     In (S, RowOk [c0; Some (st, href)]) (p_rows pg) /\ ~ ran_in S I /\
     href = bs "a1/2022-10-25.1/s2.log" /\ si_date I = bs "2022-10-24.1").
Proof. exact (conj tie_witness dup_witness). Qed.
Print Assumptions C14_cell_iff_ran_refuted.

(* ... and (a) is not an artefact of how the sort breaks ties: for EVERY qsort,
   on two arches with equal start times and one suite each, the first column
   belongs to one invocation and the row of the suite that ran only in the
   other one shows its run there *)
Theorem C14_cell_iff_ran_refuted_any_qsort : forall q, qsorts_ok q ->
  exists pg v I S st href,
    run_html q w_tie2 = Some pg /\ view (walk_dirs q) w_tie2 = Some v /\
    one_run_per_suite v /\ In I v /\
    nth_error (p_cols pg) 0 = Some (render_column (rinv_of I)) /\
    In (S, RowOk [Some (st, href)]) (p_rows pg) /\ ~ ran_in S I.
Proof. exact tie_any_qsort. Qed.
Print Assumptions C14_cell_iff_ran_refuted_any_qsort.

(* under the guards: for every qsort and every input, every row is a row of
   cells, no longer than the header, and the cell in the column of invocation I
   is non-empty iff the suite ran in I; then it carries the status derived from
   that run's exit code and log and links to arch/date/log of I
   (C14_cell_iff_ran_partial and C14_cell_status_partial in one statement) *)
Theorem C14_cell_iff_ran_partial : forall q inp pg,
  qsorts_ok q -> run_html q inp = Some pg ->
  exists v vs, page_of_view q inp pg v vs /\
    (distinct_times v -> one_run_per_suite v ->
     forall S row, In (S, row) (p_rows pg) ->
       exists cells, row = RowOk cells /\
         (List.length cells <= List.length vs)%nat /\
         forall j I, nth_error vs j = Some I ->
           (nth j cells None <> None <-> ran_in S I) /\
           (forall st href, nth j cells None = Some (st, href) ->
              exists sr, In sr (si_runs I) /\ sr_suite sr = S /\
                         st = spec_status (sr_exit sr) (sr_content sr) /\
                         href = pjoin (pjoin (si_arch I) (si_date I)) (sr_log sr))).
Proof. exact cells_partial. Qed.
Print Assumptions C14_cell_iff_ran_partial.

(* the same, as an equation: the row is the specified row (spec_row = the cells
   spec_cell S I of the columns, trailing empty cells not rendered) *)
Theorem C14_cell_status_partial : forall q inp pg,
  qsorts_ok q -> run_html q inp = Some pg ->
  exists v vs, view (walk_dirs q) inp = Some v /\ Permutation v vs /\ StronglySorted time_ge vs /\
    p_cols pg = map (fun I => render_column (rinv_of I)) vs /\
    (distinct_times v -> one_run_per_suite v ->
     forall S row, In (S, row) (p_rows pg) -> row = RowOk (spec_row vs S)).
Proof. exact matrix_partial. Qed.
Print Assumptions C14_cell_status_partial.

(* ---- one row per suite; failing suites first ---- *)
Theorem C14_rows : forall q inp pg,
  qsorts_ok q -> run_html q inp = Some pg ->
  exists v, view (walk_dirs q) inp = Some v /\
    Permutation (map fst (p_rows pg)) (spec_suites v) /\ NoDup (map fst (p_rows pg)) /\
    StronglySorted (fun S T => row_le v S T = true) (map fst (p_rows pg)).
Proof. exact rows_order. Qed.
Print Assumptions C14_rows.

(* whenever the row of S is above the row of T: T failing somewhere implies S
   failing somewhere, at least as often; S a never-failing ../ suite implies T
   one too; equal failure counts and kind imply S before T by name *)
Theorem C14_failing_first : forall q inp pg,
  qsorts_ok q -> run_html q inp = Some pg ->
  exists v, view (walk_dirs q) inp = Some v /\
    forall a S b T c, map fst (p_rows pg) = a ++ S :: b ++ T :: c ->
      ((0 < spec_fail v T)%nat -> (0 < spec_fail v S)%nat) /\
      ((0 < spec_fail v T)%nat -> (spec_fail v T <= spec_fail v S)%nat) /\
      (spec_fail v S = 0%nat -> prefixb nonregress_prefix S = true ->
         spec_fail v T = 0%nat /\ prefixb nonregress_prefix T = true) /\
      (spec_fail v S = spec_fail v T ->
       prefixb nonregress_prefix S = prefixb nonregress_prefix T -> strcmp S T = Lt).
Proof. exact failing_first. Qed.
Print Assumptions C14_failing_first.

(* ---- pass rate = floor(100 * (total - fail) / total) ---- *)

(* for every qsort and every input: every column's pass rate is the share of
   non-failing suites of its invocation, rounded down *)
Theorem C14_rate : forall q inp pg, qsorts_ok q -> run_html q inp = Some pg ->
  exists v vs, page_of_view q inp pg v vs /\
    map c_rate (p_cols pg) =
    map (fun I => render_Z (spec_rate (si_total I) (si_fail I)) ++ [PERCENT]) vs.
Proof. exact rate_full. Qed.
Print Assumptions C14_rate.

(* the integer form is the specified rate, for all totals *)
Theorem C14_rate_integer_form : forall total fail,
  rate_int (Z.of_nat total) (Z.of_nat fail) = spec_rate total fail.
Proof. exact rate_int_spec. Qed.
Print Assumptions C14_rate_integer_form.

(* which forms regress-html.c contains, read by the translator *)
Theorem C14_source_variants : rate_is_integer = true /\ walk_is_bounded = true.
Proof. exact variants. Qed.
Print Assumptions C14_source_variants.

(* documented regression (defect D8, repaired): the float form
   1 - fail/(float)total, times 100, truncated, shows 2 of 5 passing as 39%;
   for every total it is right in the trivial cases, and by enumeration of all
   totals up to 64 (a bounded statement, said so) it is right or one too small,
   the latter only where the exact quotient is an integer *)
Theorem C14_regression_float_rate :
  (rate_float 5 3 = 39%Z /\ spec_rate 5 3 = 40%Z /\ rate_int 5 3 = 40%Z) /\
  (forall total, rate_float 0 0 = 0%Z /\ ((0 < total)%Z -> rate_float total 0 = 100%Z)) /\
  (forall total fail, (1 <= total <= 64)%nat -> (fail <= total)%nat ->
     rate_float (Z.of_nat total) (Z.of_nat fail) = spec_rate total fail \/
     (rate_float (Z.of_nat total) (Z.of_nat fail) = (spec_rate total fail - 1)%Z /\
      ((100 * (Z.of_nat total - Z.of_nat fail)) mod Z.of_nat total = 0)%Z)).
Proof. exact (conj rate_float_witness (conj rate_float_trivial rate_float_upto_64)). Qed.
Print Assumptions C14_regression_float_rate.

(* ---- rendering never reads outside its data ---- *)

(* for every input and every qsort whatsoever (not even a sorting one): every
   row is a row of cells; the column pointer is never dereferenced at or beyond
   the end of the invocation vector *)
Theorem C14_no_oob : forall q inp pg S row,
  run_html q inp = Some pg -> In (S, row) (p_rows pg) -> exists cells, row = RowOk cells.
Proof. exact no_oob_full. Qed.
Print Assumptions C14_no_oob.

(* documented regression (defect D9, repaired): without the bound the same
   suite twice in the only invocation leaves the pointer at the end of the
   vector after the first run, and the loop condition reads it; with the bound
   the surplus run is not rendered *)
Theorem C14_regression_unbounded_walk :
  (let c := mkrinv (bs "a1") (bs "d") 2000 100 DNone 2 0 false 0 in
   let r1 := mkrun (bs "l1") 2000 0 PASS in
   let r2 := mkrun (bs "l2") 2000 0 PASS in
   walk false [c] 0 [r1; r2] [] = RowOOB [Some (PASS, bs "l1")] /\
   walk true [c] 0 [r1; r2] [] = RowOk [Some (PASS, bs "l1")]) /\
  exists v, view (walk_dirs exec_qsorts) w_oob = Some v /\ distinct_times v /\
    match run_html_exec w_oob with
    | Some pg => p_rows pg = [(bs "x/s", (if walk_is_bounded then RowOk else RowOOB)
                                           [Some (PASS, bs "a1/2022-10-25.1/s1.log")])]
    | None => False
    end.
Proof. exact (conj oob_walk_witness oob_page_witness). Qed.
Print Assumptions C14_regression_unbounded_walk.

(* ---- the output tree: every file and directory below the output directory
   is the specified one (copies of dmesg, comment, patches, and per run the
   extraction of its log; an existing path is never overwritten), and the link
   of every run of every invocation leads to a file of that tree ---- *)
Theorem C14_output_tree : forall q inp pg, run_html q inp = Some pg ->
  exists v, view (walk_dirs q) inp = Some v /\ p_tree pg = spec_tree v.
Proof. exact page_tree. Qed.
Print Assumptions C14_output_tree.

Theorem C14_links_exist : forall q inp pg, run_html q inp = Some pg ->
  exists v, view (walk_dirs q) inp = Some v /\
    forall I sr, In I v -> In sr (si_runs I) ->
      exists c, In (pjoin (pjoin (si_arch I) (si_date I)) (sr_log sr), c) (p_tree pg).
Proof. exact links_exist. Qed.
Print Assumptions C14_links_exist.

(* ---- the oracle applied to what the implementation rendered means the
   specification: exit status, columns = the invocations by descending start
   time, header fields, pass rates, rows in the specified order, every cell the
   specified cell, no row longer than the header, the specified tree ---- *)
Theorem C14_oracle_sound : forall inp o,
  (spec_ok inp o = true -> view (walk_dirs exec_qsorts) inp = None -> o_exit o = 1) /\
  (forall v, spec_ok inp o = true -> view (walk_dirs exec_qsorts) inp = Some v ->
     inp <> [] -> nodupb (map sinv_dir v) = true ->
     o_exit o = 0 /\
     exists cols, all_some (map (find_inv v) (o_cols o)) = Some cols /\
       List.length cols = List.length v /\ nodupb (map sinv_dir cols) = true /\
       sorted_desc (map si_time cols) = true /\
       forallb (fun p => column_ok (fst p) (snd p)) (combine cols (o_cols o)) = true /\
       forallb (fun p => rate_ok (fst p) (snd p)) (combine cols (o_cols o)) = true /\
       list_eqb beq (map or_suite (o_rows o)) (isort (row_le v) (spec_suites v)) = true /\
       (forall r, In r (o_rows o) ->
          beq (or_href r) (suite_href (or_suite r)) = true /\
          list_all2 ocell_ok (spec_row cols (or_suite r)) (or_cells r) = true /\
          (List.length (or_cells r) <= List.length cols)%nat) /\
       tree_ok (spec_tree v) (o_tree o) = true).
Proof. exact (fun inp o => conj (spec_ok_reject inp o) (fun v => spec_ok_sound inp o v)). Qed.
Print Assumptions C14_oracle_sound.

(* non-vacuity: two arches, three invocations with distinct start times, a
   suite that appears later, one that disappears, a failing one, a timeout:
   the guards hold, the page exists, and its rows are the specified ones *)
Example C14_example :
  exists pg v, run_html_exec w_example = Some pg /\ view (walk_dirs exec_qsorts) w_example = Some v /\
    List.length v = 3%nat /\ distinct_times v /\ one_run_per_suite v /\
    map fst (p_rows pg) = w_example_suites /\
    map snd (p_rows pg) = w_example_rows.
Proof. exact example_page. Qed.
