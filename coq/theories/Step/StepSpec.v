(* StepSpec.v - the step file as an abstract dictionary.
   State: association list id -> record of typed fields, kept in ascending id
   order.  A write command denotes [spec_write]; what a read must return is
   [spec_read].  Nothing here mentions bytes of the file, tokens or sorting
   algorithms.  Plus the boolean oracle applied to an observed history. *)
From Robsd Require Export Step.StepDefs.
From RobsdGen Require Import Gen_Step.
Local Open Scope N_scope.

Definition record := list (option value).          (* by field index; None = never written *)
Definition astate := list (Z * record).            (* ascending, distinct ids *)

(* a string value that a comma separated, line oriented, interpolated file can hold *)
Definition representable (fd : fdef) (v : bytes) : bool :=
  negb (existsb (fun c => (c =? COMMA) || (c =? NL) || (c =? DOLLAR) || (c =? 0)) v) &&
  (fd_optional fd || match v with [] => false | _ => true end).

(* integer fields hold any 64-bit value (documented; not taken from the source) *)
Definition i64_min : Z := (-9223372036854775808)%Z.
Definition i64_max : Z := 9223372036854775807%Z.

(* the typed value a key=value argument denotes, if any *)
Definition denote (kv : bytes) : option (fdef * value) :=
  match split_eq kv with
  | None => None
  | Some (k, v) =>
      match find_field fields k with
      | None => None
      | Some fd =>
          match fd_type fd with
          | FStr => if representable fd v then Some (fd, VStr v) else None
          | FInt => match strtonum i64_min i64_max v with
                    | NumOk z => Some (fd, VInt z)
                    | _ => None
                    end
          end
      end
  end.

Fixpoint apply_kvs (r : record) (kvs : list bytes) : option record :=
  match kvs with
  | [] => Some r
  | kv :: kvs' =>
      match denote kv with
      | None => None
      | Some (fd, v) => apply_kvs (set_nth (fd_index fd) (Some v) r) kvs'
      end
  end.

(* documented defaults of the optional fields *)
Definition default_record : record :=
  map (fun fd => if fd_optional fd
                 then match fd_type fd with
                      | FStr => Some (VStr (fd_default fd))
                      | FInt => match strtonum i64_min i64_max (fd_default fd) with
                                | NumOk z => Some (VInt z) | _ => None end
                      end
                 else None) fields.

Definition complete (r : record) : bool :=
  forallb (fun fd => match nth_error r (fd_index fd) with Some (Some _) => true | _ => false end) fields.

Fixpoint alist_find (id : Z) (s : astate) : option record :=
  match s with
  | [] => None
  | (i, r) :: s' => if (i =? id)%Z then Some r else alist_find id s'
  end.

Fixpoint alist_put (id : Z) (r : record) (s : astate) : astate :=
  match s with
  | [] => [(id, r)]
  | (i, x) :: s' =>
      if (id =? i)%Z then (id, r) :: s'
      else if (id <? i)%Z then (id, r) :: s
      else (i, x) :: alist_put id r s'
  end.

(* the id argument, as the command reads it *)
Definition denote_id (idarg : bytes) : option Z :=
  match strtonum id_min id_max idarg with
  | NumOk z => if (z =? 0)%Z then None else Some z
  | _ => None
  end.

(* the id field is set by -i; a step=... argument that changes it is outside
   the property's quantifier (the orchestrator never passes it) *)
Definition keeps_id (id : Z) (r : record) : bool :=
  match nth_error r 0 with Some (Some (VInt z)) => (z =? id)%Z | _ => false end.

(* None = the command must reject and change nothing *)
Definition spec_write (s : astate) (idarg : bytes) (kvs : list bytes) : option astate :=
  match denote_id idarg, kvs with
  | Some id, _ :: _ =>
      let base := match alist_find id s with
                  | Some r => r
                  | None => set_nth 0 (Some (VInt id)) default_record
                  end in
      match apply_kvs base kvs with
      | Some r => if complete r && keeps_id id r then Some (alist_put id r s) else None
      | None => None
      end
  | _, _ => None
  end.

(* what reading field [name] of the [pos]-th row (1-based from the front, negative from the back) returns *)
Definition spec_read (s : astate) (pos : Z) (name : bytes) : option bytes :=
  let n := Z.of_nat (length s) in
  let idx := if (0 <? pos)%Z then Some (pos - 1)%Z
             else if (pos <? 0)%Z then (if (- pos <=? n)%Z then Some (n + pos)%Z else None)
             else None in
  match idx with
  | None => None
  | Some i =>
      match nth_error s (Z.to_nat i) with
      | None => None
      | Some (_, r) =>
          match find_field fields name with
          | None => None
          | Some fd => match nth_error r (fd_index fd) with
                       | Some (Some v) => Some (render_value v)
                       | _ => None
                       end
          end
      end
  end.

(* ---- oracle on an observed history ------------------------------------------- *)
(* a history: writes with the exit status the implementation gave; then reads
   (position, field) with what it printed (None = it failed).  The writes the
   implementation accepted must be acceptable, and every read must return the
   abstract state's value followed by a newline. *)
Fixpoint replay_writes (s : astate) (ws : list (bytes * list bytes * bool)) : option astate :=
  match ws with
  | [] => Some s
  | (idarg, kvs, accepted) :: ws' =>
      if accepted then
        match spec_write s idarg kvs with
        | Some s' => replay_writes s' ws'
        | None => None                       (* accepted something it must reject *)
        end
      else replay_writes s ws'
  end.

Definition obs_eq (a b : option bytes) : bool :=
  match a, b with
  | Some x, Some y => beq x y
  | None, None => true
  | _, _ => false
  end.

Definition spec_ok_history (ws : list (bytes * list bytes * bool))
    (reads : list (Z * bytes * option bytes)) : bool :=
  match replay_writes [] ws with
  | None => false
  | Some s =>
      forallb (fun '(pos, name, got) =>
                 obs_eq (omap (fun v => v ++ [NL]) (spec_read s pos name)) got) reads
  end.

Definition spec_nrows (ws : list (bytes * list bytes * bool)) : option nat :=
  omap (@length _) (replay_writes [] ws).
