(* StepExit0History.v - the guard of the exit-0 theorems, [Forall okrow rows] (no '$', ',' or newline in a
   stored string, no empty mandatory string), DISCHARGED for the producer: every file that any history of
   robsd-step -W commands leaves behind, starting from the empty file, satisfies it.  So clause 3 of C01
   ("exits zero only if the file now holds the new state, even when the file system refuses the write")
   holds after ANY history, for every next command and every refusal point, without a hypothesis on the file
   (gap report 2, C01 row 8: "discharged for the producer only implicitly"). *)
From Robsd Require Import Step.StepDefs Step.StepSpec Step.StepLex Step.StepRows Step.StepWrite Step.StepHistory
  Step.StepFault Step.StepExit0 Step.StepRenumber.
From RobsdGen Require Import Gen_Step.
Local Open Scope N_scope.

Lemma history_file_okrows ws :
  never_renumbers [] ws ->
  exists ds, Forall wfdata ds /\ sorted ds /\
    parse_file (fold_left model_step ws []) = Some (map row_of ds) /\ Forall okrow (map row_of ds).
Proof.
  intros NR. destruct (roundtrip_history_gen ws NR) as [ds [W [Sd [R _]]]].
  exists ds. split; [exact W|]. split; [exact Sd|]. split; [exact (parse_reps ds _ W R)|].
  apply Forall_forall. intros r Hr. apply in_map_iff in Hr. destruct Hr as [d [<- Hd]].
  apply okrow_of. rewrite Forall_forall in W. now apply W.
Qed.

Theorem exit0_after_history ws fault idarg kvs :
  never_renumbers [] ws ->
  fst (write_cmdk fault (Some (fold_left model_step ws [])) idarg kvs) = 0 ->
  exists ds id rs b,
    Forall wfdata ds /\ sorted ds /\ parse_file (fold_left model_step ws []) = Some (map row_of ds) /\
    denote_id (cstr idarg) = Some id /\ spec_update (map row_of ds) id (map cstr kvs) = Some rs /\
    serialize_rows (sort_rows rs) = Some b /\
    snd (write_cmdk fault (Some (fold_left model_step ws [])) idarg kvs) = Some (header ++ b) /\
    parse_file (header ++ b) = Some (sort_rows rs).
Proof.
  intros NR H0. destruct (history_file_okrows ws NR) as [ds [W [Sd [Hp Hok]]]].
  destruct (exit0_any_fault fault _ _ idarg kvs Hp Hok H0) as [id [rs [b H]]].
  exists ds, id, rs, b. split; [exact W|]. split; [exact Sd|]. split; [exact Hp|exact H].
Qed.

Theorem exit0_flush_after_history ws fault idarg kvs :
  never_renumbers [] ws ->
  fst (write_cmd fault (Some (fold_left model_step ws [])) idarg kvs) = 0 ->
  fault = false /\
  exists ds id rs b,
    Forall wfdata ds /\ sorted ds /\ parse_file (fold_left model_step ws []) = Some (map row_of ds) /\
    denote_id (cstr idarg) = Some id /\ spec_update (map row_of ds) id (map cstr kvs) = Some rs /\
    serialize_rows (sort_rows rs) = Some b /\
    snd (write_cmd fault (Some (fold_left model_step ws [])) idarg kvs) = Some (header ++ b) /\
    parse_file (header ++ b) = Some (sort_rows rs).
Proof.
  intros NR H0. destruct (history_file_okrows ws NR) as [ds [W [Sd [Hp Hok]]]].
  destruct (exit0_flush_fault fault _ _ idarg kvs Hp Hok H0) as [Hf [id [rs [b H]]]].
  split; [exact Hf|]. exists ds, id, rs, b. split; [exact W|]. split; [exact Sd|]. split; [exact Hp|exact H].
Qed.
