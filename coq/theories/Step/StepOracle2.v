(* StepOracle2.v - the TWO-SIDED oracle on an observed history (gap report 2, C01 critical check iii).
   [replay_writes] (StepSpec.v) only asks the specification about the writes the implementation
   ACCEPTED: an implementation that rejects every write passes it.  [replay_writes2] asks the
   dictionary specification about every write and demands agreement both ways:
     - a write the implementation accepted (exit 0) must be acceptable, and
     - a write the specification accepts must have been accepted by the implementation (exit 0);
   the reads that follow (every column at several positions, and by name) then check that it was
   STORED: they must return the dictionary's values after exactly the acceptable writes.
   Definitions: StepOracle2Defs.v (extracted).  Here: the two-sided oracles accept every history of the MODEL. *)
From Robsd Require Import Step.StepDefs Step.StepSpec Step.StepLex Step.StepRows Step.StepWrite Step.StepHistory
  Step.StepFault Step.StepExit0 Step.StepRenumber Step.StepLatest Step.StepNameSpec Step.StepRead Step.StepOracle
  Base.DecimalProofs.
From Robsd Require Export Step.StepOracle2Defs.
From Robsd Require Import Interp.InterpSpec Interp.InterpProofs.
From RobsdGen Require Import Gen_Step Gen_Interp.
Local Open Scope N_scope.

(* ---- proofs ---------------------------------------------------------------------------------------- *)

(* two-sided implies one-sided, with the same dictionary *)
Lemma replay2_replay ws : forall s s', replay_writes2 s ws = Some s' -> replay_writes s ws = Some s'.
Proof.
  induction ws as [|[[idarg kvs] acc] ws IH]; intros s s' H; [exact H|].
  cbn [replay_writes2 replay_writes] in *.
  destruct (spec_write s idarg kvs) as [s1|], acc; try discriminate; now apply IH.
Qed.

Lemma ok_history2_ok_history ws reads : spec_ok_history2 ws reads = true -> spec_ok_history ws reads = true.
Proof.
  unfold spec_ok_history2, spec_ok_history. destruct (replay_writes2 [] ws) as [s|] eqn:E; [|discriminate].
  now rewrite (replay2_replay ws [] s E).
Qed.

Lemma ok_names2_ok_names ws reads : spec_ok_names2 ws reads = true -> spec_ok_names ws reads = true.
Proof.
  unfold spec_ok_names2, spec_ok_names. destruct (replay_writes2 [] ws) as [s|] eqn:E; [|discriminate].
  now rewrite (replay2_replay ws [] s E).
Qed.

(* the side the old oracle lacked: refusing a write the specification accepts is a failure, wherever
   in the history it happens and whatever is read afterwards *)
Lemma replay2_refusal pre : forall s s1 idarg kvs post,
  replay_writes2 s pre = Some s1 -> spec_write s1 idarg kvs <> None ->
  replay_writes2 s (pre ++ (idarg, kvs, false) :: post) = None.
Proof.
  induction pre as [|[[i k] acc] pre IH]; intros s s1 idarg kvs post H Hs; cbn [app replay_writes2] in *.
  - injection H as <-. destruct (spec_write s idarg kvs); [reflexivity|now elim Hs].
  - destruct (spec_write s i k) as [s2|], acc; try discriminate; now apply (IH _ s1).
Qed.

Theorem refusal_of_acceptable_write_fails pre s1 idarg kvs post reads :
  replay_writes2 [] pre = Some s1 -> spec_write s1 idarg kvs <> None ->
  spec_ok_history2 (pre ++ (idarg, kvs, false) :: post) reads = false /\
  (forall nreads, spec_ok_names2 (pre ++ (idarg, kvs, false) :: post) nreads = false).
Proof.
  intros H Hs. unfold spec_ok_history2, spec_ok_names2.
  rewrite (replay2_refusal pre [] s1 idarg kvs post H Hs). split; [reflexivity|intros; reflexivity].
Qed.

(* an implementation that rejects everything: the old oracle accepts it (all reads fail on the empty
   dictionary), the two-sided one does not as soon as one write is acceptable *)
Lemma replay_all_rejected ws : forall s, Forall (fun w => snd w = false) ws -> replay_writes s ws = Some s.
Proof.
  induction ws as [|[[i k] acc] ws IH]; intros s H; [reflexivity|].
  inversion H as [|? ? Ha Hr]; subst. cbn in Ha. subst acc. cbn [replay_writes]. now apply IH.
Qed.

(* the model's histories pass the two-sided replay with the dictionary of the accepted writes *)
Lemma replay2_model_writes ws : forall ds file,
  inv ds file -> never_renumbers (abs ds) ws ->
  replay_writes2 (abs ds) (model_obs_writes file ws) = Some (fold_left spec_step ws (abs ds)).
Proof.
  induction ws as [|w ws IH]; intros ds file Hinv NR; [reflexivity|].
  destruct NR as [Hw Hws]. cbn [model_obs_writes replay_writes2 fold_left].
  destruct (step_refines_gen ds file w Hinv Hw) as [ds1 [I1 [A1 Hiff]]].
  rewrite <- A1 in Hws. specialize (IH ds1 _ I1 Hws).
  unfold spec_step in *.
  destruct (N.eqb_spec (fst (write_cmd false (Some file) (fst w) (snd w))) 0) as [E|E].
  - apply Hiff in E. destruct (spec_write (abs ds) (cstr (fst w)) (map cstr (snd w))) as [s'|]; [|now elim E].
    rewrite <- A1. exact IH.
  - destruct (spec_write (abs ds) (cstr (fst w)) (map cstr (snd w))) as [s'|] eqn:Es.
    + elim E. apply Hiff. discriminate.
    + rewrite <- A1. exact IH.
Qed.

Theorem oracle2_accepts_model ws reads :
  never_renumbers [] ws ->
  Forall (fun q => In (snd q) fields /\ (id_min <= fst q <= id_max)%Z) reads ->
  spec_ok_history2 (model_obs_writes [] ws) (map (model_obs_read (fold_left model_step ws [])) reads) = true.
Proof.
  intros NR Hr. unfold spec_ok_history2.
  assert (Hw : replay_writes2 [] (model_obs_writes [] ws) = Some (fold_left spec_step ws []))
    by exact (replay2_model_writes ws [] [] inv_empty NR).
  rewrite Hw.
  pose proof (oracle_accepts_model ws reads NR Hr) as H1. unfold spec_ok_history in H1.
  rewrite (replay2_replay _ _ _ Hw) in H1. exact H1.
Qed.

Theorem names_oracle2_accepts_model ws reads :
  never_renumbers [] ws ->
  Forall (fun q => In (snd q) fields) reads ->
  spec_ok_names2 (model_obs_writes [] ws) (map (model_obs_read_name (fold_left model_step ws [])) reads) = true.
Proof.
  intros NR Hr. unfold spec_ok_names2.
  assert (Hw : replay_writes2 [] (model_obs_writes [] ws) = Some (fold_left spec_step ws []))
    by exact (replay2_model_writes ws [] [] inv_empty NR).
  rewrite Hw.
  pose proof (names_oracle_accepts_model ws reads NR Hr) as H1. unfold spec_ok_names in H1.
  rewrite (replay2_replay _ _ _ Hw) in H1. exact H1.
Qed.

(* the witness for the report's objection: the command that refuses EVERYTHING.  One acceptable write,
   refused; every read fails.  The one-sided oracle says yes, the two-sided one says no. *)
Definition w_one : bytes * list bytes * bool :=
  ([49], [[110;97;109;101;61;111;110;101]; [101;120;105;116;61;48]; [100;117;114;97;116;105;111;110;61;49];
          [117;115;101;114;61;114;111;111;116]; [116;105;109;101;61;49]], false).
Lemma reject_everything_witness :
  spec_ok_history [w_one] [(1%Z, [110;97;109;101], None)] = true /\
  spec_ok_history2 [w_one] [(1%Z, [110;97;109;101], None)] = false /\
  first_mismatch [] [w_one] 0 = Some (0%nat, true).
Proof. vm_compute. repeat split; reflexivity. Qed.
