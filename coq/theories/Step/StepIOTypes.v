(* StepIOTypes.v - types of the generated facts about how steps_write talks to stdio (Gen_StepIO) *)

(* how steps_write checks the result of fwrite(3) (read from the source by t_step.py):
   WholeObject = fwrite(ptr, len, 1, fh) with "n < 1": any short write is seen;
   ByteCount   = fwrite(ptr, 1, len, fh) with "n < 1": only a write of nothing is seen;
   Unchecked   = the result is not looked at. *)
Inductive wcheck := WholeObject | ByteCount | Unchecked.
