(* StepLatest.v - adequacy of the abstract dictionary (StepSpec) and the literal
   sentence of C01 at the level of the specification:
     after any history of write commands, field f of id i is the value given by the
     most recent ACCEPTED write to i that mentions f; when no accepted write to i
     mentions f it is the documented default (the id itself for the id column);
     when no write to i was ever accepted there is no row for i.
   [latest] scans the history from the newest command to the oldest; it does not
   build dictionaries, it only asks, for each command, whether the command was
   accepted (the one place where the dictionary specification is consulted).
   No hypothesis on the arguments: step=... arguments are covered (the
   specification rejects a command whose step= disagrees with -i). *)
From Robsd Require Import Step.StepDefs Step.StepSpec.
From RobsdGen Require Import Gen_Step.
Local Open Scope N_scope.

(* ---- the association list is a dictionary ------------------------------------------------- *)

Lemma alist_find_put_same id r s : alist_find id (alist_put id r s) = Some r.
Proof.
  induction s as [|[i x] s IH]; cbn [alist_put alist_find].
  - now rewrite Z.eqb_refl.
  - destruct (Z.eqb_spec id i) as [E|E].
    + cbn [alist_find]. now rewrite Z.eqb_refl.
    + destruct (id <? i)%Z.
      * cbn [alist_find]. now rewrite Z.eqb_refl.
      * cbn [alist_find]. destruct (Z.eqb_spec i id); [congruence|exact IH].
Qed.

Lemma alist_find_put_other id id' r s :
  id' <> id -> alist_find id' (alist_put id r s) = alist_find id' s.
Proof.
  intros Hne. induction s as [|[i x] s IH]; cbn [alist_put alist_find].
  - destruct (Z.eqb_spec id id'); [congruence|reflexivity].
  - destruct (Z.eqb_spec id i) as [E|E].
    + subst i. cbn [alist_find]. destruct (Z.eqb_spec id id'); [congruence|reflexivity].
    + destruct (id <? i)%Z.
      * cbn [alist_find]. destruct (Z.eqb_spec id id'); [congruence|reflexivity].
      * cbn [alist_find]. destruct (i =? id')%Z; [reflexivity|exact IH].
Qed.

(* keys: strictly ascending, and [alist_put] inserts the key (or keeps it) *)
Fixpoint ascz (l : list Z) : Prop :=
  match l with [] => True | x :: l' => Forall (Z.lt x) l' /\ ascz l' end.

Definition keys (s : astate) : list Z := map fst s.

Lemma alist_put_keys_In id r s k : In k (keys (alist_put id r s)) <-> k = id \/ In k (keys s).
Proof.
  induction s as [|[i x] s IH]; cbn [alist_put keys map In fst].
  - intuition.
  - destruct (Z.eqb_spec id i) as [E|E].
    + subst i. cbn [map In fst]. intuition.
    + destruct (id <? i)%Z; cbn [map In fst].
      * intuition.
      * unfold keys in IH. rewrite IH. intuition.
Qed.

Lemma alist_put_asc id r s : ascz (keys s) -> ascz (keys (alist_put id r s)).
Proof.
  induction s as [|[i x] s IH]; cbn [alist_put keys map fst ascz].
  - intros _. split; [constructor|exact I].
  - intros [Hi Hs].
    destruct (Z.eqb_spec id i) as [E|E].
    + subst i. cbn [map fst ascz]. split; assumption.
    + destruct (Z.ltb_spec id i) as [Hlt|Hge]; cbn [map fst ascz].
      * split; [|split; assumption]. constructor; [exact Hlt|].
        eapply Forall_impl; [|exact Hi]. cbn. intros; lia.
      * split; [|apply IH; exact Hs].
        apply Forall_forall. intros k Hk.
        apply (alist_put_keys_In id r s k) in Hk. destruct Hk as [->|Hk]; [lia|].
        rewrite Forall_forall in Hi. now apply Hi.
Qed.

Lemma alist_find_In id s : alist_find id s <> None <-> In id (keys s).
Proof.
  induction s as [|[i x] s IH]; cbn [alist_find keys map In fst]; [intuition|].
  destruct (Z.eqb_spec i id) as [E|E].
  - split; [now left|discriminate].
  - rewrite IH. unfold keys. intuition.
Qed.

(* ---- key=value lists: the last mention of a column wins ------------------------------------------- *)

(* the value the arguments give to column [f]: the last key=value that denotes it *)
Definition mentions (kvs : list bytes) (f : nat) : option value :=
  fold_left (fun acc kv => match denote kv with
                           | Some (fd, v) => if Nat.eqb (fd_index fd) f then Some v else acc
                           | None => acc
                           end) kvs None.

Definition mention_step (f : nat) (acc : option value) (kv : bytes) : option value :=
  match denote kv with
  | Some (fd, v) => if Nat.eqb (fd_index fd) f then Some v else acc
  | None => acc
  end.

Lemma mentions_fold kvs f : mentions kvs f = fold_left (mention_step f) kvs None.
Proof. reflexivity. Qed.

Lemma nth_set_nth_same {A} n (x d : A) l : (n < length l)%nat -> nth n (set_nth n x l) d = x.
Proof.
  revert l; induction n as [|n IH]; intros [|y l] H; simpl in *; try lia; [reflexivity|].
  apply IH. lia.
Qed.

Lemma nth_set_nth_other {A} n m (x d : A) l : n <> m -> nth m (set_nth n x l) d = nth m l d.
Proof.
  revert m l; induction n as [|n IH]; intros m [|y l] H; simpl.
  - reflexivity.
  - destruct m; [congruence|reflexivity].
  - reflexivity.
  - destruct m; [reflexivity|]. apply IH. congruence.
Qed.

Lemma set_nth_length {A} n (x : A) l : length (set_nth n x l) = length l.
Proof. revert l; induction n as [|n IH]; intros [|y l]; simpl; auto. Qed.

Lemma find_field_index_lt k fd : find_field fields k = Some fd -> (fd_index fd < 9)%nat.
Proof.
  unfold fields. cbn [find_field].
  repeat match goal with
         | |- (if ?c then _ else _) = _ -> _ => destruct c; [intros H; injection H as <-; cbn; lia|]
         end.
  discriminate.
Qed.

Lemma denote_index_lt kv fd v : denote kv = Some (fd, v) -> (fd_index fd < 9)%nat.
Proof.
  unfold denote. destruct (split_eq kv) as [[k s]|]; [|discriminate].
  destruct (find_field fields k) as [fd'|] eqn:Ef; [|discriminate].
  apply find_field_index_lt in Ef.
  destruct (fd_type fd').
  - destruct (strtonum i64_min i64_max s); try discriminate. intros H; injection H as <- _. exact Ef.
  - destruct (representable fd' s); [|discriminate]. intros H; injection H as <- _. exact Ef.
Qed.

Definition olast (acc : option value) (old : option value) : option value :=
  match acc with Some v => Some v | None => old end.

(* [apply_kvs] = for every column, the last mention if any, else the old content *)
Lemma mention_fold_acc f kvs : forall acc,
  fold_left (mention_step f) kvs acc = olast (fold_left (mention_step f) kvs None) acc.
Proof.
  induction kvs as [|kv kvs IH]; intros acc; cbn [fold_left]; [reflexivity|].
  unfold mention_step at 2 4.
  destruct (denote kv) as [[fd v]|]; [|apply IH].
  destruct (Nat.eqb (fd_index fd) f); [|apply IH].
  rewrite (IH (Some v)). destruct (fold_left (mention_step f) kvs None); reflexivity.
Qed.

Lemma apply_kvs_gen kvs : forall r r' f,
  length r = 9%nat -> apply_kvs r kvs = Some r' ->
  length r' = 9%nat /\
  nth f r' None = olast (fold_left (mention_step f) kvs None) (nth f r None).
Proof.
  induction kvs as [|kv kvs IH]; intros r r' f Hlen Ha; cbn [apply_kvs fold_left] in *.
  - injection Ha as <-. split; [exact Hlen|reflexivity].
  - destruct (denote kv) as [[fd v]|] eqn:Ed; [|discriminate].
    pose proof (denote_index_lt _ _ _ Ed) as Hlt.
    assert (Hlen' : length (set_nth (fd_index fd) (Some v) r) = 9%nat) by now rewrite set_nth_length.
    destruct (IH _ _ f Hlen' Ha) as [L G]. split; [exact L|]. rewrite G.
    assert (Hm : mention_step f None kv = if Nat.eqb (fd_index fd) f then Some v else None)
      by (unfold mention_step; now rewrite Ed).
    rewrite Hm.
    destruct (Nat.eqb_spec (fd_index fd) f) as [E|E].
    + subst f. rewrite nth_set_nth_same by lia. rewrite (mention_fold_acc _ kvs (Some v)).
      destruct (fold_left (mention_step (fd_index fd)) kvs None); reflexivity.
    + now rewrite nth_set_nth_other by exact E.
Qed.

Theorem apply_kvs_last_wins r kvs r' f :
  length r = 9%nat -> apply_kvs r kvs = Some r' ->
  nth f r' None = match mentions kvs f with Some v => Some v | None => nth f r None end.
Proof.
  intros Hl Ha. destruct (apply_kvs_gen kvs r r' f Hl Ha) as [_ G].
  rewrite mentions_fold. exact G.
Qed.

Lemma apply_kvs_length r kvs r' : length r = 9%nat -> apply_kvs r kvs = Some r' -> length r' = 9%nat.
Proof. intros Hl Ha. exact (proj1 (apply_kvs_gen kvs r r' 0%nat Hl Ha)). Qed.

(* ---- histories -------------------------------------------------------------------------------------------- *)

Definition hcmd := (bytes * list bytes)%type.        (* -i argument, key=value arguments (as C strings) *)

Definition sstep (s : astate) (w : hcmd) : astate :=
  match spec_write s (fst w) (snd w) with Some s' => s' | None => s end.

(* the id a command writes, when the specification accepts it in state [s] *)
Definition accepted_id (s : astate) (w : hcmd) : option Z :=
  match spec_write s (fst w) (snd w) with
  | Some _ => denote_id (fst w)
  | None => None
  end.

(* the history, newest command first, each with the dictionary it was issued on *)
Fixpoint tagged (s : astate) (ws : list hcmd) (acc : list (astate * hcmd)) : list (astate * hcmd) :=
  match ws with
  | [] => acc
  | w :: ws' => tagged (sstep s w) ws' ((s, w) :: acc)
  end.

(* what a row holds in column f when no accepted write ever mentioned f *)
Definition default_field (id : Z) (f : nat) : option value :=
  nth f (set_nth 0 (Some (VInt id)) default_record) None.

(* None: no write to [id] was ever accepted.  Some x: the content of column f. *)
Fixpoint latest (hist : list (astate * hcmd)) (id : Z) (f : nat) : option (option value) :=
  match hist with
  | [] => None
  | (s, w) :: older =>
      match accepted_id s w with
      | Some i =>
          if (i =? id)%Z then
            match mentions (snd w) f with
            | Some v => Some (Some v)
            | None => match latest older id f with
                      | Some x => Some x
                      | None => Some (default_field id f)
                      end
            end
          else latest older id f
      | None => latest older id f
      end
  end.

Definition lookup (s : astate) (id : Z) (f : nat) : option (option value) :=
  match alist_find id s with Some r => Some (nth f r None) | None => None end.

Definition rec9 (s : astate) : Prop := Forall (fun p => length (snd p) = 9%nat) s.

Lemma alist_find_rec9 id s r : rec9 s -> alist_find id s = Some r -> length r = 9%nat.
Proof.
  induction 1 as [|[i x] s Hx _ IH]; cbn [alist_find]; [discriminate|].
  destruct (i =? id)%Z; [intros H; injection H as <-; exact Hx|exact IH].
Qed.

Lemma alist_put_rec9 id r s : length r = 9%nat -> rec9 s -> rec9 (alist_put id r s).
Proof.
  intros Hr. induction 1 as [|[i x] s Hx Hs IH]; cbn [alist_put].
  - constructor; [exact Hr|constructor].
  - destruct (id =? i)%Z; [constructor; [exact Hr|exact Hs]|].
    destruct (id <? i)%Z; [constructor; [exact Hr|constructor; assumption]|].
    constructor; assumption.
Qed.

Lemma default_record_length : length default_record = 9%nat.
Proof. reflexivity. Qed.

(* one accepted command, opened up *)
Lemma spec_write_inv s idarg kvs s' :
  spec_write s idarg kvs = Some s' ->
  exists id r, denote_id idarg = Some id /\
    apply_kvs (match alist_find id s with Some r0 => r0 | None => set_nth 0 (Some (VInt id)) default_record end) kvs = Some r /\
    complete r = true /\ keeps_id id r = true /\ s' = alist_put id r s.
Proof.
  unfold spec_write. destruct (denote_id idarg) as [id|]; [|discriminate].
  destruct kvs as [|kv kvs]; [discriminate|].
  destruct (apply_kvs _ (kv :: kvs)) as [r|] eqn:Ea; [|discriminate].
  destruct (complete r && keeps_id id r) eqn:Ec; [|discriminate].
  apply andb_true_iff in Ec. destruct Ec as [Ec Ek].
  intros H. injection H as <-. exists id, r. auto.
Qed.

Lemma sstep_rec9 s w : rec9 s -> rec9 (sstep s w).
Proof.
  intros Hs. unfold sstep. destruct (spec_write s (fst w) (snd w)) as [s'|] eqn:E; [|exact Hs].
  destruct (spec_write_inv _ _ _ _ E) as [id [r [_ [Ha [_ [_ ->]]]]]].
  apply alist_put_rec9; [|exact Hs].
  eapply apply_kvs_length; [|exact Ha].
  destruct (alist_find id s) as [r0|] eqn:Ef; [eapply alist_find_rec9; eauto|].
  rewrite set_nth_length. apply default_record_length.
Qed.

Lemma sstep_asc s w : ascz (keys s) -> ascz (keys (sstep s w)).
Proof.
  intros Hs. unfold sstep. destruct (spec_write s (fst w) (snd w)) as [s'|] eqn:E; [|exact Hs].
  destruct (spec_write_inv _ _ _ _ E) as [id [r [_ [_ [_ [_ ->]]]]]]. now apply alist_put_asc.
Qed.

Lemma tagged_snoc ws : forall s w acc,
  tagged s (ws ++ [w]) acc = (fold_left sstep ws s, w) :: tagged s ws acc.
Proof.
  induction ws as [|x ws IH]; intros s w acc; cbn [app tagged fold_left]; [reflexivity|].
  apply IH.
Qed.

(* the step: one command on top of a history that [latest] already describes *)
Lemma latest_step s older w id f :
  rec9 s -> (forall i g, lookup s i g = latest older i g) ->
  lookup (sstep s w) id f = latest ((s, w) :: older) id f.
Proof.
  intros H9 IH. cbn [latest]. unfold accepted_id, sstep.
  destruct (spec_write s (fst w) (snd w)) as [s'|] eqn:E; [|apply IH].
  destruct (spec_write_inv _ _ _ _ E) as [i [r [Hid [Ha [_ [_ ->]]]]]]. rewrite Hid.
  destruct (Z.eqb_spec i id) as [Ei|Ei].
  - subst i. unfold lookup. rewrite alist_find_put_same.
    specialize (IH id f). unfold lookup in IH.
    destruct (alist_find id s) as [r0|] eqn:Ef.
    + rewrite (apply_kvs_last_wins _ _ _ f (alist_find_rec9 _ _ _ H9 Ef) Ha).
      rewrite <- IH. destruct (mentions (snd w) f); reflexivity.
    + assert (Hd9 : length (set_nth 0 (Some (VInt id)) default_record) = 9%nat)
        by (rewrite set_nth_length; apply default_record_length).
      rewrite (apply_kvs_last_wins _ _ _ f Hd9 Ha).
      rewrite <- IH. unfold default_field. destruct (mentions (snd w) f); reflexivity.
  - unfold lookup. rewrite alist_find_put_other by congruence. apply IH.
Qed.

(* THE SENTENCE: for every history, every id and every column *)
Theorem latest_value ws id f :
  lookup (fold_left sstep ws []) id f = latest (tagged [] ws []) id f.
Proof.
  revert id f. induction ws as [|w ws IH] using rev_ind; intros id f; [reflexivity|].
  rewrite fold_left_app, tagged_snoc. cbn [fold_left].
  apply latest_step; [|exact IH].
  clear. induction ws as [|w ws IH] using rev_ind; [constructor|].
  rewrite fold_left_app. cbn [fold_left]. now apply sstep_rec9.
Qed.

(* rows of other ids unchanged, as a statement about one command *)
Theorem other_ids_unchanged s w id f :
  accepted_id s w <> Some id -> lookup (sstep s w) id f = lookup s id f.
Proof.
  unfold accepted_id, sstep. destruct (spec_write s (fst w) (snd w)) as [s'|] eqn:E; [|reflexivity].
  destruct (spec_write_inv _ _ _ _ E) as [i [r [Hid [_ [_ [_ ->]]]]]]. rewrite Hid.
  intros Hne. unfold lookup. rewrite alist_find_put_other by congruence. reflexivity.
Qed.

(* a rejected command changes nothing, whatever it says *)
Theorem rejected_changes_nothing s w : accepted_id s w = None -> sstep s w = s.
Proof.
  unfold accepted_id, sstep. destruct (spec_write s (fst w) (snd w)) as [s'|] eqn:E; [|reflexivity].
  destruct (spec_write_inv _ _ _ _ E) as [i [r [Hid _]]]. rewrite Hid. discriminate.
Qed.

(* the dictionary of every history has strictly ascending keys *)
Theorem history_keys_ascending ws : ascz (keys (fold_left sstep ws [])).
Proof.
  induction ws as [|w ws IH] using rev_ind; [exact I|].
  rewrite fold_left_app. cbn [fold_left]. now apply sstep_asc.
Qed.

(* the documented defaults, spelled out: delta 0, log empty, skip 0, the id in the id column,
   the five mandatory columns without a default *)
Lemma default_field_table id :
  map (default_field id) (seq 0 9) =
  [Some (VInt id); None; None; None; Some (VInt 0); Some (VStr []); None; None; Some (VInt 0)].
Proof. reflexivity. Qed.

(* ---- position of an id -------------------------------------------------------------------------------------- *)

Definition count_lt (id : Z) (s : astate) : nat := length (filter (fun p => (fst p <? id)%Z) s).

Lemma position_of_id_spec id s r :
  ascz (keys s) -> alist_find id s = Some r -> nth_error s (count_lt id s) = Some (id, r).
Proof.
  induction s as [|[i x] s IH]; cbn [alist_find keys map fst ascz]; [discriminate|].
  intros [Hi Hs]. unfold count_lt. cbn [filter fst].
  destruct (Z.eqb_spec i id) as [E|E].
  - subst i. intros H; injection H as <-. rewrite Z.ltb_irrefl.
    replace (filter (fun p => (fst p <? id)%Z) s) with (@nil (Z * record)); [reflexivity|].
    symmetry. clear IH Hs. induction s as [|[j y] s IHs]; [reflexivity|].
    cbn [map fst] in Hi. inversion Hi as [|? ? Hj Hrest]; subst. cbn [filter fst].
    destruct (Z.ltb_spec j id); [lia|]. now apply IHs.
  - intros Hf.
    assert (Hlt : (i < id)%Z).
    { assert (In id (keys s)) by (apply alist_find_In; congruence).
      rewrite Forall_forall in Hi. now apply Hi. }
    destruct (Z.ltb_spec i id); [|lia]. cbn [length nth_error]. now apply IH.
Qed.
