(* StepOracle.v - the executable oracle [spec_ok_history] (StepSpec), which the harness applies
   to what robsd-step did, accepts what the MODEL does on every history: the writes with the
   model's exit statuses, then reads at any positions of any columns with the model's output. *)
From Robsd Require Import Step.StepDefs Step.StepSpec Step.StepLex Step.StepRows Step.StepWrite Step.StepHistory
  Step.StepFault Step.StepExit0 Step.StepRenumber Step.StepLatest Step.StepNameSpec Step.StepRead Base.DecimalProofs.
From Robsd Require Import Interp.InterpSpec Interp.InterpProofs.
From RobsdGen Require Import Gen_Step Gen_Interp.
Local Open Scope N_scope.

(* what the harness records of a history run on the model *)
Fixpoint model_obs_writes (file : bytes) (ws : list wcmd) : list (bytes * list bytes * bool) :=
  match ws with
  | [] => []
  | w :: ws' =>
      (cstr (fst w), map cstr (snd w), fst (write_cmd false (Some file) (fst w) (snd w)) =? 0)
        :: model_obs_writes (model_step file w) ws'
  end.

Definition model_obs_read (file : bytes) (q : Z * fdef) : Z * bytes * option bytes :=
  let '(e, out) := read_cmd (Some file) (ById (render_Z (fst q))) (ref (fd_name (snd q)) ++ [NL]) in
  (fst q, fd_name (snd q), if e =? 0 then Some out else None).

Lemma replay_model_writes ws : forall ds file,
  inv ds file -> never_renumbers (abs ds) ws ->
  replay_writes (abs ds) (model_obs_writes file ws) = Some (fold_left spec_step ws (abs ds)).
Proof.
  induction ws as [|w ws IH]; intros ds file Hinv NR; [reflexivity|].
  destruct NR as [Hw Hws]. cbn [model_obs_writes replay_writes fold_left].
  destruct (step_refines_gen ds file w Hinv Hw) as [ds1 [I1 [A1 Hiff]]].
  rewrite <- A1 in Hws. specialize (IH ds1 _ I1 Hws).
  unfold spec_step in *.
  destruct (N.eqb_spec (fst (write_cmd false (Some file) (fst w) (snd w))) 0) as [E|E].
  - apply Hiff in E. destruct (spec_write (abs ds) (cstr (fst w)) (map cstr (snd w))) as [s'|]; [|now elim E].
    rewrite <- A1. exact IH.
  - destruct (spec_write (abs ds) (cstr (fst w)) (map cstr (snd w))) as [s'|] eqn:Es.
    + elim E. apply Hiff. discriminate.
    + rewrite <- A1. exact IH.
Qed.

Lemma obs_eq_refl o : obs_eq o o = true.
Proof. destruct o; cbn; [apply beq_refl|reflexivity]. Qed.

Theorem oracle_accepts_model ws reads :
  never_renumbers [] ws ->
  Forall (fun q => In (snd q) fields /\ (id_min <= fst q <= id_max)%Z) reads ->
  spec_ok_history (model_obs_writes [] ws) (map (model_obs_read (fold_left model_step ws [])) reads) = true.
Proof.
  intros NR Hr. unfold spec_ok_history.
  assert (Hw : replay_writes [] (model_obs_writes [] ws) = Some (fold_left spec_step ws []))
    by exact (replay_model_writes ws [] [] inv_empty NR).
  rewrite Hw.
  destruct (history_refines_gen ws [] [] inv_empty NR) as [ds [[W [Sd R]] A0]].
  assert (A : abs ds = fold_left spec_step ws []) by exact A0.
  apply forallb_forall. intros x Hx. apply in_map_iff in Hx. destruct Hx as [[pos fd] [<- Hq]].
  rewrite Forall_forall in Hr. destruct (Hr _ Hq) as [Hin Hpos]. cbn [fst snd] in *.
  unfold model_obs_read. cbn [fst snd].
  assert (Hp : strtonum id_min id_max (cstr (render_Z pos)) = NumOk pos).
  { rewrite (clean_nonul _ (clean_render pos)). now apply strtonum_render. }
  rewrite (read_refines ds _ (render_Z pos) pos fd W R Hin Hp).
  rewrite <- A.
  destruct (spec_read (abs ds) pos (fd_name fd)) as [v|] eqn:E; cbn [fst snd N.eqb]; rewrite ?E; cbn; [apply beq_refl|reflexivity].
Qed.

(* the same for reads by name: [spec_ok_names] accepts the model *)
Definition model_obs_read_name (file : bytes) (q : bytes * fdef) : bytes * bytes * option bytes :=
  let '(e, out) := read_cmd (Some file) (ByName (fst q)) (ref (fd_name (snd q)) ++ [NL]) in
  (cstr (fst q), fd_name (snd q), if e =? 0 then Some out else None).

Theorem names_oracle_accepts_model ws reads :
  never_renumbers [] ws ->
  Forall (fun q => In (snd q) fields) reads ->
  spec_ok_names (model_obs_writes [] ws) (map (model_obs_read_name (fold_left model_step ws [])) reads) = true.
Proof.
  intros NR Hr. unfold spec_ok_names.
  assert (Hw : replay_writes [] (model_obs_writes [] ws) = Some (fold_left spec_step ws []))
    by exact (replay_model_writes ws [] [] inv_empty NR).
  rewrite Hw.
  destruct (history_refines_gen ws [] [] inv_empty NR) as [ds [[W [Sd R]] A0]].
  assert (A : abs ds = fold_left spec_step ws []) by exact A0.
  apply forallb_forall. intros x Hx. apply in_map_iff in Hx. destruct Hx as [[n fd] [<- Hq]].
  rewrite Forall_forall in Hr. pose proof (Hr _ Hq) as Hin. cbn [fst snd] in *.
  unfold model_obs_read_name. cbn [fst snd].
  rewrite (read_refines_by_name ds _ n fd W R Hin).
  rewrite <- A.
  destruct (spec_read_name (abs ds) (cstr n) (fd_name fd)) as [v|] eqn:E; cbn [fst snd N.eqb]; rewrite ?E; cbn; [apply beq_refl|reflexivity].
Qed.
