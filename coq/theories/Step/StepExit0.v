(* StepExit0.v - what exit status 0 of a write command means, for every argument list
   (step=... included) and every file whose stored strings are free of '$'; the write command
   under a partial write; what the next command sees after a refused write.
   Nothing here assumes [no_id_key]. *)
From Robsd Require Import Step.StepDefs Step.StepSpec Step.StepLex Step.StepRows Step.StepWrite Step.StepHistory
  Step.StepFault Base.DecimalProofs.
From Robsd Require Import Interp.InterpSpec Interp.InterpProofs.
From RobsdGen Require Import Gen_Step Gen_StepIO Gen_Interp.
Local Open Scope N_scope.

(* ---- the rows a write command asks for, in specification terms --------------------------------- *)

Definition base_row (id : Z) : row := set_nth 0 (Some (VInt id)) default_record.

(* the first row carrying [id] gets the key=value arguments applied; without such a row a new
   one (defaults, the id) is appended; None = an argument is not acceptable, or - when action_write
   makes that test ([chk]) - the id column of the resulting row is no longer [id] *)
Definition apply_checked (chk : bool) (id : Z) (kvs : list bytes) (r : row) : option row :=
  match apply_kvs r kvs with
  | Some r' => if chk && negb (row_id r' =? id)%Z then None else Some r'
  | None => None
  end.

Definition spec_update_with (chk : bool) (rows : list row) (id : Z) (kvs : list bytes) : option (list row) :=
  match update_row id (apply_checked chk id kvs) rows with
  | Some r => r
  | None => omap (fun r => rows ++ [r]) (apply_checked chk id kvs (base_row id))
  end.

(* as the source stands *)
Definition spec_update : list row -> Z -> list bytes -> option (list row) := spec_update_with step_key_checked.

Lemma apply_checked_some chk id kvs r r' : apply_checked chk id kvs r = Some r' -> apply_kvs r kvs = Some r'.
Proof.
  unfold apply_checked. destruct (apply_kvs r kvs) as [x|]; [|discriminate].
  destruct (chk && negb (row_id x =? id)%Z); [discriminate|auto].
Qed.

Lemma update_row_ext (f g : row -> option row) id rows :
  (forall r, f r = g r) -> update_row id f rows = update_row id g rows.
Proof.
  intros H. induction rows as [|r rows IH]; [reflexivity|]. cbn [update_row].
  rewrite H, IH. reflexivity.
Qed.

Lemma update_row_Forall (P : row -> Prop) (f : row -> option row) id rows rs :
  Forall P rows -> (forall r r', P r -> f r = Some r' -> P r') ->
  update_row id f rows = Some (Some rs) -> Forall P rs.
Proof.
  intros H Hf. revert rs. induction H as [|r rows Hr Hrows IH]; intros rs; cbn [update_row]; [discriminate|].
  destruct (row_id r =? id)%Z.
  - destruct (f r) as [r'|] eqn:E; cbn [omap]; [|discriminate].
    intros H0. injection H0 as <-. constructor; [eapply Hf; eauto|exact Hrows].
  - destruct (update_row id f rows) as [[rs'|]|]; try discriminate.
    intros H0. injection H0 as <-. constructor; [exact Hr|now apply IH].
Qed.

Lemma base_row_eq id :
  base_row id = [Some (VInt id); None; None; None; Some (VInt 0); Some (VStr []); None; None; Some (VInt 0)].
Proof. unfold base_row. rewrite default_record_eq. reflexivity. Qed.

Lemma base_row_ok id : in_i64 id -> okrow (base_row id).
Proof.
  intros H. rewrite base_row_eq. unfold okrow, fields.
  repeat (apply Forall2_cons || apply Forall2_nil); cbn; auto;
    try (split; [reflexivity|now left]); unfold in_i64 in *;
    change int_min with (-9223372036854775808)%Z; change int_max with 9223372036854775807%Z; lia.
Qed.

Lemma id_in_i64 s id : strtonum id_min id_max s = NumOk id -> in_i64 id.
Proof. exact (in_i64_id s id). Qed.

(* the write command, for a file that parses: arguments are judged by the specification's
   [denote_id] / [apply_kvs]; the rest is sorting and serialising *)
Lemma write_cmd_with_unfold chk content rows idarg kvs :
  parse_file content = Some rows ->
  write_cmd_with chk false (Some content) idarg kvs =
    match denote_id (cstr idarg), kvs with
    | Some id, _ :: _ =>
        match spec_update_with chk rows id (map cstr kvs) with
        | Some rs => match serialize_rows (sort_rows rs) with
                     | Some b => (0, Some (header ++ b))
                     | None => (1, Some content)
                     end
        | None => (1, Some content)
        end
    | _, _ => (1, Some content)
    end.
Proof.
  intros Hp. unfold write_cmd_with, denote_id. rewrite Hp.
  destruct (strtonum id_min id_max (cstr idarg)) as [id| | |] eqn:Eid; try reflexivity.
  destruct (Z.eqb_spec id 0) as [E0|E0]; [reflexivity|].
  destruct kvs as [|kv0 kvs0]; [reflexivity|].
  set (kvs := kv0 :: kvs0).
  assert (Hnn : Forall nonulb (map cstr kvs)).
  { apply Forall_forall. intros x Hx. apply in_map_iff in Hx. destruct Hx as [y [<- _]]. apply cstr_nonul. }
  unfold spec_update_with.
  assert (Hext : forall r, match set_keyvals r (map cstr kvs) with
                           | Some r' => if chk && negb (row_id r' =? id)%Z then None else Some r'
                           | None => None
                           end = apply_checked chk id (map cstr kvs) r).
  { intros r. unfold apply_checked. now rewrite set_keyvals_apply by exact Hnn. }
  rewrite (update_row_ext _ (apply_checked chk id (map cstr kvs)) id rows Hext).
  destruct (update_row id (apply_checked chk id (map cstr kvs)) rows) as [o|]; [reflexivity|].
  rewrite step_init_eq.
  rewrite (set_field_int _ step_name (nth 0 fields (mkfdef [] FInt 0 false [])) id)
    by (try reflexivity; eapply id_in_i64; eauto).
  cbn [fd_index nth fields set_nth].
  rewrite Hext. rewrite base_row_eq. reflexivity.
Qed.

Lemma write_cmd_unfold content rows idarg kvs :
  parse_file content = Some rows ->
  write_cmd false (Some content) idarg kvs =
    match denote_id (cstr idarg), kvs with
    | Some id, _ :: _ =>
        match spec_update rows id (map cstr kvs) with
        | Some rs => match serialize_rows (sort_rows rs) with
                     | Some b => (0, Some (header ++ b))
                     | None => (1, Some content)
                     end
        | None => (1, Some content)
        end
    | _, _ => (1, Some content)
    end.
Proof. exact (write_cmd_with_unfold step_key_checked content rows idarg kvs). Qed.

(* ---- serialised rows parse back ------------------------------------------------------------------ *)

Lemma serialize_rows_wf rows : forall b,
  Forall okrow rows -> serialize_rows rows = Some b ->
  exists ds, rows = map row_of ds /\ Forall wfdata ds /\ b = body ds.
Proof.
  induction rows as [|r rows IH]; intros b Hok Hs.
  - injection Hs as <-. exists []. repeat split. constructor.
  - inversion Hok as [|? ? Hr Hrows]; subst. cbn [serialize_rows] in Hs.
    destruct (serialize_row r) as [a|] eqn:Ea; [|discriminate].
    destruct (serialize_rows rows) as [b'|] eqn:Eb; [|discriminate]. injection Hs as <-.
    destruct (complete r) eqn:Ec; [|rewrite (incomplete_unserializable r Hr Ec) in Ea; discriminate].
    destruct (okrow_complete r Hr Ec) as [d [-> Wd]].
    rewrite (serialize_data d Wd) in Ea. injection Ea as <-.
    destruct (IH b' Hrows eq_refl) as [ds [-> [W ->]]].
    exists (d :: ds). repeat split. constructor; assumption.
Qed.

Theorem serialize_parse rows b :
  Forall okrow rows -> serialize_rows rows = Some b -> parse_file (header ++ b) = Some rows.
Proof.
  intros Hok Hs. destruct (serialize_rows_wf rows b Hok Hs) as [ds [-> [W ->]]].
  apply (parse_file_of ds W).
Qed.

Lemma sort_rows_Forall (P : row -> Prop) l : Forall P l -> Forall P (sort_rows l).
Proof.
  rewrite !Forall_forall. intros H x Hx. apply H. now apply sort_rows_In.
Qed.

Lemma spec_update_with_ok chk rows id kvs rs :
  Forall okrow rows -> in_i64 id -> spec_update_with chk rows id kvs = Some rs -> Forall okrow rs.
Proof.
  intros Hok Hid. unfold spec_update_with.
  destruct (update_row id (apply_checked chk id kvs) rows) as [[rs'|]|] eqn:Eu; try discriminate.
  - intros H. injection H as <-.
    eapply update_row_Forall; [exact Hok| |exact Eu].
    intros r r' Hr Ha. apply apply_checked_some in Ha. eapply apply_kvs_ok; [exact Hr|exact Ha].
  - destruct (apply_checked chk id kvs (base_row id)) as [r'|] eqn:Ea; [|discriminate].
    apply apply_checked_some in Ea.
    cbn [omap]. intros H. injection H as <-. apply Forall_app. split; [exact Hok|].
    constructor; [|constructor]. eapply apply_kvs_ok; [|exact Ea]. now apply base_row_ok.
Qed.

Lemma spec_update_ok rows id kvs rs :
  Forall okrow rows -> in_i64 id -> spec_update rows id kvs = Some rs -> Forall okrow rs.
Proof. exact (spec_update_with_ok step_key_checked rows id kvs rs). Qed.

(* ---- exit status 0 --------------------------------------------------------------------------------------- *)

(* for a file whose rows hold no '$' (every file robsd-step wrote): exit 0 means that the
   arguments were acceptable, that the file now is header + the serialised rows asked for, in
   ascending id order, and that it reads back as exactly these rows *)
Theorem exit0_new_state content rows idarg kvs :
  parse_file content = Some rows -> Forall okrow rows ->
  fst (write_cmd false (Some content) idarg kvs) = 0 ->
  exists id rs b,
    denote_id (cstr idarg) = Some id /\ spec_update rows id (map cstr kvs) = Some rs /\
    serialize_rows (sort_rows rs) = Some b /\
    snd (write_cmd false (Some content) idarg kvs) = Some (header ++ b) /\
    parse_file (header ++ b) = Some (sort_rows rs).
Proof.
  intros Hp Hok. rewrite (write_cmd_unfold content rows idarg kvs Hp).
  destruct (denote_id (cstr idarg)) as [id|] eqn:Eid; [|discriminate].
  destruct kvs as [|kv0 kvs0]; [discriminate|].
  destruct (spec_update rows id (map cstr (kv0 :: kvs0))) as [rs|] eqn:Eu; [|discriminate].
  destruct (serialize_rows (sort_rows rs)) as [b|] eqn:Es; [|discriminate].
  intros _. exists id, rs, b. repeat split; auto. cbn [snd].
  apply serialize_parse; [|exact Es]. apply sort_rows_Forall.
  eapply spec_update_ok; [exact Hok| |exact Eu].
  unfold denote_id in Eid. destruct (strtonum id_min id_max (cstr idarg)) as [z| | |] eqn:En; try discriminate.
  destruct (z =? 0)%Z; [discriminate|]. injection Eid as <-. eapply id_in_i64; eauto.
Qed.

(* outside that guard the clause fails: a hand-made row whose name is "${user}" is rewritten with
   the user's name in its place, by a successful write to ANOTHER id *)
Definition dollar_file : bytes :=
  [115;116;101;112;44;110;97;109;101;44;101;120;105;116;44;100;117;114;97;116;105;111;110;44;100;101;108;116;97;44;108;111;103;44;117;115;101;114;44;116;105;109;101;44;115;107;105;112;10;
   49;44;36;123;117;115;101;114;125;44;48;44;53;44;48;44;44;114;111;111;116;44;49;48;48;44;48;10].
Definition dollar_kvs : list bytes :=
  [[110;97;109;101;61;116;119;111]; [101;120;105;116;61;48]; [100;117;114;97;116;105;111;110;61;54];
   [117;115;101;114;61;98;111;98]; [116;105;109;101;61;49;48;49]].

Lemma exit0_new_state_refuted :
  exists content rows idarg kvs rs b,
    parse_file content = Some rows /\
    write_cmd false (Some content) idarg kvs = (0, Some (header ++ b)) /\
    spec_update rows 2 (map cstr kvs) = Some rs /\
    parse_file (header ++ b) <> Some (sort_rows rs).
Proof.
  exists dollar_file.
  destruct (parse_file dollar_file) as [rows|] eqn:Ep; [|vm_compute in Ep; discriminate].
  exists rows, [50], dollar_kvs.
  destruct (spec_update rows 2 (map cstr dollar_kvs)) as [rs|] eqn:Eu;
    [|vm_compute in Ep; injection Ep as <-; vm_compute in Eu; discriminate].
  destruct (serialize_rows (sort_rows rs)) as [b|] eqn:Es;
    [|vm_compute in Ep; injection Ep as <-; vm_compute in Eu; injection Eu as <-; vm_compute in Es; discriminate].
  exists rs, b. split; [reflexivity|]. split.
  - rewrite (write_cmd_unfold _ _ _ _ Ep). change (denote_id (cstr [50])) with (Some 2%Z).
    unfold dollar_kvs at 1. rewrite Eu, Es. reflexivity.
  - split; [reflexivity|].
    vm_compute in Ep. injection Ep as <-. vm_compute in Eu. injection Eu as <-.
    vm_compute in Es. injection Es as <-. vm_compute. discriminate.
Qed.

(* ---- rejected commands never reach the file, whatever the file system would do --------------------- *)

Lemma write_cmdk_none file idarg kvs : write_cmdk None file idarg kvs = write_cmd false file idarg kvs.
Proof.
  unfold write_cmdk, write_new. destruct file as [content|]; [|reflexivity].
  pose proof (write_cmd_cases false (Some content) idarg kvs) as H.
  destruct (write_cmd false (Some content) idarg kvs) as [e f'].
  destruct H as [[-> ->]|[[H _]|[_ [-> [c [rows [rs [b [_ [_ [_ ->]]]]]]]]]]]; [reflexivity|discriminate|reflexivity].
Qed.

Theorem reject_unchanged_any_fault fault file idarg kvs :
  fst (write_cmdk None file idarg kvs) <> 0 -> write_cmdk fault file idarg kvs = (1, file).
Proof.
  unfold write_cmdk. destruct file as [content|]; [|reflexivity].
  destruct (write_new content idarg kvs); [intros H; now elim H|reflexivity].
Qed.

(* the same for the one-bit fault of StepDefs.write_cmd *)
Theorem reject_unchanged_flush_fault fault file idarg kvs :
  fst (write_cmd false file idarg kvs) <> 0 -> write_cmd fault file idarg kvs = (1, file).
Proof.
  destruct fault.
  - intros H. pose proof (write_cmd_cases false file idarg kvs) as H0.
    pose proof (write_cmd_cases true file idarg kvs) as H1.
    revert H H0 H1. unfold write_cmd, write_cmd_with.
    destruct file as [content|]; [|reflexivity].
    destruct (parse_file content) as [rows|]; [|reflexivity].
    destruct (strtonum id_min id_max (cstr idarg)); try reflexivity.
    destruct (z =? 0)%Z; [reflexivity|].
    destruct kvs as [|kv kvs]; [reflexivity|].
    match goal with |- context [match ?x with Some rs => _ | None => (1, Some content) end] => destruct x as [rs|] end; [|reflexivity].
    destruct (serialize_rows (sort_rows rs)); [|reflexivity].
    cbn [fst]. intros H. now elim H.
  - intros H. pose proof (reject_unchanged file idarg kvs H) as Hs.
    pose proof (write_cmd_cases false file idarg kvs) as Hc.
    destruct (write_cmd false file idarg kvs) as [e f']. cbn [fst snd] in *. subst f'.
    destruct Hc as [[-> _]|[[Hf _]|[_ [-> _]]]]; [reflexivity|discriminate|now elim H].
Qed.

(* ---- partial writes -------------------------------------------------------------------------------------------- *)

(* the two tests steps_write makes notice every short write *)
Lemma exit_fault_zero k len : exit_fault k len = 0 -> (len <= k)%nat.
Proof.
  unfold exit_fault. destruct (Nat.leb_spec len k) as [H|H]; [auto|].
  change fwrite_check with WholeObject. change close_checked with true.
  destruct (k <? direct_part len)%nat; discriminate.
Qed.

Lemma exit_fault_cases k len : exit_fault k len = if (len <=? k)%nat then 0 else 1.
Proof.
  unfold exit_fault. destruct (len <=? k)%nat; [reflexivity|].
  change fwrite_check with WholeObject. change close_checked with true.
  destruct (k <? direct_part len)%nat; reflexivity.
Qed.

(* what a write command does to the file when only the first k bytes are accepted: nothing when
   it rejects its arguments; otherwise the file is exactly the first k bytes of the new content,
   and the command fails unless that is all of it *)
Theorem partial_write_view k content idarg kvs :
  match write_new content idarg kvs with
  | None => write_cmdk (Some k) (Some content) idarg kvs = (1, Some content)
  | Some new =>
      write_cmdk None (Some content) idarg kvs = (0, Some new) /\
      write_cmdk (Some k) (Some content) idarg kvs =
        (if (length new <=? k)%nat then 0 else 1, Some (firstn k new))
  end.
Proof.
  unfold write_cmdk. destruct (write_new content idarg kvs) as [new|]; [|reflexivity].
  split; [reflexivity|]. now rewrite exit_fault_cases.
Qed.

(* exit 0 under any fault: the file holds the complete new state *)
Theorem exit0_any_fault fault content rows idarg kvs :
  parse_file content = Some rows -> Forall okrow rows ->
  fst (write_cmdk fault (Some content) idarg kvs) = 0 ->
  exists id rs b,
    denote_id (cstr idarg) = Some id /\ spec_update rows id (map cstr kvs) = Some rs /\
    serialize_rows (sort_rows rs) = Some b /\
    snd (write_cmdk fault (Some content) idarg kvs) = Some (header ++ b) /\
    parse_file (header ++ b) = Some (sort_rows rs).
Proof.
  intros Hp Hok H0.
  assert (Hn : fst (write_cmd false (Some content) idarg kvs) = 0 /\
               snd (write_cmdk fault (Some content) idarg kvs) = snd (write_cmd false (Some content) idarg kvs)).
  { rewrite <- write_cmdk_none. revert H0. unfold write_cmdk.
    destruct (write_new content idarg kvs) as [new|]; [|discriminate].
    destruct fault as [k|]; [|auto]. cbn [fst snd]. intros Hk. apply exit_fault_zero in Hk.
    split; [reflexivity|]. now rewrite firstn_all2. }
  destruct Hn as [Hn Hs]. destruct (exit0_new_state content rows idarg kvs Hp Hok Hn) as [id [rs [b [A [B [C [D E]]]]]]].
  exists id, rs, b. repeat split; auto. now rewrite Hs.
Qed.

(* and for the one-bit fault of StepDefs.write_cmd (the statement C01 had, now with the state) *)
Theorem exit0_flush_fault fault content rows idarg kvs :
  parse_file content = Some rows -> Forall okrow rows ->
  fst (write_cmd fault (Some content) idarg kvs) = 0 ->
  fault = false /\
  exists id rs b,
    denote_id (cstr idarg) = Some id /\ spec_update rows id (map cstr kvs) = Some rs /\
    serialize_rows (sort_rows rs) = Some b /\
    snd (write_cmd fault (Some content) idarg kvs) = Some (header ++ b) /\
    parse_file (header ++ b) = Some (sort_rows rs).
Proof.
  intros Hp Hok H0. destruct (exit0_only_without_fault _ _ _ _ H0) as [-> _].
  split; [reflexivity|]. now apply exit0_new_state.
Qed.

(* ---- what the next command sees after a refused write ---------------------------------------------------- *)

(* nothing accepted: the file is empty, which is a valid step file without rows.  Every read
   fails; the next write starts from the empty dictionary *)
Lemma empty_file_reads_fail sel t : read_cmd (Some []) sel t = (1, []).
Proof.
  unfold read_cmd. change (parse_file []) with (Some (@nil row)). unfold select_row.
  destruct sel as [idarg|n]; [|reflexivity].
  destruct (strtonum id_min id_max (cstr idarg)) as [id| | |]; try reflexivity.
  destruct (0 <? id)%Z; [now destruct (Z.to_nat (id - 1))|].
  destruct (Z.ltb_spec id 0); [|reflexivity]. cbn [length].
  destruct (Z.leb_spec (- id) (Z.of_nat 0)); [lia|reflexivity].
Qed.

(* a file that no longer parses: every later command, with any arguments, fails and leaves it as it is *)
Lemma unparsable_is_stuck fault content :
  parse_file content = None ->
  (forall idarg kvs, write_cmd fault (Some content) idarg kvs = (1, Some content)) /\
  (forall k idarg kvs, write_cmdk k (Some content) idarg kvs = (1, Some content)) /\
  (forall sel t, read_cmd (Some content) sel t = (1, [])).
Proof.
  intros Hp. assert (Hw : forall fl idarg kvs, write_cmd fl (Some content) idarg kvs = (1, Some content)).
  { intros. unfold write_cmd, write_cmd_with. now rewrite Hp. }
  split; [apply Hw|]. split.
  - intros. unfold write_cmdk, write_new. now rewrite Hw.
  - intros. unfold read_cmd. now rewrite Hp.
Qed.

(* the refusal falls on a row boundary: the file is a well-formed file of the first j rows; the
   others are silently gone *)
Lemma body_firstn j ds : exists rest, body ds = body (firstn j ds) ++ rest.
Proof.
  revert ds; induction j as [|j IH]; intros ds; [exists (body ds); reflexivity|].
  destruct ds as [|d ds]; [exists []; reflexivity|].
  destruct (IH ds) as [rest Hr]. exists rest. cbn [firstn body]. now rewrite Hr, app_assoc.
Qed.

Lemma firstn_exact {A} (a b : list A) : firstn (length a) (a ++ b) = a.
Proof. rewrite firstn_app, Nat.sub_diag, firstn_all. cbn. apply app_nil_r. Qed.

Lemma firstn_In {A} n (l : list A) x : In x (firstn n l) -> In x l.
Proof.
  revert l; induction n as [|n IH]; intros [|y l]; cbn; try tauto. intros [->|H]; [now left|right; auto].
Qed.

Theorem cut_at_row_boundary ds j :
  Forall wfdata ds ->
  firstn (length (file_of (firstn j ds))) (file_of ds) = file_of (firstn j ds) /\
  parse_file (file_of (firstn j ds)) = Some (map row_of (firstn j ds)).
Proof.
  intros W. split.
  - unfold file_of. destruct (body_firstn j ds) as [rest ->]. rewrite app_assoc. apply firstn_exact.
  - apply parse_file_of. rewrite Forall_forall in *. intros d Hd. apply W. eapply firstn_In; eauto.
Qed.

(* the refused write in a history: witness (replayed on robsd-step with RLIMIT_FSIZE 0).  Ids 1 and 2
   are on file; the write of id 3 is refused entirely: exit 1, empty file; the write of id 4 is then
   accepted on what looks like a fresh step file: ids 1 and 2 are gone, and every read of id 1 fails,
   although its last accepted write was never superseded *)
Definition fw_full (name : bytes) : list bytes :=
  [[110;97;109;101;61] ++ name; [101;120;105;116;61;48]; [100;117;114;97;116;105;111;110;61;53];
   [117;115;101;114;61;114;111;111;116]; [116;105;109;101;61;49;48;48]].

Lemma refused_write_forgets_rows :
  let f2 := fold_left model_step [([49], fw_full [111;110;101]); ([50], fw_full [116;119;111])] [] in
  let r3 := write_cmdk (Some 0%nat) (Some f2) [51] (fw_full [116;104;114;101;101]) in
  let r4 := write_cmdk None (snd r3) [52] (fw_full [102;111;117;114]) in
  omap (map row_id) (parse_file f2) = Some [1; 2]%Z /\
  r3 = (1, Some []) /\ fst r4 = 0 /\
  omap (map row_id) (match snd r4 with Some f => parse_file f | None => None end) = Some [4]%Z /\
  read_cmd (snd r4) (ByName [111;110;101]) (ref [110;97;109;101] ++ [NL]) = (1, []).
Proof. vm_compute. repeat split; reflexivity. Qed.

(* the 64-bit bounds the specification documents are the bounds step.c passes to strtonum *)
Lemma spec_bounds_are_source_bounds : i64_min = int_min /\ i64_max = int_max.
Proof. split; reflexivity. Qed.
