(* StepTypes.v - types shared by the generated field table (Gen_Step) and the step file model *)
From Robsd Require Export Base.Bytes.

Inductive ftype := FInt | FStr.
Record fdef := mkfdef {
  fd_name : bytes;
  fd_type : ftype;
  fd_index : nat;
  fd_optional : bool;
  fd_default : bytes;   (* meaningful for optional fields only *)
}.
