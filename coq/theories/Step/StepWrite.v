(* StepWrite.v - the write command refines the abstract dictionary *)
From Robsd Require Import Step.StepDefs Step.StepSpec Step.StepLex Step.StepRows Base.DecimalProofs.
From Robsd Require Import Interp.InterpSpec Interp.InterpProofs.
From RobsdGen Require Import Gen_Step Gen_Interp.
Local Open Scope N_scope.

(* ---- the model's key=value handling is the specification's, on NUL-free arguments ------- *)

Definition nonulb (s : bytes) : Prop := Forall (fun c => c <> 0) s.

Lemma split_eq_nonul kv k v : nonulb kv -> split_eq kv = Some (k, v) -> nonulb v.
Proof.
  revert k; induction kv as [|c kv IH]; intros k H Hs; [discriminate|].
  inversion H as [|? ? Hc Hkv]; subst. simpl in Hs.
  destruct (c =? 61).
  - injection Hs as <- <-. exact Hkv.
  - destruct (split_eq kv) as [[k' v']|] eqn:E; [|discriminate]. injection Hs as <- <-. eapply IH; eauto.
Qed.

Lemma rejected_eq v :
  nonulb v ->
  existsb (fun c => (c =? 44) || ((c =? 10) || ((c =? 36) || false))) v =
  existsb (fun c => (c =? COMMA) || (c =? NL) || (c =? DOLLAR) || (c =? 0)) v.
Proof.
  induction 1 as [|c v Hc _ IH]; [reflexivity|].
  cbn [existsb]. rewrite IH. f_equal. unfold COMMA, NL, DOLLAR.
  destruct (N.eqb_spec c 0); [contradiction|]. now rewrite !orb_false_r, <- !orb_assoc.
Qed.

Lemma acceptable_representable fd v :
  nonulb v -> fd_type fd = FStr -> value_acceptable fd v = representable fd v.
Proof.
  intros Hv Ht. unfold value_acceptable, representable. rewrite Ht.
  change (existsb (fun c => existsb (N.eqb c) rejected_bytes) v)
    with (existsb (fun c => (c =? 44) || ((c =? 10) || ((c =? 36) || false))) v).
  rewrite rejected_eq by exact Hv. change reject_empty_required with true.
  f_equal. destruct (fd_optional fd), v; reflexivity.
Qed.

Lemma set_keyval_denote r kv :
  nonulb kv ->
  set_keyval r kv = match denote kv with
                    | Some (fd, v) => Some (set_nth (fd_index fd) (Some v) r)
                    | None => None
                    end.
Proof.
  intros Hkv. unfold set_keyval, denote. change i64_min with int_min. change i64_max with int_max.
  destruct (split_eq kv) as [[k v]|] eqn:Es; [|reflexivity].
  pose proof (split_eq_nonul _ _ _ Hkv Es) as Hv.
  destruct (find_field fields k) as [fd|] eqn:Ef; [|reflexivity].
  unfold set_field. rewrite Ef.
  destruct (fd_type fd) eqn:Et.
  - unfold value_acceptable. rewrite Et. destruct (strtonum int_min int_max v); reflexivity.
  - rewrite acceptable_representable by assumption. destruct (representable fd v); reflexivity.
Qed.

Lemma set_keyvals_apply r kvs :
  Forall nonulb kvs -> set_keyvals r kvs = apply_kvs r kvs.
Proof.
  intros H. revert r; induction H as [|kv kvs Hkv _ IH]; intros r; [reflexivity|].
  cbn [set_keyvals apply_kvs]. rewrite set_keyval_denote by exact Hkv.
  destruct (denote kv) as [[fd v]|]; [apply IH|reflexivity].
Qed.

(* ---- rows whose present fields are all valid --------------------------------------------- *)

Definition okval (fd : fdef) (v : value) : Prop :=
  match fd_type fd, v with
  | FInt, VInt z => in_i64 z
  | FStr, VStr s => clean s = true /\ (fd_optional fd = true \/ s <> [])
  | _, _ => False
  end.

Definition okrow (r : row) : Prop :=
  Forall2 (fun fd ov => match ov with None => True | Some v => okval fd v end) fields r.

Lemma find_field_In fs k fd : find_field fs k = Some fd -> In fd fs /\ fd_name fd = k.
Proof.
  induction fs as [|f fs IH]; [discriminate|]. simpl.
  destruct (beq_spec (fd_name f) k) as [E|E].
  - intros H. injection H as <-. split; [now left|exact E].
  - intros H. destruct (IH H). split; [now right|assumption].
Qed.

Lemma field_position fd : In fd fields -> nth_error fields (fd_index fd) = Some fd.
Proof.
  intros H. unfold fields in H. cbn [In] in H.
  decompose [or] H; subst; try reflexivity; contradiction.
Qed.

Lemma Forall2_set_nth {A B} (P : A -> B -> Prop) la lb n a b :
  Forall2 P la lb -> nth_error la n = Some a -> P a b -> Forall2 P la (set_nth n b lb).
Proof.
  intros H. revert n; induction H as [|x y la lb Hxy Hrest IH]; intros n Hn Hp; [destruct n; discriminate|].
  destruct n as [|n]; simpl in *.
  - injection Hn as ->. constructor; assumption.
  - constructor; [assumption|]. apply IH; assumption.
Qed.

Lemma denote_ok kv fd v : denote kv = Some (fd, v) -> In fd fields /\ okval fd v.
Proof.
  unfold denote. change i64_min with int_min. change i64_max with int_max.
  destruct (split_eq kv) as [[k s]|]; [|discriminate].
  destruct (find_field fields k) as [fd'|] eqn:Ef; [|discriminate].
  apply find_field_In in Ef. destruct Ef as [Hin _].
  destruct (fd_type fd') eqn:Et.
  - destruct (strtonum int_min int_max s) as [z| | |] eqn:En; try discriminate.
    intros H. injection H as <- <-. split; [exact Hin|]. unfold okval. rewrite Et.
    unfold strtonum in En.
    destruct (skip_space s) as [|c r]; [discriminate|].
    destruct (if c =? 45 then (true, r) else if c =? 43 then (false, r) else (false, c :: r)) as [neg s2].
    destruct s2; [discriminate|]. destruct (uint_of_bytes _); [|discriminate].
    match type of En with context [if (?a <? ?lo)%Z then _ else _] =>
      destruct (Z.ltb_spec a lo); [discriminate|]; destruct (Z.ltb_spec int_max a); [discriminate|] end.
    injection En as <-. split; assumption.
  - destruct (representable fd' s) eqn:Er; [|discriminate].
    intros H. injection H as <- <-. split; [exact Hin|]. unfold okval. rewrite Et.
    unfold representable in Er. apply andb_true_iff in Er. destruct Er as [E1 E2]. split.
    + unfold clean. apply forallb_forall. intros c Hc. apply negb_true_iff in E1.
      unfold cleanc. apply negb_true_iff.
      destruct ((c =? COMMA) || (c =? NL) || (c =? DOLLAR) || (c =? 0)) eqn:Ec; [|reflexivity].
      assert (existsb (fun c => (c =? COMMA) || (c =? NL) || (c =? DOLLAR) || (c =? 0)) s = true)
        by (apply existsb_exists; eauto). congruence.
    + destruct (fd_optional fd'); [now left|]. right. destruct s; [discriminate|discriminate].
Qed.

Lemma apply_kvs_ok r kvs r' : okrow r -> apply_kvs r kvs = Some r' -> okrow r'.
Proof.
  revert r; induction kvs as [|kv kvs IH]; intros r Hr H; simpl in H.
  - injection H as <-. exact Hr.
  - destruct (denote kv) as [[fd v]|] eqn:Ed; [|discriminate].
    apply denote_ok in Ed. destruct Ed as [Hin Hok].
    refine (IH _ _ H). unfold okrow. apply Forall2_set_nth with (a := fd); [exact Hr|apply field_position; exact Hin|exact Hok].
Qed.

(* a complete valid row is a rowdata *)
Lemma okrow_complete r : okrow r -> complete r = true -> exists d, r = row_of d /\ wfdata d.
Proof.
  intros Hr Hc. unfold okrow, fields in Hr.
  repeat match goal with H : Forall2 _ (_ :: _) _ |- _ => inversion H; clear H; subst end.
  match goal with H : Forall2 _ [] _ |- _ => inversion H; clear H; subst end.
  unfold complete in Hc. cbn in Hc.
  repeat match goal with x : option value |- _ => destruct x as [?v|]; [|discriminate Hc] end.
  unfold okval in *. cbn [fd_type fd_optional] in *.
  repeat match goal with
         | v : value |- _ => destruct v as [?z|?s]; try contradiction
         end.
  repeat match goal with H : _ /\ _ |- _ => destruct H end.
  repeat match goal with H : false = true \/ _ |- _ => destruct H as [H|H]; [discriminate H|] end.
  eexists (mkdata _ _ _ _ _ _ _ _ _). split; [reflexivity|]. constructor; cbn; assumption.
Qed.

Lemma okrow_of d : wfdata d -> okrow (row_of d).
Proof.
  intros []. unfold okrow, fields, row_of.
  repeat (apply Forall2_cons || apply Forall2_nil); cbn; unfold in_i64 in *; try split; auto; lia.
Qed.

(* ---- sorting and the abstract state ---------------------------------------------------------- *)

Definition abs (ds : list rowdata) : astate := map (fun d => (d_step d, row_of d)) ds.

Fixpoint asc (l : list Z) : Prop :=
  match l with [] => True | x :: l' => Forall (Z.lt x) l' /\ asc l' end.

Definition sorted (ds : list rowdata) : Prop := asc (map d_step ds).

Fixpoint put (d' : rowdata) (ds : list rowdata) : list rowdata :=
  match ds with
  | [] => [d']
  | d :: ds' => if (d_step d' =? d_step d)%Z then d' :: ds'
                else if (d_step d' <? d_step d)%Z then d' :: ds
                else d :: put d' ds'
  end.

Lemma row_id_of d : row_id (row_of d) = d_step d.
Proof. reflexivity. Qed.

Lemma insert_row_min r l :
  Forall (fun x => (row_id r < row_id x)%Z) l -> insert_row r l = r :: l.
Proof.
  intros H. destruct l as [|x l]; [reflexivity|]. inversion H; subst.
  cbn [insert_row]. destruct (Z.ltb_spec (row_id r) (row_id x)); [reflexivity|lia].
Qed.

Lemma asc_map_Forall l x :
  Forall (Z.lt x) (map row_id l) -> Forall (fun y => (x < row_id y)%Z) l.
Proof. rewrite Forall_map. auto. Qed.

Lemma sort_sorted l : asc (map row_id l) -> sort_rows l = l.
Proof.
  induction l as [|x l IH]; [reflexivity|]. cbn [map asc sort_rows]. intros [Hx Hl].
  rewrite IH by exact Hl. apply insert_row_min. now apply asc_map_Forall.
Qed.

Lemma insert_row_Forall (P : row -> Prop) r l : P r -> Forall P l -> Forall P (insert_row r l).
Proof.
  intros Hr Hl. induction Hl as [|x l Hx Hl IH]; cbn [insert_row]; [repeat constructor; assumption|].
  destruct (row_id r <? row_id x)%Z; repeat constructor; assumption.
Qed.

Lemma sort_snoc l r :
  asc (map row_id l) -> ~ In (row_id r) (map row_id l) -> sort_rows (l ++ [r]) = insert_row r l.
Proof.
  induction l as [|x l IH]; [reflexivity|].
  cbn [map asc app sort_rows]. intros [Hx Hl] Hnotin.
  rewrite IH; [|exact Hl|intros Hin; apply Hnotin; now right].
  assert (Hxr : row_id x <> row_id r) by (intros E; apply Hnotin; left; exact E).
  cbn [insert_row]. destruct (Z.ltb_spec (row_id r) (row_id x)) as [Hlt|Hge].
  - rewrite (insert_row_min r l).
    + cbn [insert_row]. destruct (Z.ltb_spec (row_id x) (row_id r)); [lia|].
      rewrite insert_row_min by now apply asc_map_Forall. reflexivity.
    + apply asc_map_Forall in Hx. eapply Forall_impl; [|exact Hx]. simpl. intros; lia.
  - apply insert_row_min. apply insert_row_Forall; [lia|now apply asc_map_Forall].
Qed.

Lemma insert_put d' ds :
  ~ In (d_step d') (map d_step ds) -> insert_row (row_of d') (map row_of ds) = map row_of (put d' ds).
Proof.
  induction ds as [|d ds IH]; [reflexivity|]. intros Hn.
  cbn [map insert_row put]. rewrite !row_id_of.
  destruct (Z.eqb_spec (d_step d') (d_step d)) as [E|E]; [elim Hn; now left|].
  destruct (d_step d' <? d_step d)%Z; [reflexivity|].
  cbn [map]. rewrite IH; [reflexivity|]. intros Hin. apply Hn. now right.
Qed.

Lemma put_sorted d' ds : sorted ds -> sorted (put d' ds).
Proof.
  unfold sorted. induction ds as [|d ds IH]; [simpl; auto|].
  cbn [map asc put]. intros [Hd Hs].
  destruct (Z.eqb_spec (d_step d') (d_step d)) as [E|E].
  - cbn [map asc]. rewrite E. auto.
  - destruct (Z.ltb_spec (d_step d') (d_step d)) as [Hlt|Hge].
    + cbn [map asc]. split; [|auto]. constructor; [exact Hlt|].
      eapply Forall_impl; [|exact Hd]. simpl. intros; lia.
    + cbn [map asc]. split; [|auto].
      assert (Hall : Forall (Z.lt (d_step d)) (map d_step (d' :: ds))).
      { constructor; [lia|exact Hd]. }
      clear IH Hs Hd. revert Hall. generalize (d_step d). intros z Hall.
      induction ds as [|x ds IHd]; cbn [put map].
      * inversion Hall; subst. constructor; auto.
      * inversion Hall as [|? ? Hz Hrest]; subst. inversion Hrest as [|? ? Hx Hds]; subst.
        destruct (d_step d' =? d_step x)%Z; [constructor; auto|].
        destruct (d_step d' <? d_step x)%Z; [repeat constructor; auto|].
        cbn [map]. constructor; [exact Hx|]. apply IHd. constructor; assumption.
Qed.

Lemma put_wf d' ds : wfdata d' -> Forall wfdata ds -> Forall wfdata (put d' ds).
Proof.
  intros Hd H. induction H as [|d ds Hx Hds IH]; cbn [put]; [apply Forall_cons; [assumption|apply Forall_nil]|].
  destruct (d_step d' =? d_step d)%Z; [apply Forall_cons; assumption|].
  destruct (d_step d' <? d_step d)%Z; repeat (apply Forall_cons; try assumption).
Qed.

Lemma alist_put_abs d' ds : alist_put (d_step d') (row_of d') (abs ds) = abs (put d' ds).
Proof.
  induction ds as [|d ds IH]; [reflexivity|]. cbn [abs map alist_put put].
  destruct (d_step d' =? d_step d)%Z; [reflexivity|].
  destruct (d_step d' <? d_step d)%Z; [reflexivity|].
  cbn [map]. unfold abs in IH. rewrite IH. reflexivity.
Qed.

Fixpoint find_data (id : Z) (ds : list rowdata) : option rowdata :=
  match ds with
  | [] => None
  | d :: ds' => if (d_step d =? id)%Z then Some d else find_data id ds'
  end.

Lemma alist_find_abs id ds : alist_find id (abs ds) = omap row_of (find_data id ds).
Proof.
  induction ds as [|d ds IH]; [reflexivity|]. cbn [abs map alist_find find_data].
  destruct (d_step d =? id)%Z; [reflexivity|exact IH].
Qed.

Lemma find_data_none id ds : find_data id ds = None -> ~ In id (map d_step ds).
Proof.
  induction ds as [|d ds IH]; [intros _ []|]. cbn [find_data map In].
  destruct (Z.eqb_spec (d_step d) id); [discriminate|]. intros H [E|Hin]; [congruence|]. now apply IH.
Qed.

Lemma find_data_some id ds d : find_data id ds = Some d -> d_step d = id /\ In d ds.
Proof.
  induction ds as [|x ds IH]; [discriminate|]. cbn [find_data].
  destruct (Z.eqb_spec (d_step x) id).
  - intros H. injection H as <-. split; [assumption|now left].
  - intros H. destruct (IH H). split; [assumption|now right].
Qed.

(* in-place update by the model on a sorted file = [put] *)
Lemma update_row_put (f : row -> option row) id ds :
  sorted ds ->
  update_row id f (map row_of ds) =
    match find_data id ds with
    | None => None
    | Some d =>
        Some (match f (row_of d) with
              | None => None
              | Some r' => Some (map (fun x => if (d_step x =? id)%Z then r' else row_of x) ds)
              end)
    end.
Proof.
  unfold sorted. induction ds as [|d ds IH]; [reflexivity|].
  cbn [map asc update_row find_data]. intros [Hd Hs]. rewrite row_id_of.
  destruct (Z.eqb_spec (d_step d) id) as [E|E].
  - destruct (f (row_of d)) as [r'|]; [|reflexivity]. cbn [omap]. do 3 f_equal.
    (* no later row has this id *)
    clear IH Hs. induction ds as [|x ds IHx]; [reflexivity|].
    inversion Hd as [|? ? Hx Hrest]; subst. cbn [map].
    destruct (Z.eqb_spec (d_step x) (d_step d)); [lia|]. f_equal. apply IHx. exact Hrest.
  - rewrite IH by exact Hs. destruct (find_data id ds) as [d0|]; [|reflexivity].
    destruct (f (row_of d0)); reflexivity.
Qed.

Lemma replace_is_put d' ds :
  sorted ds -> In (d_step d') (map d_step ds) ->
  map (fun x => if (d_step x =? d_step d')%Z then row_of d' else row_of x) ds = map row_of (put d' ds).
Proof.
  unfold sorted. induction ds as [|d ds IH]; [intros _ []|].
  cbn [map asc put In]. intros [Hd Hs] Hin.
  destruct (Z.eqb_spec (d_step d) (d_step d')) as [E|E].
  - rewrite E, Z.eqb_refl. cbn [map]. f_equal.
    clear IH Hs Hin. induction ds as [|x ds IHx]; [reflexivity|].
    inversion Hd as [|? ? Hx Hrest]; subst. cbn [map].
    destruct (Z.eqb_spec (d_step x) (d_step d')); [lia|]. f_equal. apply IHx. exact Hrest.
  - destruct Hin as [Hin|Hin]; [congruence|].
    destruct (Z.eqb_spec (d_step d') (d_step d)); [congruence|].
    assert (Hlt : (d_step d < d_step d')%Z).
    { rewrite Forall_forall in Hd. apply Hd. exact Hin. }
    destruct (Z.ltb_spec (d_step d') (d_step d)); [lia|].
    cbn [map]. f_equal. apply IH; assumption.
Qed.

(* ---- an incomplete row cannot be serialised ------------------------------------------------------ *)

Lemma interp_refs_undefined env d names :
  Forall (fun n => n <> [] /\ ~ In RBRACE n /\ forall v, env n = Some v -> clean v = true) names ->
  (exists n, In n names /\ env n = None) ->
  exists e, interp (S (S d)) false env
              (join_comma (map (fun n => DOLLAR :: LBRACE :: n ++ [RBRACE]) names) ++ [NL]) = IErr e.
Proof.
  induction 1 as [|n names [Hn [Hr Hc]] Hrest IH]; intros [u [Hin Hu]]; [destruct Hin|].
  destruct (env n) as [v|] eqn:Hv.
  - assert (Hu' : exists n0, In n0 names /\ env n0 = None).
    { destruct Hin as [->|Hin]; [congruence|eauto]. }
    destruct names as [|m names]; [destruct Hu' as [? [[] _]]|].
    destruct (IH Hu') as [e He].
    cbn [map] in He |- *. rewrite join_comma_cons.
    set (J := join_comma ((DOLLAR :: LBRACE :: m ++ [RBRACE]) :: map (fun n0 => DOLLAR :: LBRACE :: n0 ++ [RBRACE]) names)) in *.
    change (((DOLLAR :: LBRACE :: n ++ [RBRACE]) ++ COMMA :: J) ++ [NL]) with (([] ++ ref n ++ [COMMA] ++ J) ++ [NL]).
    cbn [app]. rewrite <- !app_assoc.
    change (ref n ++ (COMMA :: J) ++ [NL]) with ([] ++ ref n ++ [COMMA] ++ J ++ [NL]).
    rewrite substitution_law with (v := v) by (auto; intros []).
    rewrite clean_nonul by auto. rewrite identity_without_dollar by (apply clean_nodollar; auto).
    rewrite interp_prefix by (intros [H|[]]; discriminate H).
    exists e. refine (eq_trans (f_equal (fun r => match ibind [COMMA] r with IErr e0 => IErr e0 | IOk ob => IOk ([] ++ v ++ ob) end) He) _).
    reflexivity.
  - exists (EUnknown n).
    assert (Hm := malformed_laws env (S d) [] (match names with [] => [NL] | _ => COMMA :: (join_comma (map (fun n0 => DOLLAR :: LBRACE :: n0 ++ [RBRACE]) names) ++ [NL]) end) (fun H => H)).
    destruct Hm as [_ [_ [_ Hunk]]]. specialize (Hunk n Hn Hr Hv).
    destruct names as [|m names].
    + exact Hunk.
    + cbn [map]. rewrite join_comma_cons.
      match goal with |- interp _ _ _ (((DOLLAR :: LBRACE :: n ++ [RBRACE]) ++ COMMA :: ?J) ++ [NL]) = _ =>
        change (((DOLLAR :: LBRACE :: n ++ [RBRACE]) ++ COMMA :: J) ++ [NL]) with (([] ++ ref n ++ COMMA :: J) ++ [NL]) end.
      cbn [app]. rewrite <- !app_assoc. exact Hunk.
Qed.

Lemma Forall2_nth {A B} (P : A -> B -> Prop) la lb n a b :
  Forall2 P la lb -> nth_error la n = Some a -> nth_error lb n = Some b -> P a b.
Proof.
  intros H. revert n; induction H as [|x y la lb Hxy Hrest IH]; intros n Ha Hb; [destruct n; discriminate|].
  destruct n as [|n]; simpl in *; [congruence|eauto].
Qed.

Lemma okval_clean fd v : okval fd v -> clean (render_value v) = true.
Proof.
  unfold okval. destruct (fd_type fd), v; try contradiction; cbn [render_value].
  - intros _. apply clean_render.
  - tauto.
Qed.

Lemma row_lookup_clean r name v : okrow r -> row_lookup r name = Some v -> clean v = true.
Proof.
  intros Hr. unfold row_lookup, get_field.
  destruct (find_field fields name) as [fd|] eqn:Ef; [|discriminate].
  apply find_field_In in Ef. destruct Ef as [Hin _].
  destruct (nth_error r (fd_index fd)) as [[val|]|] eqn:En; try discriminate.
  cbn [omap]. intros H. injection H as <-.
  apply (okval_clean fd). apply (Forall2_nth _ _ _ _ _ _ Hr (field_position fd Hin) En).
Qed.

Lemma find_field_self fd : In fd fields -> find_field fields (fd_name fd) = Some fd.
Proof.
  intros H. unfold fields in H. cbn [In] in H.
  decompose [or] H; subst; try reflexivity; contradiction.
Qed.

Lemma incomplete_unserializable r : okrow r -> complete r = false -> serialize_row r = None.
Proof.
  intros Hr Hc.
  assert (Hex : exists fd, In fd fields /\ get_field r (fd_name fd) = None).
  { unfold complete in Hc.
    destruct (forallb _ fields) eqn:E in Hc; [discriminate|]. clear Hc.
    assert (Hnot : ~ (forall fd, In fd fields -> match nth_error r (fd_index fd) with Some (Some _) => true | _ => false end = true)).
    { intros Hall. rewrite <- forallb_forall in Hall. congruence. }
    destruct (existsb (fun fd => negb match nth_error r (fd_index fd) with Some (Some _) => true | _ => false end) fields) eqn:Ex.
    - apply existsb_exists in Ex. destruct Ex as [fd [Hin Hfd]]. exists fd. split; [exact Hin|].
      unfold get_field. rewrite find_field_self by exact Hin.
      destruct (nth_error r (fd_index fd)) as [[?|]|]; try reflexivity. discriminate Hfd.
    - elim Hnot. intros fd Hin.
      assert (Hn : negb match nth_error r (fd_index fd) with Some (Some _) => true | _ => false end = false).
      { destruct (negb _) eqn:En; [|reflexivity].
        assert (existsb (fun fd => negb match nth_error r (fd_index fd) with Some (Some _) => true | _ => false end) fields = true)
          by (apply existsb_exists; eauto). congruence. }
      now apply negb_false_iff in Hn. }
  destruct Hex as [fd [Hin Hget]].
  unfold serialize_row, interp_str.
  replace (cstr row_template) with row_template by (vm_compute; reflexivity).
  change (Nat.pred depth_limit) with (S (S 2)).
  unfold row_template. rewrite <- map_map with (g := fun n => DOLLAR :: LBRACE :: n ++ [RBRACE]).
  destruct (interp_refs_undefined (row_lookup r) 2 (map fd_name fields)) as [e He].
  - apply Forall_forall. intros n Hn. apply in_map_iff in Hn. destruct Hn as [f [<- Hf]].
    assert (nr : forall (x : N) l, existsb (N.eqb x) l = false -> ~ In x l).
    { intros x l H Hin'. assert (existsb (N.eqb x) l = true) by (apply existsb_exists; exists x; split; [exact Hin'|apply N.eqb_refl]). congruence. }
    split; [|split].
    + unfold fields in Hf. cbn [In] in Hf. decompose [or] Hf; subst; try discriminate; contradiction.
    + unfold fields in Hf. cbn [In] in Hf. decompose [or] Hf; subst; try (apply nr; reflexivity); contradiction.
    + intros v Hv. eapply row_lookup_clean; eauto.
  - exists (fd_name fd). split; [now apply in_map|]. unfold row_lookup. now rewrite Hget.
  - now rewrite He.
Qed.

Lemma serialize_rows_fail l r : In r l -> serialize_row r = None -> serialize_rows l = None.
Proof.
  induction l as [|x l IH]; [intros []|]. intros [->|Hin] Hr; cbn [serialize_rows].
  - rewrite Hr. reflexivity.
  - rewrite (IH Hin Hr). destruct (serialize_row x); reflexivity.
Qed.

Lemma insert_row_In r x l : In x (insert_row r l) <-> x = r \/ In x l.
Proof.
  induction l as [|y l IH]; cbn [insert_row]; [simpl; intuition|].
  destruct (row_id r <? row_id y)%Z; cbn [In]; [intuition|]. rewrite IH. intuition.
Qed.

Lemma sort_rows_In x l : In x (sort_rows l) <-> In x l.
Proof.
  induction l as [|y l IH]; [reflexivity|]. cbn [sort_rows]. rewrite insert_row_In, IH. simpl. intuition.
Qed.

(* ---- the write command ------------------------------------------------------------------------------- *)

Lemma strtonum_range lo hi s z : strtonum lo hi s = NumOk z -> (lo <= z <= hi)%Z.
Proof.
  unfold strtonum. intros En.
  destruct (skip_space s) as [|c r]; [discriminate|].
  destruct (if c =? 45 then (true, r) else if c =? 43 then (false, r) else (false, c :: r)) as [neg s2].
  destruct s2; [discriminate|]. destruct (uint_of_bytes _); [|discriminate].
  match type of En with context [if (?a <? ?l)%Z then _ else _] =>
    destruct (Z.ltb_spec a l); [discriminate|]; destruct (Z.ltb_spec hi a); [discriminate|] end.
  injection En as <-. split; assumption.
Qed.

Definition reps (ds : list rowdata) (file : bytes) : Prop :=
  file = file_of ds \/ (ds = [] /\ file = []).

Lemma parse_reps ds file : Forall wfdata ds -> reps ds file -> parse_file file = Some (map row_of ds).
Proof.
  intros W [->|[-> ->]]; [now apply parse_file_of|reflexivity].
Qed.

(* no key=value argument addresses the id column (the id is given by -i) *)
Definition no_id_key (kvs : list bytes) : Prop :=
  Forall (fun kv => match denote kv with Some (fd, _) => fd_index fd <> 0%nat | None => True end) kvs.

Lemma set_nth_keeps0 {A} n (x : A) l : n <> 0%nat -> nth_error (set_nth n x l) 0 = nth_error l 0.
Proof. destruct n, l; simpl; congruence. Qed.

Lemma apply_kvs_keeps0 r kvs r' :
  no_id_key kvs -> apply_kvs r kvs = Some r' -> nth_error r' 0 = nth_error r 0.
Proof.
  intros H. revert r; induction H as [|kv kvs Hkv _ IH]; intros r Ha; simpl in Ha.
  - now injection Ha as <-.
  - destruct (denote kv) as [[fd v]|]; [|discriminate].
    rewrite (IH _ Ha). now apply set_nth_keeps0.
Qed.

Lemma map_row_id ds : map row_id (map row_of ds) = map d_step ds.
Proof. rewrite map_map. apply map_ext. intros; apply row_id_of. Qed.

Lemma write_sorted_file ds :
  Forall wfdata ds -> sorted ds ->
  serialize_rows (sort_rows (map row_of ds)) = Some (body ds).
Proof.
  intros W S. rewrite sort_sorted by (rewrite map_row_id; exact S). now apply serialize_rows_data.
Qed.

Lemma default_record_eq :
  default_record = [None; None; None; None; Some (VInt 0); Some (VStr []); None; None; Some (VInt 0)].
Proof. vm_compute. reflexivity. Qed.

(* the arguments are acceptable one by one and give a complete row whose id column is not the -i id
   (a step=J argument with J different from the id) *)
Definition renumbers (s : astate) (idarg : bytes) (kvs : list bytes) : bool :=
  match denote_id idarg, kvs with
  | Some id, _ :: _ =>
      match apply_kvs (match alist_find id s with
                       | Some r => r
                       | None => set_nth 0 (Some (VInt id)) default_record
                       end) kvs with
      | Some r => complete r && negb (keeps_id id r)
      | None => false
      end
  | _, _ => false
  end.

Lemma in_i64_id s id : strtonum id_min id_max s = NumOk id -> in_i64 id.
Proof.
  intros Eid. apply strtonum_range in Eid. unfold in_i64.
  change id_min with (-2147483647)%Z in Eid. change id_max with 2147483647%Z in Eid.
  change int_min with (-9223372036854775808)%Z. change int_max with 9223372036854775807%Z. lia.
Qed.

(* the id test of action_write on a complete row is the specification's [keeps_id] *)
Lemma keeps_id_row_of id d : keeps_id id (row_of d) = (row_id (row_of d) =? id)%Z.
Proof. reflexivity. Qed.

(* The write command refines the dictionary.  [chk] = whether action_write compares the id column
   with -i (robsd-step.c since 17c91c8): with the test, for EVERY argument list; without it, for
   every argument list that does not renumber the row. *)
Theorem write_refines_with chk ds file idarg kvs :
  Forall wfdata ds -> sorted ds -> reps ds file ->
  (chk = false -> renumbers (abs ds) (cstr idarg) (map cstr kvs) = false) ->
  match spec_write (abs ds) (cstr idarg) (map cstr kvs) with
  | Some s' => exists ds', s' = abs ds' /\ Forall wfdata ds' /\ sorted ds' /\
                           write_cmd_with chk false (Some file) idarg kvs = (0, Some (file_of ds'))
  | None => write_cmd_with chk false (Some file) idarg kvs = (1, Some file)
  end.
Proof.
  intros W S R NR. unfold spec_write, write_cmd_with, denote_id. unfold renumbers, denote_id in NR.
  rewrite (parse_reps ds file W R).
  destruct (strtonum id_min id_max (cstr idarg)) as [id| | |] eqn:Eid; try reflexivity.
  destruct (Z.eqb_spec id 0) as [E0|E0]; [reflexivity|].
  destruct kvs as [|kv0 kvs0]; [reflexivity|].
  cbn [map] in NR. set (kvs := kv0 :: kvs0) in *.
  change (cstr kv0 :: map cstr kvs0) with (map cstr kvs) in NR.
  change (map cstr kvs) with (cstr kv0 :: map cstr kvs0) at 1.
  cbv iota.
  assert (Hnn : Forall nonulb (map cstr kvs)).
  { apply Forall_forall. intros x Hx. apply in_map_iff in Hx. destruct Hx as [y [<- _]]. apply cstr_nonul. }
  assert (Hid64 : in_i64 id) by (eapply in_i64_id; eauto).
  rewrite alist_find_abs in *. rewrite (update_row_put _ id ds S).
  destruct (find_data id ds) as [d|] eqn:Ef; cbn [omap] in *.
  - (* the id is present: update in place *)
    destruct (find_data_some _ _ _ Ef) as [Hdid Hdin].
    rewrite set_keyvals_apply by exact Hnn.
    assert (Wd : wfdata d) by (rewrite Forall_forall in W; auto).
    destruct (apply_kvs (row_of d) (map cstr kvs)) as [r'|] eqn:Ea; [|reflexivity].
    pose proof (apply_kvs_ok _ _ _ (okrow_of d Wd) Ea) as Hok.
    destruct (complete r') eqn:Ec; cbn [andb] in *.
    + destruct (okrow_complete r' Hok Ec) as [d' [-> Wd']].
      rewrite keeps_id_row_of in *.
      destruct (Z.eqb_spec (row_id (row_of d')) id) as [Hk|Hk]; cbn [negb].
      * rewrite andb_false_r. rewrite row_id_of in Hk.
        exists (put d' ds). split; [now rewrite <- Hk, alist_put_abs|].
        split; [now apply put_wf|]. split; [now apply put_sorted|].
        rewrite <- Hk. rewrite replace_is_put; [|exact S|rewrite Hk, <- Hdid; now apply in_map].
        rewrite write_sorted_file by (auto using put_wf, put_sorted). reflexivity.
      * destruct chk; [reflexivity|]. specialize (NR eq_refl). discriminate NR.
    + destruct (chk && negb (row_id r' =? id)%Z); [reflexivity|].
      rewrite (serialize_rows_fail _ r'); [reflexivity| |now apply incomplete_unserializable].
      apply sort_rows_In. apply in_map_iff. exists d. split; [|exact Hdin]. now rewrite Hdid, Z.eqb_refl.
  - (* a new id: append and sort *)
    rewrite step_init_eq.
    rewrite (set_field_int _ step_name (nth 0 fields (mkfdef [] FInt 0 false [])) id) by (auto; reflexivity).
    cbn [fd_index nth fields set_nth omap].
    rewrite default_record_eq in *. cbn [set_nth] in *.
    rewrite set_keyvals_apply by exact Hnn.
    set (base := [Some (VInt id); None; None; None; Some (VInt 0); Some (VStr []); None; None; Some (VInt 0)]) in *.
    assert (Hbase : okrow base).
    { unfold okrow, fields, base. repeat (apply Forall2_cons || apply Forall2_nil); cbn; auto;
        try (split; [reflexivity|now left]); unfold in_i64 in *;
        change int_min with (-9223372036854775808)%Z; change int_max with 9223372036854775807%Z; lia. }
    destruct (apply_kvs base (map cstr kvs)) as [r'|] eqn:Ea; [|reflexivity].
    pose proof (apply_kvs_ok _ _ _ Hbase Ea) as Hok.
    pose proof (find_data_none _ _ Ef) as Hnotin.
    destruct (complete r') eqn:Ec; cbn [andb] in *.
    + destruct (okrow_complete r' Hok Ec) as [d' [-> Wd']].
      rewrite keeps_id_row_of in *.
      destruct (Z.eqb_spec (row_id (row_of d')) id) as [Hk|Hk]; cbn [negb].
      * rewrite andb_false_r. cbn [omap]. rewrite row_id_of in Hk.
        exists (put d' ds). split; [now rewrite <- Hk, alist_put_abs|].
        split; [now apply put_wf|]. split; [now apply put_sorted|].
        rewrite sort_snoc; [|rewrite map_row_id; exact S|rewrite map_row_id, row_id_of, Hk; exact Hnotin].
        rewrite insert_put by (rewrite Hk; exact Hnotin).
        rewrite <- (sort_sorted (map row_of (put d' ds))) by (rewrite map_row_id; now apply put_sorted).
        rewrite write_sorted_file by (auto using put_wf, put_sorted). reflexivity.
      * destruct chk; [reflexivity|]. specialize (NR eq_refl). discriminate NR.
    + destruct (chk && negb (row_id r' =? id)%Z); [reflexivity|]. cbn [omap].
      rewrite (serialize_rows_fail _ r'); [reflexivity| |now apply incomplete_unserializable].
      apply sort_rows_In. apply in_or_app. right. now left.
Qed.

(* [no_id_key] (no step=... argument at all) is one way of not renumbering *)
Lemma no_id_key_no_renumber ds idarg kvs : no_id_key kvs -> renumbers (abs ds) idarg kvs = false.
Proof.
  intros NK. unfold renumbers. destruct (denote_id idarg) as [id|] eqn:Eid; [|reflexivity].
  destruct kvs as [|kv kvs]; [reflexivity|].
  destruct (apply_kvs _ (kv :: kvs)) as [r|] eqn:Ea; [|reflexivity].
  pose proof (apply_kvs_keeps0 _ _ _ NK Ea) as H0.
  assert (Hk : keeps_id id r = true).
  { unfold keeps_id. rewrite H0. rewrite alist_find_abs.
    destruct (find_data id ds) as [d|] eqn:Ef; cbn [omap].
    - destruct (find_data_some _ _ _ Ef) as [Hd _]. cbn. rewrite Hd. apply Z.eqb_refl.
    - cbn. apply Z.eqb_refl. }
  rewrite Hk. now rewrite andb_false_r.
Qed.

(* the command of the source as it stands (Gen_Step.step_key_checked) *)
Theorem write_refines ds file idarg kvs :
  Forall wfdata ds -> sorted ds -> reps ds file -> no_id_key (map cstr kvs) ->
  match spec_write (abs ds) (cstr idarg) (map cstr kvs) with
  | Some s' => exists ds', s' = abs ds' /\ Forall wfdata ds' /\ sorted ds' /\
                           write_cmd false (Some file) idarg kvs = (0, Some (file_of ds'))
  | None => write_cmd false (Some file) idarg kvs = (1, Some file)
  end.
Proof.
  intros W S R NK. apply (write_refines_with step_key_checked ds file idarg kvs W S R).
  intros _. now apply no_id_key_no_renumber.
Qed.
