(* StepDefs.v - executable model of the step file: step.c (lexer, header and
   row parser, step_init, step_set_field, step_set_keyval, step_validate,
   steps_sort, step_serialize through interpolate_buffer, steps_write),
   robsd-step.c (parse_id, action_write, steps_read).  Definitions only.
   The field table, the integer bounds and the write-time value checks come
   from the translator (Gen_Step), the interpolation limit from Gen_Interp. *)
From Robsd Require Export Base.Decimal Step.StepTypes Interp.InterpDefs.
From RobsdGen Require Import Gen_Step Gen_Interp.
Local Open Scope N_scope.

Definition COMMA : N := 44.

Inductive value := VInt (z : Z) | VStr (s : bytes).
Definition row := list (option value).      (* indexed by fd_index; None = UNKNOWN type *)

Definition render_value (v : value) : bytes :=
  match v with VInt z => render_Z z | VStr s => s end.

Fixpoint find_field (fs : list fdef) (name : bytes) : option fdef :=
  match fs with
  | [] => None
  | f :: fs' => if beq (fd_name f) name then Some f else find_field fs' name
  end.

Fixpoint set_nth {A} (n : nat) (x : A) (l : list A) : list A :=
  match n, l with
  | O, _ :: l' => x :: l'
  | S n', y :: l' => y :: set_nth n' x l'
  | _, [] => []
  end.

(* step_set_field; None = failure (unknown field or bad integer) *)
Definition set_field (st : row) (name val : bytes) : option row :=
  match find_field fields name with
  | None => None
  | Some fd =>
      match fd_type fd with
      | FStr => Some (set_nth (fd_index fd) (Some (VStr val)) st)
      | FInt => match strtonum int_min int_max val with
                | NumOk z => Some (set_nth (fd_index fd) (Some (VInt z)) st)
                | _ => None
                end
      end
  end.

(* step_init: all fields UNKNOWN, then the defaults of the optional ones *)
Fixpoint init_defaults (fs : list fdef) (st : row) : option row :=
  match fs with
  | [] => Some st
  | f :: fs' =>
      if fd_optional f then
        match set_field st (fd_name f) (fd_default f) with
        | None => None
        | Some st' => init_defaults fs' st'
        end
      else init_defaults fs' st
  end.

Definition step_init : option row :=
  init_defaults fields (map (fun _ => None) fields).

Definition get_field (st : row) (name : bytes) : option value :=
  match find_field fields name with
  | None => None
  | Some fd => match nth_error st (fd_index fd) with Some v => v | None => None end
  end.

(* step_validate: every mandatory field has a value *)
Definition validate (st : row) : bool :=
  forallb (fun f => fd_optional f ||
                    match nth_error st (fd_index f) with Some (Some _) => true | _ => false end) fields.

(* ---- lexer (step_lexer_read over the bytes before the first NUL) ---------- *)

Inductive token := TComma | TNewline | TValue (v : bytes).

Definition omap {A B} (f : A -> B) (o : option A) : option B :=
  match o with Some x => Some (f x) | None => None end.

Fixpoint lex (s : bytes) : option (list token) :=
  match s with
  | [] => Some []
  | c :: s' =>
      if c =? COMMA then omap (cons TComma) (lex s')
      else if c =? NL then omap (cons TNewline) (lex s')
      else lex_value [c] s'
  end
with lex_value (acc : bytes) (s : bytes) : option (list token) :=
  match s with
  | [] => None                                   (* unterminated value *)
  | c :: s' =>
      if c =? COMMA then omap (fun r => TValue acc :: TComma :: r) (lex s')
      else if c =? NL then omap (fun r => TValue acc :: TNewline :: r) (lex s')
      else lex_value (acc ++ [c]) s'
  end.

(* ---- parser ------------------------------------------------------------------ *)

(* steps_parse_header *)
Fixpoint parse_header (toks : list token) : option (list bytes * list token) :=
  match toks with
  | TValue v :: TNewline :: ts => Some ([v], ts)
  | TValue v :: TComma :: ts =>
      match parse_header ts with
      | Some (cols, rest) => Some (v :: cols, rest)
      | None => None
      end
  | _ => None
  end.

(* the column loop of steps_parse_row *)
Fixpoint row_loop (cols : list bytes) (col : nat) (st : row) (toks : list token)
  : option (row * list token) :=
  match toks with
  | TComma :: ts => row_loop cols (S col) st ts
  | TValue v :: ts =>
      match nth_error cols col with
      | None => None                                          (* unknown column *)
      | Some key =>
          match set_field st key v with
          | None => None                                      (* unknown field / bad value *)
          | Some st' =>
              match ts with
              | TNewline :: ts' => Some (st', ts')
              | TComma :: ts' => row_loop cols (S col) st' ts'
              | _ => None
              end
          end
      end
  | _ => None
  end.

Definition parse_row (cols : list bytes) (toks : list token) : option (row * list token) :=
  match step_init with
  | None => None
  | Some st0 =>
      match row_loop cols 0 st0 toks with
      | Some (st, rest) => if validate st then Some (st, rest) else None
      | None => None
      end
  end.

(* rows until the end of the token list; [fuel] bounds the number of rows and
   is never exhausted when it is at least the number of tokens (ParseProofs) *)
Fixpoint parse_rows (fuel : nat) (cols : list bytes) (toks : list token) : option (list row) :=
  match toks with
  | [] => Some []
  | _ =>
      match fuel with
      | O => None
      | S fuel' =>
          match parse_row cols toks with
          | None => None
          | Some (st, rest) => omap (cons st) (parse_rows fuel' cols rest)
          end
      end
  end.

(* steps_parse on the file content *)
Definition parse_file (content : bytes) : option (list row) :=
  match lex (cstr content) with
  | None => None
  | Some [] => Some []                               (* empty file: no header, no rows *)
  | Some toks =>
      match parse_header toks with
      | None => None
      | Some (cols, rest) => parse_rows (S (length rest)) cols rest
      end
  end.

(* ---- serialisation --------------------------------------------------------------- *)

Fixpoint join_comma (parts : list bytes) : bytes :=
  match parts with
  | [] => []
  | [p] => p
  | p :: ps => p ++ COMMA :: join_comma ps
  end.

Definition header : bytes := join_comma (map fd_name fields) ++ [NL].

Definition row_template : bytes :=
  join_comma (map (fun f => DOLLAR :: LBRACE :: fd_name f ++ [RBRACE]) fields) ++ [NL].

(* step_interpolate_lookup *)
Definition row_lookup (st : row) (name : bytes) : option bytes :=
  omap render_value (get_field st name).

(* step_serialize: the row template interpolated with the row's fields *)
Definition serialize_row (st : row) : option bytes :=
  match interp_str depth_limit false (row_lookup st) row_template with
  | IOk o => Some o
  | IErr _ => None
  end.

Fixpoint serialize_rows (rows : list row) : option bytes :=
  match rows with
  | [] => Some []
  | r :: rs =>
      match serialize_row r, serialize_rows rs with
      | Some a, Some b => Some (a ++ b)
      | _, _ => None
      end
  end.

Definition row_id (st : row) : Z :=
  match get_field st (fd_name (hd (mkfdef [] FInt 0 false []) fields)) with
  | Some (VInt z) => z
  | _ => 0%Z
  end.

(* steps_sort: insertion sort by id (stable; qsort agrees whenever ids are distinct) *)
Fixpoint insert_row (r : row) (rs : list row) : list row :=
  match rs with
  | [] => [r]
  | x :: rs' => if (row_id r <? row_id x)%Z then r :: rs else x :: insert_row r rs'
  end.

Fixpoint sort_rows (rs : list row) : list row :=
  match rs with
  | [] => []
  | r :: rs' => insert_row r (sort_rows rs')
  end.

(* ---- robsd-step -W ------------------------------------------------------------------- *)

Fixpoint split_eq (kv : bytes) : option (bytes * bytes) :=
  match kv with
  | [] => None
  | c :: kv' =>
      if c =? 61 then Some ([], kv')
      else match split_eq kv' with
           | Some (k, v) => Some (c :: k, v)
           | None => None
           end
  end.

(* the value check added to step_set_keyval (string fields only) *)
Definition value_acceptable (fd : fdef) (val : bytes) : bool :=
  match fd_type fd with
  | FInt => true
  | FStr =>
      negb (existsb (fun c => existsb (N.eqb c) rejected_bytes) val) &&
      negb (reject_empty_required && negb (fd_optional fd) &&
            match val with [] => true | _ => false end)
  end.

(* step_set_keyval *)
Definition set_keyval (st : row) (kv : bytes) : option row :=
  match split_eq kv with
  | None => None
  | Some (k, v) =>
      match find_field fields k with
      | Some fd => if value_acceptable fd v then set_field st k v else None
      | None => None
      end
  end.

Fixpoint set_keyvals (st : row) (kvs : list bytes) : option row :=
  match kvs with
  | [] => Some st
  | kv :: kvs' => match set_keyval st kv with
                  | None => None
                  | Some st' => set_keyvals st' kvs'
                  end
  end.

(* steps_find_by_id / update in place or append *)
Fixpoint update_row (id : Z) (f : row -> option row) (rows : list row) : option (option (list row)) :=
  (* None: id absent; Some None: present but f failed; Some (Some rows'): updated *)
  match rows with
  | [] => None
  | r :: rs =>
      if (row_id r =? id)%Z then Some (omap (fun r' => r' :: rs) (f r))
      else match update_row id f rs with
           | None => None
           | Some None => Some None
           | Some (Some rs') => Some (Some (r :: rs'))
           end
  end.

Definition step_name : bytes := fd_name (hd (mkfdef [] FInt 0 false []) fields).

(* what the file system does with the final write: [flush_fails] = the
   buffered data could not be written (the file was already truncated).
   [key_checked]: action_write compares the id column of the row with the -i id once every
   key=value is applied and fails when a step=... argument changed it (robsd-step.c since 17c91c8;
   the source as it is decides through Gen_Step.step_key_checked, see [write_cmd]) *)
Definition write_cmd_with (key_checked : bool) (flush_fails : bool) (file : option bytes) (idarg : bytes) (kvs : list bytes)
  : N * option bytes :=
  match file with
  | None => (1, file)                                    (* open fails *)
  | Some content =>
      match parse_file content with
      | None => (1, file)
      | Some rows =>
          match strtonum id_min id_max (cstr idarg) with
          | NumOk id =>
              if (id =? 0)%Z then (1, file) else
              match kvs with
              | [] => (1, file)                           (* usage *)
              | _ =>
                  let upd := fun r =>
                    match set_keyvals r (map cstr kvs) with
                    | Some r' => if key_checked && negb (row_id r' =? id)%Z then None else Some r'
                    | None => None
                    end in
                  let rows' :=
                    match update_row id upd rows with
                    | Some r => r
                    | None =>
                        match step_init with
                        | None => None
                        | Some st0 =>
                            match set_field st0 step_name (render_Z id) with
                            | None => None
                            | Some st1 => omap (fun r => rows ++ [r]) (upd st1)
                            end
                        end
                    end in
                  match rows' with
                  | None => (1, file)
                  | Some rs =>
                      match serialize_rows (sort_rows rs) with
                      | None => (1, file)
                      | Some body =>
                          if flush_fails then ((if close_checked then 1 else 0), Some [])
                          else (0, Some (header ++ body))
                      end
                  end
              end
          | _ => (1, file)
          end
      end
  end.

Definition write_cmd : bool -> option bytes -> bytes -> list bytes -> N * option bytes :=
  write_cmd_with step_key_checked.

(* ---- robsd-step -R --------------------------------------------------------------------- *)

Inductive selector := ById (idarg : bytes) | ByName (name : bytes).

Fixpoint find_by_name (rows : list row) (name : bytes) : option row :=
  match rows with
  | [] => None
  | r :: rs => match get_field r (fd_name (nth 1 fields (mkfdef [] FStr 1 false []))) with
               | Some (VStr s) => if beq s name then Some r else find_by_name rs name
               | _ => find_by_name rs name
               end
  end.

Definition select_row (rows : list row) (sel : selector) : option row :=
  match sel with
  | ByName n => find_by_name rows (cstr n)
  | ById idarg =>
      match strtonum id_min id_max (cstr idarg) with
      | NumOk id =>
          if (0 <? id)%Z then nth_error rows (Z.to_nat (id - 1))
          else if (id <? 0)%Z then
            (if (- id <=? Z.of_nat (length rows))%Z
             then nth_error rows (Z.to_nat (Z.of_nat (length rows) + id)) else None)
          else None
      | _ => None
      end
  end.

(* (exit, stdout) of robsd-step -R -f file <selector> with [template] on stdin *)
Definition read_cmd (file : option bytes) (sel : selector) (template : bytes) : N * bytes :=
  match file with
  | None => (1, [])
  | Some content =>
      match parse_file content with
      | None => (1, [])
      | Some rows =>
          match select_row rows sel with
          | None => (1, [])
          | Some st => interp_cmd depth_limit (row_lookup st) template
          end
      end
  end.
