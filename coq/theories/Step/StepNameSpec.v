(* StepNameSpec.v - reading by name (robsd-step -R -n, util.sh step_eval -n), on the abstract
   dictionary, and the oracle for observed reads by name.  Definitions only (extracted). *)
From Robsd Require Export Step.StepDefs Step.StepSpec.
From RobsdGen Require Import Gen_Step.
Local Open Scope N_scope.

(* the first record, in ascending id order, whose name column is [name] *)
Fixpoint spec_find_name (s : astate) (name : bytes) : option record :=
  match s with
  | [] => None
  | (_, r) :: s' =>
      match nth_error r 1 with
      | Some (Some (VStr n)) => if beq n name then Some r else spec_find_name s' name
      | _ => spec_find_name s' name
      end
  end.

Definition spec_read_name (s : astate) (name field : bytes) : option bytes :=
  match spec_find_name s name with
  | None => None
  | Some r =>
      match find_field fields field with
      | None => None
      | Some fd => match nth_error r (fd_index fd) with
                   | Some (Some v) => Some (render_value v)
                   | _ => None
                   end
      end
  end.

(* observed: the writes with the exit status given, then reads (name, field) with what was printed
   (None = the read failed) *)
Definition spec_ok_names (ws : list (bytes * list bytes * bool))
    (reads : list (bytes * bytes * option bytes)) : bool :=
  match replay_writes [] ws with
  | None => false
  | Some s =>
      forallb (fun '(name, field, got) =>
                 obs_eq (omap (fun v => v ++ [NL]) (spec_read_name s name field)) got) reads
  end.
