(* StepLex.v - lexing values and separators; serialising a row through interpolation *)
From Robsd Require Import Step.StepDefs Base.DecimalProofs Interp.InterpSpec Interp.InterpProofs.
From RobsdGen Require Import Gen_Step Gen_Interp.
Local Open Scope N_scope.

(* bytes that may appear inside a stored value *)
Definition cleanc (c : N) : bool :=
  negb ((c =? COMMA) || (c =? NL) || (c =? DOLLAR) || (c =? 0)).
Definition clean (s : bytes) : bool := forallb cleanc s.

Lemma cleanc_inv c : cleanc c = true -> c <> COMMA /\ c <> NL /\ c <> DOLLAR /\ c <> 0.
Proof.
  unfold cleanc. rewrite negb_true_iff, !orb_false_iff, !N.eqb_neq. tauto.
Qed.

Lemma lex_value_sep acc v rest :
  clean v = true ->
  (lex_value acc (v ++ COMMA :: rest) = omap (fun r => TValue (acc ++ v) :: TComma :: r) (lex rest)) /\
  (lex_value acc (v ++ NL :: rest) = omap (fun r => TValue (acc ++ v) :: TNewline :: r) (lex rest)).
Proof.
  revert acc; induction v as [|c v IH]; intros acc Hc.
  - rewrite app_nil_r. split; reflexivity.
  - simpl in Hc. apply andb_true_iff in Hc. destruct Hc as [Hc Hv].
    apply cleanc_inv in Hc. destruct Hc as [H1 [H2 _]].
    cbn [app lex_value].
    destruct (N.eqb_spec c COMMA); [contradiction|]. destruct (N.eqb_spec c NL); [contradiction|].
    destruct (IH (acc ++ [c]) Hv) as [Ha Hb]. rewrite Ha, Hb, <- !app_assoc. split; reflexivity.
Qed.

Lemma lex_value_comma v rest :
  clean v = true -> v <> [] ->
  lex (v ++ COMMA :: rest) = omap (fun r => TValue v :: TComma :: r) (lex rest).
Proof.
  intros Hc Hn. destruct v as [|c v]; [congruence|].
  simpl in Hc. apply andb_true_iff in Hc. destruct Hc as [Hc Hv].
  apply cleanc_inv in Hc. destruct Hc as [H1 [H2 _]].
  cbn [app lex]. destruct (N.eqb_spec c COMMA); [contradiction|]. destruct (N.eqb_spec c NL); [contradiction|].
  apply (proj1 (lex_value_sep [c] v rest Hv)).
Qed.

Lemma lex_value_newline v rest :
  clean v = true -> v <> [] ->
  lex (v ++ NL :: rest) = omap (fun r => TValue v :: TNewline :: r) (lex rest).
Proof.
  intros Hc Hn. destruct v as [|c v]; [congruence|].
  simpl in Hc. apply andb_true_iff in Hc. destruct Hc as [Hc Hv].
  apply cleanc_inv in Hc. destruct Hc as [H1 [H2 _]].
  cbn [app lex]. destruct (N.eqb_spec c COMMA); [contradiction|]. destruct (N.eqb_spec c NL); [contradiction|].
  apply (proj2 (lex_value_sep [c] v rest Hv)).
Qed.

Lemma lex_comma rest : lex (COMMA :: rest) = omap (cons TComma) (lex rest).
Proof. reflexivity. Qed.

(* an optional (possibly empty) value followed by a comma *)
Definition opt_tok (v : bytes) : list token := match v with [] => [] | _ => [TValue v] end.

Lemma lex_optvalue_comma v rest :
  clean v = true ->
  lex (v ++ COMMA :: rest) = omap (fun r => opt_tok v ++ TComma :: r) (lex rest).
Proof.
  intros Hc. destruct v as [|c v]; [reflexivity|].
  rewrite lex_value_comma by (auto; discriminate). reflexivity.
Qed.

Lemma clean_render z : clean (render_Z z) = true.
Proof.
  unfold clean. pose proof (render_Z_chars z) as H. rewrite forallb_forall in *.
  intros c Hc. specialize (H c Hc). unfold numchar, isdigit in H. unfold cleanc, COMMA, NL, DOLLAR.
  apply orb_true_iff in H. destruct H as [H|H].
  - apply andb_true_iff in H. destruct H as [H1 H2]. apply N.leb_le in H1. apply N.leb_le in H2.
    destruct (N.eqb_spec c 44); [lia|]. destruct (N.eqb_spec c 10); [lia|].
    destruct (N.eqb_spec c 36); [lia|]. destruct (N.eqb_spec c 0); [lia|]. reflexivity.
  - apply N.eqb_eq in H. subst c. reflexivity.
Qed.

Lemma clean_nodollar s : clean s = true -> ~ In DOLLAR s.
Proof.
  unfold clean. rewrite forallb_forall. intros H Hin. apply H in Hin. now apply cleanc_inv in Hin.
Qed.

Lemma clean_nonul s : clean s = true -> cstr s = s.
Proof.
  intros H. apply cstr_id. apply Forall_forall. intros c Hc.
  unfold clean in H. rewrite forallb_forall in H. apply H in Hc. now apply cleanc_inv in Hc.
Qed.

(* ---- interpolating a comma separated list of references ------------------------- *)

Lemma interp_prefix env d ig a t :
  ~ In DOLLAR a -> interp (S d) ig env (a ++ t) = ibind a (interp (S d) ig env t).
Proof. intros H. cbn [interp]. now apply inner_prefix. Qed.

Lemma join_comma_cons a b l : join_comma (a :: b :: l) = a ++ COMMA :: join_comma (b :: l).
Proof. reflexivity. Qed.

Lemma interp_refs env d names :
  Forall (fun n => n <> [] /\ ~ In RBRACE n /\
                   exists v, env n = Some v /\ clean v = true) names ->
  interp (S (S d)) false env (join_comma (map (fun n => DOLLAR :: LBRACE :: n ++ [RBRACE]) names) ++ [NL]) =
  IOk (join_comma (map (fun n => match env n with Some v => v | None => [] end) names) ++ [NL]).
Proof.
  induction 1 as [|n names [Hn [Hr [v [Hv Hc]]]] Hrest IH].
  - simpl. reflexivity.
  - assert (Hone : forall tail otail,
              interp (S (S d)) false env tail = IOk otail ->
              interp (S (S d)) false env ((DOLLAR :: LBRACE :: n ++ [RBRACE]) ++ tail) = IOk (v ++ otail)).
    { intros tail otail Ht.
      change (DOLLAR :: LBRACE :: n ++ [RBRACE]) with (ref n).
      replace (ref n ++ tail) with ([] ++ ref n ++ tail) by reflexivity.
      rewrite substitution_law with (v := v) by (auto; intros []).
      rewrite clean_nonul by exact Hc.
      rewrite identity_without_dollar by (apply clean_nodollar; exact Hc).
      rewrite Ht. reflexivity. }
    destruct names as [|m names].
    + cbn [map join_comma]. rewrite Hv.
      apply Hone. apply identity_without_dollar. intros [H|[]]. discriminate H.
    + cbn [map] in IH |- *. rewrite !join_comma_cons, <- !app_assoc. cbn [app].
      rewrite Hv. apply Hone.
      match goal with |- interp _ _ _ (COMMA :: ?x) = _ => change (COMMA :: x) with ([COMMA] ++ x) end.
      rewrite interp_prefix by (intros [H|[]]; discriminate H).
      refine (eq_trans (f_equal (ibind [COMMA]) IH) _). reflexivity.
Qed.
