(* StepOracle2Defs.v - the TWO-SIDED oracle on an observed history: definitions only (extracted).
   [replay_writes] (StepSpec.v) only asks the specification about the writes the implementation
   ACCEPTED: an implementation that rejects every write passes it.  [replay_writes2] asks the
   dictionary specification about every write and demands agreement both ways:
     - a write the implementation accepted (exit 0) must be acceptable, and
     - a write the specification accepts must have been accepted by the implementation (exit 0);
   the reads that follow (every column at several positions, and by name) then check that it was
   STORED: they must return the dictionary's values after exactly the acceptable writes.
   Proofs: StepOracle2.v. *)
From Robsd Require Export Step.StepDefs Step.StepSpec Step.StepNameSpec.
From RobsdGen Require Import Gen_Step.
Local Open Scope N_scope.

Fixpoint replay_writes2 (s : astate) (ws : list (bytes * list bytes * bool)) : option astate :=
  match ws with
  | [] => Some s
  | (idarg, kvs, accepted) :: ws' =>
      match spec_write s idarg kvs, accepted with
      | Some s', true => replay_writes2 s' ws'
      | None, false => replay_writes2 s ws'
      | Some _, false => None                  (* rejected something the specification accepts *)
      | None, true => None                     (* accepted something it must reject *)
      end
  end.

Definition spec_ok_history2 (ws : list (bytes * list bytes * bool))
    (reads : list (Z * bytes * option bytes)) : bool :=
  match replay_writes2 [] ws with
  | None => false
  | Some s =>
      forallb (fun '(pos, name, got) =>
                 obs_eq (omap (fun v => v ++ [NL]) (spec_read s pos name)) got) reads
  end.

Definition spec_ok_names2 (ws : list (bytes * list bytes * bool))
    (reads : list (bytes * bytes * option bytes)) : bool :=
  match replay_writes2 [] ws with
  | None => false
  | Some s =>
      forallb (fun '(name, field, got) =>
                 obs_eq (omap (fun v => v ++ [NL]) (spec_read_name s name field)) got) reads
  end.

(* which write (0-based) is the first the two sides disagree on, and how: for the harness's message *)
Fixpoint first_mismatch (s : astate) (ws : list (bytes * list bytes * bool)) (i : nat) : option (nat * bool) :=
  match ws with
  | [] => None
  | (idarg, kvs, accepted) :: ws' =>
      match spec_write s idarg kvs, accepted with
      | Some s', true => first_mismatch s' ws' (S i)
      | None, false => first_mismatch s ws' (S i)
      | Some _, false => Some (i, true)         (* true: the specification accepts, the command refused *)
      | None, true => Some (i, false)
      end
  end.
