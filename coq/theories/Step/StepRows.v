(* StepRows.v - well-formed rows, their explicit serialisation, and parse (serialise rows) = rows *)
From Robsd Require Import Step.StepDefs Step.StepLex Base.DecimalProofs.
From RobsdGen Require Import Gen_Step Gen_Interp.
Local Open Scope N_scope.

Definition in_i64 (z : Z) : Prop := (int_min <= z <= int_max)%Z.

(* the nine columns, by name *)
Record rowdata := mkdata {
  d_step : Z; d_name : bytes; d_exit : Z; d_duration : Z; d_delta : Z;
  d_log : bytes; d_user : bytes; d_time : Z; d_skip : Z }.

Definition row_of (d : rowdata) : row :=
  [Some (VInt (d_step d)); Some (VStr (d_name d)); Some (VInt (d_exit d)); Some (VInt (d_duration d));
   Some (VInt (d_delta d)); Some (VStr (d_log d)); Some (VStr (d_user d)); Some (VInt (d_time d));
   Some (VInt (d_skip d))].

Record wfdata (d : rowdata) : Prop := mkwf {
  wf_step : in_i64 (d_step d); wf_exit : in_i64 (d_exit d); wf_duration : in_i64 (d_duration d);
  wf_delta : in_i64 (d_delta d); wf_time : in_i64 (d_time d); wf_skip : in_i64 (d_skip d);
  wf_name : clean (d_name d) = true; wf_name_ne : d_name d <> [];
  wf_log : clean (d_log d) = true;
  wf_user : clean (d_user d) = true; wf_user_ne : d_user d <> [] }.

Definition ser_data (d : rowdata) : bytes :=
  join_comma [render_Z (d_step d); d_name d; render_Z (d_exit d); render_Z (d_duration d);
              render_Z (d_delta d); d_log d; d_user d; render_Z (d_time d); render_Z (d_skip d)] ++ [NL].

Definition toks_data (d : rowdata) : list token :=
  [TValue (render_Z (d_step d)); TComma; TValue (d_name d); TComma; TValue (render_Z (d_exit d)); TComma;
   TValue (render_Z (d_duration d)); TComma; TValue (render_Z (d_delta d)); TComma] ++ opt_tok (d_log d) ++
  [TComma; TValue (d_user d); TComma; TValue (render_Z (d_time d)); TComma; TValue (render_Z (d_skip d)); TNewline].

(* facts about the generated table that the proofs below rely on; all by computation *)
Lemma table_shape :
  map fd_name fields = [[115; 116; 101; 112]; [110; 97; 109; 101]; [101; 120; 105; 116]; [100; 117; 114; 97; 116; 105; 111; 110]; [100; 101; 108; 116; 97]; [108; 111; 103]; [117; 115; 101; 114]; [116; 105; 109; 101]; [115; 107; 105; 112]] /\
  map fd_index fields = seq 0 9 /\
  map fd_type fields = [FInt; FStr; FInt; FInt; FInt; FStr; FStr; FInt; FInt] /\
  map fd_optional fields = [false; false; false; false; true; true; false; false; true] /\
  depth_limit = 5%nat.
Proof. vm_compute. repeat split; reflexivity. Qed.

Local Opaque render_Z strtonum.

Lemma step_init_eq :
  step_init = Some [None; None; None; None; Some (VInt 0); Some (VStr []); None; None; Some (VInt 0)].
Proof. vm_compute. reflexivity. Qed.

Lemma serialize_data d : wfdata d -> serialize_row (row_of d) = Some (ser_data d).
Proof.
  intros W. unfold serialize_row, interp_str.
  replace (cstr row_template) with row_template by (vm_compute; reflexivity).
  change (Nat.pred depth_limit) with (S (S 2)).
  unfold row_template. rewrite <- map_map with (g := fun n => DOLLAR :: LBRACE :: n ++ [RBRACE]).
  rewrite interp_refs.
  - reflexivity.
  - destruct W. change (map fd_name fields) with
      [[115; 116; 101; 112]; [110; 97; 109; 101]; [101; 120; 105; 116]; [100; 117; 114; 97; 116; 105; 111; 110];
       [100; 101; 108; 116; 97]; [108; 111; 103]; [117; 115; 101; 114]; [116; 105; 109; 101]; [115; 107; 105; 112]].
    assert (nr : forall (x : N) l, existsb (N.eqb x) l = false -> ~ In x l).
    { intros x l H Hin. assert (existsb (N.eqb x) l = true) by (apply existsb_exists; exists x; split; [exact Hin|apply N.eqb_refl]). congruence. }
    repeat constructor; try discriminate; try (apply nr; reflexivity);
      (eexists; split; [reflexivity|]); cbn [render_value]; auto using clean_render.
Qed.

Definition olift {A} (pre : list A) (o : option (list A)) : option (list A) :=
  match o with Some r => Some (pre ++ r) | None => None end.

Lemma olift_omap {A} (f : list A -> list A) pre (o : option (list A)) :
  (forall r, f r = pre ++ r) -> omap f o = olift pre o.
Proof. intros H. destruct o; simpl; [now rewrite H|reflexivity]. Qed.

Lemma olift_olift {A} (a b : list A) o : olift a (olift b o) = olift (a ++ b) o.
Proof. destruct o; simpl; [now rewrite app_assoc|reflexivity]. Qed.

Lemma lex_data d rest : wfdata d -> lex (ser_data d ++ rest) = olift (toks_data d) (lex rest).
Proof.
  intros W. destruct W. unfold ser_data, toks_data.
  cbn [join_comma]. repeat (rewrite <- app_assoc; cbn [app]).
  rewrite lex_value_comma by (auto using clean_render, render_Z_nonempty).
  rewrite lex_value_comma by auto.
  rewrite lex_value_comma by (auto using clean_render, render_Z_nonempty).
  rewrite lex_value_comma by (auto using clean_render, render_Z_nonempty).
  rewrite lex_value_comma by (auto using clean_render, render_Z_nonempty).
  rewrite lex_optvalue_comma by auto.
  rewrite lex_value_comma by auto.
  rewrite lex_value_comma by (auto using clean_render, render_Z_nonempty).
  rewrite lex_value_newline by (auto using clean_render, render_Z_nonempty).
  destruct (lex rest) as [r|]; [|reflexivity].
  cbn [omap olift app]. rewrite <- !app_assoc. reflexivity.
Qed.

Lemma set_field_int st name fd z :
  find_field fields name = Some fd -> fd_type fd = FInt -> in_i64 z ->
  set_field st name (render_Z z) = Some (set_nth (fd_index fd) (Some (VInt z)) st).
Proof.
  intros Hf Ht Hz. unfold set_field. rewrite Hf, Ht.
  rewrite strtonum_render by exact Hz. reflexivity.
Qed.

Lemma set_field_str st name fd v :
  find_field fields name = Some fd -> fd_type fd = FStr ->
  set_field st name v = Some (set_nth (fd_index fd) (Some (VStr v)) st).
Proof. intros Hf Ht. unfold set_field. now rewrite Hf, Ht. Qed.

Definition cols0 : list bytes := map fd_name fields.

Lemma parse_row_data d rest :
  wfdata d -> parse_row cols0 (toks_data d ++ rest) = Some (row_of d, rest).
Proof.
  intros W. destruct W. unfold parse_row. rewrite step_init_eq.
  unfold toks_data.
  assert (H0 : forall st v, in_i64 v -> set_field st [115; 116; 101; 112] (render_Z v) = Some (set_nth 0 (Some (VInt v)) st))
    by (intros; apply (set_field_int _ _ (nth 0 fields (mkfdef [] FInt 0 false []))); auto; reflexivity).
  assert (H1 : forall st v, set_field st [110; 97; 109; 101] v = Some (set_nth 1 (Some (VStr v)) st))
    by (intros; apply (set_field_str _ _ (nth 1 fields (mkfdef [] FInt 0 false []))); reflexivity).
  assert (H2 : forall st v, in_i64 v -> set_field st [101; 120; 105; 116] (render_Z v) = Some (set_nth 2 (Some (VInt v)) st))
    by (intros; apply (set_field_int _ _ (nth 2 fields (mkfdef [] FInt 0 false []))); auto; reflexivity).
  assert (H3 : forall st v, in_i64 v -> set_field st [100; 117; 114; 97; 116; 105; 111; 110] (render_Z v) = Some (set_nth 3 (Some (VInt v)) st))
    by (intros; apply (set_field_int _ _ (nth 3 fields (mkfdef [] FInt 0 false []))); auto; reflexivity).
  assert (H4 : forall st v, in_i64 v -> set_field st [100; 101; 108; 116; 97] (render_Z v) = Some (set_nth 4 (Some (VInt v)) st))
    by (intros; apply (set_field_int _ _ (nth 4 fields (mkfdef [] FInt 0 false []))); auto; reflexivity).
  assert (H5 : forall st v, set_field st [108; 111; 103] v = Some (set_nth 5 (Some (VStr v)) st))
    by (intros; apply (set_field_str _ _ (nth 5 fields (mkfdef [] FInt 0 false []))); reflexivity).
  assert (H6 : forall st v, set_field st [117; 115; 101; 114] v = Some (set_nth 6 (Some (VStr v)) st))
    by (intros; apply (set_field_str _ _ (nth 6 fields (mkfdef [] FInt 0 false []))); reflexivity).
  assert (H7 : forall st v, in_i64 v -> set_field st [116; 105; 109; 101] (render_Z v) = Some (set_nth 7 (Some (VInt v)) st))
    by (intros; apply (set_field_int _ _ (nth 7 fields (mkfdef [] FInt 0 false []))); auto; reflexivity).
  assert (H8 : forall st v, in_i64 v -> set_field st [115; 107; 105; 112] (render_Z v) = Some (set_nth 8 (Some (VInt v)) st))
    by (intros; apply (set_field_int _ _ (nth 8 fields (mkfdef [] FInt 0 false []))); auto; reflexivity).
  change cols0 with
      [[115; 116; 101; 112]; [110; 97; 109; 101]; [101; 120; 105; 116]; [100; 117; 114; 97; 116; 105; 111; 110];
       [100; 101; 108; 116; 97]; [108; 111; 103]; [117; 115; 101; 114]; [116; 105; 109; 101]; [115; 107; 105; 112]].
  destruct (d_log d) as [|c l] eqn:Hlog; cbn [opt_tok app row_loop nth_error];
    rewrite ?H0, ?H1, ?H2, ?H3, ?H4, ?H5, ?H6, ?H7, ?H8 by assumption;
    cbn [row_loop nth_error set_nth];
    rewrite ?H0, ?H1, ?H2, ?H3, ?H4, ?H5, ?H6, ?H7, ?H8 by assumption;
    cbn [row_loop nth_error set_nth].
  all: unfold row_of; rewrite ?Hlog.
  all: reflexivity.
Qed.

(* ---- whole files ------------------------------------------------------------------ *)

Fixpoint body (ds : list rowdata) : bytes :=
  match ds with [] => [] | d :: ds' => ser_data d ++ body ds' end.

Definition file_of (ds : list rowdata) : bytes := header ++ body ds.

Lemma serialize_rows_data ds :
  Forall wfdata ds -> serialize_rows (map row_of ds) = Some (body ds).
Proof.
  induction 1 as [|d ds Hd _ IH]; [reflexivity|].
  cbn [map serialize_rows body]. rewrite serialize_data by exact Hd. now rewrite IH.
Qed.

Lemma lex_body ds : Forall wfdata ds -> lex (body ds) = Some (concat (map toks_data ds)).
Proof.
  induction 1 as [|d ds Hd _ IH]; [reflexivity|].
  cbn [body map concat]. rewrite lex_data by exact Hd. now rewrite IH.
Qed.

Lemma clean_body_nonul ds : Forall wfdata ds -> cstr (body ds) = body ds.
Proof.
  intros H. apply cstr_id. induction H as [|d ds Hd _ IH]; [constructor|].
  cbn [body]. apply Forall_app. split; [|exact IH].
  destruct Hd. unfold ser_data. cbn [join_comma].
  assert (Hc : forall s, clean s = true -> Forall (fun c => c <> 0) s).
  { intros s Hs. apply Forall_forall. intros c Hin. unfold clean in Hs. rewrite forallb_forall in Hs.
    apply Hs in Hin. now apply cleanc_inv in Hin. }
  repeat first [ apply Forall_nil
               | apply Forall_cons; [discriminate|]
               | apply Forall_app; split
               | apply Hc; solve [auto using clean_render] ].
Qed.

Lemma parse_rows_data fuel ds rest_ok :
  Forall wfdata ds -> (length ds < fuel)%nat -> rest_ok = concat (map toks_data ds) ->
  parse_rows fuel cols0 rest_ok = Some (map row_of ds).
Proof.
  intros H. revert fuel rest_ok. induction H as [|d ds Hd _ IH]; intros fuel toks Hf ->.
  - destruct fuel; reflexivity.
  - destruct fuel as [|fuel]; [simpl in Hf; lia|].
    cbn [map concat].
    assert (Hne : exists t ts, toks_data d ++ concat (map toks_data ds) = t :: ts)
      by (unfold toks_data; cbn [app]; eauto).
    destruct Hne as [t [ts Hts]]. cbn [parse_rows]. rewrite Hts, <- Hts.
    rewrite parse_row_data by exact Hd.
    rewrite (IH fuel _) ; [reflexivity| simpl in Hf; lia | reflexivity].
Qed.

Lemma toks_length ds : (length ds <= length (concat (map toks_data ds)))%nat.
Proof.
  induction ds as [|d ds IH]; [simpl; lia|].
  cbn [map concat]. rewrite app_length. unfold toks_data at 1. rewrite !app_length. simpl. lia.
Qed.

Lemma header_lex rest_toks rest :
  lex rest = Some rest_toks ->
  exists htoks, lex (header ++ rest) = Some (htoks ++ rest_toks) /\
                (forall ts, parse_header (htoks ++ ts) = Some (cols0, ts)) /\ htoks <> [].
Proof.
  intros H.
  exists [TValue [115; 116; 101; 112]; TComma; TValue [110; 97; 109; 101]; TComma; TValue [101; 120; 105; 116]; TComma;
          TValue [100; 117; 114; 97; 116; 105; 111; 110]; TComma; TValue [100; 101; 108; 116; 97]; TComma;
          TValue [108; 111; 103]; TComma; TValue [117; 115; 101; 114]; TComma; TValue [116; 105; 109; 101]; TComma;
          TValue [115; 107; 105; 112]; TNewline].
  split; [|split; [intros ts; reflexivity|discriminate]].
  change (header ++ rest) with ([115; 116; 101; 112] ++ COMMA :: ([110; 97; 109; 101] ++ COMMA :: ([101; 120; 105; 116] ++ COMMA ::
     ([100; 117; 114; 97; 116; 105; 111; 110] ++ COMMA :: ([100; 101; 108; 116; 97] ++ COMMA :: ([108; 111; 103] ++ COMMA ::
     ([117; 115; 101; 114] ++ COMMA :: ([116; 105; 109; 101] ++ COMMA :: ([115; 107; 105; 112] ++ NL :: rest))))))))).
  rewrite !lex_value_comma by (try reflexivity; discriminate).
  rewrite lex_value_newline by (try reflexivity; discriminate).
  rewrite H. reflexivity.
Qed.

Theorem parse_file_of ds : Forall wfdata ds -> parse_file (file_of ds) = Some (map row_of ds).
Proof.
  intros W. unfold parse_file, file_of.
  assert (Hc : cstr (header ++ body ds) = header ++ body ds).
  { apply cstr_id. apply Forall_app. split.
    - apply Forall_forall. intros c Hin Hz. subst c. revert Hin. vm_compute. intuition discriminate.
    - rewrite <- (clean_body_nonul ds W). apply cstr_nonul. }
  rewrite Hc.
  destruct (header_lex _ _ (lex_body ds W)) as [htoks [Hl [Hp Hne]]].
  rewrite Hl. destruct htoks as [|h0 htoks]; [congruence|]. cbn [app].
  change (h0 :: htoks ++ concat (map toks_data ds)) with ((h0 :: htoks) ++ concat (map toks_data ds)).
  rewrite Hp. apply parse_rows_data; auto.
  pose proof (toks_length ds). lia.
Qed.

(* the empty file is also a (header-less) representation of the empty state *)
Lemma parse_empty : parse_file [] = Some [].
Proof. reflexivity. Qed.
