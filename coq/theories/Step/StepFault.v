(* StepFault.v - the write command under a file system that accepts only the first k bytes
   of the rewrite (RLIMIT_FSIZE, a disk or quota that runs full in the middle of a write).
   Definitions only (extracted).

   steps_write has serialised everything, then: fopen(path, "we") truncates; fwrite hands the
   buffer to stdio; fclose flushes what stdio still holds.  Whatever the file system accepted
   stays in the file: the first k bytes of the new content.  Which call notices the refusal
   depends on stdio: a request of at least one stdio block is written directly, block-aligned,
   by fwrite itself and only the tail is left for fclose (glibc: _IO_new_file_xsputn).
   ASSUMED about libc and the file system (checked by the correspondence harness only):
   [stdio_block] = 4096 = st_blksize; a short direct write makes fwrite return early and
   buffer nothing; a refused flush makes fclose return EOF.
   From the source (Gen_StepIO.fwrite_check, Gen_Step.close_checked): which results are tested. *)
From Robsd Require Export Step.StepDefs Step.StepIOTypes.
From RobsdGen Require Import Gen_Step Gen_StepIO.
Local Open Scope N_scope.

Definition stdio_block : nat := 4096.

(* the new content the command is about to write; None = it stops before the file is touched *)
Definition write_new (content idarg : bytes) (kvs : list bytes) : option bytes :=
  match write_cmd false (Some content) idarg kvs with
  | (0, Some c') => Some c'
  | _ => None
  end.

(* bytes of a request of [len] bytes that fwrite writes by itself (the rest waits for fclose) *)
Definition direct_part (len : nat) : nat := (len / stdio_block) * stdio_block.

(* exit status when only the first k of len bytes are accepted *)
Definition exit_fault (k len : nat) : N :=
  if (len <=? k)%nat then 0
  else if (k <? direct_part len)%nat then
         match fwrite_check with
         | WholeObject => 1
         | ByteCount => if (k =? 0)%nat then 1 else 0
         | Unchecked => 0
         end
       else if close_checked then 1 else 0.

(* fault = None: the file system accepts everything; Some k: only the first k bytes *)
Definition write_cmdk (fault : option nat) (file : option bytes) (idarg : bytes) (kvs : list bytes)
  : N * option bytes :=
  match file with
  | None => (1, None)
  | Some content =>
      match write_new content idarg kvs with
      | None => (1, Some content)
      | Some new =>
          match fault with
          | None => (0, Some new)
          | Some k => (exit_fault k (length new), Some (firstn k new))
          end
      end
  end.
