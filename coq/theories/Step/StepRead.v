(* StepRead.v - reading back: by position, by id (the position of an id), by name
   (what util.sh step_eval -n does), and the literal sentence of C01 on the model of
   robsd-step: after any history of write commands a read returns the most recently
   written value. *)
From Robsd Require Import Step.StepDefs Step.StepSpec Step.StepLex Step.StepRows Step.StepWrite Step.StepHistory
  Step.StepFault Step.StepExit0 Step.StepRenumber Step.StepLatest Step.StepNameSpec Base.DecimalProofs.
From Robsd Require Import Interp.InterpSpec Interp.InterpProofs.
From RobsdGen Require Import Gen_Step Gen_Interp.
Local Open Scope N_scope.

(* ---- by name ------------------------------------------------------------------------------------------------ *)

Definition first_named (n : bytes) (ds : list rowdata) : option rowdata :=
  find (fun d => beq (d_name d) n) ds.

Lemma find_by_name_data ds n : find_by_name (map row_of ds) n = omap row_of (first_named n ds).
Proof.
  unfold first_named. induction ds as [|d ds IH]; [reflexivity|]. cbn [map find_by_name find].
  change (get_field (row_of d) (fd_name (nth 1 fields (mkfdef [] FStr 1 false [])))) with (Some (VStr (d_name d))).
  cbv beta iota. destruct (beq (d_name d) n); [reflexivity|exact IH].
Qed.

Lemma spec_find_name_abs ds n : spec_find_name (abs ds) n = omap row_of (first_named n ds).
Proof.
  unfold first_named. induction ds as [|d ds IH]; [reflexivity|]. cbn [abs map spec_find_name find row_of nth_error].
  cbv beta iota. destruct (beq (d_name d) n); [reflexivity|exact IH].
Qed.

Lemma find_some_In {A} (p : A -> bool) l x : find p l = Some x -> In x l /\ p x = true.
Proof.
  induction l as [|y l IH]; [discriminate|]. cbn [find]. destruct (p y) eqn:E.
  - intros H. injection H as <-. split; [now left|exact E].
  - intros H. destruct (IH H). split; [now right|assumption].
Qed.

Theorem read_refines_by_name ds file n fd :
  Forall wfdata ds -> reps ds file -> In fd fields ->
  read_cmd (Some file) (ByName n) (ref (fd_name fd) ++ [NL]) =
    match spec_read_name (abs ds) (cstr n) (fd_name fd) with
    | Some v => (0, v ++ [NL])
    | None => (1, [])
    end.
Proof.
  intros W R Hin. unfold read_cmd, select_row, spec_read_name.
  rewrite (parse_reps ds file W R), find_by_name_data, spec_find_name_abs, (find_field_self fd Hin).
  destruct (first_named (cstr n) ds) as [d|] eqn:Ef; [|reflexivity]. cbn [omap].
  assert (Wd : wfdata d).
  { apply find_some_In in Ef. rewrite Forall_forall in W. now apply W. }
  destruct (read_field d fd Wd Hin) as [v [Hv Hr]]. now rewrite Hv, Hr.
Qed.

(* ---- the position of an id ----------------------------------------------------------------------------------- *)

(* rows are in ascending id order: the row of an id comes after exactly the rows of smaller ids *)
Definition pos_of (id : Z) (ds : list rowdata) : nat := length (filter (fun d => (d_step d <? id)%Z) ds).

Theorem position_of_id id ds d :
  sorted ds -> find_data id ds = Some d -> nth_error ds (pos_of id ds) = Some d.
Proof.
  unfold sorted, pos_of. induction ds as [|x ds IH]; [discriminate|].
  cbn [map asc find_data filter]. intros [Hx Hs].
  destruct (Z.eqb_spec (d_step x) id) as [E|E].
  - intros H. injection H as <-. rewrite E, Z.ltb_irrefl.
    replace (filter (fun d => (d_step d <? id)%Z) ds) with (@nil rowdata); [reflexivity|].
    symmetry. rewrite <- E in *. clear IH Hs E. induction ds as [|y ds IHd]; [reflexivity|].
    cbn [map] in Hx. inversion Hx as [|? ? Hy Hrest]; subst. cbn [filter].
    destruct (Z.ltb_spec (d_step y) (d_step x)); [lia|]. now apply IHd.
  - intros Hf.
    assert (Hlt : (d_step x < id)%Z).
    { destruct (find_data_some _ _ _ Hf) as [Hd Hin]. rewrite Forall_forall in Hx. rewrite <- Hd.
      apply Hx. now apply in_map. }
    destruct (Z.ltb_spec (d_step x) id); [|lia]. cbn [length nth_error]. now apply IH.
Qed.

(* reading a column at the position of an id, on the model of robsd-step -R -i *)
Lemma read_at_position ds file id d fd posarg :
  Forall wfdata ds -> sorted ds -> reps ds file -> In fd fields ->
  find_data id ds = Some d ->
  strtonum id_min id_max (cstr posarg) = NumOk (Z.of_nat (S (pos_of id ds))) ->
  exists v, nth_error (row_of d) (fd_index fd) = Some (Some v) /\
    read_cmd (Some file) (ById posarg) (ref (fd_name fd) ++ [NL]) = (0, render_value v ++ [NL]).
Proof.
  intros W Sd R Hin Hf Hp.
  assert (Wd : wfdata d).
  { destruct (find_data_some _ _ _ Hf) as [_ Hd]. rewrite Forall_forall in W. now apply W. }
  destruct (read_field d fd Wd Hin) as [v [Hv Hr]]. exists v. split; [exact Hv|].
  rewrite (read_refines ds file posarg _ fd W R Hin Hp).
  unfold spec_read. rewrite (find_field_self fd Hin).
  destruct (Z.ltb_spec 0 (Z.of_nat (S (pos_of id ds)))); [|lia].
  replace (Z.to_nat (Z.of_nat (S (pos_of id ds)) - 1)) with (pos_of id ds) by lia.
  unfold abs. rewrite nth_error_map, (position_of_id id ds d Sd Hf). cbn [option_map].
  now rewrite Hv.
Qed.

(* ---- the literal sentence --------------------------------------------------------------------------------------- *)

Definition cw (w : wcmd) : hcmd := (cstr (fst w), map cstr (snd w)).

Lemma spec_step_sstep ws : forall s, fold_left spec_step ws s = fold_left sstep (map cw ws) s.
Proof. induction ws as [|w ws IH]; intros s; [reflexivity|]. cbn [map fold_left]. apply IH. Qed.

(* every column of a stored row holds a value *)
Lemma lookup_abs ds id f :
  (f < 9)%nat ->
  lookup (abs ds) id f = match find_data id ds with
                         | Some d => Some (nth f (row_of d) None)
                         | None => None
                         end.
Proof. intros _. unfold lookup. rewrite alist_find_abs. now destruct (find_data id ds). Qed.

Lemma nth_nth_error {A} (l : list A) n d x : nth_error l n = Some x -> nth n l d = x.
Proof. revert l; induction n as [|n IH]; intros [|y l] H; cbn in *; try discriminate; [congruence|auto]. Qed.

(* After any history of write commands none of which renumbers a row (in particular: any history
   without step=... arguments), the file represents rows ds in ascending id order such that,
   for every id and every column:
   - if no write to the id was ever accepted there is no row for it;
   - otherwise the row is at the position given by the number of smaller ids, and reading the
     column there - or by the row's name, when no smaller id carries the same name - prints
     exactly the value of the most recent accepted write that mentioned the column (the default
     when none did). *)
Theorem latest_value_read ws :
  never_renumbers [] ws ->
  exists ds, Forall wfdata ds /\ sorted ds /\ reps ds (fold_left model_step ws []) /\
    forall id fd, In fd fields ->
      match latest (tagged [] (map cw ws) []) id (fd_index fd) with
      | None => find_data id ds = None
      | Some x =>
          exists d v, find_data id ds = Some d /\ x = Some v /\
            (forall posarg, strtonum id_min id_max (cstr posarg) = NumOk (Z.of_nat (S (pos_of id ds))) ->
               read_cmd (Some (fold_left model_step ws [])) (ById posarg) (ref (fd_name fd) ++ [NL]) =
                 (0, render_value v ++ [NL])) /\
            (forall n, first_named (cstr n) ds = Some d ->
               read_cmd (Some (fold_left model_step ws [])) (ByName n) (ref (fd_name fd) ++ [NL]) =
                 (0, render_value v ++ [NL]))
      end.
Proof.
  intros NR. destruct (roundtrip_history_gen ws NR) as [ds [W [Sd [R A]]]].
  exists ds. repeat split; auto. intros id fd Hin.
  rewrite <- latest_value, <- spec_step_sstep, <- A.
  assert (Hlt : (fd_index fd < 9)%nat).
  { unfold fields in Hin. cbn [In] in Hin. decompose [or] Hin; subst; cbn; try lia; contradiction. }
  rewrite (lookup_abs ds id _ Hlt).
  destruct (find_data id ds) as [d|] eqn:Ef; [|reflexivity].
  assert (Wd : wfdata d).
  { destruct (find_data_some _ _ _ Ef) as [_ Hd]. rewrite Forall_forall in W. now apply W. }
  destruct (read_field d fd Wd Hin) as [v [Hv Hr]].
  exists d, v. split; [reflexivity|]. split; [now rewrite (nth_nth_error _ _ None _ Hv)|]. split.
  - intros posarg Hp. destruct (read_at_position ds _ id d fd posarg W Sd R Hin Ef Hp) as [v' [Hv' Hr']].
    rewrite Hv in Hv'. injection Hv' as <-. exact Hr'.
  - intros n Hn. rewrite (read_refines_by_name ds _ n fd W R Hin).
    unfold spec_read_name. rewrite spec_find_name_abs, Hn. cbn [omap].
    now rewrite (find_field_self fd Hin), Hv.
Qed.

(* the same for histories without step=... arguments *)
Lemma no_id_key_never_renumbers ws :
  Forall (fun w => no_id_key (map cstr (snd w))) ws ->
  forall ds file, inv ds file -> never_renumbers (abs ds) ws.
Proof.
  induction 1 as [|w ws Hw _ IH]; intros ds file Hinv; [exact I|]. cbn [never_renumbers]. split.
  - intros _. now apply no_id_key_no_renumber.
  - destruct (step_refines ds file w Hinv Hw) as [ds1 [I1 [A1 _]]]. rewrite <- A1. eapply IH; eauto.
Qed.

Corollary no_id_key_never_renumbers_empty ws :
  Forall (fun w => no_id_key (map cstr (snd w))) ws -> never_renumbers [] ws.
Proof. intros H. exact (no_id_key_never_renumbers ws H [] [] inv_empty). Qed.
