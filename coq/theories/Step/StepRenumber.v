(* StepRenumber.v - step=J arguments.  A step=J argument is harmless when J is the id given by -i.
   When J differs, the specification rejects the command (the row of id I would stop being the row
   of id I).  robsd-step accepted it and renumbered the row until 17c91c8; since then action_write
   compares the id column with -i ([Gen_Step.step_key_checked], read from the source).
   [renumbers] (StepWrite) is that situation, decided on the abstract state.
   - the source as it stands: the write command refines the dictionary for EVERY argument list
     ([write_refines_checked], by the switch);
   - the command without the test ([write_cmd_with false], what shipped before): it refines exactly
     outside [renumbers]; inside, it exits 0 ([renumbers_exit0]) and the witness [write_refines_refuted]
     shows the renumbered and the duplicated row.  These are facts about [write_cmd_with false],
     kept as the record of the defect; they do not depend on the switch. *)
From Robsd Require Import Step.StepDefs Step.StepSpec Step.StepLex Step.StepRows Step.StepWrite Step.StepHistory
  Step.StepFault Step.StepExit0 Base.DecimalProofs.
From RobsdGen Require Import Gen_Step Gen_Interp.
Local Open Scope N_scope.

Lemma renumbers_rejected s idarg kvs : renumbers s idarg kvs = true -> spec_write s idarg kvs = None.
Proof.
  unfold renumbers, spec_write. destruct (denote_id idarg) as [id|]; [|discriminate].
  destruct kvs as [|kv kvs]; [discriminate|].
  destruct (apply_kvs _ (kv :: kvs)) as [r|]; [|discriminate].
  intros H. apply andb_true_iff in H. destruct H as [-> H]. apply negb_true_iff in H. now rewrite H.
Qed.

(* the write command of the source as it stands refines the dictionary for every argument list
   that does not renumber ... *)
Theorem write_refines_gen ds file idarg kvs :
  Forall wfdata ds -> sorted ds -> reps ds file ->
  renumbers (abs ds) (cstr idarg) (map cstr kvs) = false ->
  match spec_write (abs ds) (cstr idarg) (map cstr kvs) with
  | Some s' => exists ds', s' = abs ds' /\ Forall wfdata ds' /\ sorted ds' /\
                           write_cmd false (Some file) idarg kvs = (0, Some (file_of ds'))
  | None => write_cmd false (Some file) idarg kvs = (1, Some file)
  end.
Proof. intros W S R NR. apply (write_refines_with step_key_checked ds file idarg kvs W S R). now intros _. Qed.

(* ... and, the id test being there, for EVERY argument list *)
Theorem write_refines_checked :
  step_key_checked = true ->
  forall ds file idarg kvs,
  Forall wfdata ds -> sorted ds -> reps ds file ->
  match spec_write (abs ds) (cstr idarg) (map cstr kvs) with
  | Some s' => exists ds', s' = abs ds' /\ Forall wfdata ds' /\ sorted ds' /\
                           write_cmd false (Some file) idarg kvs = (0, Some (file_of ds'))
  | None => write_cmd false (Some file) idarg kvs = (1, Some file)
  end.
Proof.
  intros Hsw ds file idarg kvs W S R. apply (write_refines_with step_key_checked ds file idarg kvs W S R).
  intros H. rewrite Hsw in H. discriminate H.
Qed.

(* the command without the id test, outside the guard *)
Theorem write_refines_unchecked ds file idarg kvs :
  Forall wfdata ds -> sorted ds -> reps ds file ->
  renumbers (abs ds) (cstr idarg) (map cstr kvs) = false ->
  match spec_write (abs ds) (cstr idarg) (map cstr kvs) with
  | Some s' => exists ds', s' = abs ds' /\ Forall wfdata ds' /\ sorted ds' /\
                           write_cmd_with false false (Some file) idarg kvs = (0, Some (file_of ds'))
  | None => write_cmd_with false false (Some file) idarg kvs = (1, Some file)
  end.
Proof. intros W S R NR. apply (write_refines_with false ds file idarg kvs W S R). now intros _. Qed.

(* ---- histories in which no command renumbers ------------------------------------------------------------ *)

(* no command of the history is a renumbering one that the source would let through: with the id
   test in action_write this holds of every history ([never_renumbers_checked]) *)
Fixpoint never_renumbers (s : astate) (ws : list wcmd) : Prop :=
  match ws with
  | [] => True
  | w :: ws' => (step_key_checked = false -> renumbers s (cstr (fst w)) (map cstr (snd w)) = false) /\
                never_renumbers (spec_step s w) ws'
  end.

Lemma never_renumbers_checked : step_key_checked = true -> forall ws s, never_renumbers s ws.
Proof.
  intros Hsw. induction ws as [|w ws IH]; intros s; [exact I|]. split; [|apply IH].
  intros H. rewrite Hsw in H. discriminate H.
Qed.

Lemma step_refines_gen ds file w :
  inv ds file -> (step_key_checked = false -> renumbers (abs ds) (cstr (fst w)) (map cstr (snd w)) = false) ->
  exists ds', inv ds' (model_step file w) /\ abs ds' = spec_step (abs ds) w /\
    (fst (write_cmd false (Some file) (fst w) (snd w)) = 0 <->
       spec_write (abs ds) (cstr (fst w)) (map cstr (snd w)) <> None).
Proof.
  intros [W [S R]] NR. destruct w as [idarg kvs]. cbn [fst snd] in *.
  pose proof (write_refines_with step_key_checked ds file idarg kvs W S R NR) as H. fold write_cmd in H.
  unfold model_step, spec_step. cbn [fst snd].
  destruct (spec_write (abs ds) (cstr idarg) (map cstr kvs)) as [s'|].
  - destruct H as [ds' [-> [W' [S' ->]]]]. cbn [fst snd].
    exists ds'. repeat split; auto; try (now left); congruence.
  - rewrite H. cbn [fst snd]. exists ds. repeat split; auto; try discriminate. intros H0; now elim H0.
Qed.

Theorem history_refines_gen ws : forall ds file,
  inv ds file -> never_renumbers (abs ds) ws ->
  exists ds', inv ds' (fold_left model_step ws file) /\ abs ds' = fold_left spec_step ws (abs ds).
Proof.
  induction ws as [|w ws IH]; intros ds file I NR; [exists ds; auto|].
  destruct NR as [Hw Hws].
  destruct (step_refines_gen ds file w I Hw) as [ds1 [I1 [A1 _]]].
  cbn [fold_left]. rewrite <- A1 in Hws. destruct (IH ds1 _ I1 Hws) as [ds' [I' A']].
  exists ds'. split; [exact I'|]. now rewrite A', A1.
Qed.

Theorem roundtrip_history_gen ws :
  never_renumbers [] ws ->
  exists ds, Forall wfdata ds /\ sorted ds /\ reps ds (fold_left model_step ws []) /\
             abs ds = fold_left spec_step ws [].
Proof.
  intros H. destruct (history_refines_gen ws [] [] inv_empty H) as [ds [[W [Hs R]] A]].
  exists ds. auto.
Qed.

(* ---- the renumbering command: accepted, although the specification rejects it ----------------------------- *)

Lemma rows_serializable rows :
  Forall (fun r => exists d, r = row_of d /\ wfdata d) rows -> serialize_rows rows <> None.
Proof.
  induction 1 as [|r rows [d [-> Wd]] _ IH]; [discriminate|].
  cbn [serialize_rows]. rewrite (serialize_data d Wd).
  destruct (serialize_rows rows); [discriminate|now elim IH].
Qed.

Lemma nth_error_set_nth_same {A} n (x : A) l o : nth_error l n = Some o -> nth_error (set_nth n x l) n = Some x.
Proof. revert l; induction n as [|n IH]; intros [|y l] H; cbn in *; try discriminate; auto. Qed.

Lemma nth_error_set_nth_other {A} n m (x : A) l : n <> m -> nth_error (set_nth n x l) m = nth_error l m.
Proof.
  revert m l; induction n as [|n IH]; intros m [|y l] H; cbn; try reflexivity.
  - destruct m; [congruence|reflexivity].
  - destruct m; [reflexivity|]. cbn. apply IH. congruence.
Qed.

(* applying arguments to a complete row keeps it complete *)
Lemma apply_kvs_complete r kvs r' : complete r = true -> apply_kvs r kvs = Some r' -> complete r' = true.
Proof.
  revert r. induction kvs as [|kv kvs IH]; intros r Hc Ha; cbn [apply_kvs] in Ha.
  - now injection Ha as <-.
  - destruct (denote kv) as [[fd v]|]; [|discriminate]. eapply IH; [|exact Ha].
    unfold complete in *. rewrite forallb_forall in *. intros f Hf. specialize (Hc f Hf).
    destruct (Nat.eq_dec (fd_index fd) (fd_index f)) as [E|E].
    + rewrite E. destruct (nth_error r (fd_index f)) as [o|] eqn:En; [|discriminate].
      now rewrite (nth_error_set_nth_same _ _ _ _ En).
    + now rewrite nth_error_set_nth_other by exact E.
Qed.

Theorem renumbers_exit0 ds file idarg kvs :
  Forall wfdata ds -> reps ds file ->
  renumbers (abs ds) (cstr idarg) (map cstr kvs) = true ->
  spec_write (abs ds) (cstr idarg) (map cstr kvs) = None /\
  fst (write_cmd_with false false (Some file) idarg kvs) = 0.
Proof.
  intros W R NR. split; [now apply renumbers_rejected|].
  rewrite (write_cmd_with_unfold false file (map row_of ds) idarg kvs (parse_reps ds file W R)).
  unfold renumbers in NR.
  destruct (denote_id (cstr idarg)) as [id|] eqn:Eid; [|discriminate].
  destruct kvs as [|kv0 kvs0]; [discriminate|].
  cbn [map] in NR. set (kvs := kv0 :: kvs0) in *. change (cstr kv0 :: map cstr kvs0) with (map cstr kvs) in NR.
  assert (Hid64 : in_i64 id).
  { unfold denote_id in Eid. destruct (strtonum id_min id_max (cstr idarg)) as [z| | |] eqn:En; try discriminate.
    destruct (z =? 0)%Z; [discriminate|]. injection Eid as <-. eapply id_in_i64; eauto. }
  assert (Hrows : Forall (fun r => exists d, r = row_of d /\ wfdata d) (map row_of ds)).
  { apply Forall_forall. intros r Hr. apply in_map_iff in Hr. destruct Hr as [d [<- Hd]].
    exists d. split; [reflexivity|]. rewrite Forall_forall in W. now apply W. }
  assert (Hgoal : forall rs, Forall (fun r => exists d, r = row_of d /\ wfdata d) rs ->
            fst (match serialize_rows (sort_rows rs) with
                 | Some b => (0, Some (header ++ b))
                 | None => (1, Some file)
                 end) = 0).
  { intros rs Hrs. pose proof (rows_serializable (sort_rows rs) (sort_rows_Forall _ _ Hrs)) as Hne.
    destruct (serialize_rows (sort_rows rs)); [reflexivity|now elim Hne]. }
  rewrite alist_find_abs in NR. unfold spec_update_with.
  assert (Hac : forall r, apply_checked false id (map cstr kvs) r = apply_kvs r (map cstr kvs)).
  { intros r. unfold apply_checked. now destruct (apply_kvs r (map cstr kvs)). }
  rewrite (update_row_ext _ (fun r => apply_kvs r (map cstr kvs)) id (map row_of ds) Hac), Hac.
  destruct (update_row id (fun r => apply_kvs r (map cstr kvs)) (map row_of ds)) as [[rs|]|] eqn:Eu.
  - apply Hgoal. eapply update_row_Forall; [exact Hrows| |exact Eu].
    intros r r' [d [-> Wd]] Ha. cbv beta in Ha.
    (* the updated row: the one NR talks about, or any other row carrying the id *)
    pose proof (apply_kvs_ok _ _ _ (okrow_of d Wd) Ha) as Hok.
    destruct (complete r') eqn:Ec; [now apply okrow_complete|].
    (* incomplete is impossible: applying arguments to a complete row keeps it complete *)
    exfalso. rewrite (apply_kvs_complete (row_of d) _ _ eq_refl Ha) in Ec. discriminate.
  - (* present but the arguments fail on that row: then NR's row fails too *)
    exfalso. clear Hgoal. revert Eu NR. clear - W. induction ds as [|d ds IH]; cbn [map update_row find_data]; [discriminate|].
    rewrite row_id_of. destruct (d_step d =? id)%Z.
    + cbn [omap]. destruct (apply_kvs (row_of d) (map cstr kvs)); [discriminate|]. discriminate.
    + inversion W; subst. destruct (update_row id _ (map row_of ds)) as [[?|]|]; try discriminate. auto.
  - (* new id *)
    assert (Hnone : find_data id ds = None).
    { clear - Eu. induction ds as [|d ds IH]; [reflexivity|]. cbn [map update_row find_data] in *.
      rewrite row_id_of in Eu. destruct (d_step d =? id)%Z; [discriminate|].
      destruct (update_row id _ (map row_of ds)) as [[?|]|]; try discriminate. auto. }
    rewrite Hnone in NR. cbn [omap] in NR. unfold base_row.
    destruct (apply_kvs (set_nth 0 (Some (VInt id)) default_record) (map cstr kvs)) as [r|] eqn:Ea; [|discriminate].
    cbn [omap]. apply andb_true_iff in NR. destruct NR as [Ec _].
    apply Hgoal. apply Forall_app. split; [exact Hrows|]. constructor; [|constructor].
    apply okrow_complete; [|exact Ec]. eapply apply_kvs_ok; [|exact Ea].
    pose proof (base_row_ok id Hid64) as Hb. exact Hb.
Qed.

(* witness, replayed on robsd-step: ids 1 and 2 on file; -i 1 step=5 renumbers row 1 to 5;
   -i 5 step=2 then gives two rows with id 2 *)
Definition rn_w (id : bytes) (kvs : list bytes) : wcmd := (id, kvs).
Definition rn_full (name : bytes) : list bytes :=
  [[110;97;109;101;61] ++ name; [101;120;105;116;61;48]; [100;117;114;97;116;105;111;110;61;53];
   [117;115;101;114;61;114;111;111;116]; [116;105;109;101;61;49;48;48]].
Definition rn_hist : list wcmd :=
  [rn_w [49] (rn_full [111;110;101]); rn_w [50] (rn_full [116;119;111]);
   rn_w [49] [[115;116;101;112;61;53]]; rn_w [53] [[115;116;101;112;61;50]]].

Definition model_step_with (chk : bool) (file : bytes) (w : wcmd) : bytes :=
  match snd (write_cmd_with chk false (Some file) (fst w) (snd w)) with Some f => f | None => file end.

Lemma write_refines_refuted :
  let file2 := fold_left (model_step_with false) (firstn 2 rn_hist) [] in
  let file3 := fold_left (model_step_with false) (firstn 3 rn_hist) [] in
  let file4 := fold_left (model_step_with false) rn_hist [] in
  (* the specification rejects step=5 on id 1, the command without the id test exits 0 *)
  spec_write (fold_left spec_step (firstn 2 rn_hist) []) [49] [[115;116;101;112;61;53]] = None /\
  fst (write_cmd_with false false (Some file2) [49] [[115;116;101;112;61;53]]) = 0 /\
  (* afterwards no row has id 1, row "one" has id 5 *)
  omap (map row_id) (parse_file file3) = Some [2; 5]%Z /\
  (* and after step=2 on id 5 two rows carry id 2 *)
  omap (map row_id) (parse_file file4) = Some [2; 2]%Z /\
  (* with the id test: both commands exit 1 and the file keeps ids 1 and 2 *)
  fst (write_cmd_with true false (Some file2) [49] [[115;116;101;112;61;53]]) = 1 /\
  omap (map row_id) (parse_file (fold_left (model_step_with true) rn_hist [])) = Some [1; 2]%Z.
Proof. vm_compute. repeat split; reflexivity. Qed.
