(* StepHistory.v - histories of writes, reads, and the unconditional facts about write_cmd *)
From Robsd Require Import Step.StepDefs Step.StepSpec Step.StepLex Step.StepRows Step.StepWrite Base.DecimalProofs.
From Robsd Require Import Interp.InterpSpec Interp.InterpProofs.
From RobsdGen Require Import Gen_Step Gen_Interp.
Local Open Scope N_scope.

(* ---- for every file and every fault ------------------------------------------------------------------ *)

Lemma write_cmd_with_cases chk fault file idarg kvs :
  let '(e, f') := write_cmd_with chk fault file idarg kvs in
  (e = 1 /\ f' = file) \/
  (fault = true /\ e = 1 /\ f' = Some []) \/
  (fault = false /\ e = 0 /\ exists content rows rs b,
      file = Some content /\ parse_file content = Some rows /\
      serialize_rows (sort_rows rs) = Some b /\ f' = Some (header ++ b)).
Proof.
  unfold write_cmd_with. destruct file as [content|]; [|now left].
  destruct (parse_file content) as [rows|] eqn:Ep; [|now left].
  destruct (strtonum id_min id_max (cstr idarg)); try (now left).
  destruct (z =? 0)%Z; [now left|].
  destruct kvs as [|kv kvs]; [now left|].
  match goal with |- context [match ?x with Some rs => _ | None => (1, Some content) end] => destruct x as [rs|] end; [|now left].
  destruct (serialize_rows (sort_rows rs)) as [b|] eqn:Es; [|now left].
  change close_checked with true. destruct fault.
  - right. left. auto.
  - right. right. repeat split; auto. exists content, rows, rs, b. auto.
Qed.

Lemma write_cmd_cases fault file idarg kvs :
  let '(e, f') := write_cmd fault file idarg kvs in
  (e = 1 /\ f' = file) \/
  (fault = true /\ e = 1 /\ f' = Some []) \/
  (fault = false /\ e = 0 /\ exists content rows rs b,
      file = Some content /\ parse_file content = Some rows /\
      serialize_rows (sort_rows rs) = Some b /\ f' = Some (header ++ b)).
Proof. exact (write_cmd_with_cases step_key_checked fault file idarg kvs). Qed.

Lemma reject_unchanged file idarg kvs :
  fst (write_cmd false file idarg kvs) <> 0 -> snd (write_cmd false file idarg kvs) = file.
Proof.
  pose proof (write_cmd_cases false file idarg kvs) as H.
  destruct (write_cmd false file idarg kvs) as [e f']. cbn [fst snd].
  destruct H as [[_ ->]|[[H _]|[_ [-> _]]]]; [reflexivity|discriminate|]. intros H; now elim H.
Qed.

Lemma exit0_only_without_fault fault file idarg kvs :
  fst (write_cmd fault file idarg kvs) = 0 ->
  fault = false /\ exists b, snd (write_cmd fault file idarg kvs) = Some (header ++ b).
Proof.
  pose proof (write_cmd_cases fault file idarg kvs) as H.
  destruct (write_cmd fault file idarg kvs) as [e f']. cbn [fst snd].
  destruct H as [[-> _]|[[_ [-> _]]|[-> [_ [c [rows [rs [b [_ [_ [_ ->]]]]]]]]]]]; try discriminate.
  intros _. eauto.
Qed.

(* ---- histories ------------------------------------------------------------------------------------------------ *)

Definition wcmd := (bytes * list bytes)%type.      (* the -i argument and the key=value arguments *)

Definition model_step (file : bytes) (w : wcmd) : bytes :=
  match snd (write_cmd false (Some file) (fst w) (snd w)) with Some f => f | None => file end.

Definition spec_step (s : astate) (w : wcmd) : astate :=
  match spec_write s (cstr (fst w)) (map cstr (snd w)) with Some s' => s' | None => s end.

Definition inv (ds : list rowdata) (file : bytes) : Prop :=
  Forall wfdata ds /\ sorted ds /\ reps ds file.

Lemma step_refines ds file w :
  inv ds file -> no_id_key (map cstr (snd w)) ->
  exists ds', inv ds' (model_step file w) /\ abs ds' = spec_step (abs ds) w /\
    (fst (write_cmd false (Some file) (fst w) (snd w)) = 0 <->
       spec_write (abs ds) (cstr (fst w)) (map cstr (snd w)) <> None).
Proof.
  intros [W [S R]] NK. destruct w as [idarg kvs]. cbn [fst snd] in *.
  pose proof (write_refines ds file idarg kvs W S R NK) as H.
  unfold model_step, spec_step. cbn [fst snd].
  destruct (spec_write (abs ds) (cstr idarg) (map cstr kvs)) as [s'|].
  - destruct H as [ds' [-> [W' [S' ->]]]]. cbn [fst snd].
    exists ds'. repeat split; auto; try (now left); congruence.
  - rewrite H. cbn [fst snd]. exists ds. repeat split; auto; try discriminate. intros H0; now elim H0.
Qed.

Theorem history_refines ws : forall ds file,
  inv ds file -> Forall (fun w => no_id_key (map cstr (snd w))) ws ->
  exists ds', inv ds' (fold_left model_step ws file) /\ abs ds' = fold_left spec_step ws (abs ds).
Proof.
  induction ws as [|w ws IH]; intros ds file I NK; [exists ds; auto|].
  inversion NK as [|? ? Hw Hws]; subst.
  destruct (step_refines ds file w I Hw) as [ds1 [I1 [A1 _]]].
  cbn [fold_left]. destruct (IH ds1 _ I1 Hws) as [ds' [I' A']].
  exists ds'. split; [exact I'|]. now rewrite A', A1.
Qed.

Lemma inv_empty : inv [] [].
Proof. repeat split; [constructor|now right]. Qed.

(* ---- reading back ------------------------------------------------------------------------------------------------ *)

Lemma clines_single l : nonl l -> nonul l -> l <> [] -> clines (l ++ [NL]) = [l].
Proof.
  intros Hl Hz Hne. unfold clines.
  replace (l ++ [NL]) with (unlines [l]) by reflexivity.
  rewrite getlines_unlines by (constructor; [exact Hl|constructor]).
  cbn [map]. now rewrite cstr_id.
Qed.

Lemma read_field d fd :
  wfdata d -> In fd fields ->
  exists v, nth_error (row_of d) (fd_index fd) = Some (Some v) /\
    interp_cmd depth_limit (row_lookup (row_of d)) (ref (fd_name fd) ++ [NL]) = (0, render_value v ++ [NL]).
Proof.
  intros W Hin.
  assert (Hv : exists v, nth_error (row_of d) (fd_index fd) = Some (Some v)).
  { unfold fields in Hin. cbn [In] in Hin. decompose [or] Hin; subst; cbn; eauto; contradiction. }
  destruct Hv as [v Hv]. exists v. split; [exact Hv|].
  assert (Hl : row_lookup (row_of d) (fd_name fd) = Some (render_value v)).
  { unfold row_lookup, get_field. rewrite find_field_self by exact Hin. now rewrite Hv. }
  assert (Hc : clean (render_value v) = true) by (eapply row_lookup_clean; [apply okrow_of; exact W|exact Hl]).
  assert (Hname : nonl (ref (fd_name fd)) /\ nonul (ref (fd_name fd)) /\ fd_name fd <> [] /\ ~ In RBRACE (fd_name fd)).
  { unfold fields in Hin. cbn [In] in Hin.
    decompose [or] Hin; subst; try contradiction; cbn;
      (split; [repeat constructor; discriminate|split; [repeat constructor; discriminate|split; [discriminate|]]]);
      intros H; repeat (destruct H as [H|H]; [discriminate H|]); exact H. }
  destruct Hname as [N1 [N2 [N3 N4]]].
  unfold interp_cmd, interp_file. rewrite clines_single by (auto; discriminate).
  cbn [interp_lines]. change (Nat.pred depth_limit) with 4%nat.
  replace (ref (fd_name fd)) with ([] ++ ref (fd_name fd) ++ []) by (cbn [app]; now rewrite app_nil_r).
  rewrite substitution_law with (v := render_value v) by (auto; intros []).
  rewrite clean_nonul by exact Hc. rewrite identity_without_dollar by (apply clean_nodollar; exact Hc).
  rewrite identity_without_dollar by (intros []). cbn [app]. rewrite app_nil_r.
  f_equal. apply cstr_id. apply Forall_app. split; [|repeat constructor; discriminate].
  rewrite <- (clean_nonul _ Hc). apply cstr_nonul.
Qed.

Theorem read_refines ds file posarg pos fd :
  Forall wfdata ds -> reps ds file -> In fd fields ->
  strtonum id_min id_max (cstr posarg) = NumOk pos ->
  read_cmd (Some file) (ById posarg) (ref (fd_name fd) ++ [NL]) =
    match spec_read (abs ds) pos (fd_name fd) with
    | Some v => (0, v ++ [NL])
    | None => (1, [])
    end.
Proof.
  intros W R Hin Hp. unfold read_cmd, select_row, spec_read. rewrite (parse_reps ds file W R), Hp.
  rewrite find_field_self by exact Hin.
  unfold abs. rewrite !map_length.
  assert (Hnth : forall i, nth_error (map row_of ds) i = omap row_of (nth_error ds i)).
  { intros i. rewrite nth_error_map. destruct (nth_error ds i); reflexivity. }
  assert (Hnth' : forall i, nth_error (map (fun d => (d_step d, row_of d)) ds) i = omap (fun d => (d_step d, row_of d)) (nth_error ds i)).
  { intros i. rewrite nth_error_map. destruct (nth_error ds i); reflexivity. }
  assert (Hcase : forall i,
            match omap row_of (nth_error ds i) with
            | Some st => interp_cmd depth_limit (row_lookup st) (ref (fd_name fd) ++ [NL])
            | None => (1, [])
            end =
            match match omap (fun d => (d_step d, row_of d)) (nth_error ds i) with
                  | Some (_, r) => match nth_error r (fd_index fd) with
                                   | Some (Some v) => Some (render_value v) | _ => None end
                  | None => None end with
            | Some v => (0, v ++ [NL]) | None => (1, []) end).
  { intros i. destruct (nth_error ds i) as [d|] eqn:En; [|reflexivity]. cbn [omap].
    assert (Wd : wfdata d). { rewrite Forall_forall in W. apply W. eapply nth_error_In; eauto. }
    destruct (read_field d fd Wd Hin) as [v [Hv Hr]]. now rewrite Hv, Hr. }
  destruct (0 <? pos)%Z.
  - rewrite Hnth, Hnth'. apply Hcase.
  - destruct (pos <? 0)%Z; [|reflexivity].
    destruct (- pos <=? Z.of_nat (length ds))%Z; [|reflexivity].
    rewrite Hnth, Hnth'. apply Hcase.
Qed.

Lemma roundtrip_history ws :
  Forall (fun w => no_id_key (map cstr (snd w))) ws ->
  exists ds, Forall wfdata ds /\ sorted ds /\ reps ds (fold_left model_step ws []) /\
             abs ds = fold_left spec_step ws [].
Proof.
  intros H. destruct (history_refines ws [] [] inv_empty H) as [ds [[W [Hs R]] A]].
  exists ds. auto.
Qed.

(* boolean form of [no_id_key], for concrete argument lists *)
Definition no_id_keyb (kvs : list bytes) : bool :=
  forallb (fun kv => match denote kv with
                     | Some (fd, _) => negb (Nat.eqb (fd_index fd) 0)
                     | None => true
                     end) kvs.

Lemma no_id_keyb_spec kvs : no_id_keyb kvs = true -> no_id_key kvs.
Proof.
  unfold no_id_keyb, no_id_key. rewrite forallb_forall, Forall_forall.
  intros H kv Hin. specialize (H kv Hin). destruct (denote kv) as [[fd v]|]; [|exact I].
  apply negb_true_iff, Nat.eqb_neq in H. exact H.
Qed.
