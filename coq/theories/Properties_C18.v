(* Properties_C18.v - report durations, deltas and size changes are computed
   and formatted correctly.  Only theorem statements, each closed by [exact]
   and followed by Print Assumptions.  Quantifiers: every mode, every list of
   rows, every pair of release directories; numeric ranges are stated where a
   theorem needs one (durations 0..2^40, sizes below 2^53 for the exact model
   of "%.01f" on doubles - see DurationDefs.v).

   [stats_duration], [step_duration], [format_duration], [format_size],
   [size_lines], [c_total] model report.c / step.c; [sh_total] models util.sh
   duration_total and util-regress.sh regress_duration_total (tied by running
   them from the working tree under bash with the rebuilt robsd-step);
   [spec_total], [spec_hms], [spec_size_*] are the specification
   (DurationSpec.v).  Thresholds and the comparison operators at the
   thresholds come from the translator (Gen_Report): changing `<=` to `<` at
   the delta threshold or `<` to `<=` at the size threshold breaks
   [C18_delta_iff] / [C18_sizes_iff]. *)
From Robsd Require Import Report.DurationSpec Report.ReportProofs Report.DurationProofs Report.DurationMore
                          Report.PreviousAge Report.ReportBytes Report.ShellTie Inv.LsProofs.
From RobsdGen Require Gen_Step.
From Coq Require Import Sorting.Sorted Sorting.Permutation.
Local Open Scope N_scope.

(* the total of the stats block is the end row's duration (and delta) when
   there is an end row, otherwise the sum of the durations of the non-skipped
   rows other than end, for regress the last start time minus the first; it is
   formatted against the 60 second threshold.  The Duration: line of a report
   that is produced is this string. *)
Theorem C18_total : forall m rows,
  stats_total m rows = spec_total m rows /\
  stats_duration m rows =
    format_duration_and_delta (fst (spec_total m rows)) (snd (spec_total m rows)) 60.
Proof. exact total_spec. Qed.
Print Assumptions C18_total.

(* the total by cases, without the filter: no end row - the accumulated duration and delta 0; otherwise the
   duration and delta of the FIRST end row *)
Theorem C18_total_declarative : forall m rows,
  ((forall r, In r rows -> r_name r <> spec_name_end) ->
     stats_total m rows = (spec_accumulated m rows, 0%Z)) /\
  (forall a e b, rows = a ++ e :: b -> (forall r, In r a -> r_name r <> spec_name_end) -> r_name e = spec_name_end ->
     stats_total m rows = (r_duration e, r_delta e)).
Proof. exact total_declarative. Qed.
Print Assumptions C18_total_declarative.

(* regress: rows are recorded in start order, so last minus first start time is latest minus earliest *)
Theorem C18_wall_is_max_minus_min : forall rows,
  StronglySorted (fun a b => (r_time a <= r_time b)%Z) rows -> rows <> [] ->
  exists r0 rl, In r0 rows /\ In rl rows /\ spec_wall rows = (r_time rl - r_time r0)%Z /\
    forall r, In r rows -> (r_time r0 <= r_time r <= r_time rl)%Z.
Proof. exact wall_is_max_minus_min. Qed.
Print Assumptions C18_wall_is_max_minus_min.

(* the Duration: line of the stats block of a report that is produced, as text of the specification *)
Theorem C18_duration_line : forall m cfg rows fs rep,
  report_struct_rows m cfg rows fs = ROk rep ->
  let '(d, delta) := spec_total m rows in
  in_range d = true -> delta_in_range delta = true ->
  rp_duration rep = spec_duration_text d delta 60.
Proof. exact (duration_line cur_sw). Qed.
Print Assumptions C18_duration_line.

(* the Duration: line of the k-th section: that of the k-th listed row, any non-zero delta shown (threshold 0) *)
Theorem C18_step_duration_line : forall m cfg rows fs rep k s,
  cvs_guard m fs ->
  report_struct_rows m cfg rows fs = ROk rep -> nth_error (rp_sections rep) k = Some s ->
  exists r, nth_error (filter (spec_shown m cfg fs) rows) k = Some r /\
    s_name s = r_name r /\ s_duration s = step_duration r /\
    (in_range (r_duration r) = true -> delta_in_range (r_delta r) = true ->
       s_duration s = spec_duration_text (r_duration r) (r_delta r) 0).
Proof. exact step_duration_line. Qed.
Print Assumptions C18_step_duration_line.

(* HH:MM:SS: h*3600 + m*60 + s = d with 0 <= m, s < 60, each part printed with
   two digits, wider hours printed in full ([two_digits]) *)
Theorem C18_hms : forall d,
  (0 <= d <= two_pow_40)%Z ->
  format_duration d = spec_hms d /\
  exists h m s, (h * 3600 + m * 60 + s = d /\ 0 <= h /\ 0 <= m < 60 /\ 0 <= s < 60)%Z /\
    format_duration d = two_digits h ++ 58 :: two_digits m ++ 58 :: two_digits s.
Proof. exact hms. Qed.
Print Assumptions C18_hms.

Theorem C18_two_digits : forall x, (0 <= x < 100)%Z -> List.length (two_digits x) = 2%nat.
Proof. exact two_digits_width. Qed.
Print Assumptions C18_two_digits.

(* the signed delta is appended exactly when its magnitude exceeds the
   threshold, with the sign of the delta; the thresholds are 60 seconds for the
   total and 0 (any non-zero delta) for a single step *)
Theorem C18_delta_iff : forall d delta thr,
  (0 <= thr)%Z ->
  ((Z.abs delta <= thr)%Z -> format_duration_and_delta d delta thr = format_duration d) /\
  ((thr < Z.abs delta)%Z ->
     format_duration_and_delta d delta thr =
       format_duration d ++ [32; 40] ++ [if (delta <? 0)%Z then 45 else 43] ++
       format_duration (Z.abs delta) ++ [41]).
Proof. exact delta_iff. Qed.
Print Assumptions C18_delta_iff.

(* pin of the generated constants (a Remark: reflexivity, not a result) *)
Remark C18_thresholds :
  threshold_duration_s = 60%Z /\ step_delta_threshold = 0%Z /\
  threshold_size_b = 1048576%Z /\ threshold_size_ramdisk_b = 1024%Z.
Proof. exact thresholds_are. Qed.
Print Assumptions C18_thresholds.

(* size changes: a line is listed exactly for the files of <builddir>/rel that
   are visible, not CHANGELOG or a numbered diff, present in the previous
   invocation too, and whose size differs by at least the threshold of that
   file (1 KiB for bsd.rd, 1 MiB otherwise); the lines are in strcmp order and
   each file is listed once *)
Theorem C18_sizes_iff : forall cur prev,
  Forall (fun f => (0 <= rf_size f)%Z) cur ->
  (forall l, In l (size_lines cur prev) <->
     exists f p, In f cur /\ prev (rf_name f) = Some p /\
       hidden (rf_name f) = false /\ rf_name f <> spec_name_changelog /\ is_numbered_diff (rf_name f) = false /\
       (spec_size_threshold (rf_name f) <= Z.abs (rf_size f - p))%Z /\
       l = spec_size_line prev f) /\
  Sorted cmp_le (size_lines cur prev) /\
  Permutation (map (spec_size_line prev) (filter (spec_size_listed prev) cur)) (size_lines cur prev).
Proof. exact sizes_iff. Qed.
Print Assumptions C18_sizes_iff.

Theorem C18_numbered_diff : forall name,
  is_numbered_diff name = true <->
  exists a d b, name = a ++ dot_diff_dot ++ d :: b /\ (48 <= d <= 57).
Proof. exact numbered_diff_iff. Qed.
Print Assumptions C18_numbered_diff.

(* "THE PREVIOUS INVOCATION".  The property means the invocation created last before this one: [spec_previous cfg fs
   age], where [age] is the creation order of the entries of robsddir (known to whoever made them - the harness,
   the sequence of build_id calls - not readable from the names).  report.c previous_builddir takes the greatest
   (strcmp) directory of robsddir other than this one (hidden entries and the attic aside): *)
Theorem C18_previous_is_greatest_name : forall cfg fs ents p,
  f_root fs = Some ents ->
  previous_builddir cfg fs = Some p ->
  In p (invocation_read (c_robsddir cfg) (c_keepdir cfg) ents) /\ p <> c_builddir cfg /\
  forall q, In q (invocation_read (c_robsddir cfg) (c_keepdir cfg) ents) -> q <> c_builddir cfg -> cmp_le q p.
Proof. exact previous_is_greatest. Qed.
Print Assumptions C18_previous_is_greatest_name.

(* Full statement (refuted):  forall cfg fs age, previous_builddir cfg fs = spec_previous cfg fs age.
   Build names are <date>.<n>, n unpadded: d.9, d.10, d.11 made in this order, report of d.11 - the previous
   invocation is d.10, the code compares with d.9 (known finding C18 previous-is-name-order-not-age) *)
Theorem C18_previous_refuted :
  spec_previous pa_cfg pa_files pa_age = Some (mkpath pa_root pa_d10) /\
  previous_builddir pa_cfg pa_files = Some (mkpath pa_root pa_d9) /\
  name_order_is_age pa_cfg pa_files pa_age = false.
Proof. exact previous_refuted. Qed.
Print Assumptions C18_previous_refuted.

(* ... so the Size: lines of that report give the change against the wrong invocation: +5.0M where bsd grew by 1.0M *)
Theorem C18_sizes_refuted :
  report_sizes Robsd pa_cfg pa_files_sizes = [size_prefix ++ [98; 115; 100; 32; 54; 46; 48; 77; 32; 40; 43; 53; 46; 48; 77; 41]] /\
  spec_sizes Robsd pa_cfg pa_files_sizes pa_age = [size_prefix ++ [98; 115; 100; 32; 54; 46; 48; 77; 32; 40; 43; 49; 46; 48; 77; 41]].
Proof. exact sizes_refuted. Qed.
Print Assumptions C18_sizes_refuted.

(* under the exact guard - every invocation is in [age], the invocations in creation order are in strictly ascending
   strcmp order, nothing was created after this one - the code's choice IS the previous invocation *)
Theorem C18_previous_partial : forall cfg fs age,
  name_order_is_age cfg fs age = true -> previous_builddir cfg fs = spec_previous cfg fs age.
Proof. exact (fun cfg fs age H => eq_trans (previous_is_by_name cfg fs) (eq_sym (previous_coincide cfg fs age H))). Qed.
Print Assumptions C18_previous_partial.

(* the guard holds for the names of a day with fewer than ten builds (they differ in the last character only) and
   breaks with the tenth *)
Theorem C18_single_digit_names_in_order : forall pre i j,
  i < j -> strcmp (pre ++ [i]) (pre ++ [j]) = Lt.
Proof. exact single_digit_order. Qed.
Print Assumptions C18_single_digit_names_in_order.

Theorem C18_tenth_build_breaks_order : forall pre, strcmp (pre ++ [57]) (pre ++ [49; 48]) = Gt.
Proof. exact tenth_breaks_order. Qed.
Print Assumptions C18_tenth_build_breaks_order.

(* the Size: lines of a report that is produced: always the specified lines against the greatest other name; the
   specified lines against the previous invocation under the guard *)
Theorem C18_sizes_in_report : forall m cfg rows fs rep,
  report_struct_rows m cfg rows fs = ROk rep ->
  (forall cur, f_rel fs = Some cur -> Forall (fun f => (0 <= rf_size f)%Z) cur) ->
  rp_sizes rep = sizes_by_name m cfg fs /\
  (forall age, name_order_is_age cfg fs age = true -> rp_sizes rep = spec_sizes m cfg fs age).
Proof. exact (sizes_lines cur_sw). Qed.
Print Assumptions C18_sizes_in_report.

(* size format: unit by magnitude, one decimal, the printed tenths t satisfy
   |10*size - t*unit| <= unit/2 with ties going to the even tenth; exact for the
   double arithmetic of format_size for sizes below 2^53 *)
Theorem C18_size_format : forall size,
  (0 <= size)%Z ->
  let '(u, p) := spec_unit size in
  let t := spec_round1 size u in
  (((1048576 <= size)%Z -> u = 1048576%Z /\ p = [77]) /\
   ((1024 <= size < 1048576)%Z -> u = 1024%Z /\ p = [75]) /\
   ((size < 1024)%Z -> u = 1%Z /\ p = [])) /\
  (2 * Z.abs (10 * size - t * u) <= u)%Z /\
  ((2 * Z.abs (10 * size - t * u) = u)%Z -> Z.even t = true) /\
  format_size size = render_Z (t / 10) ++ 46 :: render_Z (t mod 10) ++ p /\
  (0 <= t mod 10 < 10)%Z.
Proof. exact size_format. Qed.
Print Assumptions C18_size_format.

(* the shell computation of the total (duration_total, regress_duration_total)
   and the C computation (steps_total_duration) agree, and both are the
   specified sum / wall clock difference *)
Theorem C18_shell_equals_C : forall m rows,
  gen_sh_total m rows = c_total m rows /\ c_total m rows = spec_accumulated m rows.
Proof. exact shell_translated_equals_C. Qed.
Print Assumptions C18_shell_equals_C.

(* [gen_sh_total] is assembled from what the translator reads in util.sh duration_total and util-regress.sh
   regress_duration_total (mode dispatch, start index, increment, step_skip's test, the name passed over,
   the accumulation; the indices 1 and -1, the defaults, the subtraction); it is the hand-written model
   [sh_total] the correspondence harness runs *)
Theorem C18_shell_translated : forall m rows, sh_total m rows = gen_sh_total m rows.
Proof. exact sh_total_translated. Qed.
Print Assumptions C18_shell_translated.

(* the row step_eval <i> delivers to the shell loop is the one robsd-step -R -i <i>
   selects in C01's model of that helper *)
Theorem C18_shell_step_eval : forall (rows : list row) i,
  (Gen_Step.id_min <= i <= Gen_Step.id_max)%Z ->
  sh_select (map view rows) i = omap view (select_row rows (ById (render_Z i))).
Proof. exact sh_select_is_robsd_step. Qed.
Print Assumptions C18_shell_step_eval.

(* no int64_t overflow: for fewer than 2^22 rows with durations within +-2^40 (the -1 of in-flight rows
   included) EVERY value the accumulator takes - in steps_total_duration (the sum over every prefix of the
   rows) and in the shell loop (after any number of iterations) - is strictly inside int64_t; so is the
   regress difference for start times below 2^62 in magnitude *)
Theorem C18_no_overflow : forall rows,
  (Z.of_nat (List.length rows) < two_pow_22)%Z ->
  Forall (fun r => (Z.abs (r_duration r) <= two_pow_40)%Z) rows ->
  (forall k, fits64 (fold_left total_step (firstn k rows) 0%Z)) /\
  (forall fuel, fits64 (sh_total_loop fuel 1 rows 0%Z)).
Proof. exact (fun rows Hn H => conj (no_overflow_C rows Hn H) (no_overflow_shell rows Hn H)). Qed.
Print Assumptions C18_no_overflow.

Theorem C18_no_overflow_wall : forall rows,
  Forall (fun r => (Z.abs (r_time r) < two_pow_62)%Z) rows -> fits64 (spec_wall rows).
Proof. exact no_overflow_wall. Qed.
Print Assumptions C18_no_overflow_wall.

(* in-flight records (duration -1, delta, time: any values) do not break the report: whether a report is
   produced, its status, and its sections with their names, exit codes, log names and bodies do not depend
   on the duration, delta and time fields of any row *)
Theorem C18_inflight_does_not_break : forall m cfg fs rows rows',
  cvs_guard m fs ->
  map strip rows = map strip rows' ->
  (report_struct_rows m cfg rows fs = RErr <-> report_struct_rows m cfg rows' fs = RErr) /\
  report_status m rows = report_status m rows' /\
  (forall rep rep', report_struct_rows m cfg rows fs = ROk rep -> report_struct_rows m cfg rows' fs = ROk rep' ->
     rp_status rep = rp_status rep' /\
     map (fun s => (s_name s, s_exit s, s_log s, s_body s)) (rp_sections rep) =
     map (fun s => (s_name s, s_exit s, s_log s, s_body s)) (rp_sections rep')).
Proof. exact inflight_does_not_break. Qed.
Print Assumptions C18_inflight_does_not_break.

(* the oracles applied to the implementation's output accept the model's own output; the Size: oracle judges by
   creation order and accepts the model exactly where name order is creation order (outside: C18_sizes_refuted) *)
Theorem C18_model_passes_oracles : forall x rows rep,
  cvs_guard (x_mode x) (files_of x) ->
  rows_of x = Some rows ->
  report_struct_rows (x_mode x) (cfg_of x) rows (files_of x) = ROk rep ->
  spec_ok_total x (rp_duration rep) = true /\
  (forall k s, nth_error (rp_sections rep) k = Some s -> spec_ok_step_duration x k (s_duration s) = true) /\
  (name_order_is_age (cfg_of x) (files_of x) (x_age x) = true -> spec_ok_sizes x (rp_sizes rep) = true) /\
  spec_ok_shell x (render_Z (sh_total (x_mode x) rows)) = true.
Proof. exact model_passes_all_duration_oracles. Qed.
Print Assumptions C18_model_passes_oracles.

(* THE ORACLE ON BYTES: [spec_ok_bytes_numbers] compares exit status and standard output byte for byte with the
   rendering of the report whose Duration: lines are [spec_duration_text] (numbers in range) and whose Size: lines
   are [spec_sizes] against the previous invocation BY CREATION ORDER - so the lines are judged where they stand in
   the report, not as fields cut out by a parser.  Whether there is a report, its status, which rows are listed and
   their bodies are the working tree's model's (C05 judges those), so this oracle fires for a wrong number and nothing
   else.  It accepts the model's output wherever name order is creation order. *)
Theorem C18_bytes_oracle_accepts_model : forall x,
  name_order_is_age (cfg_of x) (files_of x) (x_age x) = true ->
  spec_ok_bytes_numbers x (fst (run_fixture x)) (snd (run_fixture x)) = true.
Proof. exact model_passes_bytes_oracle_numbers_cur. Qed.
Print Assumptions C18_bytes_oracle_accepts_model.

(* non-vacuity: 3661 s with a delta of +70 s; a tie at 2^18 * 5 bytes (1.25M
   prints as 1.2M, 2^18 * 7 = 1.75M as 1.8M); thresholds at the boundary *)
Example C18_example :
  format_duration_and_delta 3661 70 60 = [48; 49; 58; 48; 49; 58; 48; 49; 32; 40; 43; 48; 48; 58; 48; 49; 58; 49; 48; 41] /\
  format_duration_and_delta 3661 (-60) 60 = [48; 49; 58; 48; 49; 58; 48; 49] /\
  format_size 1310720 = [49; 46; 50; 77] /\ format_size 1835008 = [49; 46; 56; 77] /\
  size_lines [mkrel [98; 115; 100] 3145728; mkrel [98; 115; 100; 46; 114; 100] 3072; mkrel [120] 1048575]
             (fun n => Some (if beq n [98; 115; 100] then 2097152%Z else if beq n [120] then 0%Z else 2049%Z)) =
    [size_prefix ++ [98; 115; 100; 32; 51; 46; 48; 77; 32; 40; 43; 49; 46; 48; 77; 41]] /\
  sh_total Robsd [mksrow [97] 0 5 0 [] 1 0; mksrow [98] 0 7 0 [] 2 1; mksrow [101; 110; 100] 0 9 0 [] 3 0] = 5%Z.
Proof. vm_compute. repeat split; reflexivity. Qed.
