(* ArenaSpec.v - what C19 demands of an arena, written without looking inside it.

   The specification only sees the client's side: which operations were
   issued and what they returned.  From that it keeps a *ghost* record of
     - the live blocks: location, size, the nesting level of the scope they
       were allocated through, and whether they are cleanup nodes;
     - per open scope, the cleanup tokens registered through it (newest first);
     - whether arena_free has been called.
   A block is live from the operation that returned it until the scope it was
   allocated through is left (reallocating a block counts as allocating the
   result through the scope given to realloc and ends the life of the source).

   [api_okb] says which operations respect the API in a ghost state,
   [must_trap] which of those the arena has to refuse (use of a non-innermost
   scope), [check_obs] what an observed result has to satisfy, and [spec_check]
   runs all of that over an observed trace: it is the oracle applied to what
   the implementation did.  [reach] is the set of (model state, ghost) pairs
   reachable by API-respecting programs; the theorems quantify over it.
   A leave of a scope that is not the innermost one is outside [api_okb] (the
   LIFO guard of the theorems) but inside the property: the oracle judges it by
   the property's reading ([nonlifo_leave], [gleave_only], R_NONLIFO). *)
From Robsd Require Import Base.Bytes Arena.ArenaDefs.
Local Open Scope N_scope.

(* ---- ghost state ------------------------------------------------------------------ *)
Record gblock := mkB { b_loc : loc; b_size : N; b_lvl : nat; b_node : bool }.

Record ghost := mkG {
  g_blocks : list gblock;        (* newest first *)
  g_scopes : list (list N);      (* innermost first; tokens newest first *)
  g_freed  : bool                (* arena_free has been called *)
}.

Definition ghost0 : ghost := mkG [] [] false.

Definition depth (g : ghost) : nat := length (g_scopes g).
(* nesting level of the scope with index k (0 = innermost); the outermost scope has level 1 *)
Definition lvl_of (g : ghost) (k : nat) : nat := (depth g - k)%nat.

Definition b_off (b : gblock) : N := snd (b_loc b).
Definition b_fi (b : gblock) : nat := fst (b_loc b).
Definition b_end (b : gblock) : N := snd (b_loc b) + b_size b.

(* block b is what arena_realloc(s, p, size, _) names: a user block at p of exactly [size] bytes,
   or of MORE than [size] > 0 bytes (vector.c names sizeof(struct vector) + len * stride, the USED
   part of its block; arena_realloc then copies only that part).  size = 0 names only a zero-size
   block, so that the block meant is determined (two live blocks share an address only when the
   older one has size 0). *)
Definition is_user_at (p : loc) (size : N) (b : gblock) : bool :=
  negb (b_node b) && loc_eqb (b_loc b) p && ((b_size b =? size) || ((0 <? size) && (size <? b_size b))).

Fixpoint remove_first {A} (f : A -> bool) (l : list A) : list A :=
  match l with
  | [] => []
  | x :: t => if f x then t else x :: remove_first f t
  end.

(* [p, p+n) lies inside block b *)
Definition in_block (b : gblock) (p : loc) (n : N) : bool :=
  Nat.eqb (fst p) (b_fi b) && (b_off b <=? snd p) && (snd p + n <=? b_end b).

(* the byte ranges of two blocks do not intersect *)
Definition disjointb (b1 b2 : gblock) : bool :=
  negb (Nat.eqb (b_fi b1) (b_fi b2)) || (b_size b1 =? 0) || (b_size b2 =? 0)
  || (b_end b1 <=? b_off b2) || (b_end b2 <=? b_off b1).

Definition disjoint (b1 b2 : gblock) : Prop :=
  b_fi b1 <> b_fi b2 \/ b_size b1 = 0 \/ b_size b2 = 0 \/ b_end b1 <= b_off b2 \/ b_end b2 <= b_off b1.

(* ---- which operations respect the API ------------------------------------------------ *)
Definition scope_okb (g : ghost) (k : nat) : bool := (k <? depth g)%nat && negb (g_freed g).

Definition api_okb (g : ghost) (o : op) : bool :=
  match o with
  | Enter => negb (g_freed g)
  | LeaveAt k => Nat.eqb k 0 && (0 <? depth g)%nat
  | Malloc k _ | Calloc k _ _ | Strndup k _ | Strdup k _ | Sprintf k _ | Cleanup k _ => scope_okb g k
  | Realloc k None _ _ => scope_okb g k
  | Realloc k (Some p) old new =>
      scope_okb g k &&
      match find (is_user_at p old) (g_blocks g) with
      | Some b => (b_lvl b <=? lvl_of g k)%nat || (old <? new)
      | None => false
      end
  | Fill p n _ => existsb (fun b => negb (b_node b) && in_block b p n) (g_blocks g)
  | Read p => existsb (fun b => in_block b p 1) (g_blocks g)
  | ArenaFree => negb (g_freed g)
  end.

(* among the operations that respect the API: the ones that use a scope which
   is not the innermost one in a way the arena has to refuse *)
Definition must_trap (c : cfg) (o : op) : bool :=
  match o with
  | Malloc k _ | Cleanup k _ => (0 <? k)%nat
  | Strndup k data | Sprintf k data => (0 <? k)%nat && (N.of_nat (length data) + 1 <? SIZE_LIMIT)
  | Strdup k data => (0 <? k)%nat && (N.of_nat (length (cstr data)) + 1 <? SIZE_LIMIT)
  | Calloc k nmemb size => (0 <? k)%nat && (nmemb * size <? SIZE_LIMIT)
  | Realloc k None _ _ => (0 <? k)%nat
  | Realloc k (Some _) old new => (0 <? k)%nat && (c_sv c || (old <? new))
  | _ => false
  end.

(* ---- the parts of [api_okb], by name ---------------------------------------------------------
   [api_okb g o = lifo_okb o && client_okb g o] (ArenaLive.v, api_okb_split):
   - [lifo_okb]: scopes are left innermost first (well-bracketed enter/leave, what the
     arena_scope() macro enforces).  The property quantifies over ALL sequences of
     enter/leave, so a leave of an enclosing scope is INSIDE it; the theorems over [reach]
     are the _partial statements under this guard, the _refuted witnesses outside it are
     ArenaHoles.nonlifo_leave_reuse / hits_header, and the oracle judges such a leave by
     the property's reading ([nonlifo_leave], [gleave_only], R_NONLIFO below).
   - [client_okb]: the scope named is open, the arena has not been freed, realloc names a
     live user block with its size or with a positive part of it ([is_user_at]), client
     writes stay inside live user blocks. *)
Definition lifo_okb (o : op) : bool :=
  match o with LeaveAt k => Nat.eqb k 0 | _ => true end.

Definition client_okb (g : ghost) (o : op) : bool :=
  match o with
  | LeaveAt k => (k <? depth g)%nat
  | _ => api_okb g o
  end.

Definition well_bracketed (ops : list op) : Prop := Forall (fun o => lifo_okb o = true) ops.

(* ---- the one call [api_okb] excludes although the property covers it ---------------------------
   Shrinking a live block of an inner scope through an outer scope: the result would
   belong to the outer scope but lies above the inner scope's mark.  The arena has to
   refuse it (it does since 4eb1227: [c_sv]); [api_full] is [api_okb] plus this call,
   i.e. realloc of ANY live user block, named with its size or a positive part of it,
   through ANY open scope. *)
Definition outer_shrink (g : ghost) (o : op) : bool :=
  match o with
  | Realloc k (Some p) old new =>
      scope_okb g k &&
      match find (is_user_at p old) (g_blocks g) with
      | Some b => (lvl_of g k <? b_lvl b)%nat && (new <=? old)
      | None => false
      end
  | _ => false
  end.

Definition api_full (g : ghost) (o : op) : bool := api_okb g o || outer_shrink g o.

(* scope index, number of bytes and kind of the block an allocating operation asks for *)
Definition alloc_args (c : cfg) (o : op) : option (nat * N * bool) :=
  match o with
  | Malloc k size => Some (k, size, false)
  | Calloc k nmemb size => Some (k, nmemb * size, false)
  | Strndup k data | Sprintf k data => Some (k, N.of_nat (length data) + 1, false)
  | Strdup k data => Some (k, N.of_nat (length (cstr data)) + 1, false)
  | Cleanup k _ => Some (k, c_node c, true)
  | _ => None
  end.

(* the number of bytes an operation asks the arena for *)
Definition req_size (c : cfg) (o : op) : option N :=
  match o with
  | Realloc _ None _ new => Some new
  | Realloc _ (Some _) old new => if new <=? old then None else Some new
  | _ => match alloc_args c o with Some (_, n, _) => Some n | None => None end
  end.

(* err/errx is acceptable only for requests no frame below 2^64 bytes can hold *)
Definition may_exit (c : cfg) (o : op) : bool :=
  match req_size c o with
  | Some n => 9223372036854775808 <? n + c_hdr c + c_gap c
  | None => false
  end.

(* ---- ghost transition ------------------------------------------------------------------- *)
Fixpoint push_tok (k : nat) (tok : N) (l : list (list N)) : list (list N) :=
  match l, k with
  | [], _ => []
  | t :: r, O => (tok :: t) :: r
  | t :: r, S k' => t :: push_tok k' tok r
  end.

Definition gstep (c : cfg) (g : ghost) (o : op) (ev : event) : ghost :=
  match o with
  | Enter => mkG (g_blocks g) ([] :: g_scopes g) (g_freed g)
  | LeaveAt k =>
      mkG (filter (fun b => (b_lvl b <? lvl_of g k)%nat) (g_blocks g)) (remove_nth k (g_scopes g)) (g_freed g)
  | ArenaFree => mkG (if Nat.eqb (depth g) 0 then [] else g_blocks g) (g_scopes g) true
  | Fill _ _ _ | Read _ => g
  | Realloc k src old new =>
      match ev with
      | EPtr (Some q) =>
          let rest := match src with
                      | Some p => remove_first (is_user_at p old) (g_blocks g)
                      | None => g_blocks g
                      end in
          mkG (mkB q new (lvl_of g k) false :: rest) (g_scopes g) (g_freed g)
      | _ => g
      end
  | _ =>
      match alloc_args c o, ev with
      | Some (k, n, node), EPtr (Some p) =>
          mkG (mkB p n (lvl_of g k) node :: g_blocks g)
              (match o with Cleanup _ tok => push_tok k tok (g_scopes g) | _ => g_scopes g end)
              (g_freed g)
      | _, _ => g
      end
  end.

(* ---- the reachable (model state, ghost) pairs ------------------------------------------------ *)
Inductive reach (c : cfg) : state -> ghost -> Prop :=
| reach_init : forall st, init c = Some st -> reach c st ghost0
| reach_step : forall st g o st' ev,
    reach c st g -> api_okb g o = true -> step c st o = Ok (st', ev) ->
    reach c st' (gstep c g o ev).

(* ---- the oracle ---------------------------------------------------------------------------- *)
(* what the harness observed for one executed operation *)
Record oobs := mkObs {
  o_ev     : event;
  o_fsize  : N;      (* size of the frame the returned pointer lies in *)
  o_intact : bool;   (* every live block still equals its shadow copy *)
  o_prefix : bool    (* realloc: the common prefix equals the source before the call *)
}.

(* reason codes of the oracle *)
Definition R_OUTER_NOT_DETECTED : N := 1.
Definition R_MISALIGNED : N := 2.
Definition R_OUTSIDE_FRAME : N := 3.
Definition R_OVERLAP : N := 4.
Definition R_CONTENTS_CHANGED : N := 5.
Definition R_PREFIX_LOST : N := 6.
Definition R_CLEANUPS : N := 7.
Definition R_UNEXPECTED_TRAP : N := 8.
Definition R_UNEXPECTED_EXIT : N := 9.
Definition R_CRASH : N := 10.
Definition R_NULL : N := 11.
Definition R_BAD_EVENT : N := 12.
Definition R_LEN_RESET : N := 13.
Definition R_BAD_HANDLE : N := 14.
Definition R_OUTSIDE_API : N := 15.   (* not a violation: the program left the API at this operation *)
Definition R_OUTER_SHRINK : N := 16.  (* a shrinking realloc of an inner block through an outer scope returned *)
Definition R_NONLIFO : N := 17.       (* after a leave of a scope that is not the innermost one: a block of a scope still
                                         open was handed out again / freed / changed, the frame header was handed out,
                                         or the "len = 0" branch was taken *)
Definition R_OUTER_GROW : N := 18.    (* a growing realloc through a scope that is not the innermost one returned *)

(* the verdict on an operation that returned although [api_okb] does not hold *)
Definition outside_code (g : ghost) (o : op) : N :=
  if outer_shrink g o then R_OUTER_SHRINK else R_OUTSIDE_API.

Definition list_eqb (a b : list N) : bool := beq a b.

(* a freshly returned block: aligned, behind the frame header, inside the frame,
   disjoint from every block in [others] *)
Definition check_new_block (c : cfg) (others : list gblock) (b : gblock) (fsize : N) : N :=
  if negb (b_off b mod c_ma c =? 0) then R_MISALIGNED
  else if negb ((c_hdr c <=? b_off b) && (b_end b <=? fsize)) then R_OUTSIDE_FRAME
  else if negb (forallb (disjointb b) others) then R_OVERLAP
  else 0.

Definition check_obs (c : cfg) (g : ghost) (o : op) (ob : oobs) : N :=
  if negb (o_intact ob) then R_CONTENTS_CHANGED else
  match o with
  | Enter => match o_ev ob with EUnit => 0 | _ => R_BAD_EVENT end
  | LeaveAt k =>
      match o_ev ob with
      | ELeave toks reset =>
          if reset then R_LEN_RESET
          else if list_eqb toks (nth k (g_scopes g) []) then 0 else R_CLEANUPS
      | _ => R_BAD_EVENT
      end
  | Realloc k src old new =>
      match o_ev ob with
      | EPtr (Some q) =>
          if negb (o_prefix ob) then R_PREFIX_LOST else
          let others :=
            match src with
            | Some p => if loc_eqb p q then remove_first (is_user_at p old) (g_blocks g) else g_blocks g
            | None => g_blocks g
            end in
          check_new_block c others (mkB q new (lvl_of g k) false) (o_fsize ob)
      | EPtr None => R_NULL
      | _ => R_BAD_EVENT
      end
  | Fill _ _ _ | ArenaFree => match o_ev ob with EUnit => 0 | _ => R_BAD_EVENT end
  | Read _ => match o_ev ob with ECell _ => 0 | _ => R_BAD_EVENT end
  | _ =>
      match alloc_args c o, o_ev ob with
      | Some (k, n, node), EPtr (Some p) =>
          check_new_block c (g_blocks g) (mkB p n (lvl_of g k) node) (o_fsize ob)
      | Some _, EPtr None => R_NULL
      | _, _ => R_BAD_EVENT
      end
  end.

(* ---- a leave of a scope that is not the innermost one ------------------------------------------
   C19 quantifies over all sequences of enter/leave and says "leaving a scope invalidates only
   that scope's blocks"; arena_scope_enter/arena_scope_leave are exported next to the
   block-structured arena_scope() macro.  So [LeaveAt k] with 0 < k < depth is INSIDE the
   property although outside [api_okb] (the LIFO guard of the theorems).  The oracle judges it
   by the property's reading [gleave_only]: the blocks of scope k die, the blocks of the k
   scopes still open stay live (their nesting level drops by one), the cleanups that run are
   the ones of scope k.  A trap at the leave (or at any later operation) counts as detection;
   a crash of a later operation is a manifestation of the undetected leave (R_NONLIFO).
   What the code does instead: ArenaHoles.nonlifo_leave_reuse, hits_header. *)
Definition nonlifo_leave (g : ghost) (o : op) : option nat :=
  match o with
  | LeaveAt k => if (0 <? k)%nat && (k <? depth g)%nat then Some k else None
  | _ => None
  end.

Definition gleave_only (g : ghost) (k : nat) : ghost :=
  let l := lvl_of g k in
  mkG (flat_map (fun b => if Nat.eqb (b_lvl b) l then []
                          else if (l <? b_lvl b)%nat then [mkB (b_loc b) (b_size b) (b_lvl b - 1) (b_node b)]
                          else [b]) (g_blocks g))
      (remove_nth k (g_scopes g)) (g_freed g).

(* after such a leave the geometric verdicts are manifestations of it: they get its signature *)
Definition nl_map (nl : bool) (r : N) : N :=
  if nl && ((r =? R_OVERLAP) || (r =? R_OUTSIDE_FRAME) || (r =? R_CONTENTS_CHANGED) || (r =? R_LEN_RESET))
  then R_NONLIFO else r.

Definition growing (o : op) : bool :=
  match o with Realloc _ (Some _) old new => old <? new | _ => false end.

(* arena_realloc refused the call (EFAULT): nothing changed; the walk goes on *)
Definition refused (o : op) (ob : oobs) : bool :=
  match o, o_ev ob with Realloc _ _ _ _, EPtr None => true | _, _ => false end.

(* how the run ended, given the operation that did not return (if any); [nl]: a scope that was
   not the innermost one has been left before - a trap then counts as (late) detection *)
Definition check_ending (c : cfg) (nl : bool) (g : ghost) (last : option op) (e : ending) : N :=
  match e, last with
  | Done, None => 0
  | Done, Some _ => R_BAD_EVENT
  | Trapped, Some o => if nl then 0
                       else match nonlifo_leave g o with Some _ => 0 | None =>
                            if negb (api_okb g o) then 0 else if must_trap c o then 0 else R_UNEXPECTED_TRAP end
  | Exited, Some o => match nonlifo_leave g o with Some _ => R_UNEXPECTED_EXIT | None =>
                      if negb (api_okb g o) then 0
                      else if must_trap c o then R_OUTER_NOT_DETECTED
                      else if may_exit c o then 0 else R_UNEXPECTED_EXIT end
  | Crashed, Some o => if nl then R_NONLIFO      (* the arena fell over what the undetected leave left behind *)
                       else match nonlifo_leave g o with Some _ => R_CRASH | None =>
                            if negb (api_okb g o) then 0 else R_CRASH end
  | Unmodelled, _ => R_BAD_EVENT          (* an implementation never ends like this *)
  | _, None => R_BAD_EVENT
  end.

(* the observed trace: operations with the pointers as the implementation
   returned them (handles are resolved against the observed results).
   Result: None = nothing to object to; Some (i, reason) = operation i violates
   the property.  A program that leaves the API (a pointer no block starts at, a
   write outside live blocks, use after arena_free) is not judged from that point on
   (reported as Some (i, R_OUTSIDE_API), which spec_ok accepts) - except that
   * a realloc the arena REFUSED (NULL, EFAULT) changes nothing: the walk goes on;
   * the shrinking realloc of an inner block through an outer scope has to be refused:
     when it returns, R_OUTER_SHRINK is a failure;
   * a leave of a scope that is not the innermost one is judged by the property's
     reading (above); from then on [nl] is set. *)
Fixpoint spec_walk (c : cfg) (nl : bool) (g : ghost) (tbl : list (option loc)) (i : nat)
    (tr : list (hop * oobs)) (last : option hop) (e : ending) : option (nat * N) :=
  match tr with
  | [] =>
      match last with
      | None => if check_ending c nl g None e =? 0 then None else Some (i, check_ending c nl g None e)
      | Some h =>
          match hop_to_op tbl h with
          | None => Some (i, R_BAD_HANDLE)
          | Some o => if check_ending c nl g (Some o) e =? 0 then None else Some (i, check_ending c nl g (Some o) e)
          end
      end
  | (h, ob) :: rest =>
      match hop_to_op tbl h with
      | None => Some (i, R_BAD_HANDLE)
      | Some o =>
          match nonlifo_leave g o with
          | Some k =>
              if negb (check_obs c g o ob =? 0) then Some (i, nl_map true (check_obs c g o ob))
              else spec_walk c true (gleave_only g k) tbl (S i) rest last e
          | None =>
          let tbl' := if returns_ptr o then
                        tbl ++ [match o_ev ob with EPtr p => p | _ => None end]
                      else tbl in
          if negb (api_okb g o) then
            (if refused o ob then spec_walk c nl g tbl' (S i) rest last e
             else Some (i, outside_code g o))
          else if must_trap c o then Some (i, if growing o then R_OUTER_GROW else R_OUTER_NOT_DETECTED)
          else if negb (check_obs c g o ob =? 0) then Some (i, nl_map nl (check_obs c g o ob))
          else spec_walk c nl (gstep c g o (o_ev ob)) tbl' (S i) rest last e
          end
      end
  end.

Definition spec_check (c : cfg) (tr : list (hop * oobs)) (last : option hop) (e : ending)
  : option (nat * N) := spec_walk c false ghost0 [] O tr last e.

Definition spec_ok (c : cfg) (tr : list (hop * oobs)) (last : option hop) (e : ending) : bool :=
  match spec_check c tr last e with None => true | Some (_, r) => r =? R_OUTSIDE_API end.

(* the program leaves a scope that is not the innermost one somewhere (a predicate on the CASE) *)
Definition has_nonlifo (ops : list hop) : bool := existsb nonlifo_hop ops.

(* ---- well-formed configurations ---------------------------------------------------------------- *)
Definition wf_cfg (c : cfg) : Prop :=
  (exists k, c_ma c = 2 ^ k) /\
  (c_ma c | c_gap c) /\ (c_ma c | c_hdr c) /\ (c_ma c | c_fsz0 c) /\
  0 < c_node c /\
  c_hdr c + c_gap c <= c_fsz0 c /\ c_fsz0 c < SIZE_LIMIT /\ 0 < c_fsz0 c /\
  (* the source validates the scope before growing a block in place (08bdded); every theorem
     that assumes [wf_cfg] is about such a source; [cfg_wf] proves it from the generated switch *)
  c_gv c = true.

(* frame number i (0 = oldest) of a frame list kept newest first *)
Fixpoint frame_at (l : list frame) (i : nat) : option frame :=
  match l with
  | [] => None
  | fr :: rest => if Nat.eqb i (length rest) then Some fr else frame_at rest i
  end.

(* block b keeps its bytes from memory m to memory m' *)
Definition agree (m m' : mem) (b : gblock) : Prop :=
  forall i, i < b_size b -> m' (b_fi b) (b_off b + i) = m (b_fi b) (b_off b + i).

(* an operation that does not touch block b on the client's behalf: a client write elsewhere;
   a realloc that does not name b with fewer bytes than b has (the bytes of b beyond the part
   named are given up by the caller: when the block grows in place they are "gained" again,
   indeterminate); every other operation qualifies *)
Definition fill_misses (o : op) (b : gblock) : Prop :=
  match o with
  | Fill p n _ => n = 0 \/ b_size b = 0 \/ fst p <> b_fi b \/ snd p + n <= b_off b \/ b_end b <= snd p
  | Realloc _ (Some p) old _ => is_user_at p old b = false \/ b_size b = old
  | _ => True
  end.

(* ---- traces ------------------------------------------------------------------------------------ *)
(* an API-respecting continuation of a run, with the events it produced *)
Inductive steps (c : cfg) : state -> ghost -> list op -> list event -> state -> ghost -> Prop :=
| steps_nil : forall st g, steps c st g [] [] st g
| steps_cons : forall st g o st1 ev ops evs st2 g2,
    api_okb g o = true -> step c st o = Ok (st1, ev) ->
    steps c st1 (gstep c g o ev) ops evs st2 g2 ->
    steps c st g (o :: ops) (ev :: evs) st2 g2.

(* ... during which block b stays live and no client write touches it *)
Inductive steps_keeping (c : cfg) (b : gblock) : state -> ghost -> list op -> state -> ghost -> Prop :=
| keep_nil : forall st g, In b (g_blocks g) -> steps_keeping c b st g [] st g
| keep_cons : forall st g o st1 ev ops st2 g2,
    In b (g_blocks g) -> fill_misses o b ->
    api_okb g o = true -> step c st o = Ok (st1, ev) ->
    steps_keeping c b st1 (gstep c g o ev) ops st2 g2 ->
    steps_keeping c b st g (o :: ops) st2 g2.

Definition registered (ops : list op) : list N :=
  flat_map (fun o => match o with Cleanup _ tok => [tok] | _ => [] end) ops.

Definition ran (evs : list event) : list N :=
  flat_map (fun e => match e with ELeave toks _ => toks | _ => [] end) evs.

(* ---- two arenas ---------------------------------------------------------------------------------- *)
Inductive reach2 (c : cfg) : state * state -> ghost * ghost -> Prop :=
| reach2_init : forall s0 s1, init c = Some s0 -> init c = Some s1 -> reach2 c (s0, s1) (ghost0, ghost0)
| reach2_step : forall sts gs (tag : bool) o sts' ev,
    reach2 c sts gs ->
    api_okb (if tag then snd gs else fst gs) o = true ->
    step2 c sts (tag, o) = Ok (sts', ev) ->
    reach2 c sts' (if tag then (fst gs, gstep c (snd gs) o ev) else (gstep c (fst gs) o ev, snd gs)).

(* ---- the model's own trace, in the form the oracle takes ------------------------------------------- *)
Definition frame_size_of (st : state) (ev : event) : N :=
  match ev with
  | EPtr (Some p) =>
      match frame_at (a_frames (st_a st)) (fst p) with Some fr => f_size fr | None => 0 end
  | _ => 0
  end.

(* What the harness observes besides the result, computed here from the two model
   states (S6): [o_intact] - every block live before the operation that the client
   did not write itself has the same bytes afterwards (the harness compares shadow
   copies); [o_prefix] - the common prefix of a reallocated block is at the new
   place what it was at the old one.  Not extracted (sizes may be 2^60); proved
   true for every API-respecting step in ArenaOracle.v. *)
Definition cell_eqb (x y : cell) : bool :=
  match x, y with
  | CUndef, CUndef => true
  | CByte a, CByte b => a =? b
  | CNode t n i, CNode t' n' i' => (t =? t') && optloc_eqb n n' && (i =? i')
  | _, _ => false
  end.

(* the n cells of m' from p on equal the n cells of m from q on *)
Definition range_eqb (m' : mem) (p : loc) (m : mem) (q : loc) (n : N) : bool :=
  forallb (fun i => cell_eqb (m' (fst p) (snd p + N.of_nat i)) (m (fst q) (snd q + N.of_nat i)))
          (seq 0 (N.to_nat n)).

Definition fill_missesb (o : op) (b : gblock) : bool :=
  match o with
  | Fill p n _ => (n =? 0) || (b_size b =? 0) || negb (Nat.eqb (fst p) (b_fi b))
                  || (snd p + n <=? b_off b) || (b_end b <=? snd p)
  | Realloc _ (Some p) old _ => negb (is_user_at p old b) || (b_size b =? old)
  | _ => true
  end.

Definition intact_obs (g : ghost) (o : op) (m m' : mem) : bool :=
  forallb (fun b => negb (fill_missesb o b) || range_eqb m' (b_loc b) m (b_loc b) (b_size b)) (g_blocks g).

Definition prefix_obs (o : op) (ev : event) (m m' : mem) : bool :=
  match o, ev with
  | Realloc _ (Some p) old new, EPtr (Some q) => range_eqb m' q m p (N.min old new)
  | _, _ => true
  end.

Definition obs_of (g : ghost) (o : op) (st st' : state) (ev : event) : oobs :=
  mkObs ev (frame_size_of st' ev)
        (intact_obs g o (a_mem (st_a st)) (a_mem (st_a st')))
        (prefix_obs o ev (a_mem (st_a st)) (a_mem (st_a st'))).

(* the model's run with the client-side ghost threaded along *)
Fixpoint mtrace (c : cfg) (st : state) (g : ghost) (tbl : list (option loc)) (ops : list hop)
  : list (hop * oobs) * option hop * ending :=
  match ops with
  | [] => ([], None, Done)
  | o :: rest =>
    match hop_to_op tbl o with
    | None => ([], Some o, Crashed)
    | Some o' =>
      match step c st o' with
      | Ok (st', ev) =>
          let tbl' := if returns_ptr o' then
                        tbl ++ [match ev with EPtr p => p | _ => None end]
                      else tbl in
          let '(tr, last, e) := mtrace c st' (gstep c g o' ev) tbl' rest in
          ((o, obs_of g o' st st' ev) :: tr, last, e)
      | Trap => ([], Some o, Trapped)
      | Exit1 => ([], Some o, Exited)
      | Crash => ([], Some o, Crashed)
      end
    end
  end.
