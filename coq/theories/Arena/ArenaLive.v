(* ArenaLive.v - C19, whole-run statements with the guards by name (S3, S4).

   1. [api_okb_split], [reach_iff_runs]: the hypothesis "reach c st g" of the C19
      theorems means: st is what arena_alloc followed by a WELL-BRACKETED sequence of
      calls (scopes left innermost first, [lifo_okb]) that respects the rest of the
      API ([client_okb]) produces.  The LIFO guard is a named hypothesis here, not a
      conjunct hidden inside [api_okb].
   2. [gstep_keeps], [stable_until_scope_left]: "until the scope it was allocated in is
      left" as a conclusion.  A block stays live - and keeps its bytes - over any
      continuation in which no scope at or outside its own level is left (the nesting
      depth never drops below [b_lvl b]) and the block itself is not handed to
      realloc; liveness is derived from the scope structure, not assumed per step.
      [gstep_leave_kills]: when its scope (or an enclosing one) is left, it is gone.
   3. [cleanups_all_ran], [cleanups_at_most_once]: from arena_alloc to a point where
      every scope has been left, the cleanups that ran are a permutation of the ones
      registered; in ANY run - also one that ends in a trap or exit - no cleanup runs
      more often than it was registered. *)
From Robsd Require Import Base.Bytes Arena.ArenaDefs Arena.ArenaSpec Arena.ArenaProofs Arena.ArenaInv Arena.ArenaThms.
From Coq Require Import Permutation.
Local Open Scope N_scope.

(* ---- the API by parts ------------------------------------------------------------------------ *)
Lemma api_okb_split g o : api_okb g o = lifo_okb o && client_okb g o.
Proof.
  destruct o as [|k|k size|k nmemb size|k p0 old new|k data|k data|k data|k tok|p n v|p|]; try reflexivity.
  simpl. destruct k; reflexivity.
Qed.

Lemma api_okb_parts g o : api_okb g o = true <-> lifo_okb o = true /\ client_okb g o = true.
Proof. rewrite api_okb_split. apply andb_true_iff. Qed.

(* runs in which every call respects [client_okb]; the order of leaves is constrained separately *)
Inductive client_steps (c : cfg) : state -> ghost -> list op -> list event -> state -> ghost -> Prop :=
| csteps_nil : forall st g, client_steps c st g [] [] st g
| csteps_cons : forall st g o st1 ev ops evs st2 g2,
    client_okb g o = true -> step c st o = Ok (st1, ev) ->
    client_steps c st1 (gstep c g o ev) ops evs st2 g2 ->
    client_steps c st g (o :: ops) (ev :: evs) st2 g2.

Lemma steps_parts c st g ops evs st2 g2 :
  steps c st g ops evs st2 g2 <-> well_bracketed ops /\ client_steps c st g ops evs st2 g2.
Proof.
  split.
  - induction 1 as [st g|st g o st1 ev ops evs st2 g2 Hapi Hstep _ [IH1 IH2]].
    + split; constructor.
    + apply api_okb_parts in Hapi. destruct Hapi as [Hl Hc]. split; [constructor; assumption|].
      econstructor; eassumption.
  - intros [Hwb H]. induction H as [st g|st g o st1 ev ops evs st2 g2 Hc Hstep _ IH].
    + constructor.
    + inversion Hwb; subst. econstructor; [apply api_okb_parts; split; eassumption|eassumption|auto].
Qed.

Lemma steps_snoc c st g ops evs st1 g1 o st2 ev :
  steps c st g ops evs st1 g1 -> api_okb g1 o = true -> step c st1 o = Ok (st2, ev) ->
  steps c st g (ops ++ [o]) (evs ++ [ev]) st2 (gstep c g1 o ev).
Proof.
  induction 1 as [st g|st g o0 st0 ev0 ops evs st1 g1 Hapi0 Hstep0 _ IH]; intros Hapi Hstep; simpl.
  - econstructor; [eassumption|eassumption|constructor].
  - econstructor; [eassumption|eassumption|]. apply IH; assumption.
Qed.

Lemma steps_reach c st g ops evs st2 g2 : reach c st g -> steps c st g ops evs st2 g2 -> reach c st2 g2.
Proof.
  intros R H. induction H as [st g|st g o st1 ev ops evs st2 g2 Hapi Hstep _ IH]; [assumption|].
  apply IH. eapply reach_step; eassumption.
Qed.

(* what "reach" means *)
Theorem reach_iff_runs c st g :
  reach c st g <->
  exists st0 ops evs, init c = Some st0 /\ well_bracketed ops /\ client_steps c st0 ghost0 ops evs st g.
Proof.
  split.
  - induction 1 as [st Hi|st g o st' ev _ (st0 & ops & evs & Hi & Hwb & Hcs) Hapi Hstep].
    + exists st, [], []. split; [assumption|]. split; constructor.
    + assert (Hs : steps c st0 ghost0 ops evs st g) by (apply steps_parts; split; assumption).
      pose proof (steps_snoc _ _ _ _ _ _ _ _ _ _ Hs Hapi Hstep) as Hs'.
      apply steps_parts in Hs'. destruct Hs' as [Hwb' Hcs'].
      exists st0, (ops ++ [o]), (evs ++ [ev]). auto.
  - intros (st0 & ops & evs & Hi & Hwb & Hcs).
    apply (steps_reach c st0 ghost0 ops evs); [constructor; assumption|].
    apply steps_parts. split; assumption.
Qed.

Section Live.
Variable c : cfg.
Hypothesis Hwf : wf_cfg c.

(* ---- liveness from the scope structure ------------------------------------------------------------ *)
(* operation o does not end the life of block b: it leaves only scopes nested inside
   b's scope, and it does not hand b to realloc *)
Definition outlives (g : ghost) (o : op) (b : gblock) : Prop :=
  match o with
  | LeaveAt k => (b_lvl b < lvl_of g k)%nat
  | Realloc _ (Some p) old _ => is_user_at p old b = false
  | _ => True
  end.

Theorem gstep_keeps st g o ev b :
  reach c st g -> In b (g_blocks g) -> outlives g o b -> In b (g_blocks (gstep c g o ev)).
Proof.
  intros R Hb Ho.
  destruct o as [|k|k size|k nmemb size|k p0 old new|k data|k data|k data|k tok|p n v|p|]; simpl in *;
    try assumption;
    try (destruct ev as [|[q|]|toks reset|x]; simpl; auto; fail).
  - apply filter_In. split; [assumption|]. apply Nat.ltb_lt. assumption.
  - destruct ev as [|[q|]|toks reset|x]; simpl; auto.
    destruct p0 as [p|]; [|right; assumption].
    right. apply In_remove_first_keep; assumption.
  - pose proof (live_block_depth c Hwf _ _ _ R Hb) as Hd.
    destruct (Nat.eqb_spec (depth g) 0); [lia|assumption].
Qed.

(* leaving b's own scope, or one that encloses it, ends b's life *)
Lemma gstep_leave_kills g k ev b :
  (lvl_of g k <= b_lvl b)%nat -> ~ In b (g_blocks (gstep c g (LeaveAt k) ev)).
Proof.
  intros Hl Hin. simpl in Hin. apply filter_In in Hin. destruct Hin as [_ H]. apply Nat.ltb_lt in H. lia.
Qed.

(* an API-respecting continuation during which b's scope is not left, b is not reallocated
   and the client does not write into b *)
Inductive steps_while (b : gblock) : state -> ghost -> list op -> state -> ghost -> Prop :=
| sw_nil : forall st g, steps_while b st g [] st g
| sw_cons : forall st g o st1 ev ops st2 g2,
    outlives g o b -> fill_misses o b ->
    api_okb g o = true -> step c st o = Ok (st1, ev) ->
    steps_while b st1 (gstep c g o ev) ops st2 g2 ->
    steps_while b st g (o :: ops) st2 g2.

Theorem stable_until_scope_left b st g ops st2 g2 :
  reach c st g -> In b (g_blocks g) -> steps_while b st g ops st2 g2 ->
  agree (a_mem (st_a st)) (a_mem (st_a st2)) b /\ In b (g_blocks g2) /\ reach c st2 g2.
Proof.
  intros R Hb H. induction H as [st g|st g o st1 ev ops st2 g2 Ho Hm Hapi Hstep _ IH].
  - split; [intros i _; reflexivity|auto].
  - assert (R1 : reach c st1 (gstep c g o ev)) by (eapply reach_step; eassumption).
    pose proof (gstep_keeps _ _ _ ev _ R Hb Ho) as Hb1.
    destruct (IH R1 Hb1) as (A & B & C). split; [|auto].
    eapply agree_trans; [|exact A]. eapply (contents_stable c Hwf); eassumption.
Qed.

(* ---- cleanups --------------------------------------------------------------------------------------- *)
Theorem cleanups_all_ran st ops evs st2 g2 :
  init c = Some st -> steps c st ghost0 ops evs st2 g2 -> g_scopes g2 = [] ->
  Permutation (ran evs) (registered ops).
Proof.
  intros Hi Hs Hg.
  pose proof (cleanups_accounted c Hwf _ _ _ _ _ _ (reach_init c st Hi) Hs) as P.
  rewrite Hg in P. simpl in P. rewrite !app_nil_r in P. exact P.
Qed.

(* a program respects the API along its own run (as far as the run gets) *)
Fixpoint api_run (st : state) (g : ghost) (ops : list op) : Prop :=
  match ops with
  | [] => True
  | o :: rest =>
      api_okb g o = true /\
      match step c st o with
      | Ok (st', ev) => api_run st' (gstep c g o ev) rest
      | _ => True
      end
  end.

(* the part of a run that was executed is a [steps] continuation, however the run ended *)
Lemma run_steps ops : forall st g evs e fin,
  api_run st g ops -> run c st ops = (evs, e, fin) ->
  exists gfin, steps c st g (firstn (length evs) ops) evs fin gfin.
Proof.
  induction ops as [|o rest IH]; intros st g evs e fin Hapi Hrun; simpl in Hrun.
  - inversion Hrun; subst. exists g. constructor.
  - destruct Hapi as [Ho Hrest].
    destruct (step c st o) as [[st' ev]| | |] eqn:Es;
      try (inversion Hrun; subst; exists g; constructor).
    destruct (run c st' rest) as [[evs' e'] fin'] eqn:Er. inversion Hrun; subst; clear Hrun.
    destruct (IH _ _ _ _ _ Hrest Er) as [gfin Hs]. exists gfin. simpl. econstructor; eassumption.
Qed.

Lemma registered_app a b : registered (a ++ b) = registered a ++ registered b.
Proof. unfold registered. apply flat_map_app. Qed.

Theorem cleanups_at_most_once st ops evs e fin :
  init c = Some st -> api_run st ghost0 ops -> run c st ops = (evs, e, fin) ->
  forall t, (count_occ N.eq_dec (ran evs) t <= count_occ N.eq_dec (registered ops) t)%nat.
Proof.
  intros Hi Hapi Hrun t.
  destruct (run_steps _ _ _ _ _ _ Hapi Hrun) as [gfin Hs].
  pose proof (cleanups_accounted c Hwf _ _ _ _ _ _ (reach_init c st Hi) Hs) as P.
  simpl in P. rewrite app_nil_r in P.
  pose proof (proj1 (Permutation_count_occ N.eq_dec _ _) P t) as Hc.
  rewrite count_occ_app in Hc.
  rewrite <- (firstn_skipn (length evs) ops) at 1. rewrite registered_app, count_occ_app. lia.
Qed.

(* ---- the client's own writes ----------------------------------------------------------------------- *)
Lemma disjoint_sym b1 b2 : disjoint b1 b2 -> disjoint b2 b1.
Proof. unfold disjoint. intros [H|[H|[H|[H|H]]]]; auto. Qed.

(* a client write inside one live block changes no byte of any other live block *)
Theorem client_write_only_own st g p n v st' ev u b :
  reach c st g -> api_okb g (Fill p n v) = true -> step c st (Fill p n v) = Ok (st', ev) ->
  In u (g_blocks g) -> in_block u p n = true -> In b (g_blocks g) -> b <> u ->
  agree (a_mem (st_a st)) (a_mem (st_a st')) b.
Proof.
  intros R Hapi Hstep Hu Hin Hb Hne.
  assert (Hd : disjoint u b).
  { destruct (ForallOrdPairs_In (live_disjoint c Hwf _ _ R) _ _ Hu Hb) as [E|[H|H]];
      [congruence|assumption|apply disjoint_sym; assumption]. }
  apply (contents_stable c Hwf _ _ _ _ _ _ R Hapi Hstep Hb).
  apply (fill_hits_one_block c st g p n v u b R Hu Hb Hin Hd).
Qed.

Lemma init_reach : exists st, init c = Some st /\ reach c st ghost0.
Proof. destruct (init_some c Hwf) as [st Hi]. exists st. split; [assumption|constructor; assumption]. Qed.

End Live.
