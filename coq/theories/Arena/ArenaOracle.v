(* ArenaOracle.v - the oracle (spec_check) never objects to the model: for every
   program, the trace the model produces passes every check the oracle makes,
   up to the point where the program leaves the API.  So whatever the oracle
   rejects on the implementation is either a violation of C19 or a difference
   between model and implementation. *)
From Robsd Require Import Base.Bytes Arena.ArenaDefs Arena.ArenaSpec Arena.ArenaProofs Arena.ArenaInv Arena.ArenaThms
  Arena.ArenaHoles.
From RobsdGen Require Import Gen_Arena.
Local Open Scope N_scope.

Section Oracle.
Variable c : cfg.
Hypothesis Hwf : wf_cfg c.

(* a block that has just become the head of the live list passes check_new_block *)
Lemma new_block_checks st' p n lvl node others scopes freed :
  reach c st' (mkG (mkB p n lvl node :: others) scopes freed) ->
  check_new_block c others (mkB p n lvl node) (frame_size_of st' (EPtr (Some p))) = 0.
Proof.
  intros R. apply check_new_block_spec.
  assert (Hin : In (mkB p n lvl node) (g_blocks (mkG (mkB p n lvl node :: others) scopes freed)))
    by (left; reflexivity).
  split; [apply (live_aligned c Hwf _ _ _ R Hin)|].
  destruct (live_inside c Hwf _ _ _ R Hin) as (fr & F1 & F2 & F3 & F4).
  unfold b_fi in F1; simpl in F1. unfold frame_size_of. simpl. rewrite F1.
  split; [assumption|]. split; [lia|].
  pose proof (live_disjoint c Hwf _ _ R) as D. simpl in D. inversion D; assumption.
Qed.

Lemma realloc_result_some a s p0 old new q a' :
  (forall p, p0 = Some p -> N.land (snd p) (c_ma c - 1) = 0) ->
  realloc c a s p0 old new = Ok (q, a') -> exists q', q = Some q'.
Proof.
  intros Hal. unfold realloc. destruct p0 as [p|].
  - rewrite (Hal p eq_refl). simpl.
    destruct (realloc_fast c a s p old new) as [[[|] a1]| | |]; try discriminate.
    + intros H; inversion H; eauto.
    + destruct (malloc c a s new) as [[q1 a2]| | |]; try discriminate. intros H; inversion H; eauto.
  - destruct (malloc c a s new) as [[q1 a2]| | |]; try discriminate. intros H; inversion H; eauto.
Qed.

(* ---- the two content observations are computed from the states and hold ------------------ *)
Lemma loc_eqb_refl p : loc_eqb p p = true.
Proof. unfold loc_eqb. now rewrite Nat.eqb_refl, N.eqb_refl. Qed.

Lemma cell_eqb_refl x : cell_eqb x x = true.
Proof.
  destruct x as [|b|t n i]; simpl; [reflexivity|apply N.eqb_refl|].
  rewrite !N.eqb_refl. destruct n as [q|]; simpl; [rewrite loc_eqb_refl|]; reflexivity.
Qed.

Lemma range_eqb_intro m' p m q n :
  (forall i, i < n -> m' (fst p) (snd p + i) = m (fst q) (snd q + i)) -> range_eqb m' p m q n = true.
Proof.
  intros H. unfold range_eqb. apply forallb_forall. intros i Hi. apply in_seq in Hi.
  rewrite H by lia. apply cell_eqb_refl.
Qed.

Lemma fill_missesb_spec o b : fill_missesb o b = true -> fill_misses o b.
Proof.
  destruct o as [|k|k size|k nmemb size|k [p|] old new|k data|k data|k data|k tok|p n v|p|]; simpl;
    try (intros; exact I).
  - rewrite orb_true_iff, negb_true_iff, N.eqb_eq. tauto.
  - rewrite !orb_true_iff, negb_true_iff, Nat.eqb_neq, !N.eqb_eq, !N.leb_le. tauto.
Qed.

(* o_intact: every block live before the step that the client did not write keeps its bytes *)
Lemma intact_model st g o st' ev :
  reach c st g -> api_okb g o = true -> step c st o = Ok (st', ev) ->
  intact_obs g o (a_mem (st_a st)) (a_mem (st_a st')) = true.
Proof.
  intros R Hapi Hstep. unfold intact_obs. apply forallb_forall. intros b Hb.
  destruct (fill_missesb o b) eqn:Em; [|reflexivity]. simpl.
  apply range_eqb_intro. intros i Hi.
  apply (contents_stable c Hwf _ _ _ _ _ _ R Hapi Hstep Hb (fill_missesb_spec _ _ Em)). assumption.
Qed.

(* o_prefix: the common prefix of a reallocated block is carried along *)
Lemma prefix_model st g o st' ev :
  reach c st g -> api_okb g o = true -> step c st o = Ok (st', ev) ->
  prefix_obs o ev (a_mem (st_a st)) (a_mem (st_a st')) = true.
Proof.
  intros R Hapi Hstep. unfold prefix_obs.
  destruct o as [|k|k size|k nmemb size|k [p|] old new|k data|k data|k data|k tok|p n v|p|]; try reflexivity.
  destruct ev as [|[q|]|toks reset|x]; try reflexivity.
  apply range_eqb_intro. intros i Hi.
  apply (realloc_prefix c Hwf _ _ _ _ _ _ _ _ R Hapi Hstep). assumption.
Qed.

Lemma obs_content_hold st g o st' ev :
  reach c st g -> api_okb g o = true -> step c st o = Ok (st', ev) ->
  o_intact (obs_of g o st st' ev) = true /\ o_prefix (obs_of g o st st' ev) = true.
Proof.
  intros R Hapi Hstep. split; [apply (intact_model _ _ _ _ _ R Hapi Hstep)|apply (prefix_model _ _ _ _ _ R Hapi Hstep)].
Qed.

(* the observation the model produces passes check_obs *)
Lemma check_obs_model st g o st' ev :
  reach c st g -> api_okb g o = true -> step c st o = Ok (st', ev) ->
  check_obs c g o (obs_of g o st st' ev) = 0.
Proof.
  intros R Hapi Hstep.
  assert (R' : reach c st' (gstep c g o ev)) by (eapply reach_step; eassumption).
  pose proof (reach_inv c Hwf _ _ R) as I.
  pose proof (intact_model _ _ _ _ _ R Hapi Hstep) as Hint.
  pose proof (prefix_model _ _ _ _ _ R Hapi Hstep) as Hpre.
  unfold check_obs, obs_of. cbn [o_intact o_ev o_fsize o_prefix]. rewrite Hint. cbn [negb].
  pose proof Hstep as Hstep0. unfold step in Hstep.
  destruct (N.eqb_spec (a_refs (st_a st)) 0) as [Hz|Hnz]; [discriminate|].
  destruct o as [|k|k size|k nmemb size|k p0 old new|k data|k data|k data|k tok|p n v|p|].
  - destruct (scope_enter (st_a st)) as [[a' s]| | |]; try discriminate. inversion Hstep; reflexivity.
  - assert (k = O). { simpl in Hapi. apply andb_true_iff in Hapi. destruct Hapi as [H _]. apply Nat.eqb_eq in H. assumption. }
    subst k. unfold with_scope in Hstep. destruct (nth_error (st_scs st) 0) as [s|]; [|discriminate].
    destruct (scope_leave c (st_ncl st) (st_a st) s) as [[[a' tk] rs]| | |] eqn:El; try discriminate.
    inversion Hstep; subst; clear Hstep.
    destruct (leave_spec c Hwf _ _ _ _ _ R Hapi Hstep0) as (-> & -> & _). simpl.
    assert (Hnth : nth 0 (g_scopes g) [] = hd [] (g_scopes g)) by (destruct (g_scopes g); reflexivity).
    rewrite Hnth. unfold list_eqb. rewrite beq_refl. reflexivity.
  - unfold with_scope, lift_alloc in Hstep. destruct (nth_error (st_scs st) k) as [s|]; [|discriminate].
    destruct (malloc c (st_a st) s size) as [[q a1]| | |]; try discriminate.
    inversion Hstep; subst; clear Hstep. simpl in R'. simpl. apply (new_block_checks _ _ _ _ _ _ _ _ R').
  - unfold with_scope, lift_alloc in Hstep. destruct (nth_error (st_scs st) k) as [s|]; [|discriminate].
    destruct (calloc c (st_a st) s nmemb size) as [[q a1]| | |]; try discriminate.
    inversion Hstep; subst; clear Hstep. simpl in R'. simpl. apply (new_block_checks _ _ _ _ _ _ _ _ R').
  - (* Realloc *)
    unfold with_scope in Hstep. destruct (nth_error (st_scs st) k) as [s|] eqn:Hk; [|discriminate].
    destruct (realloc c (st_a st) s p0 old new) as [[q a']| | |] eqn:Er; try discriminate.
    inversion Hstep; subst; clear Hstep.
    assert (Hal : forall p, p0 = Some p -> N.land (snd p) (c_ma c - 1) = 0).
    { intros p ->. simpl in Hapi. apply andb_true_iff in Hapi. destruct Hapi as [_ Hfind].
      destruct (find (is_user_at p old) (g_blocks g)) as [b|] eqn:Ef; [|discriminate].
      destruct (find_is_user _ _ _ _ Ef) as (Hb & _ & Hl & _).
      pose proof (live_aligned c Hwf _ _ _ R Hb) as Hm. unfold b_off in Hm. rewrite Hl in Hm.
      apply N.mod_divide in Hm; [|apply (ma_nz c Hwf)]. apply (land_aligned c Hwf _ Hm). }
    destruct (realloc_result_some _ _ _ _ _ _ _ Hal Er) as [q' ->].
    simpl in R'. destruct p0 as [p|]; simpl in Hpre |- *.
    + rewrite Hpre. cbn [negb]. destruct (loc_eqb p q') eqn:Eq.
      * apply (new_block_checks _ _ _ _ _ _ _ _ R').
      * destruct (inv_realloc c Hwf _ _ _ _ _ _ _ _ _ I Hapi Hk Er) as (_ & _ & _ & Hd).
        assert (Hne : q' <> p).
        { intros ->. unfold loc_eqb in Eq. rewrite Nat.eqb_refl, N.eqb_refl in Eq. discriminate. }
        specialize (Hd p q' eq_refl eq_refl Hne).
        pose proof (new_block_checks _ _ _ _ _ _ _ _ R') as Hc. apply check_new_block_spec in Hc.
        apply check_new_block_spec. destruct Hc as (C1 & C2 & C3 & _). auto.
    + apply (new_block_checks _ _ _ _ _ _ _ _ R').
  - unfold with_scope, lift_alloc in Hstep. destruct (nth_error (st_scs st) k) as [s|]; [|discriminate].
    destruct (alloc_str c (st_a st) s data) as [[q a1]| | |]; try discriminate.
    inversion Hstep; subst; clear Hstep. simpl in R'. simpl. apply (new_block_checks _ _ _ _ _ _ _ _ R').
  - unfold with_scope, lift_alloc in Hstep. destruct (nth_error (st_scs st) k) as [s|]; [|discriminate].
    destruct (alloc_str c (st_a st) s (cstr data)) as [[q a1]| | |]; try discriminate.
    inversion Hstep; subst; clear Hstep. simpl in R'. simpl. apply (new_block_checks _ _ _ _ _ _ _ _ R').
  - unfold with_scope, lift_alloc in Hstep. destruct (nth_error (st_scs st) k) as [s|]; [|discriminate].
    destruct (alloc_str c (st_a st) s data) as [[q a1]| | |]; try discriminate.
    inversion Hstep; subst; clear Hstep. simpl in R'. simpl. apply (new_block_checks _ _ _ _ _ _ _ _ R').
  - unfold with_scope in Hstep. destruct (nth_error (st_scs st) k) as [s|]; [|discriminate].
    destruct (cleanup c (st_a st) s tok) as [[[q a1] s']| | |]; try discriminate.
    inversion Hstep; subst; clear Hstep. simpl in R'. simpl. apply (new_block_checks _ _ _ _ _ _ _ _ R').
  - inversion Hstep; reflexivity.
  - inversion Hstep; reflexivity.
  - destruct (arena_free c (st_a st)); try discriminate. inversion Hstep; reflexivity.
Qed.

(* the verdicts the oracle may reach on the model's own trace: nothing, "the program left the
   API here", "this handle was never returned" - and, only for a source whose shrinking path
   is not validated ([c_sv c = false], the state before 4eb1227), the outer-scope shrink *)
Definition acceptable (r : option (nat * N)) : Prop :=
  match r with
  | None => True
  | Some (_, code) => code = R_OUTSIDE_API \/ code = R_BAD_HANDLE \/ (code = R_OUTER_SHRINK /\ c_sv c = false)
  end.

Lemma outside_code_cases g o :
  outside_code g o = R_OUTSIDE_API \/ (outside_code g o = R_OUTER_SHRINK /\ outer_shrink g o = true).
Proof. unfold outside_code. destruct (outer_shrink g o); auto. Qed.

(* only a LeaveAt written in the program becomes a LeaveAt *)
Lemma hop_leave tbl h k : hop_to_op tbl h = Some (LeaveAt k) -> h = HOp (LeaveAt k).
Proof.
  destruct h as [o|k0 [h0|] mis old new|h0 off n v|h0 off]; simpl.
  - intros H; inversion H; reflexivity.
  - destruct (resolve tbl h0); discriminate.
  - discriminate.
  - destruct (resolve tbl h0); discriminate.
  - destruct (resolve tbl h0); discriminate.
Qed.

Lemma nonlifo_leave_spec g o k : nonlifo_leave g o = Some k -> o = LeaveAt k /\ exists k', k = S k'.
Proof.
  destruct o as [|k0|k0 size|k0 nmemb size|k0 p0 old new|k0 data|k0 data|k0 data|k0 tok|p n v|p|]; simpl; try discriminate.
  destruct k0 as [|k']; simpl; [discriminate|].
  destruct (S k' <? depth g)%nat; [|discriminate]. intros H; inversion H; subst. split; [reflexivity|eauto].
Qed.

(* a realloc that answers NULL has changed nothing *)
Lemma realloc_null_same st k p0 old new st' :
  step c st (Realloc k p0 old new) = Ok (st', EPtr None) -> st' = st.
Proof.
  unfold step. destruct (a_refs (st_a st) =? 0); [discriminate|].
  unfold with_scope. destruct (nth_error (st_scs st) k) as [s|]; [|discriminate].
  destruct (realloc c (st_a st) s p0 old new) as [[q a']| | |] eqn:Er; try discriminate.
  intros H; inversion H; subst; clear H.
  unfold realloc in Er. destruct p0 as [p|].
  - destruct (negb (N.land (snd p) (c_ma c - 1) =? 0)).
    + inversion Er; subst. apply state_eta.
    + destruct (realloc_fast c (st_a st) s p old new) as [[[|] a1]| | |]; try discriminate.
      destruct (malloc c (st_a st) s new) as [[q1 a2]| | |]; discriminate.
  - destruct (malloc c (st_a st) s new) as [[q1 a2]| | |]; discriminate.
Qed.

Lemma refused_spec o ob : refused o ob = true -> exists k p0 old new, o = Realloc k p0 old new /\ o_ev ob = EPtr None.
Proof.
  unfold refused. destruct o as [|k|k size|k nmemb size|k p0 old new|k data|k data|k data|k tok|p n v|p|];
    try (destruct (o_ev ob) as [|[q|]|toks reset|x]; discriminate).
  destruct (o_ev ob) as [|[q|]|toks reset|x]; try discriminate. intros _. eauto 6.
Qed.

(* For EVERY program: the oracle's verdict on the model's own trace is one of the above - unless the
   program leaves a scope that is not the innermost one ([has_nonlifo], a predicate on the program):
   then the oracle may object to the model itself, and rightly so (nonlifo_verdicts below). *)
Theorem model_trace_accepted ops : forall st g tbl i,
  reach c st g ->
  let '(tr, last, e) := mtrace c st g tbl ops in
  acceptable (spec_walk c false g tbl i tr last e) \/ has_nonlifo ops = true.
Proof.
  induction ops as [|h rest IH]; intros st g tbl i R.
  - simpl. left. exact I.
  - cbn [mtrace]. destruct (hop_to_op tbl h) as [o|] eqn:Eh.
    2:{ cbn [spec_walk]. rewrite Eh. left. simpl. right. left. reflexivity. }
    destruct (nonlifo_leave g o) as [k|] eqn:Enl.
    { (* a leave of a scope that is not the innermost one: the program is outside the guard *)
      destruct (nonlifo_leave_spec _ _ _ Enl) as [-> [k' ->]]. apply hop_leave in Eh. subst h.
      destruct (step c st (LeaveAt (S k'))) as [[st' ev]| | |]; [destruct (mtrace c st' _ _ rest) as [[tr last] e]|..];
        right; reflexivity. }
    destruct (api_okb g o) eqn:Eapi.
    2:{ (* outside the API *)
        destruct (step c st o) as [[st' ev]| | |] eqn:Es.
        - destruct (refused o (obs_of g o st st' ev)) eqn:Eref.
          + (* the arena refused: nothing changed, the walk goes on *)
            destruct (refused_spec _ _ Eref) as (k & p0 & old & new & -> & Eev). simpl in Eev. subst ev.
            pose proof (realloc_null_same _ _ _ _ _ _ Es) as ->.
            specialize (IH st g (tbl ++ [None]) (S i) R). cbn [returns_ptr].
            change (gstep c g (Realloc k p0 old new) (EPtr None)) with g.
            destruct (mtrace c st g (tbl ++ [None]) rest) as [[tr last] e].
            cbn [spec_walk]. rewrite Eh, Enl, Eapi. cbn [negb returns_ptr obs_of o_ev]. rewrite Eref.
            destruct IH as [IH|IH]; [left; exact IH|right]. simpl. rewrite IH. apply orb_true_r.
          + destruct (mtrace c st' _ _ rest) as [[tr last] e]. cbn [spec_walk]. rewrite Eh, Enl, Eapi. cbn [negb].
            rewrite Eref. left. simpl.
            destruct (outside_code_cases g o) as [->|[-> Hos]]; [left; reflexivity|].
            right. right. split; [reflexivity|].
            destruct (c_sv c) eqn:Esv; [|reflexivity].
            rewrite (outer_shrink_traps_validated c Hwf _ _ _ Esv R Hos) in Es. discriminate.
        - left. cbn [spec_walk]. rewrite Eh. unfold check_ending. rewrite Enl, Eapi. simpl. exact I.
        - left. cbn [spec_walk]. rewrite Eh. unfold check_ending. rewrite Enl, Eapi. simpl. exact I.
        - left. cbn [spec_walk]. rewrite Eh. unfold check_ending. rewrite Enl, Eapi. simpl. exact I. }
    destruct (must_trap c o) eqn:Emt.
    + rewrite (outer_use_traps c Hwf _ _ _ R Eapi Emt). left. cbn [spec_walk]. rewrite Eh.
      unfold check_ending. rewrite Enl, Eapi, Emt. simpl. exact I.
    + destruct (inner_use_ok c Hwf _ _ _ R Eapi Emt) as [(st' & ev & Es)|[Es Hme]]; rewrite Es.
      * assert (R' : reach c st' (gstep c g o ev)) by (eapply reach_step; eassumption).
        specialize (IH st' (gstep c g o ev)
                      (if returns_ptr o then tbl ++ [match ev with EPtr p => p | _ => None end] else tbl)
                      (S i) R').
        destruct (mtrace c st' _ _ rest) as [[tr last] e]. cbn [spec_walk]. rewrite Eh, Enl, Eapi, Emt. cbn [negb].
        rewrite (check_obs_model _ _ _ _ _ R Eapi Es). cbn [N.eqb negb obs_of o_ev].
        destruct IH as [IH|IH]; [left; exact IH|right]. simpl. rewrite IH. apply orb_true_r.
      * left. cbn [spec_walk]. rewrite Eh. unfold check_ending. rewrite Enl, Eapi, Emt, Hme. simpl. exact I.
Qed.

(* from arena_alloc, with the empty handle table *)
Corollary model_passes_oracle st ops :
  init c = Some st ->
  let '(tr, last, e) := mtrace c st ghost0 [] ops in
  acceptable (spec_check c tr last e) \/ has_nonlifo ops = true.
Proof.
  intros Hi. unfold spec_check. apply (model_trace_accepted ops st ghost0 [] O).
  constructor. assumption.
Qed.

(* with the source as it is now (c_sv) and a program that leaves scopes innermost first: no
   verdict but "outside the API" / "unknown handle" *)
Corollary model_passes_oracle_validated st ops :
  c_sv c = true -> init c = Some st -> has_nonlifo ops = false ->
  let '(tr, last, e) := mtrace c st ghost0 [] ops in
  match spec_check c tr last e with
  | None => True
  | Some (_, code) => code = R_OUTSIDE_API \/ code = R_BAD_HANDLE
  end.
Proof.
  intros Hsv Hi Hnl. pose proof (model_passes_oracle st ops Hi) as H.
  destruct (mtrace c st ghost0 [] ops) as [[tr last] e].
  destruct H as [H|H]; [|congruence].
  destruct (spec_check c tr last e) as [[i code]|]; [|exact I].
  simpl in H. destruct H as [H|[H|[_ H]]]; auto. congruence.
Qed.

(* ---- where the model stops being claimed ([cut_exposed]): never inside the API ------------------ *)
Lemma returned_is_live st g o st' p :
  reach c st g -> api_okb g o = true -> step c st o = Ok (st', EPtr (Some p)) ->
  exists b, In b (g_blocks (gstep c g o (EPtr (Some p)))) /\ b_loc b = p.
Proof.
  intros R Hapi Hstep. unfold step in Hstep. destruct (a_refs (st_a st) =? 0); [discriminate|].
  destruct o; simpl; unfold with_scope, lift_alloc in Hstep;
    try (eexists; split; [left; reflexivity|reflexivity]).
  - destruct (scope_enter (st_a st)) as [[? ?]| | |]; discriminate.
  - destruct (nth_error (st_scs st) k); [|discriminate].
    destruct (scope_leave c (st_ncl st) (st_a st) s) as [[[? ?] ?]| | |]; discriminate.
  - discriminate.
  - discriminate.
  - destruct (arena_free c (st_a st)); discriminate.
Qed.

Lemma leave_event_op st o st' toks reset : step c st o = Ok (st', ELeave toks reset) -> exists k, o = LeaveAt k.
Proof.
  unfold step. destruct (a_refs (st_a st) =? 0); [discriminate|].
  destruct o as [|k|k size|k nmemb size|k p0 old new|k data|k data|k data|k tok|p n v|p|];
    unfold with_scope, lift_alloc; try (intros H; discriminate); try (intros _; eauto; fail).
  - destruct (scope_enter (st_a st)) as [[? ?]| | |]; discriminate.
  - destruct (nth_error (st_scs st) k); [|discriminate]. destruct (malloc c (st_a st) s size) as [[? ?]| | |]; discriminate.
  - destruct (nth_error (st_scs st) k); [|discriminate]. destruct (calloc c (st_a st) s nmemb size) as [[? ?]| | |]; discriminate.
  - destruct (nth_error (st_scs st) k); [|discriminate].
    destruct (realloc c (st_a st) s p0 old new) as [[? ?]| | |]; discriminate.
  - destruct (nth_error (st_scs st) k); [|discriminate]. destruct (alloc_str c (st_a st) s data) as [[? ?]| | |]; discriminate.
  - destruct (nth_error (st_scs st) k); [|discriminate]. destruct (alloc_str c (st_a st) s (cstr data)) as [[? ?]| | |]; discriminate.
  - destruct (nth_error (st_scs st) k); [|discriminate]. destruct (alloc_str c (st_a st) s data) as [[? ?]| | |]; discriminate.
  - destruct (nth_error (st_scs st) k); [|discriminate]. destruct (cleanup c (st_a st) s tok) as [[[? ?] ?]| | |]; discriminate.
  - destruct (arena_free c (st_a st)); discriminate.
Qed.

(* no API-respecting step takes the "len = 0" branch or hands out memory below the frame header:
   [cut_exposed] never cuts a run inside the guard of the theorems *)
(* a run whose events do not expose and whose program leaves scopes innermost first is never cut *)
Lemma cut_obs_id ops : forall nfr obs,
  has_nonlifo ops = false -> Forall (fun x => exposes c (fst x) = false) obs ->
  (length obs <= length ops)%nat -> cut_obs c nfr ops obs = (obs, false).
Proof.
  induction ops as [|o ops IH]; intros nfr obs Hnl Hex Hlen.
  - destruct obs; [reflexivity|simpl in Hlen; lia].
  - destruct obs as [|x rest]; [reflexivity|]. cbn [cut_obs].
    inversion Hex as [|? ? Hx Hrest]; subst. rewrite Hx.
    simpl in Hnl. apply orb_false_iff in Hnl. destruct Hnl as [Ho Hnl]. rewrite Ho. cbn [orb andb].
    rewrite IH; [reflexivity|assumption|assumption|simpl in Hlen; lia].
Qed.

Theorem api_step_not_exposing st g o st' ev :
  reach c st g -> api_okb g o = true -> step c st o = Ok (st', ev) -> exposes c ev = false.
Proof.
  intros R Hapi Hstep. destruct ev as [|[p|]|toks reset|x]; try reflexivity.
  - destruct (returned_is_live _ _ _ _ _ R Hapi Hstep) as (b & Hb & <-).
    assert (R' : reach c st' (gstep c g o (EPtr (Some (b_loc b))))) by (eapply reach_step; eassumption).
    destruct (live_inside c Hwf _ _ _ R' Hb) as (fr & _ & H & _). unfold b_off in H.
    simpl. apply N.ltb_ge. assumption.
  - destruct (leave_event_op _ _ _ _ _ Hstep) as [k ->].
    assert (k = O). { simpl in Hapi. apply andb_true_iff in Hapi. destruct Hapi as [H _]. apply Nat.eqb_eq in H. assumption. }
    subst k. destruct (leave_spec c Hwf _ _ _ _ _ R Hapi Hstep) as (-> & _). reflexivity.
Qed.

End Oracle.

(* the trace judged above is the run the correspondence driver prints (hrun) *)
Lemma hrun_mtrace c ops : forall st g tbl,
  map fst (fst (hrun c st tbl ops)) = map (fun x => o_ev (snd x)) (fst (fst (mtrace c st g tbl ops))) /\
  snd (hrun c st tbl ops) = snd (mtrace c st g tbl ops).
Proof.
  induction ops as [|h rest IH]; intros st g tbl; simpl; [split; reflexivity|].
  destruct (hop_to_op tbl h) as [o|]; [|split; reflexivity].
  destruct (step c st o) as [[st' ev]| | |]; try (split; reflexivity).
  specialize (IH st' (gstep c g o ev) (if returns_ptr o then tbl ++ [match ev with EPtr p => p | _ => None end] else tbl)).
  destruct (hrun c st' _ rest) as [obs e]. destruct (mtrace c st' _ _ rest) as [[tr last] e'].
  simpl in *. destruct IH as [IH1 IH2]. split; [f_equal; assumption|assumption].
Qed.


(* ---- the oracle's verdict on the model's own run of the two non-LIFO witnesses ---------------------
   (the signature the harness reports for arena.c is the verdict the oracle reaches on the model) *)
Definition model_verdict (c : cfg) (ops : list hop) : option (nat * N) :=
  match init c with
  | Some st => let '(tr, last, e) := mtrace c st ghost0 [] ops in spec_check c tr last e
  | None => None
  end.

(* input 1 of findings/C19_nonlifo_leave.md: A, B nested, block in B, leave A, enter C, allocate:
   the oracle reports the hand-out of B's block (operation 7) as R_NONLIFO *)
Definition nonlifo_overlap_prog : list hop :=
  [HOp Enter; HOp (Malloc 0 16); HOp Enter; HOp (Malloc 0 16); HFill 1 0 16 66; HOp (LeaveAt 1); HOp Enter;
   HOp (Malloc 0 32)].
(* input 2: leave A, then B: the "len = 0" branch (operation 5) is reported as R_NONLIFO *)
Definition nonlifo_reset_prog : list hop :=
  [HOp Enter; HOp (Malloc 0 16); HOp Enter; HOp (Malloc 0 16); HOp (LeaveAt 1); HOp (LeaveAt 0); HOp Enter;
   HOp (Malloc 0 16)].

Definition nonlifo_flagged (c : cfg) : bool :=
  match model_verdict c nonlifo_overlap_prog, model_verdict c nonlifo_reset_prog with
  | Some (7%nat, r1), Some (5%nat, r2) => (r1 =? R_NONLIFO) && (r2 =? R_NONLIFO)
  | _, _ => false
  end.

Lemma nonlifo_flagged_builds :
  Forall (fun ps => nonlifo_flagged (cfg_of poison_normal ps) = true /\ nonlifo_flagged (cfg_of poison_asan ps) = true)
         [4096; 8192; 16384; 65536].
Proof. repeat constructor; vm_compute; reflexivity. Qed.

(* and the model's answer to the driver stops there: [cut_exposed] says Unmodelled on input 2 *)
Definition reset_unmodelled (c : cfg) : bool :=
  match init c with
  | Some st => match snd (cut_exposed c nonlifo_reset_prog (hrun c st [] nonlifo_reset_prog)) with
               | Unmodelled => true | _ => false end
  | None => false
  end.

Lemma reset_unmodelled_builds :
  Forall (fun ps => reset_unmodelled (cfg_of poison_normal ps) = true /\ reset_unmodelled (cfg_of poison_asan ps) = true)
         [4096; 8192; 16384; 65536].
Proof. repeat constructor; vm_compute; reflexivity. Qed.
