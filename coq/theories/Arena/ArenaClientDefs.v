(* ArenaClientDefs.v - arena-backed buffers and vectors as clients of the arena: definitions only
   (extracted for the correspondence driver; the lemmas are in ArenaClients.v).

   libks/arena-buffer.c and libks/arena-vector.c hand the arena to buffer.c / vector.c as three
   callbacks; their realloc callback passes (ptr, old, new) unchanged to arena_realloc.  The only
   calls that reach the arena after creation are
     buffer_reserve   -> realloc(bf_ptr, <ar_buf_old>, <ar_buf_new newsiz>)              (buffer.c)
     vector_reserve1  -> realloc(vc, <ar_vec_old>, <ar_vec_new newsiz>)                   (vector.c)
   with newsiz obtained by the doubling loop.  The old-size and new-size expressions, the initial
   capacity, the factor and the overflow guard of the loop, and sizeof(struct vector) are
   GENERATED from buffer.c / vector.c on every run (RobsdGen.Gen_Arena, harness/t_arena.py, which
   also pins the statements around them and the callbacks of arena-buffer.c / arena-vector.c);
   [buf_reserve] / [vec_reserve] below are defined from those items.  They compute the call as an
   [op] from the container's fields (None = EOVERFLOW, Some None = enough room, no call).  The
   harness compares them with every realloc the real buffer.c / vector.c issue (traced by
   arena_harness.c). *)
From Robsd Require Import Base.Bytes Arena.ArenaDefs.
From RobsdGen Require Import Gen_Arena.
Local Open Scope N_scope.

Definition ULONG_MAX : N := SIZE_LIMIT - 1.

(* while (newsiz < target) { if (newsiz > ULONG_MAX / guard) overflow; newsiz *= factor; } *)
Fixpoint dbl (guard factor : N) (fuel : nat) (s target : N) : option N :=
  if s <? target then
    match fuel with
    | O => None
    | S f => if ULONG_MAX / guard <? s then None else dbl guard factor f (factor * s) target
    end
  else Some s.

(* ---- struct buffer ------------------------------------------------------------------------------ *)
Record buf := mkBuf { bf_ptr : option loc; bf_siz : N; bf_len : N }.

(* buffer_reserve(bf, len): the new capacity (None = EOVERFLOW, Some None = enough room) ... *)
Definition buf_newsiz (bf : buf) (len : N) : option (option N) :=
  if ULONG_MAX - bf_len bf <? len then None else
  let newlen := bf_len bf + len in
  if (0 <? bf_siz bf) && (newlen <=? bf_siz bf) then Some None else
  match dbl ar_buf_dbl_guard ar_buf_dbl_factor 64 (if bf_siz bf =? 0 then ar_buf_init_cap else bf_siz bf) newlen with
  | None => None
  | Some newsiz => Some (Some newsiz)
  end.

(* ... and the call it issues through the scope with index k *)
Definition buf_reserve (k : nat) (bf : buf) (len : N) : option (option op) :=
  match buf_newsiz bf len with
  | None => None
  | Some None => Some None
  | Some (Some newsiz) => Some (Some (Realloc k (bf_ptr bf) (ar_buf_old (bf_siz bf) (bf_len bf)) (ar_buf_new newsiz)))
  end.

(* ---- struct vector --------------------------------------------------------------------------------- *)
(* v_ptr is the address of struct vector itself (what the callbacks see), vhdr = sizeof(struct vector) *)
Record vec := mkVec { v_ptr : loc; v_siz : N; v_len : N; v_stride : N }.

(* vector_reserve1(&vc, n): the new capacity ... *)
Definition vec_newsiz (vhdr : N) (v : vec) (n : N) : option (option N) :=
  if ULONG_MAX - n <? v_len v then None else
  if v_len v + n <=? v_siz v then Some None else
  match dbl ar_vec_dbl_guard ar_vec_dbl_factor 64 (if v_siz v =? 0 then ar_vec_init_cap else v_siz v) (v_len v + n) with
  | None => None
  | Some newsiz =>
      if ULONG_MAX / v_stride v <? newsiz then None
      else if ULONG_MAX - vhdr <? newsiz * v_stride v then None
      else Some (Some newsiz)
  end.

(* ... and the call it issues through the scope with index k *)
Definition vec_reserve (vhdr : N) (k : nat) (v : vec) (n : N) : option (option op) :=
  match vec_newsiz vhdr v n with
  | None => None
  | Some None => Some None
  | Some (Some newsiz) =>
      Some (Some (Realloc k (Some (v_ptr v)) (ar_vec_old vhdr (v_siz v) (v_len v) (v_stride v))
                          (ar_vec_new vhdr newsiz (v_stride v))))
  end.

(* what the driver prints: the old and the new size of the call, if one is issued *)
Definition reserve_sizes (r : option (option op)) : option (option (N * N)) :=
  match r with
  | None => None
  | Some None => Some None
  | Some (Some (Realloc _ _ old new)) => Some (Some (old, new))
  | Some (Some _) => None
  end.

(* ---- container histories, for the correspondence driver -----------------------------------------------
   The calling patterns of buffer.c / vector.c around the reserve (pinned as text by t_arena.py):
     buffer_alloc_impl(init)   = buffer_reserve(bf, init)
     buffer_puts(bf, s, n)     = nothing for n = 0, else buffer_reserve(bf, n); bf_len += n
     arena_vector_init(.., n)  = vector_reserve(vv, n)          (for n > 0; for n = 0 there is room)
     vector_reserve(vv, n)     = vector_reserve1(&vc, n)
     vector_alloc(vv)          = vector_reserve1(&vc, 1); len++
   [buf_hist] / [vec_hist] answer, per operation, the (old, new) sizes of the realloc calls issued
   (None = EOVERFLOW).  [buf_calls] / [vec_calls] are the sizes of the call [buf_reserve] /
   [vec_reserve] issue (ArenaClients.buf_calls_reserve, vec_calls_reserve). *)
Inductive cop := CRes (n : N) | CPut (n : N) | CAlloc (cnt : nat).

Definition buf_after (bf : buf) (r : option N) : buf :=
  match r with None => bf | Some ns => mkBuf (bf_ptr bf) ns (bf_len bf) end.
Definition buf_calls (bf : buf) (r : option N) : list (N * N) :=
  match r with None => [] | Some ns => [(ar_buf_old (bf_siz bf) (bf_len bf), ar_buf_new ns)] end.

Definition buf_op (bf : buf) (o : cop) : option (list (N * N) * buf) :=
  match o with
  | CRes n => match buf_newsiz bf n with
              | None => None
              | Some r => Some (buf_calls bf r, buf_after bf r)
              end
  | CPut n => if n =? 0 then Some ([], bf) else
              match buf_newsiz bf n with
              | None => None
              | Some r => let b1 := buf_after bf r in
                          Some (buf_calls bf r, mkBuf (bf_ptr b1) (bf_siz b1) (bf_len b1 + n))
              end
  | CAlloc _ => None
  end.

Definition vec_after (v : vec) (r : option N) : vec :=
  match r with None => v | Some ns => mkVec (v_ptr v) ns (v_len v) (v_stride v) end.
Definition vec_calls (vhdr : N) (v : vec) (r : option N) : list (N * N) :=
  match r with
  | None => []
  | Some ns => [(ar_vec_old vhdr (v_siz v) (v_len v) (v_stride v), ar_vec_new vhdr ns (v_stride v))]
  end.

Fixpoint vec_allocs (vhdr : N) (v : vec) (cnt : nat) : option (list (N * N) * vec) :=
  match cnt with
  | O => Some ([], v)
  | S c' =>
      match vec_newsiz vhdr v 1 with
      | None => None
      | Some r =>
          let v1 := vec_after v r in
          match vec_allocs vhdr (mkVec (v_ptr v1) (v_siz v1) (v_len v1 + 1) (v_stride v1)) c' with
          | None => None
          | Some (l, v2) => Some (vec_calls vhdr v r ++ l, v2)
          end
      end
  end.

Definition vec_op (vhdr : N) (v : vec) (o : cop) : option (list (N * N) * vec) :=
  match o with
  | CRes n => match vec_newsiz vhdr v n with
              | None => None
              | Some r => Some (vec_calls vhdr v r, vec_after v r)
              end
  | CAlloc cnt => vec_allocs vhdr v cnt
  | CPut _ => None
  end.

Fixpoint hist {S : Type} (f : S -> cop -> option (list (N * N) * S)) (s : S) (ops : list cop)
  : list (option (list (N * N))) :=
  match ops with
  | [] => []
  | o :: r => match f s o with
              | None => [None]
              | Some (l, s') => Some l :: hist f s' r
              end
  end.

Definition buf_hist (ops : list cop) : list (option (list (N * N))) := hist buf_op (mkBuf None 0 0) ops.
Definition vec_hist (vhdr stride : N) (ops : list cop) : list (option (list (N * N))) :=
  hist (vec_op vhdr) (mkVec (O, 0) 0 0 stride) ops.
