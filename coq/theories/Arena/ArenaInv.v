(* ArenaInv.v - the invariant of the arena model and its preservation by every
   API-respecting operation (C19). *)
From Robsd Require Import Base.Bytes Arena.ArenaDefs Arena.ArenaSpec Arena.ArenaProofs.
Local Open Scope N_scope.

(* ======================================================================== *)
(* 3. the invariant                                                          *)
(* ======================================================================== *)
Section Inv.
Variable c : cfg.
Hypothesis Hwf : wf_cfg c.

Definition fsz (l : list frame) (i : nat) : N :=
  match frame_at l i with Some fr => f_size fr | None => 0 end.

(* a live block lies behind the header of an existing frame, is aligned, and
   the bump pointer has passed it (including its padding and poison gap) *)
Definition blk_ok (l : list frame) (b : gblock) : Prop :=
  exists fr, frame_at l (b_fi b) = Some fr /\ c_hdr c <= b_off b /\ (c_ma c | b_off b) /\
             b_end b <= f_len fr /\ bump c (f_size fr) (b_end b) <= f_len fr.

(* two live blocks of one frame were carved out one after the other *)
Definition stacked (l : list frame) (b1 b2 : gblock) : Prop :=
  b_fi b1 = b_fi b2 ->
  bump c (fsz l (b_fi b1)) (b_end b1) <= b_off b2 \/
  bump c (fsz l (b_fi b1)) (b_end b2) <= b_off b1 \/
  (c_gap c = 0 /\ (b_size b1 = 0 \/ b_size b2 = 0)).

Definition mark_ok (l : list frame) (s : scope) : Prop :=
  exists fr, (1 <= s_nframes s)%nat /\ frame_at l (s_nframes s - 1) = Some fr /\
             s_flen s <= f_len fr /\ c_hdr c <= s_flen s /\ (c_ma c | s_flen s).

Definition mark_le (outer inner : scope) : Prop :=
  (s_nframes outer < s_nframes inner)%nat \/
  (s_nframes outer = s_nframes inner /\ s_flen outer <= s_flen inner).

(* block b lies entirely below the point scope s rewinds to *)
Definition below (l : list frame) (b : gblock) (s : scope) : Prop :=
  (S (b_fi b) < s_nframes s)%nat \/
  (S (b_fi b) = s_nframes s /\ b_end b <= s_flen s /\ bump c (fsz l (b_fi b)) (b_end b) <= s_flen s).

(* geometry: frames, scope marks, blocks.  d = number of open scopes *)
Record geo (l : list frame) (refs : N) (scs : list scope) (blocks : list gblock) (d : nat) (freed : bool)
  : Prop := mkGeo {
  g_len : length scs = d;
  g_refs : refs = N.of_nat d + (if freed then 0 else 1);
  g_ids : forall k s, nth_error scs k = Some s -> s_id s = N.of_nat (d - k) + 1;
  g_frames : Forall (frame_ok c) l;
  g_nonempty : refs <> 0 -> l <> [];
  g_marks : Forall (mark_ok l) scs;
  g_sorted : ForallOrdPairs (fun inner outer => mark_le outer inner) scs;
  g_blks : Forall (blk_ok l) blocks;
  g_lvl : Forall (fun b => (1 <= b_lvl b <= d)%nat) blocks;
  g_stacked : ForallOrdPairs (stacked l) blocks;
  g_below : forall b k s, In b blocks -> nth_error scs k = Some s -> (b_lvl b < d - k)%nat -> below l b s
}.

(* ---- list helpers ---------------------------------------------------------- *)
Lemma forallb_ext_In {A} (f g : A -> bool) l :
  (forall x, In x l -> f x = g x) -> forallb f l = forallb g l.
Proof.
  induction l as [|x t IH]; simpl; [reflexivity|]. intros H.
  rewrite H by (left; reflexivity). rewrite IH; [reflexivity|]. intros y Hy. apply H. right. assumption.
Qed.

Lemma FOP_impl_in {A} (R R' : A -> A -> Prop) l :
  (forall x y, In x l -> In y l -> R x y -> R' x y) -> ForallOrdPairs R l -> ForallOrdPairs R' l.
Proof.
  intros Himp H. induction H as [|a l Ha Hl IH]; [constructor|].
  constructor.
  - rewrite Forall_forall in *. intros y Hy. apply Himp; [left; reflexivity|right; assumption|auto].
  - apply IH. intros x y Hx Hy. apply Himp; right; assumption.
Qed.

Lemma In_remove_first {A} (f : A -> bool) l x : In x (remove_first f l) -> In x l.
Proof.
  induction l as [|y t IH]; simpl; [auto|]. destruct (f y); [auto|]. intros [->|H]; auto.
Qed.

Lemma Forall_remove_first {A} (P : A -> Prop) f l : Forall P l -> Forall P (remove_first f l).
Proof. rewrite !Forall_forall. intros H x Hx. apply H. eapply In_remove_first; eauto. Qed.

Lemma FOP_remove_first {A} (R : A -> A -> Prop) f l :
  ForallOrdPairs R l -> ForallOrdPairs R (remove_first f l).
Proof.
  intros H. induction H as [|a l Ha Hl IH]; simpl; [constructor|].
  destruct (f a); [assumption|]. constructor; [apply Forall_remove_first; assumption|assumption].
Qed.

Lemma FOP_filter {A} (R : A -> A -> Prop) f l :
  ForallOrdPairs R l -> ForallOrdPairs R (filter f l).
Proof.
  intros H. induction H as [|a l Ha Hl IH]; simpl; [constructor|].
  destruct (f a); [|assumption]. constructor; [|assumption].
  rewrite Forall_forall in *. intros x Hx. apply filter_In in Hx. apply Ha, Hx.
Qed.

Lemma Forall_filter {A} (P : A -> Prop) f l : Forall P l -> Forall P (filter f l).
Proof. rewrite !Forall_forall. intros H x Hx. apply filter_In in Hx. apply H, Hx. Qed.

(* the element found is related to everything that remains *)
Lemma FOP_found {A} (R : A -> A -> Prop) f l b :
  (forall x y, R x y -> R y x) ->
  ForallOrdPairs R l -> find f l = Some b -> forall x, In x (remove_first f l) -> R b x.
Proof.
  intros Hsym H. induction H as [|a l Ha Hl IH]; simpl; [discriminate|].
  destruct (f a) eqn:Efa.
  - intros Hb x Hx. inversion Hb; subst. rewrite Forall_forall in Ha. auto.
  - intros Hb x [->|Hx]; [|auto].
    apply Hsym. rewrite Forall_forall in Ha. apply Ha. apply find_some in Hb. apply Hb.
Qed.

Lemma is_user_at_spec p old b :
  is_user_at p old b = true ->
  b_node b = false /\ b_loc b = p /\ old <= b_size b /\ (b_size b = old \/ 0 < old).
Proof.
  unfold is_user_at. intros Hf.
  apply andb_true_iff in Hf. destruct Hf as [Hf Hs]. apply andb_true_iff in Hf. destruct Hf as [Hn Hl].
  split; [now destruct (b_node b)|].
  unfold loc_eqb in Hl. apply andb_true_iff in Hl. destruct Hl as [H1 H2].
  apply Nat.eqb_eq in H1. apply N.eqb_eq in H2.
  split; [destruct (b_loc b), p; simpl in *; congruence|].
  apply orb_true_iff in Hs. destruct Hs as [Hs|Hs].
  - apply N.eqb_eq in Hs. split; [lia|left; assumption].
  - apply andb_true_iff in Hs. destruct Hs as [H3 H4]. apply N.ltb_lt in H3. apply N.ltb_lt in H4.
    split; [lia|right; assumption].
Qed.

(* the block a realloc names: a live user block at p of at least [old] bytes *)
Lemma find_is_user p old blocks b :
  find (is_user_at p old) blocks = Some b ->
  In b blocks /\ b_node b = false /\ b_loc b = p /\ old <= b_size b.
Proof.
  intros H. apply find_some in H. destruct H as [Hin Hf].
  destruct (is_user_at_spec _ _ _ Hf) as (H1 & H2 & H3 & _). auto.
Qed.

(* ---- extension of the frame list -------------------------------------------- *)
Lemma fsz_ext l l' i fr : frames_ext l l' -> frame_at l i = Some fr -> fsz l' i = fsz l i.
Proof.
  intros He H. unfold fsz. rewrite H. destruct (He _ _ H) as (fr' & H' & Hs & _). now rewrite H'.
Qed.

Lemma blk_ok_ext l l' b : frames_ext l l' -> blk_ok l b -> blk_ok l' b.
Proof.
  intros He (fr & Hf & H1 & H2 & H3 & H4). destruct (He _ _ Hf) as (fr' & Hf' & Hs & Hl).
  exists fr'. rewrite Hs. repeat split; auto; lia.
Qed.

Lemma stacked_ext l l' b1 b2 : frames_ext l l' -> blk_ok l b1 -> stacked l b1 b2 -> stacked l' b1 b2.
Proof. intros He (fr & Hf & _) Hs Heq. rewrite (fsz_ext _ _ _ _ He Hf). auto. Qed.

Lemma below_ext l l' b s : frames_ext l l' -> blk_ok l b -> below l b s -> below l' b s.
Proof.
  intros He (fr & Hf & _) [H|H]; [left; assumption|right]. rewrite (fsz_ext _ _ _ _ He Hf). assumption.
Qed.

Lemma mark_ok_ext l l' s : frames_ext l l' -> mark_ok l s -> mark_ok l' s.
Proof.
  intros He (fr & H1 & Hf & H2 & H3 & H4). destruct (He _ _ Hf) as (fr' & Hf' & Hs & Hl).
  exists fr'. repeat split; auto; lia.
Qed.

Lemma stacked_sym l b1 b2 : stacked l b1 b2 -> stacked l b2 b1.
Proof.
  intros H Heq. symmetry in Heq. specialize (H Heq). rewrite <- Heq.
  destruct H as [H|[H|[H0 [H|H]]]]; auto.
Qed.

Lemma geo_ext l l' refs scs blocks d freed :
  geo l refs scs blocks d freed -> frames_ext l l' -> Forall (frame_ok c) l' -> l' <> [] ->
  geo l' refs scs blocks d freed.
Proof.
  intros G He Hf Hne. destruct G. constructor; auto.
  - eapply Forall_impl; [|exact g_marks0]. intros s. apply mark_ok_ext; assumption.
  - eapply Forall_impl; [|exact g_blks0]. intros b. apply blk_ok_ext; assumption.
  - eapply FOP_impl_in; [|exact g_stacked0]. intros x y Hx Hy. apply stacked_ext; [assumption|].
    rewrite Forall_forall in g_blks0. auto.
  - intros b k s Hb Hk Hl. eapply below_ext; [eassumption| |eauto].
    rewrite Forall_forall in g_blks0. auto.
Qed.

(* a new block owned by the scope of level lvl *)
Lemma geo_add l refs scs blocks d freed nb :
  geo l refs scs blocks d freed -> blk_ok l nb -> (1 <= b_lvl nb <= d)%nat ->
  (forall b, In b blocks -> stacked l nb b) ->
  (forall k s, nth_error scs k = Some s -> (b_lvl nb < d - k)%nat -> below l nb s) ->
  geo l refs scs (nb :: blocks) d freed.
Proof.
  intros G Hok Hlvl Hst Hbel. destruct G. constructor; try assumption.
  - constructor; assumption.
  - constructor; assumption.
  - constructor; [|assumption]. rewrite Forall_forall. assumption.
  - intros b k s [<-|Hb] Hk Hl; eauto.
Qed.

Lemma geo_remove l refs scs blocks d freed f :
  geo l refs scs blocks d freed -> geo l refs scs (remove_first f blocks) d freed.
Proof.
  intros G. destruct G. constructor; auto using Forall_remove_first, FOP_remove_first.
  intros b k s Hb. apply g_below0. eapply In_remove_first; eauto.
Qed.

(* the caller's scope struct changes only in its cleanup pointer *)
Definition same_marks (s s' : scope) : Prop :=
  s_nframes s' = s_nframes s /\ s_flen s' = s_flen s /\ s_id s' = s_id s.

Lemma geo_scs l refs scs scs' blocks d freed :
  geo l refs scs blocks d freed -> Forall2 same_marks scs scs' -> geo l refs scs' blocks d freed.
Proof.
  intros G HF. destruct G.
  assert (Hnth : forall k s', nth_error scs' k = Some s' ->
                 exists s, nth_error scs k = Some s /\ same_marks s s').
  { clear -HF. induction HF as [|x y lx ly Hxy HF IH]; intros [|k] s'; simpl; try discriminate.
    - intros H; inversion H; subst. eauto.
    - apply IH. }
  constructor; auto.
  - rewrite <- g_len0. clear -HF. induction HF; simpl; congruence.
  - intros k s' Hk. destruct (Hnth _ _ Hk) as (s & Hs & _ & _ & Hid). rewrite Hid. eauto.
  - clear -HF g_marks0. induction HF as [|x y lx ly Hxy HF IH]; [constructor|].
    inversion g_marks0; subst. constructor; [|auto].
    destruct Hxy as (E1 & E2 & _). destruct H1 as (fr & H). exists fr. rewrite E1, E2. assumption.
  - clear -HF g_sorted0. induction HF as [|x y lx ly Hxy HF IH]; [constructor|].
    inversion g_sorted0; subst. constructor; [|auto].
    clear -HF Hxy H1. induction HF as [|x' y' lx' ly' Hxy' HF IH]; [constructor|].
    inversion H1; subst. constructor; [|auto].
    destruct Hxy as (E1 & E2 & _). destruct Hxy' as (E1' & E2' & _).
    unfold mark_le in *. rewrite E1, E2, E1', E2'. assumption.
  - intros b k s' Hb Hk Hl. destruct (Hnth _ _ Hk) as (s & Hs & E1 & E2 & _).
    specialize (g_below0 b k s Hb Hs Hl). unfold below in *. rewrite E1, E2. assumption.
Qed.

End Inv.

(* ======================================================================== *)
(* 4. what arena_malloc does                                                 *)
(* ======================================================================== *)
Section Ops.
Variable c : cfg.
Hypothesis Hwf : wf_cfg c.

Record alloc_spec (a a' : arena) (p : loc) (size : N) : Prop := mkAS {
  as_refs : a_refs a' = a_refs a;
  as_ext : frames_ext (a_frames a) (a_frames a');
  as_ok : Forall (frame_ok c) (a_frames a');
  as_ne : a_frames a' <> [];
  as_blk : forall lvl node, blk_ok c (a_frames a') (mkB p size lvl node);
  as_fresh : forall fr, frame_at (a_frames a) (fst p) = Some fr -> f_len fr <= snd p;
  as_mem : forall f o, f <> fst p \/ (o < snd p /\ frame_at (a_frames a) f <> None) ->
                       a_mem a' f o = a_mem a f o
}.

Lemma mem_fill_out m p n v f o :
  f <> fst p \/ o < snd p \/ snd p + n <= o -> mem_fill m p n v f o = m f o.
Proof.
  intros H. unfold mem_fill, inrange.
  destruct (Nat.eqb_spec f (fst p)); simpl; [|reflexivity].
  destruct (N.leb_spec (snd p) o); simpl; [|reflexivity].
  destruct (N.ltb_spec o (snd p + n)); [|reflexivity]. lia.
Qed.

Lemma malloc_spec a s size p a' :
  Forall (frame_ok c) (a_frames a) -> malloc c a s size = Ok (p, a') ->
  validate a s = true /\ alloc_spec a a' p size.
Proof.
  intros Hfr. unfold malloc. destruct (validate a s) eqn:Ev; cbn [negb]; [|discriminate].
  destruct (a_frames a) as [|fr rest] eqn:Efr; [discriminate|].
  inversion Hfr as [|? ? Hfr0 Hrest]; subst.
  destruct (push c fr size) as [[off fr']|] eqn:Ep.
  - intros H; inversion H; subst; clear H. split; [reflexivity|].
    pose proof (push_frame_ok c Hwf _ _ _ _ Hfr0 Ep) as [Hok' Hle].
    apply push_some in Ep. destruct Ep as (-> & Hs & Hl & Hfit & _).
    destruct Hfr0 as (F1 & F2 & F3 & F4 & F5 & F6).
    constructor; simpl.
    + reflexivity.
    + rewrite Efr. apply frames_ext_top; assumption.
    + constructor; assumption.
    + discriminate.
    + intros lvl node. exists fr'. unfold b_fi, b_off, b_end; simpl.
      rewrite Nat.eqb_refl. rewrite Hs, Hl.
      pose proof (bump_ge c Hwf (f_size fr) (f_len fr + size) Hfit).
      repeat split; auto; lia.
    + rewrite Efr. rewrite frame_at_top. intros fr0 H0; inversion H0; subst. lia.
    + intros f o Ho. apply mem_fill_out. simpl. destruct Ho as [Ho|[Ho _]]; auto.
  - destruct ((SIZE_LIMIT <=? size + c_hdr c) || (SIZE_LIMIT <=? c_gap c + (size + c_hdr c))) eqn:Eov;
      [discriminate|].
    apply orb_false_iff in Eov. destruct Eov as [Eov1 Eov2].
    apply N.leb_gt in Eov1. apply N.leb_gt in Eov2.
    destruct (grow 64 (c_fsz0 c) (c_gap c + (size + c_hdr c))) as [fsz0|] eqn:Eg; [|discriminate].
    assert (Hf0 : c_fsz0 c < SIZE_LIMIT) by apply Hwf.
    apply grow_some in Eg; [|assumption]. destruct Eg as (Gtot & Gdiv & Glim).
    unfold frame_alloc.
    destruct (push c (mkFrame fsz0 0) (c_hdr c)) as [[off0 fr1]|] eqn:Ep1; [|discriminate].
    simpl. rewrite Efr.
    destruct (push c fr1 size) as [[off fr1']|] eqn:Ep2; [|discriminate].
    intros H; inversion H; subst; clear H. split; [reflexivity|].
    apply push_some in Ep1. simpl in Ep1. destruct Ep1 as (_ & Hs1 & Hl1 & Hfit1 & _).
    assert (Hma : (c_ma c | fsz0)).
    { apply N.divide_trans with (c_fsz0 c); [apply Hwf|assumption]. }
    assert (Hok1 : frame_ok c fr1).
    { unfold frame_ok. rewrite Hs1, Hl1.
      pose proof (bump_le_fs c fsz0 (0 + c_hdr c)).
      pose proof (bump_ge c Hwf fsz0 (0 + c_hdr c) Hfit1).
      pose proof (bump_aligned c Hwf fsz0 (0 + c_hdr c) Hma).
      repeat split; try assumption; lia. }
    pose proof (push_frame_ok c Hwf _ _ _ _ Hok1 Ep2) as [Hok' Hle].
    apply push_some in Ep2. destruct Ep2 as (-> & Hs & Hl & Hfit & _).
    destruct Hok1 as (F1 & F2 & F3 & F4 & F5 & F6).
    constructor; simpl.
    + reflexivity.
    + rewrite Efr. eapply (frames_ext_new fr1').
    + constructor; [assumption|]. constructor; assumption.
    + discriminate.
    + intros lvl node. exists fr1'. unfold b_fi, b_off, b_end; simpl.
      rewrite Nat.eqb_refl. rewrite Hs, Hl.
      pose proof (bump_ge c Hwf (f_size fr1) (f_len fr1 + size) Hfit).
      repeat split; auto; lia.
    + rewrite Efr. rewrite frame_at_none by (simpl; lia). discriminate.
    + intros f o Ho. rewrite mem_fill_out.
      * unfold mem_newframe. destruct (Nat.eqb_spec f (S (length rest))) as [->|Hne]; [|reflexivity].
        destruct Ho as [Ho|[_ Ho]]; [simpl in Ho; congruence|].
        rewrite Efr in Ho. rewrite frame_at_none in Ho by (simpl; lia). congruence.
      * simpl. destruct Ho as [Ho|[Ho _]]; auto.
Qed.

End Ops.

(* ======================================================================== *)
(* 5. the full invariant: geometry, cleanup chains in memory, fuel           *)
(* ======================================================================== *)
Section Full.
Variable c : cfg.
Hypothesis Hwf : wf_cfg c.

(* the cleanup list of a scope, as it is laid out in arena memory *)
Inductive chain (m : mem) (blocks : list gblock) (lvl : nat) : option loc -> list N -> Prop :=
| chain_nil : chain m blocks lvl None []
| chain_cons : forall p tok nx toks,
    read_node (c_node c) m p = Some (tok, nx) ->
    In (mkB p (c_node c) lvl true) blocks ->
    chain m blocks lvl nx toks ->
    chain m blocks lvl (Some p) (tok :: toks).

Record inv (st : state) (g : ghost) : Prop := mkInv {
  i_geo : geo c (a_frames (st_a st)) (a_refs (st_a st)) (st_scs st) (g_blocks g) (depth g) (g_freed g);
  i_chains : forall k s toks,
    nth_error (st_scs st) k = Some s -> nth_error (g_scopes g) k = Some toks ->
    chain (a_mem (st_a st)) (g_blocks g) (depth g - k) (s_cleanup s) toks;
  i_fuel : Forall (fun toks => (length toks <= st_ncl st)%nat) (g_scopes g)
}.

Lemma read_node_agree m m' p lvl :
  agree m m' (mkB p (c_node c) lvl true) -> read_node (c_node c) m' p = read_node (c_node c) m p.
Proof.
  intros Ha. unfold agree, b_fi, b_off in Ha; simpl in Ha. unfold read_node.
  assert (H0 : m' (fst p) (snd p) = m (fst p) (snd p)).
  { specialize (Ha 0). rewrite N.add_0_r in Ha. apply Ha. apply Hwf. }
  rewrite H0. destruct (m (fst p) (snd p)) as [| |tok nx i0]; try reflexivity.
  assert (Hf : forallb (fun i => cell_is_node (m' (fst p) (snd p + N.of_nat i)) tok nx (N.of_nat i))
                       (seq 0 (N.to_nat (c_node c))) =
               forallb (fun i => cell_is_node (m (fst p) (snd p + N.of_nat i)) tok nx (N.of_nat i))
                       (seq 0 (N.to_nat (c_node c)))).
  { apply forallb_ext_In. intros i Hi. apply in_seq in Hi.
    rewrite Ha; [reflexivity|]. lia. }
  rewrite Hf. reflexivity.
Qed.

Lemma chain_mono m m' blocks blocks' lvl p toks :
  chain m blocks lvl p toks ->
  (forall b, In b blocks -> b_node b = true -> b_lvl b = lvl -> In b blocks' /\ agree m m' b) ->
  chain m' blocks' lvl p toks.
Proof.
  intros H Hb. induction H as [|p tok nx toks Hr Hin _ IH]; [constructor|].
  destruct (Hb _ Hin eq_refl eq_refl) as [Hin' Hag].
  apply chain_cons with (nx := nx); [|assumption|assumption].
  rewrite (read_node_agree _ _ _ _ Hag). assumption.
Qed.

Lemma run_cleanups_chain m blocks lvl p toks :
  chain m blocks lvl p toks -> forall fuel, (length toks <= fuel)%nat ->
  run_cleanups fuel (c_node c) m p = Some toks.
Proof.
  induction 1 as [|p tok nx toks Hr Hin _ IH]; intros fuel Hf.
  - destruct fuel; reflexivity.
  - destruct fuel as [|f]; simpl in Hf; [lia|]. simpl. rewrite Hr. rewrite IH by lia. reflexivity.
Qed.

Lemma In_remove_first_keep {A} (f : A -> bool) l x : In x l -> f x = false -> In x (remove_first f l).
Proof.
  induction l as [|y t IH]; simpl; [auto|]. intros [->|H] Hx.
  - rewrite Hx. left. reflexivity.
  - destruct (f y); [assumption|right; auto].
Qed.

(* L1: the arena changes (frames grow, memory keeps every cleanup node) *)
Lemma inv_arena st g a' ncl' :
  inv st g -> a_refs a' = a_refs (st_a st) -> frames_ext (a_frames (st_a st)) (a_frames a') ->
  Forall (frame_ok c) (a_frames a') -> a_frames a' <> [] -> (st_ncl st <= ncl')%nat ->
  (forall b, In b (g_blocks g) -> b_node b = true -> agree (a_mem (st_a st)) (a_mem a') b) ->
  inv (mkState a' (st_scs st) ncl') g.
Proof.
  intros [G Ch Fu] Hr He Hok Hne Hncl Hag. constructor; simpl.
  - rewrite Hr. eapply geo_ext; eassumption.
  - intros k s toks Hk Ht. eapply chain_mono; [eauto|]. intros b Hb Hn _. split; auto.
  - eapply Forall_impl; [|exact Fu]. simpl. intros; lia.
Qed.

(* L2: a block is added to the ghost *)
Lemma inv_add st g nb :
  inv st g -> blk_ok c (a_frames (st_a st)) nb -> (1 <= b_lvl nb <= depth g)%nat ->
  (forall b, In b (g_blocks g) -> stacked c (a_frames (st_a st)) nb b) ->
  (forall k s, nth_error (st_scs st) k = Some s -> (b_lvl nb < depth g - k)%nat ->
               below c (a_frames (st_a st)) nb s) ->
  inv st (mkG (nb :: g_blocks g) (g_scopes g) (g_freed g)).
Proof.
  intros [G Ch Fu] Hok Hl Hst Hbel. constructor; simpl; unfold depth; simpl.
  - apply geo_add; assumption.
  - intros k s toks Hk Ht. eapply chain_mono; [eapply Ch; eauto|].
    intros b Hb _ _. split; [right; assumption|intros i _; reflexivity].
  - assumption.
Qed.

(* L3: a user block is dropped from the ghost *)
Lemma inv_remove st g f :
  inv st g -> (forall b, f b = true -> b_node b = false) ->
  inv st (mkG (remove_first f (g_blocks g)) (g_scopes g) (g_freed g)).
Proof.
  intros [G Ch Fu] Hf. constructor; simpl; unfold depth; simpl.
  - apply geo_remove. assumption.
  - intros k s toks Hk Ht. eapply chain_mono; [eapply Ch; eauto|].
    intros b Hb Hn _. split; [|intros i _; reflexivity].
    apply In_remove_first_keep; [assumption|]. destruct (f b) eqn:E; [|reflexivity].
    apply Hf in E. congruence.
  - assumption.
Qed.

Lemma push_tok_length k tok l : length (push_tok k tok l) = length l.
Proof. revert k; induction l as [|t r IH]; intros [|k]; simpl; auto. Qed.

(* L4: a cleanup node written at p becomes the head of the innermost scope's list *)
Lemma inv_cleanup st g s0 rest p tok :
  inv st g -> st_scs st = s0 :: rest ->
  In (mkB p (c_node c) (depth g) true) (g_blocks g) ->
  read_node (c_node c) (a_mem (st_a st)) p = Some (tok, s_cleanup s0) ->
  inv (mkState (st_a st) (mkScope (s_nframes s0) (s_flen s0) (s_id s0) (Some p) :: rest) (S (st_ncl st)))
      (mkG (g_blocks g) (push_tok 0 tok (g_scopes g)) (g_freed g)).
Proof.
  intros [G Ch Fu] Hs Hin Hr. rewrite Hs in *.
  destruct (g_scopes g) as [|t0 trest] eqn:Eg.
  { destruct G. unfold depth in g_len0. rewrite Eg in g_len0. discriminate. }
  constructor; simpl; unfold depth in *; simpl; rewrite ?Eg in *; simpl in *.
  - eapply geo_scs; [exact G|]. constructor.
    + repeat split.
    + clear. induction rest; constructor; [repeat split|assumption].
  - intros [|k] s toks Hk Ht; simpl in *.
    + inversion Hk; inversion Ht; subst; simpl. econstructor; [eassumption|assumption|].
      apply (Ch O s0 t0); reflexivity.
    + apply (Ch (S k) s toks); assumption.
  - inversion Fu; subst. constructor; [simpl; lia|].
    eapply Forall_impl; [|eassumption]. simpl. intros; lia.
Qed.

End Full.

(* ======================================================================== *)
(* 6. the operations                                                         *)
(* ======================================================================== *)
Section Steps.
Variable c : cfg.
Hypothesis Hwf : wf_cfg c.

Lemma mem_bytes_out m p data f o :
  f <> fst p \/ o < snd p -> mem_bytes m p data f o = m f o.
Proof.
  intros H. unfold mem_bytes, inrange.
  destruct (Nat.eqb_spec f (fst p)); simpl; [|reflexivity].
  destruct (N.leb_spec (snd p) o); simpl; [|reflexivity]. lia.
Qed.

Lemma mem_node_out m p sz tok nx f o :
  f <> fst p \/ o < snd p -> mem_node m p sz tok nx f o = m f o.
Proof.
  intros H. unfold mem_node, inrange.
  destruct (Nat.eqb_spec f (fst p)); simpl; [|reflexivity].
  destruct (N.leb_spec (snd p) o); simpl; [|reflexivity]. lia.
Qed.

Lemma mem_copy_out m q p n f o :
  f <> fst q \/ o < snd q -> mem_copy m q p n f o = m f o.
Proof.
  intros H. unfold mem_copy, inrange.
  destruct (Nat.eqb_spec f (fst q)); simpl; [|reflexivity].
  destruct (N.leb_spec (snd q) o); simpl; [|reflexivity]. lia.
Qed.

Lemma geo_depth_pos l refs s0 rest blocks d freed :
  geo c l refs (s0 :: rest) blocks d freed -> (1 <= d)%nat.
Proof. intros G. destruct G. simpl in g_len0. lia. Qed.

(* a scope that passes arena_scope_validate is the innermost one *)
Lemma validated_innermost l refs scs blocks d k s :
  geo c l refs scs blocks d false -> nth_error scs k = Some s -> (s_id s =? refs) = true -> k = O.
Proof.
  intros G Hk Hv. destruct G. apply N.eqb_eq in Hv.
  assert (Hlt : (k < d)%nat). { rewrite <- g_len0. apply nth_error_Some. congruence. }
  rewrite (g_ids0 _ _ Hk), g_refs0 in Hv. lia.
Qed.

Lemma outer_not_validated l refs scs blocks d k s :
  geo c l refs scs blocks d false -> nth_error scs k = Some s -> (0 < k)%nat -> (s_id s =? refs) = false.
Proof.
  intros G Hk Hpos. destruct (s_id s =? refs) eqn:E; [|reflexivity].
  pose proof (validated_innermost _ _ _ _ _ _ _ G Hk E). lia.
Qed.

Lemma blk_end_le_fs l b fr :
  Forall (frame_ok c) l -> frame_at l (b_fi b) = Some fr -> b_end b <= f_len fr -> b_end b <= f_size fr.
Proof.
  intros Hf Hfr Hle. apply frame_at_In in Hfr. rewrite Forall_forall in Hf. destruct (Hf _ Hfr). lia.
Qed.

(* live blocks of one frame do not share bytes *)
Lemma stacked_disjoint l b1 b2 :
  Forall (frame_ok c) l -> blk_ok c l b1 -> blk_ok c l b2 -> stacked c l b1 b2 -> disjoint b1 b2.
Proof.
  intros Hf (fr1 & F1 & _ & _ & E1 & _) (fr2 & F2 & _ & _ & E2 & _) Hs.
  unfold disjoint. destruct (Nat.eq_dec (b_fi b1) (b_fi b2)) as [Heq|Hne]; [|left; assumption]. right.
  specialize (Hs Heq). unfold fsz in Hs. rewrite F1 in Hs.
  assert (fr2 = fr1) by congruence. subst fr2.
  pose proof (blk_end_le_fs _ _ _ Hf F1 E1) as L1.
  rewrite Heq in F1. pose proof (blk_end_le_fs _ _ _ Hf F1 E2) as L2.
  pose proof (bump_ge c Hwf _ _ L1) as B1. pose proof (bump_ge c Hwf _ _ L2) as B2.
  destruct Hs as [H|[H|[_ [H|H]]]]; [right; right; left; lia|right; right; right; lia|left; assumption|right; left; assumption].
Qed.

(* arena_malloc through the innermost scope, followed by writes into the new block *)
Lemma inv_malloc st g s0 rest size p a1 m2 node :
  inv c st g -> st_scs st = s0 :: rest ->
  malloc c (st_a st) s0 size = Ok (p, a1) ->
  (forall f o, f <> fst p \/ o < snd p -> m2 f o = a_mem a1 f o) ->
  inv c (mkState (mkArena (a_frames a1) (a_refs a1) m2) (st_scs st) (st_ncl st))
        (mkG (mkB p size (depth g) node :: g_blocks g) (g_scopes g) (g_freed g)) /\
  (forall b, In b (g_blocks g) -> agree (a_mem (st_a st)) m2 b).
Proof.
  intros I Hs Hm Hm2. pose proof I as [G _ _].
  destruct (malloc_spec c Hwf _ _ _ _ _ (g_frames _ _ _ _ _ _ _ G) Hm) as [_ AS].
  destruct AS as [Ar Ae Ao An Ab Af Am].
  assert (Hag : forall b, In b (g_blocks g) -> agree (a_mem (st_a st)) m2 b).
  { intros b Hb i Hi. pose proof (g_blks _ _ _ _ _ _ _ G) as Hbl. rewrite Forall_forall in Hbl.
    destruct (Hbl _ Hb) as (fr & Ffr & _ & _ & Hend & _).
    destruct (Nat.eq_dec (b_fi b) (fst p)) as [Heq|Hne].
    - rewrite Heq in Ffr. pose proof (Af _ Ffr) as Hfresh. unfold b_end, b_off in *.
      rewrite Hm2 by (right; lia). apply Am. right. split; [lia|]. rewrite Heq. congruence.
    - rewrite Hm2 by (left; assumption). apply Am. left. assumption. }
  split; [|assumption].
  assert (Hd : (1 <= depth g)%nat). { rewrite Hs in G. eapply geo_depth_pos; eassumption. }
  assert (I1 : inv c (mkState (mkArena (a_frames a1) (a_refs a1) m2) (st_scs st) (st_ncl st)) g).
  { apply inv_arena; simpl; auto. }
  apply inv_add with (nb := mkB p size (depth g) node); [exact Hwf|exact I1|..]; simpl.
  - apply Ab.
  - lia.
  - intros b Hb Heq. unfold b_fi, b_off, b_end in *; simpl in *.
    pose proof (g_blks _ _ _ _ _ _ _ G) as Hbl. rewrite Forall_forall in Hbl.
    destruct (Hbl _ Hb) as (fr & Ffr & _ & _ & _ & Hbump).
    right; left. unfold b_fi in Ffr. rewrite <- Heq in Ffr.
    rewrite (fsz_ext _ _ _ _ Ae Ffr). unfold fsz. rewrite Ffr.
    pose proof (Af _ Ffr) as Hfresh. unfold b_end in Hbump. lia.
  - intros k s _ Hlt. lia.
Qed.


(* arena_scope_enter *)
Lemma inv_enter st g a' s :
  inv c st g -> g_freed g = false -> scope_enter (st_a st) = Ok (a', s) ->
  inv c (mkState a' (s :: st_scs st) (st_ncl st)) (mkG (g_blocks g) ([] :: g_scopes g) (g_freed g)).
Proof.
  intros [G Ch Fu] Hfreed. unfold scope_enter.
  destruct (a_frames (st_a st)) as [|fr rest] eqn:Efr; [discriminate|].
  intros H; inversion H; subst; clear H.
  destruct G as [Glen Grefs Gids Gfr Gne Gmarks Gsort Gblks Glvl Gst Gbel].
  rewrite Hfreed in *.
  inversion Gfr as [|? ? Hfr0 Hfrest]; subst. destruct Hfr0 as (F1 & F2 & F3 & F4 & F5 & F6).
  constructor; simpl; unfold depth in *; simpl.
  - constructor; simpl.
    + congruence.
    + rewrite Grefs. lia.
    + intros [|k] s Hk; simpl in *.
      * inversion Hk; subst; simpl. rewrite Grefs. lia.
      * apply Gids. assumption.
    + assumption.
    + discriminate.
    + constructor; [|assumption].
      exists fr. simpl. rewrite Nat.sub_0_r, Nat.eqb_refl. repeat split; auto; lia.
    + constructor; [|assumption]. rewrite Forall_forall. intros outer Ho.
      rewrite Forall_forall in Gmarks. destruct (Gmarks _ Ho) as (fr0 & M1 & M2 & M3 & _).
      pose proof (frame_at_lt _ _ _ M2) as Hlt. simpl in Hlt. unfold mark_le; simpl.
      destruct (Nat.eq_dec (s_nframes outer) (S (length rest))) as [He|Hn]; [right|left; lia].
      split; [assumption|]. rewrite He in M2. simpl in M2. rewrite Nat.sub_0_r, Nat.eqb_refl in M2.
      inversion M2; subst. assumption.
    + assumption.
    + eapply Forall_impl; [|exact Glvl]. simpl. intros; lia.
    + assumption.
    + intros b [|k] s Hb Hk Hl; simpl in *.
      * inversion Hk; subst; clear Hk. unfold below; simpl.
        rewrite Forall_forall in Gblks. destruct (Gblks _ Hb) as (fr0 & B1 & _ & _ & B2 & B3).
        pose proof (frame_at_lt _ _ _ B1) as Hlt. simpl in Hlt.
        destruct (Nat.eq_dec (b_fi b) (length rest)) as [He|Hn]; [right|left; lia].
        unfold fsz. rewrite B1. rewrite He in B1. simpl in B1. rewrite Nat.eqb_refl in B1.
        inversion B1; subst. repeat split; auto.
      * eapply Gbel; eauto.
  - intros [|k] s toks Hk Ht; simpl in *.
    + inversion Hk; inversion Ht; subst; simpl. constructor.
    + apply (Ch k s toks); assumption.
  - constructor; [simpl; lia|assumption].
Qed.


Lemma frame_at_app pre suf i : (i < length suf)%nat -> frame_at (pre ++ suf) i = frame_at suf i.
Proof.
  induction pre as [|x pre IH]; simpl; [reflexivity|]. intros H.
  destruct (Nat.eqb_spec i (length (pre ++ suf))) as [E|E]; [rewrite app_length in E; lia|auto].
Qed.

Lemma drop_frames_spec keep l :
  (keep <= length l)%nat -> exists pre, l = pre ++ drop_frames keep l /\ length (drop_frames keep l) = keep.
Proof.
  induction l as [|x l IH]; intros H.
  - simpl in *. exists []. split; [reflexivity|lia].
  - change (drop_frames keep (x :: l)) with (if Nat.eqb (S (length l)) keep then x :: l else drop_frames keep l).
    simpl in H. destruct (Nat.eqb_spec (S (length l)) keep) as [E|E].
    + exists []. split; [reflexivity|simpl; assumption].
    + destruct IH as [pre [E1 E2]]; [lia|]. exists (x :: pre). simpl. split; [congruence|assumption].
Qed.

Lemma drop_frames_0 l : drop_frames 0 l = [].
Proof.
  destruct (drop_frames_spec 0 l) as [pre [_ H]]; [lia|]. destruct (drop_frames 0 l); [reflexivity|discriminate].
Qed.

Lemma filter_none {A} (f : A -> bool) l : (forall x, In x l -> f x = false) -> filter f l = [].
Proof.
  induction l as [|x t IH]; simpl; [reflexivity|]. intros H. rewrite H by (left; reflexivity).
  apply IH. intros y Hy. apply H. right. assumption.
Qed.

(* arena_scope_leave of the innermost scope *)
Lemma inv_leave st g s0 rest a' toks reset :
  inv c st g -> st_scs st = s0 :: rest -> a_refs (st_a st) <> 0 ->
  scope_leave c (st_ncl st) (st_a st) s0 = Ok (a', toks, reset) ->
  reset = false /\ toks = hd [] (g_scopes g) /\ a_mem a' = a_mem (st_a st) /\
  inv c (mkState a' rest (st_ncl st))
        (mkG (filter (fun b => (b_lvl b <? depth g)%nat) (g_blocks g)) (tl (g_scopes g)) (g_freed g)).
Proof.
  intros [G Ch Fu] Hs Hrefs. rewrite Hs in *.
  destruct (g_scopes g) as [|t0 trest] eqn:Eg.
  { destruct G. unfold depth in g_len0. rewrite Eg in g_len0. discriminate. }
  assert (Hd : depth g = S (length trest)) by (unfold depth; rewrite Eg; reflexivity).
  unfold scope_leave.
  assert (Hrun : run_cleanups (st_ncl st) (c_node c) (a_mem (st_a st)) (s_cleanup s0) = Some t0).
  { eapply run_cleanups_chain; [apply (Ch O s0 t0); reflexivity|]. inversion Fu; assumption. }
  rewrite Hrun.
  destruct G as [Glen Grefs Gids Gfr Gne Gmarks Gsort Gblks Glvl Gst Gbel].
  simpl in Glen. rewrite Hd in *.
  inversion Gmarks as [|? ? M0 Mrest]; subst.
  inversion Gsort as [|? ? S0 Srest]; subst.
  destruct (N.eqb_spec (a_refs (st_a st)) 1) as [E1|E1].
  - (* the arena was freed earlier and this is its last scope: every frame goes *)
    rewrite drop_frames_0. intros H; inversion H; subst; clear H.
    assert (Hl : length trest = O /\ g_freed g = true).
    { rewrite E1 in Grefs. destruct (g_freed g); lia. }
    destruct Hl as [Hl Hf]. rewrite Hl in *. destruct rest; [|simpl in Glen; lia].
    assert (Hnil : filter (fun b => (b_lvl b <? 1)%nat) (g_blocks g) = []).
    { apply filter_none. intros b Hb. rewrite Forall_forall in Glvl. specialize (Glvl _ Hb).
      apply Nat.ltb_ge. lia. }
    split; [reflexivity|]. split; [reflexivity|]. split; [reflexivity|].
    rewrite Hnil. destruct trest; [|discriminate].
    constructor; simpl; unfold depth; simpl.
    + constructor; simpl.
      * reflexivity.
      * rewrite Hf, E1. reflexivity.
      * intros k s Hk. destruct k; discriminate.
      * constructor.
      * intros Hc. rewrite E1 in Hc. simpl in Hc. congruence.
      * constructor.
      * constructor.
      * constructor.
      * constructor.
      * constructor.
      * intros bb kk ss [].
    + intros k s tk Hk. destruct k; discriminate.
    + constructor.
  - destruct M0 as (fr0 & M1 & M2 & M3 & M4 & M5).
    pose proof (frame_at_lt _ _ _ M2) as Hkeep.
    destruct (drop_frames_spec (s_nframes s0) (a_frames (st_a st))) as [pre [Epre Elen]]; [lia|].
    destruct (drop_frames (s_nframes s0) (a_frames (st_a st))) as [|fr rest'] eqn:Edrop; [simpl in Elen; lia|].
    simpl in Elen.
    assert (Hsame : forall i, (i < s_nframes s0)%nat ->
              frame_at (fr :: rest') i = frame_at (a_frames (st_a st)) i).
    { intros i Hi. rewrite Epre. rewrite frame_at_app by (simpl; lia). reflexivity. }
    assert (Hfr0 : fr0 = fr).
    { rewrite <- Hsame in M2 by lia. replace (s_nframes s0 - 1)%nat with (length rest') in M2 by lia.
      rewrite frame_at_top in M2. congruence. }
    subst fr0.
    assert (Hle : (s_flen s0 <=? f_len fr) = true) by (apply N.leb_le; assumption).
    rewrite Hle. intros H; inversion H; subst; clear H.
    split; [reflexivity|]. split; [reflexivity|]. split; [reflexivity|].
    set (fr2 := mkFrame (f_size fr) (s_flen s0)).
    assert (Hfrok : Forall (frame_ok c) (fr :: rest')).
    { rewrite Epre in Gfr. apply Forall_app in Gfr. apply Gfr. }
    inversion Hfrok as [|? ? Fok Frest]; subst.
    assert (Hnew : forall i, (i < s_nframes s0 - 1)%nat ->
              frame_at (fr2 :: rest') i = frame_at (a_frames (st_a st)) i).
    { intros i Hi. rewrite <- Hsame by lia. rewrite !frame_at_cons_lt by lia. reflexivity. }
    assert (Htop : frame_at (fr2 :: rest') (s_nframes s0 - 1) = Some fr2).
    { replace (s_nframes s0 - 1)%nat with (length rest') by lia. apply frame_at_top. }
    assert (Hfsz : forall i, (i < s_nframes s0)%nat -> fsz (fr2 :: rest') i = fsz (a_frames (st_a st)) i).
    { intros i Hi. unfold fsz. destruct (Nat.eq_dec i (s_nframes s0 - 1)) as [->|Hn].
      - rewrite Htop, M2. reflexivity.
      - rewrite Hnew by lia. reflexivity. }
    (* blocks of outer scopes lie below the mark of s0 *)
    assert (Hsurv : forall b, In b (filter (fun b => (b_lvl b <? S (length trest))%nat) (g_blocks g)) ->
              In b (g_blocks g) /\ (b_lvl b < S (length trest))%nat /\
              below c (a_frames (st_a st)) b s0).
    { intros b Hb. apply filter_In in Hb. destruct Hb as [Hb Hl]. apply Nat.ltb_lt in Hl.
      split; [assumption|]. split; [assumption|]. apply (Gbel b O s0 Hb eq_refl). lia. }
    assert (Hblk' : forall b, In b (g_blocks g) -> below c (a_frames (st_a st)) b s0 ->
              blk_ok c (fr2 :: rest') b /\ (b_fi b < s_nframes s0)%nat).
    { intros b Hb Hbel. rewrite Forall_forall in Gblks. destruct (Gblks _ Hb) as (frb & B1 & B2 & B3 & B4 & B5).
      destruct Hbel as [Hlt|(Heq & He1 & He2)].
      - split; [|lia]. exists frb. rewrite Hnew by lia. repeat split; assumption.
      - split; [|lia]. exists fr2. replace (b_fi b) with (s_nframes s0 - 1)%nat by lia.
        split; [assumption|]. unfold fsz in He2. rewrite B1 in He2.
        assert (frb = fr). { replace (b_fi b) with (s_nframes s0 - 1)%nat in B1 by lia. congruence. }
        subst frb. simpl. repeat split; assumption. }
    constructor; simpl; unfold depth; simpl; rewrite ?Eg; simpl.
    + constructor; simpl.
      * lia.
      * rewrite Grefs. destruct (g_freed g); lia.
      * intros k s Hk. rewrite (Gids (S k) s Hk). simpl. reflexivity.
      * constructor; [|assumption]. destruct Fok as (F1 & F2 & F3 & F4 & F5 & F6).
        unfold frame_ok, fr2; simpl. repeat split; try assumption; lia.
      * discriminate.
      * rewrite Forall_forall in *. intros s Hsin. destruct (Mrest _ Hsin) as (frs & A1 & A2 & A3 & A4 & A5).
        specialize (S0 _ Hsin). destruct S0 as [Hlt|[Heq Hfl]].
        -- exists frs. rewrite Hnew by lia. repeat split; assumption.
        -- exists fr2. rewrite Heq. split; [lia|]. split; [assumption|]. simpl. repeat split; assumption.
      * assumption.
      * rewrite Forall_forall. intros b Hb. destruct (Hsurv _ Hb) as (Hin & _ & Hbel).
        apply Hblk'; assumption.
      * rewrite Forall_forall in *. intros b Hb. destruct (Hsurv _ Hb) as (Hin & Hl & _).
        specialize (Glvl _ Hin). lia.
      * eapply FOP_impl_in; [|apply FOP_filter; exact Gst].
        intros x y Hx Hy Hxy Heq. destruct (Hsurv _ Hx) as (Hin & _ & Hbel).
        destruct (Hblk' _ Hin Hbel) as [_ Hlt]. rewrite Hfsz by assumption. apply Hxy. assumption.
      * intros b k s Hb Hk Hl. destruct (Hsurv _ Hb) as (Hin & _ & Hbel0).
        destruct (Hblk' _ Hin Hbel0) as [_ Hlt].
        specialize (Gbel b (S k) s Hin Hk). simpl in Gbel. specialize (Gbel Hl).
        unfold below in *. rewrite Hfsz by assumption. assumption.
    + intros k s tk Hk Ht. specialize (Ch (S k) s tk Hk Ht). simpl in Ch.
      eapply chain_mono; [exact Hwf|exact Ch|]. intros b Hb _ Hlvl. split; [|intros i _; reflexivity].
      apply filter_In. split; [assumption|]. apply Nat.ltb_lt. lia.
    + inversion Fu; assumption.
Qed.


(* arena_free *)
Lemma inv_free st g a' :
  inv c st g -> g_freed g = false -> arena_free c (st_a st) = Ok a' ->
  a_mem a' = a_mem (st_a st) /\
  inv c (mkState a' (st_scs st) (st_ncl st))
        (mkG (if Nat.eqb (depth g) 0 then [] else g_blocks g) (g_scopes g) true).
Proof.
  intros [G Ch Fu] Hfreed. unfold arena_free.
  destruct G as [Glen Grefs Gids Gfr Gne Gmarks Gsort Gblks Glvl Gst Gbel].
  rewrite Hfreed in Grefs.
  destruct (N.ltb_spec 1 (a_refs (st_a st))) as [H1|H1].
  - intros H; inversion H; subst; clear H. split; [reflexivity|].
    assert (Hd : Nat.eqb (depth g) 0 = false) by (apply Nat.eqb_neq; lia).
    rewrite Hd. constructor; simpl; unfold depth in *; simpl; try assumption.
    constructor; simpl; try assumption.
    + lia.
    + intros _. apply Gne. lia.
  - assert (Hd : depth g = O) by lia.
    unfold scope_leave. simpl.
    assert (E1 : (a_refs (st_a st) =? 1) = true) by (apply N.eqb_eq; lia).
    rewrite E1, drop_frames_0. intros H; inversion H; subst; clear H. split; [reflexivity|].
    rewrite Hd in *. simpl.
    destruct (st_scs st) as [|s0 r]; [|simpl in Glen; lia].
    assert (Hgs : g_scopes g = []) by (unfold depth in Hd; destruct (g_scopes g); [reflexivity|discriminate]).
    constructor; simpl; unfold depth; simpl; rewrite Hgs; simpl.
    + constructor; simpl.
      * reflexivity.
      * lia.
      * intros k s Hk. destruct k; discriminate.
      * constructor.
      * intros Hc. lia.
      * constructor.
      * constructor.
      * constructor.
      * constructor.
      * constructor.
      * intros bb kk ss [].
    + intros k s tk Hk. destruct k; discriminate.
    + constructor.
Qed.

Lemma FOP_In_sym {A} (R : A -> A -> Prop) l x y :
  (forall a b, R a b -> R b a) -> ForallOrdPairs R l -> In x l -> In y l -> x <> y -> R x y.
Proof.
  intros Hs H Hx Hy Hne. destruct (ForallOrdPairs_In H _ _ Hx Hy) as [E|[E|E]]; [congruence|assumption|auto].
Qed.

(* the client's memset into a block it owns *)
Lemma inv_fill st g p n v :
  inv c st g -> a_refs (st_a st) <> 0 -> api_okb g (Fill p n v) = true ->
  inv c (mkState (mkArena (a_frames (st_a st)) (a_refs (st_a st)) (mem_fill (a_mem (st_a st)) p n (CByte v)))
                 (st_scs st) (st_ncl st)) g.
Proof.
  intros I Hrefs Hapi. pose proof I as [G _ _]. simpl in Hapi.
  apply existsb_exists in Hapi. destruct Hapi as (u & Hu & Hub).
  apply andb_true_iff in Hub. destruct Hub as [Hun Hin].
  unfold in_block in Hin. apply andb_true_iff in Hin. destruct Hin as [Hin H3].
  apply andb_true_iff in Hin. destruct Hin as [H1 H2].
  apply Nat.eqb_eq in H1. apply N.leb_le in H2. apply N.leb_le in H3.
  destruct G as [Glen Grefs Gids Gfr Gne Gmarks Gsort Gblks Glvl Gst Gbel].
  apply inv_arena; simpl; auto.
  - apply frames_ext_refl.
  - intros b Hb Hnode i Hi.
    destruct (N.eq_dec n 0) as [->|Hn0]; [apply mem_fill_out; lia|].
    assert (Hne : u <> b). { intros ->. rewrite Hnode in Hun. discriminate. }
    pose proof (FOP_In_sym _ _ _ _ (stacked_sym c _) Gst Hu Hb Hne) as Hst.
    rewrite Forall_forall in Gblks.
    pose proof (stacked_disjoint _ _ _ Gfr (Gblks _ Hu) (Gblks _ Hb) Hst) as Hd.
    apply mem_fill_out. unfold disjoint, b_end, b_off, b_fi in *.
    destruct Hd as [Hd|[Hd|[Hd|[Hd|Hd]]]]; lia.
Qed.


Lemma land_aligned x : (c_ma c | x) -> N.land x (c_ma c - 1) = 0.
Proof.
  destruct Hwf as [[k Hk] _]. rewrite Hk. intros Hd.
  replace (2 ^ k - 1) with (N.ones k) by (rewrite N.ones_equiv; lia).
  rewrite N.land_ones. apply N.mod_divide; [apply N.pow_nonzero; discriminate|assumption].
Qed.

Lemma In_remove_first_or {A} (f : A -> bool) l b x :
  find f l = Some b -> In x l -> x = b \/ In x (remove_first f l).
Proof.
  induction l as [|y t IH]; simpl; [discriminate|]. destruct (f y) eqn:E.
  - intros H [->|Hx]; [left; congruence|right; assumption].
  - intros H [->|Hx]; [right; left; reflexivity|]. destruct (IH H Hx); [left|right; right]; assumption.
Qed.

Lemma nth0_cons {A} (l : list A) x : nth_error l 0 = Some x -> exists r, l = x :: r.
Proof. destruct l; simpl; [discriminate|]. intros H; inversion H; eauto. Qed.

(* shrinking in place (any scope): the arena does nothing *)
Lemma inv_shrink st g p old b new lvl :
  inv c st g -> find (is_user_at p old) (g_blocks g) = Some b -> new <= old ->
  (b_lvl b <= lvl <= depth g)%nat ->
  inv c st (mkG (mkB p new lvl false :: remove_first (is_user_at p old) (g_blocks g))
                (g_scopes g) (g_freed g)).
Proof.
  intros I Hfind Hnew Hlvl. pose proof I as [G _ _].
  destruct (find_is_user _ _ _ _ Hfind) as (Hb & Hn & Hl & Hs). subst p.
  assert (Hnew' : new <= b_size b) by lia.
  assert (I' : inv c st (mkG (remove_first (is_user_at (b_loc b) old) (g_blocks g)) (g_scopes g) (g_freed g))).
  { apply inv_remove; [assumption|assumption|]. intros x Hx. unfold is_user_at in Hx.
    destruct (b_node x); [discriminate|reflexivity]. }
  destruct G as [Glen Grefs Gids Gfr Gne Gmarks Gsort Gblks Glvl Gst Gbel].
  rewrite Forall_forall in Gblks, Glvl.
  apply inv_add with (g := mkG (remove_first (is_user_at (b_loc b) old) (g_blocks g)) (g_scopes g) (g_freed g))
                     (nb := mkB (b_loc b) new lvl false); [exact Hwf|exact I'|..]; simpl; unfold depth; simpl.
  - destruct (Gblks _ Hb) as (fr & B1 & B2 & B3 & B4 & B5). exists fr.
    unfold b_fi, b_off, b_end in *; simpl.
    pose proof (bump_mono c Hwf (f_size fr) (snd (b_loc b) + new) (snd (b_loc b) + b_size b)).
    repeat split; auto; lia.
  - specialize (Glvl _ Hb). fold (depth g). lia.
  - intros x Hx. pose proof (FOP_found _ _ _ _ (stacked_sym c _) Gst Hfind x Hx) as Hst.
    intros Heq. unfold stacked in Hst. unfold b_fi, b_off, b_end in *; simpl in *.
    specialize (Hst Heq).
    pose proof (bump_mono c Hwf (fsz (a_frames (st_a st)) (fst (b_loc b))) (snd (b_loc b) + new) (snd (b_loc b) + b_size b)).
    destruct Hst as [H1|[H1|[H0 [H1|H1]]]].
    + left. lia.
    + right; left. assumption.
    + right; right. split; [assumption|left; lia].
    + right; right. split; [assumption|right; assumption].
  - intros k s Hk Hlt. fold (depth g) in Hlt.
    assert (Hbel : below c (a_frames (st_a st)) b s). { apply (Gbel b k s Hb Hk). lia. }
    unfold below, b_fi, b_off, b_end in *; simpl.
    pose proof (bump_mono c Hwf (fsz (a_frames (st_a st)) (fst (b_loc b))) (snd (b_loc b) + new) (snd (b_loc b) + b_size b)).
    destruct Hbel as [H1|(H1 & H2 & H3)]; [left; assumption|right]. repeat split; auto; lia.
Qed.


(* growing the most recent block in place (arena_realloc_fast, innermost scope) *)
Lemma inv_grow st g p old b new fr rest x fr' :
  inv c st g -> find (is_user_at p old) (g_blocks g) = Some b -> old < new ->
  a_frames (st_a st) = fr :: rest -> fst p = length rest ->
  align_off c (snd p + old) = f_len fr ->
  push c (mkFrame (f_size fr) (snd p)) new = Some (x, fr') ->
  (1 <= depth g)%nat ->
  let a' := mkArena (fr' :: rest) (a_refs (st_a st))
                    (mem_fill (a_mem (st_a st)) (fst p, snd p + old) (new - old) CUndef) in
  inv c (mkState a' (st_scs st) (st_ncl st))
        (mkG (mkB p new (depth g) false :: remove_first (is_user_at p old) (g_blocks g))
             (g_scopes g) (g_freed g)) /\
  (forall y, In y (remove_first (is_user_at p old) (g_blocks g)) -> agree (a_mem (st_a st)) (a_mem a') y) /\
  (forall i, i < old -> a_mem a' (fst p) (snd p + i) = a_mem (st_a st) (fst p) (snd p + i)).
Proof.
  intros I Hfind Hgrow Efr Hfi Hlast Hpush Hd a'. pose proof I as [G _ _].
  destruct (find_is_user _ _ _ _ Hfind) as (Hb & Hn & Hl & Hs).
  destruct G as [Glen Grefs Gids Gfr Gne Gmarks Gsort Gblks Glvl Gst Gbel].
  rewrite Efr in *. pose proof (Forall_inv Gfr) as Fok. pose proof (Forall_inv_tail Gfr) as Frest.
  destruct Fok as (F1 & F2 & F3 & F4 & F5 & F6).
  rewrite Forall_forall in Gblks.
  assert (Hblk : forall y, In y (g_blocks g) -> b_fi y = length rest ->
            c_hdr c <= b_off y /\ (c_ma c | b_off y) /\ b_end y <= f_len fr /\
            bump c (f_size fr) (b_end y) <= f_len fr /\ b_end y <= f_size fr).
  { intros y Hy Hyf. destruct (Gblks _ Hy) as (fry & Y1 & Y2 & Y3 & Y4 & Y5).
    rewrite Hyf, frame_at_top in Y1. inversion Y1; subst fry. repeat split; auto; lia. }
  assert (Hbfi : b_fi b = length rest) by (unfold b_fi; rewrite Hl; assumption).
  destruct (Hblk _ Hb Hbfi) as (B2 & B3 & B4 & B5 & B6).
  unfold b_off, b_end in B2, B3, B4, B5, B6. rewrite Hl in B2, B3, B4, B5, B6.
  apply push_some in Hpush. simpl in Hpush. destruct Hpush as (_ & Ps & Pl & Pfit & _).
  assert (Hb1 : bump c (f_size fr) (snd p + old) = f_len fr).
  { unfold bump. rewrite Hlast. destruct (N.ltb_spec (f_size fr) (f_len fr)); [lia|reflexivity]. }
  (* the part named and the whole block round to the same boundary *)
  assert (Hb1' : bump c (f_size fr) (snd p + b_size b) = f_len fr).
  { pose proof (bump_mono c Hwf (f_size fr) (snd p + old) (snd p + b_size b)). lia. }
  assert (Hmono : f_len fr <= f_len fr').
  { rewrite Pl, <- Hb1. apply bump_mono; [assumption|lia]. }
  assert (Hfsz : fsz (fr :: rest) (length rest) = f_size fr) by (unfold fsz; rewrite frame_at_top; reflexivity).
  assert (Hfsz' : fsz (fr' :: rest) (length rest) = f_size fr) by (unfold fsz; rewrite frame_at_top; assumption).
  assert (Hok' : frame_ok c fr').
  { unfold frame_ok. rewrite Ps, Pl.
    pose proof (bump_le_fs c (f_size fr) (snd p + new)).
    pose proof (bump_aligned c Hwf (f_size fr) (snd p + new) F4).
    rewrite Pl in Hmono. repeat split; try assumption; lia. }
  (* what the stacking order says about any other live block of the top frame *)
  assert (Hother : forall y, In y (remove_first (is_user_at p old) (g_blocks g)) -> b_fi y = length rest ->
            (b_size y = 0 /\ b_off y = f_len fr) \/ bump c (f_size fr) (b_end y) <= snd p \/
            (c_gap c = 0 /\ b_size y = 0)).
  { intros y Hy Hyf. pose proof (FOP_found _ _ _ _ (stacked_sym c _) Gst Hfind y Hy) as Hst.
    destruct (Hblk _ (In_remove_first _ _ _ Hy) Hyf) as (Y2 & Y3 & Y4 & Y5 & Y6).
    unfold stacked in Hst. rewrite Hbfi, Hfsz in Hst. specialize (Hst (eq_sym Hyf)).
    unfold b_end, b_off in *. rewrite Hl in Hst. rewrite Hb1' in Hst.
    destruct Hst as [H1|[H1|[H0 [H1|H1]]]].
    - left. lia.
    - right; left. assumption.
    - right; left. assert (Hold0 : old = 0) by lia. rewrite Hold0, N.add_0_r in Hlast.
      rewrite (align_off_id c Hwf _ B3) in Hlast. lia.
    - right; right. split; assumption. }
  assert (Hag : forall y, In y (remove_first (is_user_at p old) (g_blocks g)) ->
                agree (a_mem (st_a st)) (a_mem a') y).
  { intros y Hy' i Hi. unfold a'. simpl. apply mem_fill_out. simpl.
    destruct (Nat.eq_dec (b_fi y) (length rest)) as [Hyf|Hyf]; [|left; congruence].
    right; left. pose proof (In_remove_first _ _ _ Hy') as Hy.
    destruct (Hblk _ Hy Hyf) as (Y2 & Y3 & Y4 & Y5 & Y6).
    pose proof (bump_ge c Hwf _ _ Y6) as Hge. unfold b_end, b_off in *.
    destruct (Hother _ Hy' Hyf) as [[H1 _]|[H1|[_ H1]]]; lia. }
  assert (Hpre : forall i, i < old -> a_mem a' (fst p) (snd p + i) = a_mem (st_a st) (fst p) (snd p + i)).
  { intros i Hi. unfold a'. simpl. apply mem_fill_out. simpl. right; left. lia. }
  split; [|split; assumption].
  assert (I1 : inv c (mkState a' (st_scs st) (st_ncl st)) g).
  { apply inv_arena; simpl;
      [exact Hwf|exact I|reflexivity|rewrite Efr; apply frames_ext_top; assumption
      |constructor; assumption|discriminate|lia|].
    intros y Hy Hnode. apply Hag. destruct (In_remove_first_or _ _ _ _ Hfind Hy) as [->|Hy']; [congruence|assumption]. }
  assert (I2 : inv c (mkState a' (st_scs st) (st_ncl st))
                 (mkG (remove_first (is_user_at p old) (g_blocks g)) (g_scopes g) (g_freed g))).
  { apply inv_remove; [assumption|assumption|]. intros z Hz. unfold is_user_at in Hz.
    destruct (b_node z); [discriminate|reflexivity]. }
  apply inv_add with (g := mkG (remove_first (is_user_at p old) (g_blocks g)) (g_scopes g) (g_freed g))
                     (nb := mkB p new (depth g) false); [exact Hwf|exact I2|..]; simpl; unfold depth; simpl.
  - exists fr'. unfold b_fi, b_off, b_end; simpl. rewrite Hfi, Nat.eqb_refl, Ps, Pl.
    pose proof (bump_ge c Hwf (f_size fr) (snd p + new) Pfit). repeat split; auto; lia.
  - fold (depth g). lia.
  - intros y Hy Heq. unfold b_fi, b_off, b_end in *; simpl in *. rewrite Hfi in *. rewrite Hfsz'.
    assert (Hyf : fst (b_loc y) = length rest) by congruence.
    destruct (Hblk _ (In_remove_first _ _ _ Hy) Hyf) as (Y2 & Y3 & Y4 & Y5 & Y6).
    unfold b_end, b_off in *.
    destruct (Hother _ Hy Hyf) as [[H1 H2]|[H1|[H0 H1]]].
    + destruct (N.eq_dec (c_gap c) 0) as [Hg|Hg]; [right; right; split; [assumption|right; assumption]|].
      left. rewrite H1, N.add_0_r, H2 in Y5.
      pose proof (bump_le_fs c (f_size fr) (snd p + new)).
      destruct (N.lt_ge_cases (bump c (f_size fr) (f_len fr)) (f_size fr)) as [Hlt|Hge].
      * pose proof (bump_gap c Hwf _ _ Hlt). lia.
      * lia.
    + right; left. assumption.
    + right; right. split; [assumption|right; assumption].
  - intros k s _ Hlt. fold (depth g) in Hlt. lia.
Qed.


Lemma scope_okb_spec g k : scope_okb g k = true -> (k < depth g)%nat /\ g_freed g = false.
Proof.
  unfold scope_okb. intros H. apply andb_true_iff in H. destruct H as [H1 H2].
  apply Nat.ltb_lt in H1. destruct (g_freed g); [discriminate|]. auto.
Qed.

Lemma state_eta st : mkState (st_a st) (st_scs st) (st_ncl st) = st.
Proof. destruct st; reflexivity. Qed.

Lemma arena_eta a : mkArena (a_frames a) (a_refs a) (a_mem a) = a.
Proof. destruct a; reflexivity. Qed.

Lemma inv_head_disjoint st nb blocks scopes freed :
  inv c st (mkG (nb :: blocks) scopes freed) -> Forall (disjoint nb) blocks.
Proof.
  intros [G _ _]. simpl in G.
  destruct G as [Glen Grefs Gids Gfr Gne Gmarks Gsort Gblks Glvl Gst Gbel].
  inversion Gst as [|? ? Hhd _]; subst. inversion Gblks as [|? ? Hnb Hrest]; subst.
  rewrite Forall_forall in Hhd, Hrest. apply Forall_forall. intros x Hx.
  apply (stacked_disjoint _ _ _ Gfr Hnb (Hrest _ Hx) (Hhd _ Hx)).
Qed.

(* arena_realloc *)
Lemma inv_realloc st g k s p0 old new q a' :
  inv c st g -> api_okb g (Realloc k p0 old new) = true -> nth_error (st_scs st) k = Some s ->
  realloc c (st_a st) s p0 old new = Ok (q, a') ->
  inv c (mkState a' (st_scs st) (st_ncl st)) (gstep c g (Realloc k p0 old new) (EPtr q)) /\
  (forall b, In b (g_blocks g) -> fill_misses (Realloc k p0 old new) b ->
     agree (a_mem (st_a st)) (a_mem a') b) /\
  (forall p q', p0 = Some p -> q = Some q' -> forall i, i < N.min old new ->
       a_mem a' (fst q') (snd q' + i) = a_mem (st_a st) (fst p) (snd p + i)) /\
  (forall p q', p0 = Some p -> q = Some q' -> q' <> p ->
       Forall (disjoint (mkB q' new (lvl_of g k) false)) (g_blocks g)).
Proof.
  intros I Hapi Hk. pose proof I as [G _ _].
  (* the copying path, shared by all the cases that end in arena_malloc *)
  assert (Hslow : forall blocks0 q1 a1,
            g_freed g = false ->
            inv c st (mkG blocks0 (g_scopes g) (g_freed g)) ->
            malloc c (st_a st) s new = Ok (q1, a1) ->
            forall m2, (forall f o, f <> fst q1 \/ o < snd q1 -> m2 f o = a_mem a1 f o) ->
            k = O /\
            inv c (mkState (mkArena (a_frames a1) (a_refs a1) m2) (st_scs st) (st_ncl st))
                  (mkG (mkB q1 new (lvl_of g k) false :: blocks0) (g_scopes g) (g_freed g)) /\
            (forall b, In b blocks0 -> agree (a_mem (st_a st)) m2 b)).
  { intros blocks0 q1 a1 Hfreed I0 Hm m2 Hm2.
    destruct (malloc_spec c Hwf _ _ _ _ _ (g_frames _ _ _ _ _ _ _ G) Hm) as [Hv _].
    rewrite Hfreed in G. pose proof (validated_innermost _ _ _ _ _ _ _ G Hk Hv) as ->.
    split; [reflexivity|]. destruct (nth0_cons _ _ Hk) as [rest Hs].
    unfold lvl_of. rewrite Nat.sub_0_r.
    apply (inv_malloc _ _ _ _ _ _ _ _ false I0 Hs Hm Hm2). }
  destruct p0 as [p|].
  - (* a live block *)
    simpl in Hapi. apply andb_true_iff in Hapi. destruct Hapi as [Hsc Hfind].
    destruct (scope_okb_spec _ _ Hsc) as [Hkd Hfreed].
    destruct (find (is_user_at p old) (g_blocks g)) as [b|] eqn:Ef; [|discriminate].
    destruct (find_is_user _ _ _ _ Ef) as (Hb & Hn & Hl & Hs).
    assert (Hblk : blk_ok c (a_frames (st_a st)) b).
    { pose proof (g_blks _ _ _ _ _ _ _ G) as Hbl. rewrite Forall_forall in Hbl. auto. }
    destruct Hblk as (frb & B1 & B2 & B3 & B4 & B5). unfold b_off in B3. rewrite Hl in B3.
    unfold realloc. rewrite (land_aligned _ B3). simpl.
    assert (Irem : inv c st (mkG (remove_first (is_user_at p old) (g_blocks g)) (g_scopes g) (g_freed g))).
    { apply inv_remove; [assumption|assumption|]. intros z Hz. unfold is_user_at in Hz.
      destruct (b_node z); [discriminate|reflexivity]. }
    assert (Hslow2 : forall q1 a1, malloc c (st_a st) s new = Ok (q1, a1) -> old < new ->
              inv c (mkState (mkArena (a_frames a1) (a_refs a1) (mem_copy (a_mem a1) q1 p old)) (st_scs st) (st_ncl st))
                    (mkG (mkB q1 new (lvl_of g k) false :: remove_first (is_user_at p old) (g_blocks g))
                         (g_scopes g) (g_freed g)) /\
              (forall b0, In b0 (g_blocks g) -> agree (a_mem (st_a st)) (mem_copy (a_mem a1) q1 p old) b0) /\
              (forall i, i < N.min old new ->
                 mem_copy (a_mem a1) q1 p old (fst q1) (snd q1 + i) = a_mem (st_a st) (fst p) (snd p + i)) /\
              Forall (disjoint (mkB q1 new (lvl_of g k) false)) (g_blocks g)).
    { intros q1 a1 Hm Hlt.
      destruct (Hslow _ q1 a1 Hfreed Irem Hm (mem_copy (a_mem a1) q1 p old)) as (_ & I2 & _).
      { intros f o Ho. apply mem_copy_out. assumption. }
      assert (Ig : inv c st (mkG (g_blocks g) (g_scopes g) (g_freed g))) by (destruct g; exact I).
      destruct (Hslow _ q1 a1 Hfreed Ig Hm (mem_copy (a_mem a1) q1 p old)) as (_ & I3 & A2).
      { intros f o Ho. apply mem_copy_out. assumption. }
      simpl in I3. pose proof (inv_head_disjoint _ _ _ _ _ I3) as D3.
      destruct (Hslow _ q1 a1 Hfreed Ig Hm (a_mem a1)) as (_ & _ & A1).
      { intros; reflexivity. }
      split; [exact I2|]. split; [exact A2|]. split; [|exact D3].
      intros i Hi. rewrite N.min_l in Hi by lia. unfold mem_copy, inrange. rewrite Nat.eqb_refl.
      assert (E1 : (snd q1 <=? snd q1 + i) = true) by (apply N.leb_le; lia).
      assert (E2 : (snd q1 + i <? snd q1 + old) = true) by (apply N.ltb_lt; lia).
      rewrite E1, E2. simpl. replace (snd q1 + i - snd q1) with i by lia.
      specialize (A1 b Hb i). unfold b_fi, b_off in A1. rewrite Hl in A1. apply A1. lia. }
    unfold realloc_fast.
    destruct (N.leb_spec new old) as [Hle|Hgt].
    + (* shrinking *)
      destruct (c_sv c && negb (validate (st_a st) s)); [discriminate|].
      intros H; inversion H; subst q a'; clear H.
      assert (Hlvl : (b_lvl b <= lvl_of g k)%nat).
      { apply orb_true_iff in Hfind. destruct Hfind as [H|H]; [apply Nat.leb_le in H; assumption|].
        apply N.ltb_lt in H. lia. }
      rewrite state_eta. split; [|split; [|split]].
      * simpl. apply inv_shrink with (b := b); try assumption. unfold lvl_of in *. lia.
      * intros b0 _ _ i _. reflexivity.
      * intros p1 q' E1 E2 i _. inversion E1; inversion E2; subst. reflexivity.
      * intros p1 q' E1 E2 Hne. inversion E1; inversion E2; subst. congruence.
    + (* growing *)
      rewrite (gv_true c Hwf). destruct (validate (st_a st) s) eqn:Ev; simpl; [|discriminate].
      assert (Hk0 : k = O).
      { rewrite Hfreed in G. apply (validated_innermost _ _ _ _ _ _ _ G Hk Ev). }
      destruct (a_frames (st_a st)) as [|fr rest] eqn:Efr; [discriminate|].
      assert (Hd : (1 <= depth g)%nat) by lia.
      assert (Hfin : forall q1 a1, malloc c (st_a st) s new = Ok (q1, a1) ->
                Ok (Some q1, mkArena (a_frames a1) (a_refs a1) (mem_copy (a_mem a1) q1 p old)) = Ok (q, a') ->
                inv c (mkState a' (st_scs st) (st_ncl st)) (gstep c g (Realloc k (Some p) old new) (EPtr q)) /\
                (forall b0, In b0 (g_blocks g) -> fill_misses (Realloc k (Some p) old new) b0 ->
                   agree (a_mem (st_a st)) (a_mem a') b0) /\
                (forall p1 q', Some p = Some p1 -> q = Some q' -> forall i, i < N.min old new ->
                   a_mem a' (fst q') (snd q' + i) = a_mem (st_a st) (fst p1) (snd p1 + i)) /\
                (forall p1 q', Some p = Some p1 -> q = Some q' -> q' <> p1 ->
                   Forall (disjoint (mkB q' new (lvl_of g k) false)) (g_blocks g))).
      { intros q1 a1 Hm H. inversion H; subst q a'; clear H.
        destruct (Hslow2 _ _ Hm Hgt) as (J1 & J2 & J3 & J4). split; [exact J1|].
        split; [intros b0 Hb0 _; apply J2; assumption|].
        split.
        - intros p1 q' E1 E2 i Hi. inversion E1; inversion E2; subst. simpl. apply J3. assumption.
        - intros p1 q' E1 E2 _. inversion E2; subst. exact J4. }
      destruct (Nat.eqb (fst p) (length rest) && (align_off c (snd p + old) =? f_len fr)) eqn:Elast.
      * apply andb_true_iff in Elast. destruct Elast as [L1 L2].
        apply Nat.eqb_eq in L1. apply N.eqb_eq in L2.
        destruct (push c (mkFrame (f_size fr) (snd p)) new) as [[x fr']|] eqn:Epush.
        -- intros H; inversion H; subst q a'; clear H.
           destruct (inv_grow _ _ _ _ _ _ _ _ _ _ I Ef Hgt Efr L1 L2 Epush Hd) as (J1 & J2 & J3).
           subst k. unfold lvl_of. simpl. rewrite Nat.sub_0_r.
           split; [exact J1|]. split.
           { (* every block but the one named keeps its bytes; the one named too when it was
                named with its true size *)
             intros b0 Hb0 Hmiss. simpl in Hmiss.
             destruct (In_remove_first_or _ _ _ _ Ef Hb0) as [->|Hb0']; [|apply J2; assumption].
             destruct Hmiss as [Hmiss|Hmiss].
             - apply find_some in Ef. destruct Ef as [_ Ef]. congruence.
             - intros i Hi. unfold b_fi, b_off. rewrite Hl. apply J3. lia. }
           split.
           ++ intros p1 q' E1 E2 i Hi. injection E1 as <-. injection E2 as <-.
              rewrite N.min_l in Hi by lia. apply J3. assumption.
           ++ intros p1 q' E1 E2 Hne. injection E1 as <-. injection E2 as <-. congruence.
        -- destruct (malloc c (st_a st) s new) as [[q1 a1]| | |] eqn:Em; try discriminate.
           apply (Hfin q1 a1 eq_refl).
      * destruct (malloc c (st_a st) s new) as [[q1 a1]| | |] eqn:Em; try discriminate.
        apply (Hfin q1 a1 eq_refl).
  - (* realloc(NULL, ...) is arena_malloc *)
    simpl in Hapi. destruct (scope_okb_spec _ _ Hapi) as [Hkd Hfreed].
    unfold realloc. destruct (malloc c (st_a st) s new) as [[q1 a1]| | |] eqn:Em; try discriminate.
    intros H; inversion H; subst q a'; clear H.
    assert (Ig : inv c st (mkG (g_blocks g) (g_scopes g) (g_freed g))) by (destruct g; exact I).
    destruct (Hslow _ q1 a1 Hfreed Ig eq_refl (a_mem a1)) as (_ & J1 & J2); [intros; reflexivity|].
    rewrite arena_eta in J1. split; [exact J1|]. split; [intros b0 Hb0 _; apply J2; assumption|].
    split; intros p q' E; discriminate.
Qed.


Lemma optloc_eqb_refl p : optloc_eqb p p = true.
Proof. destruct p as [[f o]|]; simpl; [|reflexivity]. unfold loc_eqb; simpl. now rewrite Nat.eqb_refl, N.eqb_refl. Qed.

Lemma read_node_mem_node m p tok nx :
  read_node (c_node c) (mem_node m p (c_node c) tok nx) p = Some (tok, nx).
Proof.
  assert (Hpos : 0 < c_node c) by apply Hwf.
  assert (Hcell : forall i, i < c_node c ->
            mem_node m p (c_node c) tok nx (fst p) (snd p + i) = CNode tok nx i).
  { intros i Hi. unfold mem_node, inrange. rewrite Nat.eqb_refl.
    assert (E1 : (snd p <=? snd p + i) = true) by (apply N.leb_le; lia).
    assert (E2 : (snd p + i <? snd p + c_node c) = true) by (apply N.ltb_lt; lia).
    rewrite E1, E2. simpl. f_equal. lia. }
  unfold read_node. pose proof (Hcell 0 Hpos) as H0. rewrite N.add_0_r in H0. rewrite H0.
  assert (Hall : forallb (fun i => cell_is_node (mem_node m p (c_node c) tok nx (fst p) (snd p + N.of_nat i)) tok nx (N.of_nat i))
                         (seq 0 (N.to_nat (c_node c))) = true).
  { apply forallb_forall. intros i Hi. apply in_seq in Hi. rewrite Hcell by lia.
    simpl. now rewrite !N.eqb_refl, optloc_eqb_refl. }
  rewrite Hall. reflexivity.
Qed.

Lemma alloc_prelude st g k s size p a1 :
  inv c st g -> scope_okb g k = true -> nth_error (st_scs st) k = Some s ->
  malloc c (st_a st) s size = Ok (p, a1) ->
  k = O /\ exists rest, st_scs st = s :: rest.
Proof.
  intros I Hsc Hk Hm. pose proof I as [G _ _]. destruct (scope_okb_spec _ _ Hsc) as [_ Hfreed].
  destruct (malloc_spec c Hwf _ _ _ _ _ (g_frames _ _ _ _ _ _ _ G) Hm) as [Hv _].
  rewrite Hfreed in G. pose proof (validated_innermost _ _ _ _ _ _ _ G Hk Hv) as ->.
  split; [reflexivity|]. apply nth0_cons. assumption.
Qed.

Lemma remove_nth_0 {A} (l : list A) : remove_nth 0 l = tl l.
Proof. destruct l; reflexivity. Qed.

(* every API-respecting operation preserves the invariant and leaves the bytes
   of every live block alone (except the client's own write) *)
Theorem step_inv st g o st' ev :
  inv c st g -> api_okb g o = true -> step c st o = Ok (st', ev) ->
  inv c st' (gstep c g o ev) /\
  (forall b, In b (g_blocks g) -> fill_misses o b -> agree (a_mem (st_a st)) (a_mem (st_a st')) b).
Proof.
  intros I Hapi. unfold step.
  destruct (N.eqb_spec (a_refs (st_a st)) 0) as [Hz|Hnz]; [discriminate|].
  assert (Hrefl : forall b, agree (a_mem (st_a st)) (a_mem (st_a st)) b) by (intros b i _; reflexivity).
  (* the allocating operations share this *)
  assert (Halloc : forall k s size p a1 m2 node,
            scope_okb g k = true -> nth_error (st_scs st) k = Some s ->
            malloc c (st_a st) s size = Ok (p, a1) ->
            (forall f o', f <> fst p \/ o' < snd p -> m2 f o' = a_mem a1 f o') ->
            k = O /\ (exists rest, st_scs st = s :: rest) /\
            inv c (mkState (mkArena (a_frames a1) (a_refs a1) m2) (st_scs st) (st_ncl st))
                  (mkG (mkB p size (lvl_of g k) node :: g_blocks g) (g_scopes g) (g_freed g)) /\
            (forall b, In b (g_blocks g) -> agree (a_mem (st_a st)) m2 b)).
  { intros k s size p a1 m2 node Hsc Hk Hm Hm2.
    destruct (alloc_prelude _ _ _ _ _ _ _ I Hsc Hk Hm) as [-> [rest Hs]].
    split; [reflexivity|]. split; [eauto|]. unfold lvl_of. rewrite Nat.sub_0_r.
    apply (inv_malloc _ _ _ _ _ _ _ _ node I Hs Hm Hm2). }
  destruct o as [|k|k size|k nmemb size|k p0 old new|k data|k data|k data|k tok|p n v|p|]; simpl in Hapi.
  - (* Enter *)
    destruct (scope_enter (st_a st)) as [[a' s]| | |] eqn:Ee; try discriminate.
    intros H; inversion H; subst; clear H. split.
    + apply inv_enter; [assumption| |assumption]. destruct (g_freed g); [discriminate|reflexivity].
    + intros b _ _. unfold scope_enter in Ee. destruct (a_frames (st_a st)); [discriminate|].
      inversion Ee; subst. simpl. apply Hrefl.
  - (* LeaveAt *)
    apply andb_true_iff in Hapi. destruct Hapi as [Hk0 Hd]. apply Nat.eqb_eq in Hk0. subst k.
    unfold with_scope. destruct (nth_error (st_scs st) 0) as [s|] eqn:Hk; [|discriminate].
    destruct (nth0_cons _ _ Hk) as [rest Hs].
    destruct (scope_leave c (st_ncl st) (st_a st) s) as [[[a' toks] reset]| | |] eqn:El; try discriminate.
    intros H; inversion H; subst; clear H.
    destruct (inv_leave _ _ _ _ _ _ _ I Hs Hnz El) as (_ & _ & Hm & I').
    split.
    + simpl. rewrite Hs. simpl. unfold lvl_of. rewrite Nat.sub_0_r. exact I'.
    + intros b _ _. simpl. rewrite Hm. apply Hrefl.
  - (* Malloc *)
    unfold with_scope. destruct (nth_error (st_scs st) k) as [s|] eqn:Hk; [|discriminate].
    unfold lift_alloc. destruct (malloc c (st_a st) s size) as [[p a1]| | |] eqn:Em; try discriminate.
    intros H; inversion H; subst; clear H.
    destruct (Halloc k s size p a1 (a_mem a1) false Hapi Hk Em) as (_ & _ & J1 & J2);
      [intros; reflexivity|].
    rewrite arena_eta in J1. split; [exact J1|]. intros b Hb _. simpl. apply J2. assumption.
  - (* Calloc *)
    unfold with_scope. destruct (nth_error (st_scs st) k) as [s|] eqn:Hk; [|discriminate].
    unfold lift_alloc, calloc. destruct (SIZE_LIMIT <=? nmemb * size); [discriminate|].
    destruct (malloc c (st_a st) s (nmemb * size)) as [[p a1]| | |] eqn:Em; try discriminate.
    intros H; inversion H; subst; clear H.
    destruct (Halloc k s (nmemb * size) p a1 (mem_fill (a_mem a1) p (nmemb * size) (CByte 0)) false Hapi Hk Em)
      as (_ & _ & J1 & J2).
    { intros f o' Ho. apply mem_fill_out. destruct Ho; auto. }
    split; [exact J1|]. intros b Hb _. simpl. apply J2. assumption.
  - (* Realloc *)
    unfold with_scope. destruct (nth_error (st_scs st) k) as [s|] eqn:Hk; [|discriminate].
    destruct (realloc c (st_a st) s p0 old new) as [[q a']| | |] eqn:Er; try discriminate.
    intros H; inversion H; subst; clear H.
    destruct (inv_realloc _ _ _ _ _ _ _ _ _ I Hapi Hk Er) as (J1 & J2 & _ & _).
    split; [exact J1|]. intros b Hb Hmiss. simpl. apply J2; assumption.
  - (* Strndup *)
    unfold with_scope. destruct (nth_error (st_scs st) k) as [s|] eqn:Hk; [|discriminate].
    unfold lift_alloc, alloc_str. destruct (SIZE_LIMIT <=? N.of_nat (length data) + 1); [discriminate|].
    destruct (malloc c (st_a st) s (N.of_nat (length data) + 1)) as [[p a1]| | |] eqn:Em; try discriminate.
    intros H; inversion H; subst; clear H.
    destruct (Halloc k s _ p a1 (mem_bytes (a_mem a1) p (data ++ [0])) false Hapi Hk Em)
      as (_ & _ & J1 & J2).
    { intros f o' Ho. apply mem_bytes_out. assumption. }
    split; [exact J1|]. intros b Hb _. simpl. apply J2. assumption.
  - (* Strdup *)
    unfold with_scope. destruct (nth_error (st_scs st) k) as [s|] eqn:Hk; [|discriminate].
    unfold lift_alloc, alloc_str. destruct (SIZE_LIMIT <=? N.of_nat (length (cstr data)) + 1); [discriminate|].
    destruct (malloc c (st_a st) s (N.of_nat (length (cstr data)) + 1)) as [[p a1]| | |] eqn:Em; try discriminate.
    intros H; inversion H; subst; clear H.
    destruct (Halloc k s _ p a1 (mem_bytes (a_mem a1) p (cstr data ++ [0])) false Hapi Hk Em)
      as (_ & _ & J1 & J2).
    { intros f o' Ho. apply mem_bytes_out. assumption. }
    split; [exact J1|]. intros b Hb _. simpl. apply J2. assumption.
  - (* Sprintf *)
    unfold with_scope. destruct (nth_error (st_scs st) k) as [s|] eqn:Hk; [|discriminate].
    unfold lift_alloc, alloc_str. destruct (SIZE_LIMIT <=? N.of_nat (length data) + 1); [discriminate|].
    destruct (malloc c (st_a st) s (N.of_nat (length data) + 1)) as [[p a1]| | |] eqn:Em; try discriminate.
    intros H; inversion H; subst; clear H.
    destruct (Halloc k s _ p a1 (mem_bytes (a_mem a1) p (data ++ [0])) false Hapi Hk Em)
      as (_ & _ & J1 & J2).
    { intros f o' Ho. apply mem_bytes_out. assumption. }
    split; [exact J1|]. intros b Hb _. simpl. apply J2. assumption.
  - (* Cleanup *)
    unfold with_scope. destruct (nth_error (st_scs st) k) as [s|] eqn:Hk; [|discriminate].
    unfold cleanup.
    destruct (malloc c (st_a st) s (c_node c)) as [[p a1]| | |] eqn:Em; try discriminate.
    intros H; inversion H; subst; clear H.
    destruct (Halloc k s _ p a1 (mem_node (a_mem a1) p (c_node c) tok (s_cleanup s)) true Hapi Hk Em)
      as (-> & [rest Hs] & J1 & J2).
    { intros f o' Ho. apply mem_node_out. assumption. }
    split; [|intros b Hb _; simpl; apply J2; assumption].
    rewrite Hs in *. simpl.
    pose proof (inv_cleanup c _ _ s rest p tok J1) as J3. simpl in J3.
    unfold lvl_of in *. rewrite Nat.sub_0_r in *. apply J3.
    + reflexivity.
    + left. reflexivity.
    + apply read_node_mem_node.
  - (* Fill *)
    intros H; inversion H; subst; clear H. split.
    + simpl. apply inv_fill; assumption.
    + intros b Hb Hmiss. simpl in *. intros i Hi. apply mem_fill_out. unfold b_end, b_off in *.
      destruct Hmiss as [Hm|[Hm|[Hm|[Hm|Hm]]]]; [lia|lia|left; congruence|right; right; lia|right; left; lia].
  - (* Read *)
    intros H; inversion H; subst; clear H. split; [exact I|]. intros b _ _. apply Hrefl.
  - (* ArenaFree *)
    destruct (arena_free c (st_a st)) as [a'| | |] eqn:Ef; try discriminate.
    intros H; inversion H; subst; clear H.
    assert (Hfreed : g_freed g = false) by (destruct (g_freed g); [discriminate|reflexivity]).
    destruct (inv_free _ _ _ I Hfreed Ef) as [Hm I'].
    split; [exact I'|]. intros b _ _. simpl. rewrite Hm. apply Hrefl.
Qed.

End Steps.
