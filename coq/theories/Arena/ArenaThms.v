(* ArenaThms.v - the C19 statements, derived from the invariant (ArenaInv.v). *)
From Robsd Require Import Base.Bytes Arena.ArenaDefs Arena.ArenaSpec Arena.ArenaProofs Arena.ArenaInv.
From RobsdGen Require Import Gen_Arena.
From Coq Require Import Permutation.
Local Open Scope N_scope.

Section Thms.
Variable c : cfg.
Hypothesis Hwf : wf_cfg c.

(* ---- arena_alloc establishes the invariant ------------------------------------ *)
Lemma init_some : exists st, init c = Some st.
Proof.
  unfold init, frame_alloc, push. simpl.
  destruct Hwf as (_ & _ & _ & _ & _ & H1 & H2 & _).
  destruct (N.leb_spec SIZE_LIMIT (c_hdr c)) as [H|H]; [lia|].
  destruct (N.ltb_spec (c_fsz0 c) (c_hdr c)) as [H'|H']; [lia|]. eauto.
Qed.

Lemma init_inv st : init c = Some st -> inv c st ghost0.
Proof.
  unfold init, frame_alloc.
  destruct (push c (mkFrame (c_fsz0 c) 0) (c_hdr c)) as [[off fr]|] eqn:Ep; [|discriminate].
  intros H; inversion H; subst; clear H.
  apply push_some in Ep. simpl in Ep. destruct Ep as (_ & Hs & Hl & Hfit & _).
  destruct Hwf as (W1 & W2 & W3 & W4 & W5 & W6 & W7 & W8 & _).
  constructor; simpl; unfold depth; simpl.
  - constructor; simpl.
    + reflexivity.
    + reflexivity.
    + intros k s Hk. destruct k; discriminate.
    + constructor; [|constructor]. unfold frame_ok. rewrite Hs, Hl.
      pose proof (bump_le_fs c (c_fsz0 c) (0 + c_hdr c)).
      pose proof (bump_ge c Hwf (c_fsz0 c) (0 + c_hdr c) Hfit).
      pose proof (bump_aligned c Hwf (c_fsz0 c) (0 + c_hdr c) W4).
      repeat split; try assumption; try apply N.divide_refl; lia.
    + discriminate.
    + constructor.
    + constructor.
    + constructor.
    + constructor.
    + constructor.
    + intros b k s [].
  - intros k s toks Hk. destruct k; discriminate.
  - constructor.
Qed.

(* every state reachable by an API-respecting program satisfies the invariant *)
Theorem reach_inv st g : reach c st g -> inv c st g.
Proof.
  induction 1 as [st Hi|st g o st' ev _ IH Hapi Hstep].
  - apply init_inv. assumption.
  - apply (step_inv c Hwf _ _ _ _ _ IH Hapi Hstep).
Qed.

(* ---- alignment ------------------------------------------------------------------ *)
Theorem live_aligned st g b : reach c st g -> In b (g_blocks g) -> b_off b mod c_ma c = 0.
Proof.
  intros R Hb. pose proof (reach_inv _ _ R) as [G _ _].
  pose proof (g_blks _ _ _ _ _ _ _ G) as Hbl. rewrite Forall_forall in Hbl.
  destruct (Hbl _ Hb) as (fr & _ & _ & Ha & _). apply N.mod_divide; [apply (ma_nz c Hwf)|assumption].
Qed.

(* what a successful operation returns becomes a live block, hence is aligned *)
Theorem returned_aligned st g o st' p :
  reach c st g -> api_okb g o = true -> step c st o = Ok (st', EPtr (Some p)) -> snd p mod c_ma c = 0.
Proof.
  intros R Hapi Hstep.
  assert (R' : reach c st' (gstep c g o (EPtr (Some p)))) by (eapply reach_step; eassumption).
  assert (Hlive : exists b, In b (g_blocks (gstep c g o (EPtr (Some p)))) /\ b_loc b = p).
  { unfold step in Hstep. destruct (a_refs (st_a st) =? 0); [discriminate|].
    destruct o; simpl; unfold with_scope, lift_alloc in Hstep;
      try (eexists; split; [left; reflexivity|reflexivity]).
    - destruct (scope_enter (st_a st)) as [[? ?]| | |]; discriminate.
    - destruct (nth_error (st_scs st) k); [|discriminate].
      destruct (scope_leave c (st_ncl st) (st_a st) s) as [[[? ?] ?]| | |]; discriminate.
    - discriminate.
    - discriminate.
    - destruct (arena_free c (st_a st)); discriminate. }
  destruct Hlive as (b & Hb & <-). apply (live_aligned _ _ _ R' Hb).
Qed.

(* ---- disjointness, containment ----------------------------------------------------- *)
Theorem live_inside st g b :
  reach c st g -> In b (g_blocks g) ->
  exists fr, frame_at (a_frames (st_a st)) (b_fi b) = Some fr /\
             c_hdr c <= b_off b /\ b_end b <= f_len fr /\ f_len fr <= f_size fr.
Proof.
  intros R Hb. pose proof (reach_inv _ _ R) as [G _ _].
  pose proof (g_blks _ _ _ _ _ _ _ G) as Hbl. rewrite Forall_forall in Hbl.
  destruct (Hbl _ Hb) as (fr & H1 & H2 & _ & H3 & _). exists fr. repeat split; auto.
  pose proof (g_frames _ _ _ _ _ _ _ G) as Hf. rewrite Forall_forall in Hf.
  apply (Hf fr (frame_at_In _ _ _ H1)).
Qed.

Theorem live_disjoint st g : reach c st g -> ForallOrdPairs disjoint (g_blocks g).
Proof.
  intros R. pose proof (reach_inv _ _ R) as [G _ _].
  destruct G as [Glen Grefs Gids Gfr Gne Gmarks Gsort Gblks Glvl Gst Gbel].
  eapply FOP_impl_in; [|exact Gst]. intros x y Hx Hy Hst.
  rewrite Forall_forall in Gblks. apply (stacked_disjoint c Hwf _ _ _ Gfr (Gblks _ Hx) (Gblks _ Hy) Hst).
Qed.

(* ---- stability of contents ------------------------------------------------------------ *)
Theorem contents_stable st g o st' ev b :
  reach c st g -> api_okb g o = true -> step c st o = Ok (st', ev) ->
  In b (g_blocks g) -> fill_misses o b -> agree (a_mem (st_a st)) (a_mem (st_a st')) b.
Proof.
  intros R Hapi Hstep Hb Hm.
  destruct (step_inv c Hwf _ _ _ _ _ (reach_inv _ _ R) Hapi Hstep) as [_ H]. auto.
Qed.

(* a client write into one live block misses every other live block *)
Theorem fill_hits_one_block st g p n v u b :
  reach c st g -> In u (g_blocks g) -> In b (g_blocks g) -> in_block u p n = true ->
  disjoint u b -> fill_misses (Fill p n v) b.
Proof.
  intros R Hu Hb Hin Hd. simpl. unfold in_block in Hin.
  apply andb_true_iff in Hin. destruct Hin as [Hin H3]. apply andb_true_iff in Hin. destruct Hin as [H1 H2].
  apply Nat.eqb_eq in H1. apply N.leb_le in H2. apply N.leb_le in H3.
  unfold disjoint, b_end, b_off, b_fi in *.
  destruct Hd as [Hd|[Hd|[Hd|[Hd|Hd]]]]; [right; right; left; congruence|left; lia|..]; lia.
Qed.

(* ---- realloc ---------------------------------------------------------------------------- *)
Theorem realloc_prefix st g k p old new st' q :
  reach c st g -> api_okb g (Realloc k (Some p) old new) = true ->
  step c st (Realloc k (Some p) old new) = Ok (st', EPtr (Some q)) ->
  forall i, i < N.min old new ->
    a_mem (st_a st') (fst q) (snd q + i) = a_mem (st_a st) (fst p) (snd p + i).
Proof.
  intros R Hapi Hstep. pose proof (reach_inv _ _ R) as I.
  unfold step in Hstep. destruct (a_refs (st_a st) =? 0); [discriminate|].
  unfold with_scope in Hstep. destruct (nth_error (st_scs st) k) as [s|] eqn:Hk; [|discriminate].
  destruct (realloc c (st_a st) s (Some p) old new) as [[q0 a']| | |] eqn:Er; try discriminate.
  inversion Hstep; subst; clear Hstep.
  destruct (inv_realloc c Hwf _ _ _ _ _ _ _ _ _ I Hapi Hk Er) as (_ & _ & H & _). simpl.
  apply (H p q eq_refl eq_refl).
Qed.

(* shrinking never moves the block and never consults the scope *)
Theorem realloc_shrink_in_place st k s p old new :
  c_sv c = false ->
  nth_error (st_scs st) k = Some s -> a_refs (st_a st) <> 0 -> new <= old ->
  N.land (snd p) (c_ma c - 1) = 0 ->
  step c st (Realloc k (Some p) old new) = Ok (st, EPtr (Some p)).
Proof.
  intros Hsv Hk Hr Hle Hal. unfold step. destruct (N.eqb_spec (a_refs (st_a st)) 0); [contradiction|].
  unfold with_scope. rewrite Hk. unfold realloc, realloc_fast. rewrite Hal, Hsv. simpl.
  destruct (N.leb_spec new old); [|lia]. destruct st as [a scs ncl]; simpl. destruct a; reflexivity.
Qed.

(* ---- leaving a scope ----------------------------------------------------------------------- *)
Theorem leave_spec st g st' toks reset :
  reach c st g -> api_okb g (LeaveAt 0) = true -> step c st (LeaveAt 0) = Ok (st', ELeave toks reset) ->
  reset = false /\ toks = hd [] (g_scopes g) /\
  a_mem (st_a st') = a_mem (st_a st) /\
  (forall b, In b (g_blocks g) -> (b_lvl b < depth g)%nat -> In b (g_blocks (gstep c g (LeaveAt 0) (ELeave toks reset)))) /\
  (forall b, In b (g_blocks (gstep c g (LeaveAt 0) (ELeave toks reset))) -> In b (g_blocks g) /\ (b_lvl b < depth g)%nat).
Proof.
  intros R Hapi Hstep. pose proof (reach_inv _ _ R) as I.
  unfold step in Hstep. destruct (N.eqb_spec (a_refs (st_a st)) 0) as [Hz|Hnz]; [discriminate|].
  unfold with_scope in Hstep. destruct (nth_error (st_scs st) 0) as [s|] eqn:Hk; [|discriminate].
  destruct (nth0_cons _ _ Hk) as [rest Hs].
  destruct (scope_leave c (st_ncl st) (st_a st) s) as [[[a' tk] rs]| | |] eqn:El; try discriminate.
  inversion Hstep; subst; clear Hstep.
  destruct (inv_leave c Hwf _ _ _ _ _ _ _ I Hs Hnz El) as (H1 & H2 & H3 & _).
  split; [assumption|]. split; [assumption|]. split; [assumption|].
  simpl. unfold lvl_of. rewrite Nat.sub_0_r. split.
  - intros b Hb Hl. apply filter_In. split; [assumption|]. apply Nat.ltb_lt. assumption.
  - intros b Hb. apply filter_In in Hb. destruct Hb as [Hb Hl]. apply Nat.ltb_lt in Hl. auto.
Qed.

(* ---- detection of the use of an outer scope --------------------------------------------------- *)
Lemma reach_refs_nz st g : reach c st g -> (g_freed g = false \/ (0 < depth g)%nat) -> a_refs (st_a st) <> 0.
Proof.
  intros R H. pose proof (reach_inv _ _ R) as [G _ _].
  destruct G as [Glen Grefs Gids Gfr Gne Gmarks Gsort Gblks Glvl Gst Gbel]. rewrite Grefs.
  destruct H as [H|H]; [rewrite H; lia|destruct (g_freed g); lia].
Qed.

Lemma scope_lookup st g k :
  reach c st g -> (k < depth g)%nat -> exists s, nth_error (st_scs st) k = Some s.
Proof.
  intros R Hk. pose proof (reach_inv _ _ R) as [G _ _].
  destruct G as [Glen Grefs Gids Gfr Gne Gmarks Gsort Gblks Glvl Gst Gbel].
  destruct (nth_error (st_scs st) k) eqn:E; [eauto|]. apply nth_error_None in E. lia.
Qed.

Lemma malloc_outer_traps st g k s size :
  reach c st g -> g_freed g = false -> nth_error (st_scs st) k = Some s -> (0 < k)%nat ->
  malloc c (st_a st) s size = Trap.
Proof.
  intros R Hf Hk Hpos. pose proof (reach_inv _ _ R) as [G _ _]. rewrite Hf in G.
  unfold malloc, validate. rewrite (outer_not_validated c _ _ _ _ _ _ _ G Hk Hpos). reflexivity.
Qed.

Theorem outer_use_traps st g o :
  reach c st g -> api_okb g o = true -> must_trap c o = true -> step c st o = Trap.
Proof.
  intros R Hapi Hmt. pose proof (reach_inv _ _ R) as I.
  destruct o as [|k|k size|k nmemb size|k p0 old new|k data|k data|k data|k tok|p n v|p|];
    simpl in Hmt; try discriminate; simpl in Hapi.
  - (* Malloc *)
    destruct (scope_okb_spec _ _ Hapi) as [Hkd Hf]. apply Nat.ltb_lt in Hmt.
    destruct (scope_lookup _ _ _ R Hkd) as [s Hk].
    unfold step. destruct (N.eqb_spec (a_refs (st_a st)) 0) as [Hz|_]; [exfalso; eapply reach_refs_nz; eauto|].
    unfold with_scope. rewrite Hk. unfold lift_alloc. rewrite (malloc_outer_traps _ _ _ _ _ R Hf Hk Hmt). reflexivity.
  - (* Calloc *)
    destruct (scope_okb_spec _ _ Hapi) as [Hkd Hf]. apply andb_true_iff in Hmt. destruct Hmt as [Hmt Hsz].
    apply Nat.ltb_lt in Hmt. apply N.ltb_lt in Hsz.
    destruct (scope_lookup _ _ _ R Hkd) as [s Hk].
    unfold step. destruct (N.eqb_spec (a_refs (st_a st)) 0) as [Hz|_]; [exfalso; eapply reach_refs_nz; eauto|].
    unfold with_scope. rewrite Hk. unfold lift_alloc, calloc.
    destruct (N.leb_spec SIZE_LIMIT (nmemb * size)); [lia|].
    rewrite (malloc_outer_traps _ _ _ _ _ R Hf Hk Hmt). reflexivity.
  - (* Realloc *)
    destruct p0 as [p|].
    + apply andb_true_iff in Hapi. destruct Hapi as [Hsc Hfind].
      destruct (scope_okb_spec _ _ Hsc) as [Hkd Hf]. apply andb_true_iff in Hmt. destruct Hmt as [Hmt Hgrow].
      apply Nat.ltb_lt in Hmt.
      destruct (scope_lookup _ _ _ R Hkd) as [s Hk].
      destruct (find (is_user_at p old) (g_blocks g)) as [b|] eqn:Ef; [|discriminate].
      destruct (find_is_user _ _ _ _ Ef) as (Hb & _ & Hl & _).
      pose proof (live_aligned _ _ _ R Hb) as Hal. unfold b_off in Hal. rewrite Hl in Hal.
      apply N.mod_divide in Hal; [|apply (ma_nz c Hwf)].
      unfold step. destruct (N.eqb_spec (a_refs (st_a st)) 0) as [Hz|_]; [exfalso; eapply reach_refs_nz; eauto|].
      unfold with_scope. rewrite Hk. unfold realloc, realloc_fast. rewrite (land_aligned c Hwf _ Hal). simpl.
      pose proof (reach_inv _ _ R) as [G _ _]. rewrite Hf in G. unfold validate.
      rewrite (outer_not_validated c _ _ _ _ _ _ _ G Hk Hmt), (gv_true c Hwf).
      destruct (N.leb_spec new old) as [Hle|Hgt]; [|reflexivity].
      assert (Hsv : c_sv c = true).
      { apply orb_true_iff in Hgrow. destruct Hgrow as [H|H]; [assumption|]. apply N.ltb_lt in H. lia. }
      rewrite Hsv. reflexivity.
    + destruct (scope_okb_spec _ _ Hapi) as [Hkd Hf]. apply Nat.ltb_lt in Hmt.
      destruct (scope_lookup _ _ _ R Hkd) as [s Hk].
      unfold step. destruct (N.eqb_spec (a_refs (st_a st)) 0) as [Hz|_]; [exfalso; eapply reach_refs_nz; eauto|].
      unfold with_scope. rewrite Hk. unfold realloc. rewrite (malloc_outer_traps _ _ _ _ _ R Hf Hk Hmt). reflexivity.
  - (* Strndup *)
    destruct (scope_okb_spec _ _ Hapi) as [Hkd Hf]. apply andb_true_iff in Hmt. destruct Hmt as [Hmt Hsz].
    apply Nat.ltb_lt in Hmt. apply N.ltb_lt in Hsz.
    destruct (scope_lookup _ _ _ R Hkd) as [s Hk].
    unfold step. destruct (N.eqb_spec (a_refs (st_a st)) 0) as [Hz|_]; [exfalso; eapply reach_refs_nz; eauto|].
    unfold with_scope. rewrite Hk. unfold lift_alloc, alloc_str.
    destruct (N.leb_spec SIZE_LIMIT (N.of_nat (length data) + 1)); [lia|].
    rewrite (malloc_outer_traps _ _ _ _ _ R Hf Hk Hmt). reflexivity.
  - (* Strdup *)
    destruct (scope_okb_spec _ _ Hapi) as [Hkd Hf]. apply andb_true_iff in Hmt. destruct Hmt as [Hmt Hsz].
    apply Nat.ltb_lt in Hmt. apply N.ltb_lt in Hsz.
    destruct (scope_lookup _ _ _ R Hkd) as [s Hk].
    unfold step. destruct (N.eqb_spec (a_refs (st_a st)) 0) as [Hz|_]; [exfalso; eapply reach_refs_nz; eauto|].
    unfold with_scope. rewrite Hk. unfold lift_alloc, alloc_str.
    destruct (N.leb_spec SIZE_LIMIT (N.of_nat (length (cstr data)) + 1)); [lia|].
    rewrite (malloc_outer_traps _ _ _ _ _ R Hf Hk Hmt). reflexivity.
  - (* Sprintf *)
    destruct (scope_okb_spec _ _ Hapi) as [Hkd Hf]. apply andb_true_iff in Hmt. destruct Hmt as [Hmt Hsz].
    apply Nat.ltb_lt in Hmt. apply N.ltb_lt in Hsz.
    destruct (scope_lookup _ _ _ R Hkd) as [s Hk].
    unfold step. destruct (N.eqb_spec (a_refs (st_a st)) 0) as [Hz|_]; [exfalso; eapply reach_refs_nz; eauto|].
    unfold with_scope. rewrite Hk. unfold lift_alloc, alloc_str.
    destruct (N.leb_spec SIZE_LIMIT (N.of_nat (length data) + 1)); [lia|].
    rewrite (malloc_outer_traps _ _ _ _ _ R Hf Hk Hmt). reflexivity.
  - (* Cleanup *)
    destruct (scope_okb_spec _ _ Hapi) as [Hkd Hf]. apply Nat.ltb_lt in Hmt.
    destruct (scope_lookup _ _ _ R Hkd) as [s Hk].
    unfold step. destruct (N.eqb_spec (a_refs (st_a st)) 0) as [Hz|_]; [exfalso; eapply reach_refs_nz; eauto|].
    unfold with_scope. rewrite Hk. unfold cleanup. rewrite (malloc_outer_traps _ _ _ _ _ R Hf Hk Hmt). reflexivity.
Qed.


(* ---- use of the innermost scope never traps or crashes --------------------------------------- *)
Lemma push_fits fr size :
  f_len fr + size <= f_size fr -> f_len fr + size < SIZE_LIMIT -> exists off fr', push c fr size = Some (off, fr').
Proof.
  intros H1 H2. unfold push.
  destruct (N.leb_spec SIZE_LIMIT (f_len fr + size)); [lia|].
  destruct (N.ltb_spec (f_size fr) (f_len fr + size)); [lia|]. eauto.
Qed.

Lemma malloc_progress a s size :
  Forall (frame_ok c) (a_frames a) -> a_frames a <> [] -> validate a s = true ->
  (exists p a', malloc c a s size = Ok (p, a')) \/
  (malloc c a s size = Exit1 /\ 9223372036854775808 < size + c_hdr c + c_gap c).
Proof.
  intros Hf Hne Hv. unfold malloc. rewrite Hv. cbn [negb].
  destruct (a_frames a) as [|fr rest] eqn:Efr; [congruence|].
  destruct (push c fr size) as [[off fr']|] eqn:Ep; [left; eauto|].
  destruct ((SIZE_LIMIT <=? size + c_hdr c) || (SIZE_LIMIT <=? c_gap c + (size + c_hdr c))) eqn:Eov.
  { right. split; [reflexivity|]. apply orb_true_iff in Eov.
    destruct Eov as [E|E]; apply N.leb_le in E; unfold SIZE_LIMIT in E; lia. }
  apply orb_false_iff in Eov. destruct Eov as [Eov1 Eov2]. apply N.leb_gt in Eov1. apply N.leb_gt in Eov2.
  destruct Hwf as (W1 & W2 & W3 & W4 & W5 & W6 & W7 & W8 & _).
  destruct (grow 64 (c_fsz0 c) (c_gap c + (size + c_hdr c))) as [fsz|] eqn:Eg.
  - apply grow_some in Eg; [|assumption]. destruct Eg as (Gtot & Gdiv & Glim).
    unfold frame_alloc.
    destruct (push_fits (mkFrame fsz 0) (c_hdr c)) as (off0 & fr1 & Ep1); simpl; try lia.
    rewrite Ep1. simpl.
    apply push_some in Ep1. simpl in Ep1. destruct Ep1 as (_ & Hs1 & Hl1 & _ & _).
    assert (Hlen : f_len fr1 <= c_hdr c + c_gap c).
    { rewrite Hl1. unfold bump. rewrite (align_off_id c Hwf _ W3).
      destruct (N.ltb_spec fsz (c_hdr c + c_gap c)); lia. }
    destruct (push_fits fr1 size) as (off & fr1' & Ep2); try (rewrite ?Hs1; lia).
    rewrite Ep2. left. eauto.
  - right. split; [reflexivity|].
    apply grow_none in Eg; [lia|assumption|].
    change (2 ^ N.of_nat 64) with 18446744073709551616. unfold SIZE_LIMIT. lia.
Qed.

Lemma validate_inner st g s :
  reach c st g -> g_freed g = false -> nth_error (st_scs st) 0 = Some s -> validate (st_a st) s = true.
Proof.
  intros R Hf Hk. pose proof (reach_inv _ _ R) as [G _ _].
  destruct G as [Glen Grefs Gids Gfr Gne Gmarks Gsort Gblks Glvl Gst Gbel].
  unfold validate. apply N.eqb_eq. rewrite (Gids _ _ Hk), Grefs, Hf, Nat.sub_0_r. reflexivity.
Qed.

Lemma reach_frames st g :
  reach c st g -> a_refs (st_a st) <> 0 ->
  Forall (frame_ok c) (a_frames (st_a st)) /\ a_frames (st_a st) <> [].
Proof.
  intros R Hnz. pose proof (reach_inv _ _ R) as [G _ _].
  destruct G as [Glen Grefs Gids Gfr Gne Gmarks Gsort Gblks Glvl Gst Gbel]. auto.
Qed.

Lemma live_block_depth st g b : reach c st g -> In b (g_blocks g) -> (0 < depth g)%nat.
Proof.
  intros R Hb. pose proof (reach_inv _ _ R) as [G _ _].
  destruct G as [Glen Grefs Gids Gfr Gne Gmarks Gsort Gblks Glvl Gst Gbel].
  rewrite Forall_forall in Glvl. specialize (Glvl _ Hb). lia.
Qed.

(* the shared part: an allocation of n bytes through scope k = 0 *)
Lemma alloc_progress st g s n :
  reach c st g -> g_freed g = false -> nth_error (st_scs st) 0 = Some s ->
  (exists p a', malloc c (st_a st) s n = Ok (p, a')) \/
  (malloc c (st_a st) s n = Exit1 /\ 9223372036854775808 < n + c_hdr c + c_gap c).
Proof.
  intros R Hf Hk.
  assert (Hnz : a_refs (st_a st) <> 0) by (eapply reach_refs_nz; eauto).
  destruct (reach_frames _ _ R Hnz) as [F1 F2].
  apply malloc_progress; auto. eapply validate_inner; eauto.
Qed.

Theorem inner_use_ok st g o :
  reach c st g -> api_okb g o = true -> must_trap c o = false ->
  (exists st' ev, step c st o = Ok (st', ev)) \/ (step c st o = Exit1 /\ may_exit c o = true).
Proof.
  intros R Hapi Hmt. pose proof (reach_inv _ _ R) as I.
  assert (Hk0 : forall k, (0 <? k)%nat = false -> k = O) by (intros k H; apply Nat.ltb_ge in H; lia).
  destruct o as [|k|k size|k nmemb size|k p0 old new|k data|k data|k data|k tok|p n v|p|];
    simpl in Hmt; simpl in Hapi; unfold step.
  - (* Enter *)
    assert (Hf : g_freed g = false) by (destruct (g_freed g); [discriminate|reflexivity]).
    assert (Hnz : a_refs (st_a st) <> 0) by (eapply reach_refs_nz; eauto).
    destruct (N.eqb_spec (a_refs (st_a st)) 0); [contradiction|].
    destruct (reach_frames _ _ R Hnz) as [_ F2]. unfold scope_enter.
    destruct (a_frames (st_a st)); [congruence|]. left. eauto.
  - (* LeaveAt *)
    apply andb_true_iff in Hapi. destruct Hapi as [Hk Hd]. apply Nat.eqb_eq in Hk. subst k.
    apply Nat.ltb_lt in Hd.
    assert (Hnz : a_refs (st_a st) <> 0) by (eapply reach_refs_nz; eauto).
    destruct (N.eqb_spec (a_refs (st_a st)) 0); [contradiction|].
    destruct (scope_lookup _ _ _ R Hd) as [s Hs]. unfold with_scope. rewrite Hs.
    destruct I as [G Ch Fu].
    destruct (g_scopes g) as [|t0 trest] eqn:Eg; [unfold depth in Hd; rewrite Eg in Hd; simpl in Hd; lia|].
    assert (Hrun : run_cleanups (st_ncl st) (c_node c) (a_mem (st_a st)) (s_cleanup s) = Some t0).
    { eapply run_cleanups_chain; [apply (Ch O s t0); [assumption|reflexivity]|]. inversion Fu; assumption. }
    unfold scope_leave. rewrite Hrun. left.
    destruct (drop_frames (if a_refs (st_a st) =? 1 then 0%nat else s_nframes s) (a_frames (st_a st))) as [|fr rest];
      [eauto|]. destruct (s_flen s <=? f_len fr); eauto.
  - (* Malloc *)
    destruct (scope_okb_spec _ _ Hapi) as [Hkd Hf]. pose proof (Hk0 _ Hmt) as ->.
    assert (Hnz : a_refs (st_a st) <> 0) by (eapply reach_refs_nz; eauto).
    destruct (N.eqb_spec (a_refs (st_a st)) 0); [contradiction|].
    destruct (scope_lookup _ _ _ R Hkd) as [s Hs]. unfold with_scope. rewrite Hs. unfold lift_alloc.
    destruct (alloc_progress _ _ _ size R Hf Hs) as [(p & a' & E)|[E Hbig]]; rewrite E.
    + left. eauto.
    + right. split; [reflexivity|]. unfold may_exit. simpl. apply N.ltb_lt. assumption.
  - (* Calloc *)
    destruct (scope_okb_spec _ _ Hapi) as [Hkd Hf].
    assert (Hnz : a_refs (st_a st) <> 0) by (eapply reach_refs_nz; eauto).
    destruct (N.eqb_spec (a_refs (st_a st)) 0); [contradiction|].
    destruct (scope_lookup _ _ _ R Hkd) as [s Hs]. unfold with_scope. rewrite Hs. unfold lift_alloc, calloc.
    destruct (N.leb_spec SIZE_LIMIT (nmemb * size)) as [Hov|Hov].
    + right. split; [reflexivity|]. unfold may_exit. simpl. apply N.ltb_lt. unfold SIZE_LIMIT in Hov. lia.
    + assert (k = O).
      { apply andb_false_iff in Hmt. destruct Hmt as [H|H]; [auto|]. apply N.ltb_ge in H. lia. }
      subst k.
      destruct (alloc_progress _ _ _ (nmemb * size) R Hf Hs) as [(p & a' & E)|[E Hbig]]; rewrite E.
      * left. eauto.
      * right. split; [reflexivity|]. unfold may_exit. simpl. apply N.ltb_lt. assumption.
  - (* Realloc *)
    assert (Hsc : scope_okb g k = true).
    { destruct p0; [apply andb_true_iff in Hapi; apply Hapi|assumption]. }
    destruct (scope_okb_spec _ _ Hsc) as [Hkd Hf].
    assert (Hnz : a_refs (st_a st) <> 0) by (eapply reach_refs_nz; eauto).
    destruct (N.eqb_spec (a_refs (st_a st)) 0); [contradiction|].
    destruct (scope_lookup _ _ _ R Hkd) as [s Hs]. unfold with_scope. rewrite Hs.
    assert (Hslow : k = O ->
              (exists q a', (match malloc c (st_a st) s new with
                             | Ok (q, a') => Ok (q, a') | Trap => Trap | Exit1 => Exit1 | Crash => Crash end) = Ok (q, a')) \/
              (malloc c (st_a st) s new = Exit1 /\ 9223372036854775808 < new + c_hdr c + c_gap c)).
    { intros ->. destruct (alloc_progress _ _ _ new R Hf Hs) as [(q & a' & E)|[E Hbig]]; rewrite E; eauto. }
    destruct p0 as [p|].
    + apply andb_true_iff in Hapi. destruct Hapi as [_ Hfind].
      destruct (find (is_user_at p old) (g_blocks g)) as [b|] eqn:Ef; [|discriminate].
      destruct (find_is_user _ _ _ _ Ef) as (Hb & _ & Hl & _).
      pose proof (live_aligned _ _ _ R Hb) as Hal. unfold b_off in Hal. rewrite Hl in Hal.
      apply N.mod_divide in Hal; [|apply (ma_nz c Hwf)].
      unfold realloc, realloc_fast. rewrite (land_aligned c Hwf _ Hal). simpl.
      destruct (N.leb_spec new old) as [Hle|Hgt].
      { assert (Hnt : c_sv c && negb (validate (st_a st) s) = false).
        { apply andb_false_iff in Hmt. destruct Hmt as [H|H].
          - pose proof (Hk0 _ H) as Hk. subst k. rewrite (validate_inner _ _ _ R Hf Hs). apply andb_false_r.
          - apply orb_false_iff in H. destruct H as [H _]. rewrite H. reflexivity. }
        rewrite Hnt. left. eauto. }
      assert (k = O).
      { apply andb_false_iff in Hmt. destruct Hmt as [H|H]; [auto|].
        apply orb_false_iff in H. destruct H as [_ H]. apply N.ltb_ge in H. lia. }
      subst k. rewrite (validate_inner _ _ _ R Hf Hs), (gv_true c Hwf). simpl.
      destruct (reach_frames _ _ R Hnz) as [_ F2].
      destruct (a_frames (st_a st)) as [|fr rest] eqn:Efr; [congruence|].
      assert (Hfin : (exists st' ev,
                 match (match malloc c (st_a st) s new with
                        | Ok (q, a') => Ok (Some q, mkArena (a_frames a') (a_refs a') (mem_copy (a_mem a') q p old))
                        | Trap => Trap | Exit1 => Exit1 | Crash => Crash end) with
                 | Ok (q, a') => Ok (mkState a' (st_scs st) (st_ncl st), EPtr q)
                 | Trap => Trap | Exit1 => Exit1 | Crash => Crash end = Ok (st', ev)) \/
               (match (match malloc c (st_a st) s new with
                        | Ok (q, a') => Ok (Some q, mkArena (a_frames a') (a_refs a') (mem_copy (a_mem a') q p old))
                        | Trap => Trap | Exit1 => Exit1 | Crash => Crash end) with
                 | Ok (q, a') => Ok (mkState a' (st_scs st) (st_ncl st), EPtr q)
                 | Trap => Trap | Exit1 => Exit1 | Crash => Crash end = Exit1 /\
                may_exit c (Realloc 0 (Some p) old new) = true)).
      { destruct (alloc_progress _ _ _ new R Hf Hs) as [(q & a' & E)|[E Hbig]]; rewrite E.
        - left. eauto.
        - right. split; [reflexivity|]. unfold may_exit. simpl.
          destruct (N.leb_spec new old); [lia|]. apply N.ltb_lt. assumption. }
      destruct (Nat.eqb (fst p) (length rest) && (align_off c (snd p + old) =? f_len fr)).
      * destruct (push c (mkFrame (f_size fr) (snd p)) new) as [[x fr']|]; [left; eauto|exact Hfin].
      * exact Hfin.
    + pose proof (Hk0 _ Hmt) as ->. unfold realloc.
      destruct (alloc_progress _ _ _ new R Hf Hs) as [(q & a' & E)|[E Hbig]]; rewrite E.
      * left. eauto.
      * right. split; [reflexivity|]. unfold may_exit. simpl. apply N.ltb_lt. assumption.
  - (* Strndup *)
    destruct (scope_okb_spec _ _ Hapi) as [Hkd Hf].
    assert (Hnz : a_refs (st_a st) <> 0) by (eapply reach_refs_nz; eauto).
    destruct (N.eqb_spec (a_refs (st_a st)) 0); [contradiction|].
    destruct (scope_lookup _ _ _ R Hkd) as [s Hs]. unfold with_scope. rewrite Hs. unfold lift_alloc, alloc_str.
    destruct (N.leb_spec SIZE_LIMIT (N.of_nat (length data) + 1)) as [Hov|Hov].
    + right. split; [reflexivity|]. unfold may_exit. simpl. apply N.ltb_lt. unfold SIZE_LIMIT in Hov. lia.
    + assert (k = O).
      { apply andb_false_iff in Hmt. destruct Hmt as [H|H]; [auto|]. apply N.ltb_ge in H. lia. }
      subst k.
      destruct (alloc_progress _ _ _ (N.of_nat (length data) + 1) R Hf Hs) as [(p & a' & E)|[E Hbig]]; rewrite E.
      * left. eauto.
      * right. split; [reflexivity|]. unfold may_exit. simpl. apply N.ltb_lt. assumption.
  - (* Strdup *)
    destruct (scope_okb_spec _ _ Hapi) as [Hkd Hf].
    assert (Hnz : a_refs (st_a st) <> 0) by (eapply reach_refs_nz; eauto).
    destruct (N.eqb_spec (a_refs (st_a st)) 0); [contradiction|].
    destruct (scope_lookup _ _ _ R Hkd) as [s Hs]. unfold with_scope. rewrite Hs. unfold lift_alloc, alloc_str.
    destruct (N.leb_spec SIZE_LIMIT (N.of_nat (length (cstr data)) + 1)) as [Hov|Hov].
    + right. split; [reflexivity|]. unfold may_exit. simpl. apply N.ltb_lt. unfold SIZE_LIMIT in Hov. lia.
    + assert (k = O).
      { apply andb_false_iff in Hmt. destruct Hmt as [H|H]; [auto|]. apply N.ltb_ge in H. lia. }
      subst k.
      destruct (alloc_progress _ _ _ (N.of_nat (length (cstr data)) + 1) R Hf Hs) as [(p & a' & E)|[E Hbig]]; rewrite E.
      * left. eauto.
      * right. split; [reflexivity|]. unfold may_exit. simpl. apply N.ltb_lt. assumption.
  - (* Sprintf *)
    destruct (scope_okb_spec _ _ Hapi) as [Hkd Hf].
    assert (Hnz : a_refs (st_a st) <> 0) by (eapply reach_refs_nz; eauto).
    destruct (N.eqb_spec (a_refs (st_a st)) 0); [contradiction|].
    destruct (scope_lookup _ _ _ R Hkd) as [s Hs]. unfold with_scope. rewrite Hs. unfold lift_alloc, alloc_str.
    destruct (N.leb_spec SIZE_LIMIT (N.of_nat (length data) + 1)) as [Hov|Hov].
    + right. split; [reflexivity|]. unfold may_exit. simpl. apply N.ltb_lt. unfold SIZE_LIMIT in Hov. lia.
    + assert (k = O).
      { apply andb_false_iff in Hmt. destruct Hmt as [H|H]; [auto|]. apply N.ltb_ge in H. lia. }
      subst k.
      destruct (alloc_progress _ _ _ (N.of_nat (length data) + 1) R Hf Hs) as [(p & a' & E)|[E Hbig]]; rewrite E.
      * left. eauto.
      * right. split; [reflexivity|]. unfold may_exit. simpl. apply N.ltb_lt. assumption.
  - (* Cleanup *)
    destruct (scope_okb_spec _ _ Hapi) as [Hkd Hf]. pose proof (Hk0 _ Hmt) as ->.
    assert (Hnz : a_refs (st_a st) <> 0) by (eapply reach_refs_nz; eauto).
    destruct (N.eqb_spec (a_refs (st_a st)) 0); [contradiction|].
    destruct (scope_lookup _ _ _ R Hkd) as [s Hs]. unfold with_scope. rewrite Hs. unfold cleanup.
    destruct (alloc_progress _ _ _ (c_node c) R Hf Hs) as [(p & a' & E)|[E Hbig]]; rewrite E.
    + left. eauto.
    + right. split; [reflexivity|]. unfold may_exit. simpl. apply N.ltb_lt. assumption.
  - (* Fill *)
    apply existsb_exists in Hapi. destruct Hapi as (u & Hu & _).
    assert (Hnz : a_refs (st_a st) <> 0).
    { eapply reach_refs_nz; eauto. right. eapply live_block_depth; eauto. }
    destruct (N.eqb_spec (a_refs (st_a st)) 0); [contradiction|]. left. eauto.
  - (* Read *)
    apply existsb_exists in Hapi. destruct Hapi as (u & Hu & _).
    assert (Hnz : a_refs (st_a st) <> 0).
    { eapply reach_refs_nz; eauto. right. eapply live_block_depth; eauto. }
    destruct (N.eqb_spec (a_refs (st_a st)) 0); [contradiction|]. left. eauto.
  - (* ArenaFree *)
    assert (Hf : g_freed g = false) by (destruct (g_freed g); [discriminate|reflexivity]).
    assert (Hnz : a_refs (st_a st) <> 0) by (eapply reach_refs_nz; eauto).
    destruct (N.eqb_spec (a_refs (st_a st)) 0); [contradiction|]. unfold arena_free.
    destruct (1 <? a_refs (st_a st)); [left; eauto|].
    unfold scope_leave. simpl.
    destruct (drop_frames (if a_refs (st_a st) =? 1 then 0%nat else 0%nat) (a_frames (st_a st))) as [|fr rest];
      [left; eauto|]. destruct (0 <=? f_len fr); left; eauto.
Qed.


(* ---- whole traces ------------------------------------------------------------------------------ *)
Lemma agree_trans m1 m2 m3 b : agree m1 m2 b -> agree m2 m3 b -> agree m1 m3 b.
Proof. intros H1 H2 i Hi. rewrite H2, H1 by assumption. reflexivity. Qed.

Theorem stable_while_live b st g ops st2 g2 :
  reach c st g -> steps_keeping c b st g ops st2 g2 ->
  agree (a_mem (st_a st)) (a_mem (st_a st2)) b /\ In b (g_blocks g2) /\ reach c st2 g2.
Proof.
  intros R H. induction H as [st g Hb|st g o st1 ev ops st2 g2 Hb Hm Hapi Hstep _ IH].
  - split; [intros i _; reflexivity|auto].
  - assert (R1 : reach c st1 (gstep c g o ev)) by (eapply reach_step; eassumption).
    destruct (IH R1) as (A & B & C). split; [|auto].
    eapply agree_trans; [|exact A]. eapply contents_stable; eassumption.
Qed.

Lemma gstep_scopes_perm g o st st' ev :
  reach c st g -> api_okb g o = true -> step c st o = Ok (st', ev) ->
  Permutation
    (ran [ev] ++ concat (g_scopes (gstep c g o ev)))
    (registered [o] ++ concat (g_scopes g)).
Proof.
  intros R Hapi Hstep.
  destruct o as [|k|k size|k nmemb size|k p0 old new|k data|k data|k data|k tok|p n v|p|].
  - unfold step in Hstep. destruct (a_refs (st_a st) =? 0); [discriminate|].
    destruct (scope_enter (st_a st)) as [[a' s]| | |]; try discriminate. inversion Hstep; subst. simpl. apply Permutation_refl.
  - pose proof Hapi as Hapi0. simpl in Hapi0. apply andb_true_iff in Hapi0. destruct Hapi0 as [Hk _].
    apply Nat.eqb_eq in Hk. subst k.
    assert (exists toks reset, ev = ELeave toks reset) as (toks & reset & ->).
    { unfold step in Hstep. destruct (a_refs (st_a st) =? 0); [discriminate|]. unfold with_scope in Hstep.
      destruct (nth_error (st_scs st) 0); [|discriminate].
      destruct (scope_leave c (st_ncl st) (st_a st) s) as [[[a' tk] rs]| | |]; try discriminate.
      inversion Hstep; eauto. }
    destruct (leave_spec _ _ _ _ _ R Hapi Hstep) as (_ & -> & _).
    simpl. rewrite app_nil_r. destruct (g_scopes g); simpl; apply Permutation_refl.
  - assert (exists q, ev = EPtr q) as (q & ->).
    { unfold step in Hstep. destruct (a_refs (st_a st) =? 0); [discriminate|]. unfold with_scope, lift_alloc in Hstep.
      destruct (nth_error (st_scs st) k); [|discriminate].
      destruct (malloc c (st_a st) s size) as [[? ?]| | |]; try discriminate. inversion Hstep; eauto. }
    simpl. destruct q; simpl; apply Permutation_refl.
  - assert (exists q, ev = EPtr q) as (q & ->).
    { unfold step in Hstep. destruct (a_refs (st_a st) =? 0); [discriminate|]. unfold with_scope, lift_alloc in Hstep.
      destruct (nth_error (st_scs st) k); [|discriminate].
      destruct (calloc c (st_a st) s nmemb size) as [[? ?]| | |]; try discriminate. inversion Hstep; eauto. }
    simpl. destruct q; simpl; apply Permutation_refl.
  - assert (exists q, ev = EPtr q) as (q & ->).
    { unfold step in Hstep. destruct (a_refs (st_a st) =? 0); [discriminate|]. unfold with_scope in Hstep.
      destruct (nth_error (st_scs st) k); [|discriminate].
      destruct (realloc c (st_a st) s p0 old new) as [[? ?]| | |]; try discriminate. inversion Hstep; eauto. }
    simpl. destruct q; simpl; apply Permutation_refl.
  - assert (exists q, ev = EPtr q) as (q & ->).
    { unfold step in Hstep. destruct (a_refs (st_a st) =? 0); [discriminate|]. unfold with_scope, lift_alloc in Hstep.
      destruct (nth_error (st_scs st) k); [|discriminate].
      destruct (alloc_str c (st_a st) s data) as [[? ?]| | |]; try discriminate. inversion Hstep; eauto. }
    simpl. destruct q; simpl; apply Permutation_refl.
  - assert (exists q, ev = EPtr q) as (q & ->).
    { unfold step in Hstep. destruct (a_refs (st_a st) =? 0); [discriminate|]. unfold with_scope, lift_alloc in Hstep.
      destruct (nth_error (st_scs st) k); [|discriminate].
      destruct (alloc_str c (st_a st) s (cstr data)) as [[? ?]| | |]; try discriminate. inversion Hstep; eauto. }
    simpl. destruct q; simpl; apply Permutation_refl.
  - assert (exists q, ev = EPtr q) as (q & ->).
    { unfold step in Hstep. destruct (a_refs (st_a st) =? 0); [discriminate|]. unfold with_scope, lift_alloc in Hstep.
      destruct (nth_error (st_scs st) k); [|discriminate].
      destruct (alloc_str c (st_a st) s data) as [[? ?]| | |]; try discriminate. inversion Hstep; eauto. }
    simpl. destruct q; simpl; apply Permutation_refl.
  - (* Cleanup: succeeded, hence through the innermost scope *)
    destruct (Bool.bool_dec (must_trap c (Cleanup k tok)) true) as [Hmt|Hmt].
    { rewrite (outer_use_traps _ _ _ R Hapi Hmt) in Hstep. discriminate. }
    simpl in Hmt. assert (k = O) by (destruct k; [reflexivity|exfalso; apply Hmt; reflexivity]). subst k.
    assert (exists p, ev = EPtr (Some p)) as (p & ->).
    { unfold step in Hstep. destruct (a_refs (st_a st) =? 0); [discriminate|]. unfold with_scope in Hstep.
      destruct (nth_error (st_scs st) 0); [|discriminate].
      destruct (cleanup c (st_a st) s tok) as [[[? ?] ?]| | |]; try discriminate. inversion Hstep; eauto. }
    simpl. simpl in Hapi. destruct (scope_okb_spec _ _ Hapi) as [Hd _].
    destruct (g_scopes g) as [|t0 r] eqn:Eg; [unfold depth in Hd; rewrite Eg in Hd; simpl in Hd; lia|].
    simpl. apply Permutation_refl.
  - unfold step in Hstep. destruct (a_refs (st_a st) =? 0); [discriminate|]. inversion Hstep; subst.
    simpl. apply Permutation_refl.
  - unfold step in Hstep. destruct (a_refs (st_a st) =? 0); [discriminate|]. inversion Hstep; subst.
    simpl. apply Permutation_refl.
  - unfold step in Hstep. destruct (a_refs (st_a st) =? 0); [discriminate|].
    destruct (arena_free c (st_a st)); try discriminate. inversion Hstep; subst.
    simpl. apply Permutation_refl.
Qed.

(* every registered cleanup has run exactly once when all scopes are closed again;
   until then the pending ones are exactly those of the open scopes *)
Theorem cleanups_accounted st g ops evs st2 g2 :
  reach c st g -> steps c st g ops evs st2 g2 ->
  Permutation (ran evs ++ concat (g_scopes g2)) (registered ops ++ concat (g_scopes g)).
Proof.
  intros R H. induction H as [st g|st g o st1 ev ops evs st2 g2 Hapi Hstep _ IH].
  - simpl. apply Permutation_refl.
  - assert (R1 : reach c st1 (gstep c g o ev)) by (eapply reach_step; eassumption).
    specialize (IH R1). pose proof (gstep_scopes_perm _ _ _ _ _ R Hapi Hstep) as P1.
    assert (E1 : ran (ev :: evs) = ran [ev] ++ ran evs) by (unfold ran; simpl; rewrite app_nil_r; reflexivity).
    assert (E2 : registered (o :: ops) = registered [o] ++ registered ops)
      by (unfold registered; simpl; rewrite app_nil_r; reflexivity).
    rewrite E1, E2.
    rewrite <- !app_assoc.
    eapply Permutation_trans.
    { apply Permutation_app_head. exact IH. }
    eapply Permutation_trans.
    { rewrite app_assoc. apply Permutation_app_tail. apply Permutation_app_comm. }
    rewrite <- app_assoc.
    eapply Permutation_trans.
    { apply Permutation_app_head. exact P1. }
    rewrite !app_assoc. apply Permutation_app_tail. apply Permutation_app_comm.
Qed.

(* ---- two arenas share nothing ------------------------------------------------------------------ *)
Theorem reach2_proj sts gs : reach2 c sts gs -> reach c (fst sts) (fst gs) /\ reach c (snd sts) (snd gs).
Proof.
  induction 1 as [s0 s1 H0 H1|sts gs tag o sts' ev _ [IH0 IH1] Hapi Hstep].
  - split; constructor; assumption.
  - unfold step2 in Hstep. destruct tag.
    + destruct (step c (snd sts) o) as [[st' e]| | |] eqn:E; try discriminate. inversion Hstep; subst; simpl.
      split; [assumption|]. eapply reach_step; eassumption.
    + destruct (step c (fst sts) o) as [[st' e]| | |] eqn:E; try discriminate. inversion Hstep; subst; simpl.
      split; [|assumption]. eapply reach_step; eassumption.
Qed.

End Thms.

(* ---- the 64-bit arithmetic of align_address never wraps --------------------------------------------- *)
(* frame sizes are multiples of the initial frame size and below 2^64; when that
   initial size divides 2^64 (a power of two) and leaves room for one alignment
   step and the poison gap, every offset the arena computes stays below 2^64 *)
Theorem no_u64_wrap c st g fr x :
  wf_cfg c -> (c_fsz0 c | SIZE_LIMIT) -> c_ma c + c_gap c <= c_fsz0 c ->
  reach c st g -> In fr (a_frames (st_a st)) -> x <= f_size fr ->
  x + (c_ma c - 1) < SIZE_LIMIT /\ align_off c x < SIZE_LIMIT.
Proof.
  intros Hwf [j Hj] Hroom R Hfr Hx. pose proof (reach_inv c Hwf _ _ R) as [G _ _].
  pose proof (g_frames _ _ _ _ _ _ _ G) as Hf. rewrite Forall_forall in Hf.
  destruct (Hf _ Hfr) as (_ & _ & _ & F4 & F5 & [i Hi]).
  assert (Hroom2 : f_size fr + c_fsz0 c <= SIZE_LIMIT).
  { rewrite Hi, Hj in *. assert (i < j) by nia. nia. }
  pose proof (round_up_mono c Hwf _ _ Hx) as Hm. rewrite (round_up_id c Hwf _ F4) in Hm.
  pose proof (ma_pos c Hwf). rewrite (align_off_eq c Hwf). split; lia.
Qed.

(* ---- the oracle's block check says what the theorems say ------------------------------------------ *)
Lemma disjointb_spec b1 b2 : disjointb b1 b2 = true <-> disjoint b1 b2.
Proof.
  unfold disjointb, disjoint. rewrite !orb_true_iff, negb_true_iff, Nat.eqb_neq, !N.eqb_eq, !N.leb_le.
  tauto.
Qed.

Theorem check_new_block_spec c others b fsize :
  check_new_block c others b fsize = 0 <->
  (b_off b mod c_ma c = 0 /\ c_hdr c <= b_off b /\ b_end b <= fsize /\ Forall (disjoint b) others).
Proof.
  unfold check_new_block.
  destruct (N.eqb_spec (b_off b mod c_ma c) 0) as [Ha|Ha]; simpl.
  2:{ split; [discriminate|]. intros (H & _). contradiction. }
  destruct (N.leb_spec (c_hdr c) (b_off b)) as [Hh|Hh]; simpl.
  2:{ split; [discriminate|]. intros (_ & H & _). lia. }
  destruct (N.leb_spec (b_end b) fsize) as [He|He]; simpl.
  2:{ split; [discriminate|]. intros (_ & _ & H & _). lia. }
  destruct (forallb (disjointb b) others) eqn:Ef; simpl.
  - split; [|reflexivity]. intros _. repeat split; try assumption.
    rewrite forallb_forall in Ef. apply Forall_forall. intros x Hx. apply disjointb_spec. auto.
  - split; [discriminate|]. intros (_ & _ & _ & H). exfalso.
    assert (forallb (disjointb b) others = true); [|congruence].
    apply forallb_forall. intros x Hx. apply disjointb_spec. rewrite Forall_forall in H. auto.
Qed.

(* ======================================================================== *)
(* the configurations of the two builds, from the generated constants       *)
(* ======================================================================== *)
Definition cfg_of (gap pagesize : N) : cfg :=
  mkCfg maxalign sizeof_frame sizeof_cleanup gap (frame_mult * pagesize) shrink_validated grow_validated.

Lemma cfg_wf gap ps :
  gap = poison_normal \/ gap = poison_asan ->
  (maxalign | frame_mult * ps) -> sizeof_frame + gap <= frame_mult * ps ->
  frame_mult * ps < SIZE_LIMIT -> wf_cfg (cfg_of gap ps).
Proof.
  intros Hg Hdiv Hfit Hlim. unfold wf_cfg, cfg_of; cbn [c_ma c_hdr c_node c_gap c_fsz0].
  split; [exists 3; vm_compute; reflexivity|].
  split; [destruct Hg as [->| ->]; apply N.mod_divide; try discriminate; vm_compute; reflexivity|].
  split; [apply N.mod_divide; [discriminate|vm_compute; reflexivity]|].
  split; [exact Hdiv|].
  split; [vm_compute; reflexivity|].
  split; [exact Hfit|]. split; [exact Hlim|].
  split; [assert (0 < sizeof_frame) by (vm_compute; reflexivity); lia|].
  (* c_gv: the generated switch grow_validated must be true (08bdded in place) *)
  reflexivity.
Qed.

(* the page sizes in use: 4 KiB, 8 KiB, 16 KiB, 64 KiB; normal and ASan build *)
Lemma cfg_wf_builds :
  Forall (fun ps => wf_cfg (cfg_of poison_normal ps) /\ wf_cfg (cfg_of poison_asan ps)) [4096; 8192; 16384; 65536].
Proof.
  repeat constructor;
    (apply cfg_wf;
     [first [left; reflexivity|right; reflexivity]
     |apply N.mod_divide; [discriminate|vm_compute; reflexivity]
     |vm_compute; discriminate
     |vm_compute; reflexivity]).
Qed.

(* maxalign, as arena.c defines it, is a multiple of the platform's pointer size: aligned for the
   arena means pointer-aligned *)
Lemma maxalign_pointer x : x mod maxalign = 0 -> x mod pointer_size = 0.
Proof.
  intros H. apply N.mod_divide in H; [|discriminate]. apply N.mod_divide; [discriminate|].
  apply N.divide_trans with maxalign; [|assumption]. apply N.mod_divide; [discriminate|vm_compute; reflexivity].
Qed.

(* the hypotheses of no_u64_wrap hold for both builds and the page sizes in use *)
Lemma no_wrap_hyps_builds :
  Forall (fun ps => (c_fsz0 (cfg_of poison_asan ps) | SIZE_LIMIT) /\
                    c_ma (cfg_of poison_asan ps) + poison_asan <= c_fsz0 (cfg_of poison_asan ps) /\
                    c_ma (cfg_of poison_normal ps) + poison_normal <= c_fsz0 (cfg_of poison_normal ps))
         [4096; 8192; 16384; 65536].
Proof.
  repeat constructor; try (apply N.mod_divide; [discriminate|vm_compute; reflexivity]); vm_compute; discriminate.
Qed.
