(* ArenaClients.v - arena-backed buffers and vectors as clients of the arena (C19).

   The calls are [buf_reserve] / [vec_reserve] of ArenaClientDefs.v, defined from the items
   harness/t_arena.py regenerates from buffer.c / vector.c (old-size and new-size expressions,
   initial capacity, factor and guard of the doubling loop, sizeof(struct vector)) and compared
   by the harness with every realloc the real containers issue.  What is proved:
   * the call always GROWS (old < new) - so it is subject to arena_scope_validate;
   * a buffer whose storage is a live user block of exactly bf_siz bytes issues a call inside
     [api_okb] ([buf_reserve_api]); through a scope that is not the innermost one the call
     traps ([buf_outer_growth_traps]); through the innermost one it returns (or exits for
     > 2^63 bytes) and the buffer again owns a live block of exactly its new size
     ([buf_inner_growth]);
   * the same for EVERY vector whose header + capacity is a live user block, full or not
     ([vec_reserve_api], [vec_outer_growth_traps], [vec_inner_growth]): vector.c names
     sizeof(struct vector) + len * stride, the USED part of the block, which [is_user_at]
     admits (a positive part of a live block); the arena copies exactly that part
     ([vec_growth_keeps_elements]);
   * the invariants [buf_ok] / [vec_ok] hold at creation ([buf_init_ok], [vec_init_ok]: the
     header block vector_init_impl obtains by calloc(1, sizeof(struct vector))) and are
     re-established by every growth, so they hold for the whole life of the container as long
     as buffer.c / vector.c store what they were granted (bf_siz = newsiz, vc_siz = newsiz:
     pinned as text by t_arena.py, and C20's subject). *)
From Robsd Require Import Base.Bytes Arena.ArenaDefs Arena.ArenaSpec Arena.ArenaProofs Arena.ArenaInv Arena.ArenaThms.
From Robsd Require Export Arena.ArenaClientDefs.
From RobsdGen Require Import Gen_Arena.
Local Open Scope N_scope.

Lemma dbl_ge guard factor fuel : 1 <= factor ->
  forall s target r, dbl guard factor fuel s target = Some r -> target <= r /\ s <= r.
Proof.
  intros Hf. induction fuel as [|f IH]; intros s target r; cbn [dbl].
  - destruct (N.ltb_spec s target) as [Hlt|Hge]; [discriminate|]. intros E; inversion E; subst. lia.
  - destruct (N.ltb_spec s target) as [Hlt|Hge]; [|intros E; inversion E; subst; lia].
    destruct (ULONG_MAX / guard <? s); [discriminate|]. intros E. apply IH in E. nia.
Qed.

Lemma buf_factor_ok : 1 <= ar_buf_dbl_factor.
Proof. vm_compute. discriminate. Qed.
Lemma vec_factor_ok : 1 <= ar_vec_dbl_factor.
Proof. vm_compute. discriminate. Qed.

(* the client owns a live user block at p of exactly [size] bytes *)
Definition owns (g : ghost) (p : loc) (size : N) : Prop :=
  exists b, In b (g_blocks g) /\ b_node b = false /\ b_loc b = p /\ b_size b = size.

Lemma loc_eqb_same p : loc_eqb p p = true.
Proof. unfold loc_eqb. now rewrite Nat.eqb_refl, N.eqb_refl. Qed.

(* naming such a block with its size, or with a positive part of it, is within the API *)
Lemma owns_find g p size old :
  owns g p size -> old <= size -> size = old \/ 0 < old ->
  exists b', find (is_user_at p old) (g_blocks g) = Some b'.
Proof.
  intros (b & Hb & Hn & Hl & Hs) Hle Hpos.
  assert (Hu : is_user_at p old b = true).
  { unfold is_user_at. rewrite Hn, Hl, loc_eqb_same, Hs. simpl.
    destruct Hpos as [->|Hpos]; [rewrite N.eqb_refl; reflexivity|].
    destruct (N.eqb_spec size old) as [|Hne]; [reflexivity|]. simpl.
    apply andb_true_iff. split; apply N.ltb_lt; lia. }
  destruct (find (is_user_at p old) (g_blocks g)) as [b'|] eqn:Ef; [eauto|].
  rewrite (find_none _ _ Ef _ Hb) in Hu. discriminate.
Qed.

Lemma owns_head g q size lvl rest :
  owns (mkG (mkB q size lvl false :: rest) (g_scopes g) (g_freed g)) q size.
Proof. eexists. split; [left; reflexivity|]. simpl. auto. Qed.

(* ---- struct buffer ------------------------------------------------------------------------------ *)
(* the buffer's storage is a live user block of exactly bf_siz bytes (or there is none yet) *)
Definition buf_ok (g : ghost) (bf : buf) : Prop :=
  match bf_ptr bf with
  | None => bf_siz bf = 0
  | Some p => owns g p (bf_siz bf)
  end.

(* buffer_alloc_impl: memset(bf, 0, sizeof( *bf)) *)
Lemma buf_init_ok g : buf_ok g (mkBuf None 0 0).
Proof. reflexivity. Qed.

(* the call buffer_reserve issues: which one it is, and that it grows.  The first conjunct is
   where the generated old-size / new-size expressions are consumed: it says they are
   (bf_siz, newsiz); a source that names something else breaks this proof. *)
Lemma buf_reserve_call k bf len o :
  buf_reserve k bf len = Some (Some o) ->
  exists newsiz, o = Realloc k (bf_ptr bf) (bf_siz bf) newsiz /\ bf_siz bf < newsiz /\ bf_len bf + len <= newsiz.
Proof.
  unfold buf_reserve, buf_newsiz. destruct (ULONG_MAX - bf_len bf <? len); [discriminate|].
  destruct ((0 <? bf_siz bf) && (bf_len bf + len <=? bf_siz bf)) eqn:Eroom; [discriminate|].
  destruct (dbl ar_buf_dbl_guard ar_buf_dbl_factor 64 (if bf_siz bf =? 0 then ar_buf_init_cap else bf_siz bf)
                (bf_len bf + len)) as [newsiz|] eqn:Ed; [|discriminate].
  intros H; inversion H; subst; clear H. exists newsiz. split; [reflexivity|].
  apply (dbl_ge _ _ _ buf_factor_ok) in Ed. destruct Ed as [E1 E2]. split; [|assumption].
  destruct (N.eqb_spec (bf_siz bf) 0) as [Hz|Hnz].
  - rewrite Hz. assert (0 < ar_buf_init_cap) by (vm_compute; reflexivity). lia.
  - apply andb_false_iff in Eroom. destruct Eroom as [H|H]; [apply N.ltb_ge in H; lia|apply N.leb_gt in H; lia].
Qed.

Section Clients.
Variable c : cfg.
Hypothesis Hwf : wf_cfg c.

(* a realloc inside the API that returns, returns a block *)
Lemma realloc_returns_block st g k p0 old new st' ev :
  reach c st g -> api_okb g (Realloc k p0 old new) = true ->
  step c st (Realloc k p0 old new) = Ok (st', ev) -> exists q, ev = EPtr (Some q).
Proof.
  intros R Hapi Es. unfold step in Es. destruct (a_refs (st_a st) =? 0); [discriminate|].
  unfold with_scope in Es. destruct (nth_error (st_scs st) k) as [s|]; [|discriminate].
  destruct (realloc c (st_a st) s p0 old new) as [[q0 a']| | |] eqn:Er; try discriminate.
  inversion Es; subst; clear Es.
  unfold realloc in Er. destruct p0 as [p|].
  - simpl in Hapi. apply andb_true_iff in Hapi. destruct Hapi as [_ Hapi].
    destruct (find (is_user_at p old) (g_blocks g)) as [b|] eqn:Ef; [|discriminate].
    destruct (find_is_user _ _ _ _ Ef) as (Hb & _ & Hl & _).
    pose proof (live_aligned c Hwf _ _ _ R Hb) as Hal. unfold b_off in Hal. rewrite Hl in Hal.
    apply N.mod_divide in Hal; [|apply (ma_nz c Hwf)].
    rewrite (land_aligned c Hwf _ Hal) in Er. cbn [N.eqb negb] in Er.
    destruct (realloc_fast c (st_a st) s p old new) as [[[|] a1]| | |]; try discriminate.
    + inversion Er; eauto.
    + destruct (malloc c (st_a st) s new) as [[q1 a2]| | |]; try discriminate. inversion Er; eauto.
  - destruct (malloc c (st_a st) s new) as [[q1 a2]| | |]; try discriminate. inversion Er; eauto.
Qed.

Theorem buf_reserve_api g k bf len o :
  scope_okb g k = true -> buf_ok g bf -> buf_reserve k bf len = Some (Some o) ->
  api_okb g o = true /\ must_trap c o = (0 <? k)%nat.
Proof.
  intros Hsc Hok Hr. destruct (buf_reserve_call _ _ _ _ Hr) as (newsiz & -> & Hgrow & _).
  unfold buf_ok in Hok. destruct (bf_ptr bf) as [p|]; simpl.
  - destruct (owns_find _ _ _ (bf_siz bf) Hok (N.le_refl _) (or_introl eq_refl)) as [b' Ef].
    rewrite Hsc, Ef. assert (E : (bf_siz bf <? newsiz) = true) by (apply N.ltb_lt; assumption).
    rewrite E, !orb_true_r, !andb_true_r. split; reflexivity.
  - split; [assumption|reflexivity].
Qed.

(* growing a buffer that was created in an outer scope while a nested scope is open: detected *)
Theorem buf_outer_growth_traps st g k bf len o :
  reach c st g -> scope_okb g k = true -> (0 < k)%nat -> buf_ok g bf ->
  buf_reserve k bf len = Some (Some o) -> step c st o = Trap.
Proof.
  intros R Hsc Hk Hok Hr. destruct (buf_reserve_api _ _ _ _ _ Hsc Hok Hr) as [Hapi Hmt].
  apply (outer_use_traps c Hwf _ _ _ R Hapi). rewrite Hmt. apply Nat.ltb_lt. assumption.
Qed.

(* growing it through the innermost scope: the arena returns a block (or exits for a request
   above 2^63 bytes), and the buffer again owns a live user block of exactly its new size *)
Theorem buf_inner_growth st g bf len o :
  reach c st g -> scope_okb g 0 = true -> buf_ok g bf -> buf_reserve 0 bf len = Some (Some o) ->
  (exists st' q newsiz, step c st o = Ok (st', EPtr (Some q)) /\ o = Realloc 0 (bf_ptr bf) (bf_siz bf) newsiz /\
       reach c st' (gstep c g o (EPtr (Some q))) /\
       buf_ok (gstep c g o (EPtr (Some q))) (mkBuf (Some q) newsiz (bf_len bf))) \/
  (step c st o = Exit1 /\ may_exit c o = true).
Proof.
  intros R Hsc Hok Hr. destruct (buf_reserve_api _ _ _ _ _ Hsc Hok Hr) as [Hapi Hmt].
  destruct (buf_reserve_call _ _ _ _ Hr) as (newsiz & -> & Hgrow & _).
  destruct (inner_use_ok c Hwf _ _ _ R Hapi Hmt) as [(st' & ev & Es)|He]; [left|right; assumption].
  destruct (realloc_returns_block _ _ _ _ _ _ _ _ R Hapi Es) as [q ->].
  exists st', q, newsiz. split; [assumption|]. split; [reflexivity|].
  split; [eapply reach_step; eassumption|].
  unfold buf_ok. cbn [bf_ptr bf_siz gstep]. apply owns_head.
Qed.

End Clients.

(* ---- struct vector --------------------------------------------------------------------------------- *)
(* the vector (header + capacity) is a live user block of exactly sizeof(struct vector) + vc_siz * stride
   bytes, and it holds no more elements than its capacity *)
Definition vec_ok (vhdr : N) (g : ghost) (v : vec) : Prop :=
  0 < v_stride v /\ v_len v <= v_siz v /\ owns g (v_ptr v) (vhdr + v_siz v * v_stride v).

(* the call vector_reserve1 issues; the first conjunct consumes the generated expressions *)
Lemma vec_reserve_call vhdr k v n o :
  vec_reserve vhdr k v n = Some (Some o) ->
  exists newsiz, o = Realloc k (Some (v_ptr v)) (vhdr + v_len v * v_stride v) (newsiz * v_stride v + vhdr) /\
                 v_siz v < v_len v + n /\ v_len v + n <= newsiz.
Proof.
  unfold vec_reserve, vec_newsiz. destruct (ULONG_MAX - n <? v_len v); [discriminate|].
  destruct (N.leb_spec (v_len v + n) (v_siz v)) as [|Hroom]; [discriminate|].
  destruct (dbl ar_vec_dbl_guard ar_vec_dbl_factor 64 (if v_siz v =? 0 then ar_vec_init_cap else v_siz v)
                (v_len v + n)) as [newsiz|] eqn:Ed; [|discriminate].
  destruct (ULONG_MAX / v_stride v <? newsiz); [discriminate|].
  destruct (ULONG_MAX - vhdr <? newsiz * v_stride v); [discriminate|].
  intros H; inversion H; subst; clear H. exists newsiz.
  apply (dbl_ge _ _ _ vec_factor_ok) in Ed. split; [reflexivity|]. split; [assumption|apply Ed].
Qed.

Section VecClients.
Variable c : cfg.
Hypothesis Hwf : wf_cfg c.
Variable vhdr : N.
Hypothesis Hhdr : 0 < vhdr.

(* vector_init_impl: calloc(1, sizeof(struct vector)) with vc_siz = 0, len = 0 *)
Lemma vec_init_ok g k q stride :
  0 < stride -> vec_ok vhdr (gstep c g (Calloc k 1 vhdr) (EPtr (Some q))) (mkVec q 0 0 stride).
Proof.
  intros Hs. unfold vec_ok. cbn [v_stride v_len v_siz v_ptr gstep alloc_args].
  split; [assumption|]. split; [lia|].
  replace (vhdr + 0 * stride) with (1 * vhdr) by lia. apply owns_head.
Qed.

(* ANY vector in order, full or not: the call is inside the API and must trap exactly through a
   scope that is not the innermost one *)
Theorem vec_reserve_api g k v n o :
  scope_okb g k = true -> vec_ok vhdr g v -> vec_reserve vhdr k v n = Some (Some o) ->
  api_okb g o = true /\ must_trap c o = (0 <? k)%nat.
Proof.
  intros Hsc (Hst & Hlen & Hown) Hr.
  destruct (vec_reserve_call _ _ _ _ _ Hr) as (newsiz & -> & Hroom & Hns).
  assert (Hle : vhdr + v_len v * v_stride v <= vhdr + v_siz v * v_stride v) by nia.
  destruct (owns_find _ _ _ _ Hown Hle) as [b' Ef]; [right; lia|].
  assert (E : (vhdr + v_len v * v_stride v <? newsiz * v_stride v + vhdr) = true) by (apply N.ltb_lt; nia).
  simpl. rewrite Hsc, Ef, E, !orb_true_r, !andb_true_r. split; reflexivity.
Qed.

Theorem vec_outer_growth_traps st g k v n o :
  reach c st g -> scope_okb g k = true -> (0 < k)%nat -> vec_ok vhdr g v ->
  vec_reserve vhdr k v n = Some (Some o) -> step c st o = Trap.
Proof.
  intros R Hsc Hk Hok Hr. destruct (vec_reserve_api _ _ _ _ _ Hsc Hok Hr) as [Hapi Hmt].
  apply (outer_use_traps c Hwf _ _ _ R Hapi). rewrite Hmt. apply Nat.ltb_lt. assumption.
Qed.

(* through the innermost scope: a block comes back (or exit above 2^63 bytes), the vector is
   again a live block of exactly header + new capacity, and the header and the elements in use
   are at the new place what they were at the old one *)
Theorem vec_inner_growth st g v n o :
  reach c st g -> scope_okb g 0 = true -> vec_ok vhdr g v -> vec_reserve vhdr 0 v n = Some (Some o) ->
  (exists st' q newsiz, step c st o = Ok (st', EPtr (Some q)) /\
       reach c st' (gstep c g o (EPtr (Some q))) /\
       vec_ok vhdr (gstep c g o (EPtr (Some q))) (mkVec q newsiz (v_len v) (v_stride v)) /\
       v_len v + n <= newsiz /\
       (forall i, i < vhdr + v_len v * v_stride v ->
          a_mem (st_a st') (fst q) (snd q + i) = a_mem (st_a st) (fst (v_ptr v)) (snd (v_ptr v) + i))) \/
  (step c st o = Exit1 /\ may_exit c o = true).
Proof.
  intros R Hsc Hok Hr. destruct (vec_reserve_api _ _ _ _ _ Hsc Hok Hr) as [Hapi Hmt].
  destruct Hok as (Hst & Hlen & Hown).
  destruct (vec_reserve_call _ _ _ _ _ Hr) as (newsiz & -> & Hroom & Hns).
  destruct (inner_use_ok c Hwf _ _ _ R Hapi Hmt) as [(st' & ev & Es)|He]; [left|right; assumption].
  destruct (realloc_returns_block c Hwf _ _ _ _ _ _ _ _ R Hapi Es) as [q ->].
  exists st', q, newsiz. split; [assumption|]. split; [eapply reach_step; eassumption|].
  split; [|split; [assumption|]].
  - unfold vec_ok. cbn [v_stride v_len v_siz v_ptr gstep]. split; [assumption|]. split; [lia|].
    replace (vhdr + newsiz * v_stride v) with (newsiz * v_stride v + vhdr) by lia. apply owns_head.
  - intros i Hi. apply (realloc_prefix c Hwf _ _ _ _ _ _ _ _ R Hapi Es). nia.
Qed.

End VecClients.

(* ---- instantiated with sizeof(struct vector) as generated from vector.c ------------------------------ *)
Lemma vec_hdr_pos : 0 < ar_vec_hdr.
Proof. vm_compute. reflexivity. Qed.

Definition vec_init_ok_src c := vec_init_ok c ar_vec_hdr vec_hdr_pos.
Definition vec_reserve_api_src c := vec_reserve_api c ar_vec_hdr vec_hdr_pos.
Definition vec_outer_growth_traps_src c Hwf := vec_outer_growth_traps c Hwf ar_vec_hdr vec_hdr_pos.
Definition vec_inner_growth_src c Hwf := vec_inner_growth c Hwf ar_vec_hdr vec_hdr_pos.

(* ---- what the driver prints for a container history is the call of buf_reserve / vec_reserve ----------- *)
Lemma buf_calls_reserve k bf n :
  match buf_newsiz bf n with
  | None => buf_reserve k bf n = None
  | Some r => reserve_sizes (buf_reserve k bf n) = Some (hd_error (buf_calls bf r))
  end.
Proof. unfold buf_reserve. destruct (buf_newsiz bf n) as [[ns|]|]; reflexivity. Qed.

Lemma vec_calls_reserve vhdr k v n :
  match vec_newsiz vhdr v n with
  | None => vec_reserve vhdr k v n = None
  | Some r => reserve_sizes (vec_reserve vhdr k v n) = Some (hd_error (vec_calls vhdr v r))
  end.
Proof. unfold vec_reserve. destruct (vec_newsiz vhdr v n) as [[ns|]|]; reflexivity. Qed.
