(* ArenaClients.v - arena-backed buffers and vectors as clients of the arena (C19, S5, thin).

   libks/arena-buffer.c and libks/arena-vector.c hand the arena to buffer.c / vector.c
   as three callbacks; the only calls that reach the arena after creation are
     buffer_reserve   -> arena_realloc(s, bf_ptr, bf_siz, newsiz)              (buffer.c)
     vector_reserve1  -> arena_realloc(s, vc, sizeof(struct vector) + len * stride,
                                            sizeof(struct vector) + newsiz * stride)     (vector.c)
   with newsiz obtained by doubling.  [buf_reserve] / [vec_reserve] compute that call as
   an [op] from the container's fields (None = EOVERFLOW, Some None = enough room, no
   call).  What is proved:
   * the call always GROWS (old < new) - so it is subject to arena_scope_validate;
   * a buffer whose storage is a live user block named with its true size issues a call
     inside [api_okb] ([buf_reserve_api]); through a scope that is not the innermost one
     the call traps ([buf_outer_growth_traps]); through the innermost one it returns (or
     exits for > 2^63 bytes) and the buffer again owns a live block of its new size
     ([buf_inner_growth]);
   * the same for a FULL vector (len = capacity, the situation of vector_alloc, and of
     arena_vector_init's own reserve) ([vec_reserve_api], [vec_outer_growth_traps]);
   * a vector that is NOT full (vector_reserve(n) with room left but not enough) names
     sizeof(struct vector) + len * stride, which is less than the size the block was allocated
     with: outside [api_okb] ([vec_reserve_underreports], a witness).  The arena then
     copies only the live elements; that this is harmless is observed by the
     correspondence harness, not proved.
   Creation (arena_malloc / arena_calloc of the header) is a plain Malloc / Calloc op.
   That buffer.c / vector.c keep bf_siz, vc_siz in step with what they were granted is
   their own invariant (C20 for the vector); here it is the hypothesis [buf_ok] / [vec_ok]. *)
From Robsd Require Import Base.Bytes Arena.ArenaDefs Arena.ArenaSpec Arena.ArenaProofs Arena.ArenaInv Arena.ArenaThms.
Local Open Scope N_scope.

Definition ULONG_MAX : N := SIZE_LIMIT - 1.

(* newsiz = siz ? siz : 16; while (newsiz < newlen) { if (newsiz > ULONG_MAX / 2) overflow; newsiz *= 2; } *)
Fixpoint dbl (fuel : nat) (s target : N) : option N :=
  if s <? target then
    match fuel with
    | O => None
    | S f => if ULONG_MAX / 2 <? s then None else dbl f (2 * s) target
    end
  else Some s.

Lemma dbl_ge fuel : forall s target r, dbl fuel s target = Some r -> target <= r /\ s <= r.
Proof.
  induction fuel as [|f IH]; intros s target r; cbn [dbl].
  - destruct (N.ltb_spec s target) as [Hlt|Hge]; [discriminate|]. intros E; inversion E; subst. lia.
  - destruct (N.ltb_spec s target) as [Hlt|Hge]; [|intros E; inversion E; subst; lia].
    destruct (ULONG_MAX / 2 <? s); [discriminate|]. intros E. apply IH in E. lia.
Qed.

(* ---- struct buffer ------------------------------------------------------------------------------ *)
Record buf := mkBuf { bf_ptr : option loc; bf_siz : N; bf_len : N }.

(* buffer_reserve(bf, len) through the scope with index k *)
Definition buf_reserve (k : nat) (bf : buf) (len : N) : option (option op) :=
  if ULONG_MAX - bf_len bf <? len then None else
  let newlen := bf_len bf + len in
  if (0 <? bf_siz bf) && (newlen <=? bf_siz bf) then Some None else
  match dbl 64 (if bf_siz bf =? 0 then 16 else bf_siz bf) newlen with
  | None => None
  | Some newsiz => Some (Some (Realloc k (bf_ptr bf) (bf_siz bf) newsiz))
  end.

(* the buffer's storage is a live user block of exactly bf_siz bytes (or there is none yet) *)
Definition buf_ok (g : ghost) (bf : buf) : Prop :=
  match bf_ptr bf with
  | None => bf_siz bf = 0
  | Some p => exists b, In b (g_blocks g) /\ is_user_at p (bf_siz bf) b = true
  end.

Lemma find_user_some p size blocks b :
  In b blocks -> is_user_at p size b = true -> exists b', find (is_user_at p size) blocks = Some b'.
Proof.
  intros Hb Hu. destruct (find (is_user_at p size) blocks) as [b'|] eqn:Ef; [eauto|].
  rewrite (find_none _ _ Ef _ Hb) in Hu. discriminate.
Qed.

(* the call buffer_reserve issues: which one it is, and that it grows *)
Lemma buf_reserve_call k bf len o :
  buf_reserve k bf len = Some (Some o) ->
  exists newsiz, o = Realloc k (bf_ptr bf) (bf_siz bf) newsiz /\ bf_siz bf < newsiz /\ bf_len bf + len <= newsiz.
Proof.
  unfold buf_reserve. destruct (ULONG_MAX - bf_len bf <? len); [discriminate|].
  destruct ((0 <? bf_siz bf) && (bf_len bf + len <=? bf_siz bf)) eqn:Eroom; [discriminate|].
  destruct (dbl 64 (if bf_siz bf =? 0 then 16 else bf_siz bf) (bf_len bf + len)) as [newsiz|] eqn:Ed; [|discriminate].
  intros H; inversion H; subst; clear H. exists newsiz. split; [reflexivity|].
  apply dbl_ge in Ed. destruct Ed as [E1 E2]. split; [|assumption].
  destruct (N.eqb_spec (bf_siz bf) 0) as [Hz|Hnz]; [lia|].
  apply andb_false_iff in Eroom. destruct Eroom as [H|H]; [apply N.ltb_ge in H; lia|apply N.leb_gt in H; lia].
Qed.

Section Clients.
Variable c : cfg.
Hypothesis Hwf : wf_cfg c.

Theorem buf_reserve_api g k bf len o :
  scope_okb g k = true -> buf_ok g bf -> buf_reserve k bf len = Some (Some o) ->
  api_okb g o = true /\ must_trap c o = (0 <? k)%nat.
Proof.
  intros Hsc Hok Hr. destruct (buf_reserve_call _ _ _ _ Hr) as (newsiz & -> & Hgrow & _).
  unfold buf_ok in Hok. destruct (bf_ptr bf) as [p|]; simpl.
  - destruct Hok as (b & Hb & Hu). destruct (find_user_some _ _ _ _ Hb Hu) as [b' Ef].
    rewrite Hsc, Ef. assert (E : (bf_siz bf <? newsiz) = true) by (apply N.ltb_lt; assumption).
    rewrite E, !orb_true_r, !andb_true_r. split; reflexivity.
  - split; [assumption|reflexivity].
Qed.

(* growing a buffer that was created in an outer scope while a nested scope is open: detected *)
Theorem buf_outer_growth_traps st g k bf len o :
  reach c st g -> scope_okb g k = true -> (0 < k)%nat -> buf_ok g bf ->
  buf_reserve k bf len = Some (Some o) -> step c st o = Trap.
Proof.
  intros R Hsc Hk Hok Hr. destruct (buf_reserve_api _ _ _ _ _ Hsc Hok Hr) as [Hapi Hmt].
  apply (outer_use_traps c Hwf _ _ _ R Hapi). rewrite Hmt. apply Nat.ltb_lt. assumption.
Qed.

(* growing it through the innermost scope: the arena returns a block (or exits for a request
   above 2^63 bytes), and the buffer again owns a live user block of its new size *)
Theorem buf_inner_growth st g bf len o :
  reach c st g -> scope_okb g 0 = true -> buf_ok g bf -> buf_reserve 0 bf len = Some (Some o) ->
  (exists st' q newsiz, step c st o = Ok (st', EPtr (Some q)) /\ o = Realloc 0 (bf_ptr bf) (bf_siz bf) newsiz /\
       reach c st' (gstep c g o (EPtr (Some q))) /\
       buf_ok (gstep c g o (EPtr (Some q))) (mkBuf (Some q) newsiz (bf_len bf))) \/
  (step c st o = Exit1 /\ may_exit c o = true).
Proof.
  intros R Hsc Hok Hr. destruct (buf_reserve_api _ _ _ _ _ Hsc Hok Hr) as [Hapi Hmt].
  destruct (buf_reserve_call _ _ _ _ Hr) as (newsiz & -> & Hgrow & _).
  destruct (inner_use_ok c Hwf _ _ _ R Hapi Hmt) as [(st' & ev & Es)|He]; [left|right; assumption].
  assert (exists q, ev = EPtr (Some q)) as [q ->].
  { pose proof Es as Es0. unfold step in Es. destruct (a_refs (st_a st) =? 0); [discriminate|].
    unfold with_scope in Es. destruct (nth_error (st_scs st) 0) as [s|]; [|discriminate].
    destruct (realloc c (st_a st) s (bf_ptr bf) (bf_siz bf) newsiz) as [[q0 a']| | |] eqn:Er; try discriminate.
    inversion Es; subst; clear Es.
    unfold realloc in Er. destruct (bf_ptr bf) as [p|].
    - unfold buf_ok in Hok. simpl in Hapi. rewrite Hsc in Hapi. simpl in Hapi.
      destruct (find (is_user_at p (bf_siz bf)) (g_blocks g)) as [b|] eqn:Ef; [|discriminate].
      destruct (find_is_user _ _ _ _ Ef) as (Hb & _ & Hl & _).
      pose proof (live_aligned c Hwf _ _ _ R Hb) as Hal. unfold b_off in Hal. rewrite Hl in Hal.
      apply N.mod_divide in Hal; [|apply (ma_nz c Hwf)].
      rewrite (land_aligned c Hwf _ Hal) in Er. cbn [N.eqb negb] in Er.
      destruct (realloc_fast c (st_a st) s p (bf_siz bf) newsiz) as [[[|] a1]| | |]; try discriminate.
      + inversion Er; eauto.
      + destruct (malloc c (st_a st) s newsiz) as [[q1 a2]| | |]; try discriminate. inversion Er; eauto.
    - destruct (malloc c (st_a st) s newsiz) as [[q1 a2]| | |]; try discriminate. inversion Er; eauto. }
  exists st', q, newsiz. split; [assumption|]. split; [reflexivity|].
  split; [eapply reach_step; eassumption|].
  unfold buf_ok. cbn [bf_ptr bf_siz gstep]. eexists. split; [left; reflexivity|].
  unfold is_user_at. simpl. unfold loc_eqb. rewrite Nat.eqb_refl, !N.eqb_refl. reflexivity.
Qed.

End Clients.

(* ---- struct vector --------------------------------------------------------------------------------- *)
(* v_ptr is the address of struct vector itself (what the callbacks see), vhdr = sizeof(struct vector) *)
Record vec := mkVec { v_ptr : loc; v_siz : N; v_len : N; v_stride : N }.

(* vector_reserve1(&vc, n) through the scope with index k *)
Definition vec_reserve (vhdr : N) (k : nat) (v : vec) (n : N) : option (option op) :=
  if ULONG_MAX - n <? v_len v then None else
  if v_len v + n <=? v_siz v then Some None else
  match dbl 64 (if v_siz v =? 0 then 16 else v_siz v) (v_len v + n) with
  | None => None
  | Some newsiz =>
      if ULONG_MAX / v_stride v <? newsiz then None
      else if ULONG_MAX - vhdr <? newsiz * v_stride v then None
      else Some (Some (Realloc k (Some (v_ptr v)) (vhdr + v_len v * v_stride v) (newsiz * v_stride v + vhdr)))
  end.

(* the vector is a live user block of sizeof(struct vector) + vc_siz * stride bytes *)
Definition vec_ok (vhdr : N) (g : ghost) (v : vec) : Prop :=
  0 < v_stride v /\
  exists b, In b (g_blocks g) /\ is_user_at (v_ptr v) (vhdr + v_siz v * v_stride v) b = true.

Lemma vec_reserve_call vhdr k v n o :
  vec_reserve vhdr k v n = Some (Some o) ->
  exists newsiz, o = Realloc k (Some (v_ptr v)) (vhdr + v_len v * v_stride v) (newsiz * v_stride v + vhdr) /\
                 v_siz v < v_len v + n /\ v_len v + n <= newsiz.
Proof.
  unfold vec_reserve. destruct (ULONG_MAX - n <? v_len v); [discriminate|].
  destruct (N.leb_spec (v_len v + n) (v_siz v)) as [|Hroom]; [discriminate|].
  destruct (dbl 64 (if v_siz v =? 0 then 16 else v_siz v) (v_len v + n)) as [newsiz|] eqn:Ed; [|discriminate].
  destruct (ULONG_MAX / v_stride v <? newsiz); [discriminate|].
  destruct (ULONG_MAX - vhdr <? newsiz * v_stride v); [discriminate|].
  intros H; inversion H; subst; clear H. exists newsiz. apply dbl_ge in Ed. split; [reflexivity|]. split; [assumption|apply Ed].
Qed.

Section VecClients.
Variable c : cfg.
Hypothesis Hwf : wf_cfg c.
Variable vhdr : N.

(* a full vector (len = capacity: vector_alloc, arena_vector_init) names its block with the true size *)
Theorem vec_reserve_api g k v n o :
  scope_okb g k = true -> vec_ok vhdr g v -> v_len v = v_siz v -> vec_reserve vhdr k v n = Some (Some o) ->
  api_okb g o = true /\ must_trap c o = (0 <? k)%nat.
Proof.
  intros Hsc [Hst (b & Hb & Hu)] Hfull Hr.
  destruct (vec_reserve_call _ _ _ _ _ Hr) as (newsiz & -> & Hroom & Hns).
  rewrite Hfull in *. destruct (find_user_some _ _ _ _ Hb Hu) as [b' Ef].
  assert (E : (vhdr + v_siz v * v_stride v <? newsiz * v_stride v + vhdr) = true) by (apply N.ltb_lt; nia).
  simpl. rewrite Hsc, Ef, E, !orb_true_r, !andb_true_r. split; reflexivity.
Qed.

Theorem vec_outer_growth_traps st g k v n o :
  reach c st g -> scope_okb g k = true -> (0 < k)%nat -> vec_ok vhdr g v -> v_len v = v_siz v ->
  vec_reserve vhdr k v n = Some (Some o) -> step c st o = Trap.
Proof.
  intros R Hsc Hk Hok Hfull Hr. destruct (vec_reserve_api _ _ _ _ _ Hsc Hok Hfull Hr) as [Hapi Hmt].
  apply (outer_use_traps c Hwf _ _ _ R Hapi). rewrite Hmt. apply Nat.ltb_lt. assumption.
Qed.

End VecClients.

(* a vector with room left, but not enough (vector_reserve(vv, n) with len < capacity < len + n),
   names an old size smaller than the size its block was allocated with: the call is outside
   [api_okb] although the vector is in perfect order *)
Theorem vec_reserve_underreports :
  exists g v o, vec_ok 48 g v /\ scope_okb g 0 = true /\ vec_reserve 48 0 v 20 = Some (Some o) /\ api_okb g o = false.
Proof.
  exists (mkG [mkB (O, 32) (48 + 16 * 8) 1 false] [[]] false), (mkVec (O, 32) 16 3 8).
  eexists. split; [|split; [reflexivity|split; [vm_compute; reflexivity|reflexivity]]].
  split; [reflexivity|]. eexists. split; [left; reflexivity|reflexivity].
Qed.
