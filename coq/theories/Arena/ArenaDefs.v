(* ArenaDefs.v - executable model of libks/arena.c (definitions only).

   What is modelled: the bump allocator with frames, alignment and the ASan
   poison gap (arena_push / align_address), frame allocation with doubling
   (arena_malloc), arena_calloc, arena_realloc with its fast path
   (arena_realloc_fast, which validates the scope before shrinking [c_sv] and before
   growing in place [c_gv] - both switches are read from the source),
   arena_strndup / arena_strdup / arena_sprintf, arena_cleanup (the node lives
   in the arena), arena_scope_enter_impl, arena_scope_leave,
   arena_scope_validate (trap when s->id != a->refs), arena_free.

   Addresses.  A pointer into the arena is a location (frame index, offset):
   frames are numbered from the oldest (0) upwards, the offset is relative to
   the start of the frame (which is also where struct arena_frame lives).
   Modelling assumptions, part of the trusted base: malloc(3) returns
   maxalign-aligned chunks, distinct chunks never share addresses (so two
   pointers are equal iff frame and offset are equal) and malloc does not fail
   for the sizes exercised; addresses do not wrap.

   Not modelled: struct arena_stats and scope_locations (diagnostics only; they
   never influence an allocation), the text printed by arena_scope_validate.
   ASan poisoning does not change any value; it only appears as the gap
   [c_gap] between allocations.

   Memory is a function from locations to cells.  A cell is an undefined byte,
   a data byte, or byte [i] of a cleanup node holding (token, next); reading a
   node succeeds only if all its bytes are still the bytes of one node. *)
From Robsd Require Import Base.Bytes.
Local Open Scope N_scope.

(* ---- configuration: constants of the build -------------------------------- *)
Record cfg := mkCfg {
  c_ma   : N;   (* maxalign *)
  c_hdr  : N;   (* sizeof(struct arena_frame) *)
  c_node : N;   (* sizeof(struct arena_cleanup) *)
  c_gap  : N;   (* a->poison_size *)
  c_fsz0 : N;   (* a->frame_size = 16 * page size *)
  c_sv   : bool; (* arena_realloc_fast calls arena_scope_validate before its "new_size <= old_size" return
                    (translator switch shrink_validated; true since /repo 4eb1227) *)
  c_gv   : bool  (* arena_realloc_fast calls arena_scope_validate on the path that reaches "Check if this is
                    the last allocated object", i.e. before growing in place (translator switch
                    grow_validated; true since /repo 08bdded).  Without it growth in place through a
                    non-innermost scope silently succeeds; the copying path still traps in arena_malloc. *)
}.

(* 2^64: size_t and uint64_t arithmetic is checked against this bound exactly
   where the code checks (KS_size_add_overflow, KS_size_mul_overflow). *)
Definition SIZE_LIMIT : N := 18446744073709551616.

(* align_address: (addr + maxalign - 1) & ~(maxalign - 1), then the poison gap
   when the padding is smaller than poison_size.  The offsets the arena computes
   stay below 2^64 (theorem no_u64_wrap in ArenaThms.v), so the uint64_t
   operations are the operations on N written here. *)
Definition round_up (c : cfg) (x : N) : N := N.ldiff (x + (c_ma c - 1)) (c_ma c - 1).

Definition align_off (c : cfg) (x : N) : N :=
  let a := round_up c x in
  if (0 <? c_gap c) && (a - x <? c_gap c) then a + c_gap c else a.

(* ---- state ------------------------------------------------------------------ *)
Record frame := mkFrame { f_size : N; f_len : N }.

Definition loc := (nat * N)%type.

Inductive cell :=
| CUndef
| CByte (b : N)
| CNode (tok : N) (next : option loc) (i : N).

Definition mem := nat -> N -> cell.

Record arena := mkArena {
  a_frames : list frame;   (* newest first; the head is a->frame *)
  a_refs   : N;            (* a->refs; 0 = the struct has been freed *)
  a_mem    : mem
}.

(* struct arena_scope as the caller holds it: frame pointer (as the number of
   frames that existed when the scope was entered), frame_len, id, cleanup *)
Record scope := mkScope {
  s_nframes : nat;
  s_flen    : N;
  s_id      : N;
  s_cleanup : option loc
}.

Inductive res (A : Type) :=
| Ok (x : A)
| Trap      (* __builtin_trap in arena_scope_validate *)
| Exit1     (* err(1, ...) / errx(1, ...) *)
| Crash.    (* undefined behaviour: NULL frame, freed arena, corrupted cleanup node *)
Arguments Ok {A} x.
Arguments Trap {A}.
Arguments Exit1 {A}.
Arguments Crash {A}.

(* ---- memory writes ------------------------------------------------------------ *)
Definition inrange (o off n : N) : bool := (off <=? o) && (o <? off + n).

Definition mem_fill (m : mem) (p : loc) (n : N) (v : cell) : mem :=
  fun f o => if Nat.eqb f (fst p) && inrange o (snd p) n then v else m f o.

Definition mem_bytes (m : mem) (p : loc) (data : bytes) : mem :=
  fun f o => if Nat.eqb f (fst p) && inrange o (snd p) (N.of_nat (length data))
             then CByte (nth (N.to_nat (o - snd p)) data 0) else m f o.

(* memcpy(dst, src, n): the source is read in the memory before the copy *)
Definition mem_copy (m : mem) (dst src : loc) (n : N) : mem :=
  fun f o => if Nat.eqb f (fst dst) && inrange o (snd dst) n
             then m (fst src) (snd src + (o - snd dst)) else m f o.

Definition mem_node (m : mem) (p : loc) (sz tok : N) (next : option loc) : mem :=
  fun f o => if Nat.eqb f (fst p) && inrange o (snd p) sz then CNode tok next (o - snd p) else m f o.

(* a chunk fresh from malloc has indeterminate contents *)
Definition mem_newframe (m : mem) (idx : nat) : mem :=
  fun f o => if Nat.eqb f idx then CUndef else m f o.

Definition loc_eqb (p q : loc) : bool := Nat.eqb (fst p) (fst q) && (snd p =? snd q).
Definition optloc_eqb (p q : option loc) : bool :=
  match p, q with
  | None, None => true
  | Some a, Some b => loc_eqb a b
  | _, _ => false
  end.

Definition cell_is_node (x : cell) (tok : N) (nx : option loc) (i : N) : bool :=
  match x with
  | CNode t n j => (t =? tok) && optloc_eqb n nx && (j =? i)
  | _ => false
  end.

(* reading struct arena_cleanup at q: all sz bytes must belong to one node *)
Definition read_node (sz : N) (m : mem) (q : loc) : option (N * option loc) :=
  match m (fst q) (snd q) with
  | CNode tok nx _ =>
      if forallb (fun i => cell_is_node (m (fst q) (snd q + N.of_nat i)) tok nx (N.of_nat i))
                 (seq 0 (N.to_nat sz))
      then Some (tok, nx) else None
  | _ => None
  end.

(* ---- arena_push ----------------------------------------------------------------- *)
(* returns the offset handed out and the frame with the new bump pointer;
   None = NULL (EOVERFLOW or ENOMEM) *)
Definition push (c : cfg) (fr : frame) (size : N) : option (N * frame) :=
  let newlen := f_len fr + size in
  if SIZE_LIMIT <=? newlen then None
  else if f_size fr <? newlen then None
  else
    let al := align_off c newlen in
    Some (f_len fr, mkFrame (f_size fr) (if f_size fr <? al then f_size fr else al)).

(* arena_frame_alloc: a new chunk whose first allocation is its own header *)
Definition frame_alloc (c : cfg) (a : arena) (fsize : N) : option arena :=
  match push c (mkFrame fsize 0) (c_hdr c) with
  | None => None
  | Some (_, fr) =>
      Some (mkArena (fr :: a_frames a) (a_refs a) (mem_newframe (a_mem a) (length (a_frames a))))
  end.

(* the doubling loop of arena_malloc; None = errx (multiplication overflow).
   64 rounds of fuel always suffice for a positive initial size (grow_fuel). *)
Fixpoint grow (fuel : nat) (fs total : N) : option N :=
  if fs <? total then
    match fuel with
    | O => None
    | S f => if SIZE_LIMIT <=? 2 * fs then None else grow f (2 * fs) total
    end
  else Some fs.

(* arena_scope_validate *)
Definition validate (a : arena) (s : scope) : bool := s_id s =? a_refs a.

(* arena_malloc.  The bytes of the block handed out are indeterminate for the
   caller (whatever an earlier, dead block left there): they become CUndef. *)
Definition malloc (c : cfg) (a : arena) (s : scope) (size : N) : res (loc * arena) :=
  if negb (validate a s) then Trap else
  match a_frames a with
  | [] => Crash
  | fr :: rest =>
    match push c fr size with
    | Some (off, fr') =>
        Ok ((length rest, off), mkArena (fr' :: rest) (a_refs a) (mem_fill (a_mem a) (length rest, off) size CUndef))
    | None =>
      let total := c_gap c + (size + c_hdr c) in
      if (SIZE_LIMIT <=? size + c_hdr c) || (SIZE_LIMIT <=? total) then Exit1 else
      match grow 64 (c_fsz0 c) total with
      | None => Exit1
      | Some fsz =>
        match frame_alloc c a fsz with
        | None => Exit1
        | Some a1 =>
          match a_frames a1 with
          | [] => Crash
          | fr1 :: rest1 =>
            match push c fr1 size with
            | None => Exit1
            | Some (off, fr1') =>
                Ok ((length rest1, off),
                    mkArena (fr1' :: rest1) (a_refs a1) (mem_fill (a_mem a1) (length rest1, off) size CUndef))
            end
          end
        end
      end
    end
  end.

(* arena_calloc *)
Definition calloc (c : cfg) (a : arena) (s : scope) (nmemb size : N) : res (loc * arena) :=
  if SIZE_LIMIT <=? nmemb * size then Exit1 else
  match malloc c a s (nmemb * size) with
  | Ok (p, a') => Ok (p, mkArena (a_frames a') (a_refs a') (mem_fill (a_mem a') p (nmemb * size) (CByte 0)))
  | Trap => Trap | Exit1 => Exit1 | Crash => Crash
  end.

(* arena_realloc_fast: Ok (true, _) = done in place *)
Definition realloc_fast (c : cfg) (a : arena) (s : scope) (p : loc) (old new : N) : res (bool * arena) :=
  if new <=? old then                                   (* shrinking: no change ... *)
    (if c_sv c && negb (validate a s) then Trap        (* ... validated only by the repaired source *)
     else Ok (true, a))
  else if c_gv c && negb (validate a s) then Trap      (* growing: validated since 08bdded *)
  else
    match a_frames a with
    | [] => Crash
    | fr :: rest =>
      if Nat.eqb (fst p) (length rest) && (align_off c (snd p + old) =? f_len fr) then
        match push c (mkFrame (f_size fr) (snd p)) new with
        | None => Ok (false, a)
        | Some (_, fr') =>
            (* the bytes gained are indeterminate for the caller *)
            Ok (true, mkArena (fr' :: rest) (a_refs a)
                              (mem_fill (a_mem a) (fst p, snd p + old) (new - old) CUndef))
        end
      else Ok (false, a)
    end.

(* arena_realloc; p = None is the NULL pointer; result None = NULL (EFAULT) *)
Definition realloc (c : cfg) (a : arena) (s : scope) (p : option loc) (old new : N)
  : res (option loc * arena) :=
  let slow :=
    match malloc c a s new with
    | Ok (q, a') =>
        match p with
        | Some p0 => Ok (Some q, mkArena (a_frames a') (a_refs a') (mem_copy (a_mem a') q p0 old))
        | None => Ok (Some q, a')
        end
    | Trap => Trap | Exit1 => Exit1 | Crash => Crash
    end in
  match p with
  | None => slow
  | Some p0 =>
    if negb (N.land (snd p0) (c_ma c - 1) =? 0) then Ok (None, a)
    else
      match realloc_fast c a s p0 old new with
      | Ok (true, a') => Ok (Some p0, a')
      | Ok (false, _) => slow
      | Trap => Trap | Exit1 => Exit1 | Crash => Crash
      end
  end.

(* arena_strndup(s, src, len) with data = the len bytes of src; arena_strdup is
   the same on the bytes before the first NUL; arena_sprintf is the same on the
   formatted bytes (vsnprintf is trusted to produce them). *)
Definition alloc_str (c : cfg) (a : arena) (s : scope) (data : bytes) : res (loc * arena) :=
  let total := N.of_nat (length data) + 1 in
  if SIZE_LIMIT <=? total then Exit1 else
  match malloc c a s total with
  | Ok (p, a') => Ok (p, mkArena (a_frames a') (a_refs a') (mem_bytes (a_mem a') p (data ++ [0])))
  | Trap => Trap | Exit1 => Exit1 | Crash => Crash
  end.

(* arena_cleanup: returns the node's location (visible to the caller as s->cleanup) *)
Definition cleanup (c : cfg) (a : arena) (s : scope) (tok : N) : res (loc * arena * scope) :=
  match malloc c a s (c_node c) with
  | Ok (p, a') =>
      Ok (p, mkArena (a_frames a') (a_refs a') (mem_node (a_mem a') p (c_node c) tok (s_cleanup s)),
          mkScope (s_nframes s) (s_flen s) (s_id s) (Some p))
  | Trap => Trap | Exit1 => Exit1 | Crash => Crash
  end.

(* arena_scope_enter_impl *)
Definition scope_enter (a : arena) : res (arena * scope) :=
  match a_frames a with
  | [] => Crash
  | fr :: _ =>
      let r := a_refs a + 1 in
      Ok (mkArena (a_frames a) r (a_mem a), mkScope (length (a_frames a)) (f_len fr) r None)
  end.

(* for (ac = s->cleanup; ac != NULL; ac = ac->next) ac->fun(ac->ptr);
   a cleanup function is modelled as logging its token *)
Fixpoint run_cleanups (fuel : nat) (sz : N) (m : mem) (p : option loc) : option (list N) :=
  match p with
  | None => Some []
  | Some q =>
    match fuel with
    | O => None
    | S f =>
      match read_node sz m q with
      | None => None
      | Some (tok, nx) =>
        match run_cleanups f sz m nx with
        | None => None
        | Some l => Some (tok :: l)
        end
      end
    end
  end.

(* while (a->frame != NULL && a->frame != last_frame) free *)
Fixpoint drop_frames (keep : nat) (l : list frame) : list frame :=
  match l with
  | [] => []
  | _ :: rest => if Nat.eqb (length l) keep then l else drop_frames keep rest
  end.

(* arena_scope_leave; the boolean says whether the "frame_len > len, so len = 0" branch was taken *)
Definition scope_leave (c : cfg) (fuel : nat) (a : arena) (s : scope) : res (arena * list N * bool) :=
  match run_cleanups fuel (c_node c) (a_mem a) (s_cleanup s) with
  | None => Crash
  | Some toks =>
    let keep := if a_refs a =? 1 then O else s_nframes s in
    match drop_frames keep (a_frames a) with
    | [] => Ok (mkArena [] (a_refs a - 1) (a_mem a), toks, false)
    | fr :: rest =>
        if s_flen s <=? f_len fr
        then Ok (mkArena (mkFrame (f_size fr) (s_flen s) :: rest) (a_refs a - 1) (a_mem a), toks, false)
        else Ok (mkArena (mkFrame (f_size fr) 0 :: rest) (a_refs a - 1) (a_mem a), toks, true)
    end
  end.

(* arena_free *)
Definition arena_free (c : cfg) (a : arena) : res arena :=
  if 1 <? a_refs a then Ok (mkArena (a_frames a) (a_refs a - 1) (a_mem a))
  else
    match scope_leave c O a (mkScope O 0 0 None) with
    | Ok (a', _, _) => Ok a'
    | Trap => Trap | Exit1 => Exit1 | Crash => Crash
    end.

(* ---- client programs -------------------------------------------------------------- *)
(* The caller's view: the arena, the scope structs it holds (innermost first)
   and the number of cleanups registered so far (fuel for the cleanup walk). *)
Record state := mkState { st_a : arena; st_scs : list scope; st_ncl : nat }.

Inductive op :=
| Enter
| LeaveAt (k : nat)                                   (* arena_scope_leave(&scope k); k = 0 is the innermost *)
| Malloc (k : nat) (size : N)
| Calloc (k : nat) (nmemb size : N)
| Realloc (k : nat) (p : option loc) (old new : N)
| Strndup (k : nat) (data : bytes)
| Strdup (k : nat) (data : bytes)
| Sprintf (k : nat) (data : bytes)
| Cleanup (k : nat) (tok : N)
| Fill (p : loc) (n : N) (v : N)                      (* the client's memset into memory it owns *)
| Read (p : loc)                                      (* the client reads one byte *)
| ArenaFree.

Inductive event :=
| EUnit
| EPtr (p : option loc)
| ELeave (toks : list N) (reset : bool)
| ECell (x : cell).

Fixpoint set_nth {A} (k : nat) (x : A) (l : list A) : list A :=
  match l, k with
  | [], _ => []
  | _ :: t, O => x :: t
  | h :: t, S k' => h :: set_nth k' x t
  end.

Fixpoint remove_nth {A} (k : nat) (l : list A) : list A :=
  match l, k with
  | [], _ => []
  | _ :: t, O => t
  | h :: t, S k' => h :: remove_nth k' t
  end.

Definition with_scope {A} (st : state) (k : nat) (f : scope -> res A) : res A :=
  match nth_error (st_scs st) k with
  | None => Crash
  | Some s => f s
  end.

Definition lift_alloc (st : state) (r : res (loc * arena)) : res (state * event) :=
  match r with
  | Ok (p, a') => Ok (mkState a' (st_scs st) (st_ncl st), EPtr (Some p))
  | Trap => Trap | Exit1 => Exit1 | Crash => Crash
  end.

Definition step (c : cfg) (st : state) (o : op) : res (state * event) :=
  if a_refs (st_a st) =? 0 then Crash else
  match o with
  | Enter =>
      match scope_enter (st_a st) with
      | Ok (a', s) => Ok (mkState a' (s :: st_scs st) (st_ncl st), EUnit)
      | Trap => Trap | Exit1 => Exit1 | Crash => Crash
      end
  | LeaveAt k =>
      with_scope st k (fun s =>
        match scope_leave c (st_ncl st) (st_a st) s with
        | Ok (a', toks, reset) => Ok (mkState a' (remove_nth k (st_scs st)) (st_ncl st), ELeave toks reset)
        | Trap => Trap | Exit1 => Exit1 | Crash => Crash
        end)
  | Malloc k size => with_scope st k (fun s => lift_alloc st (malloc c (st_a st) s size))
  | Calloc k nmemb size => with_scope st k (fun s => lift_alloc st (calloc c (st_a st) s nmemb size))
  | Realloc k p old new =>
      with_scope st k (fun s =>
        match realloc c (st_a st) s p old new with
        | Ok (q, a') => Ok (mkState a' (st_scs st) (st_ncl st), EPtr q)
        | Trap => Trap | Exit1 => Exit1 | Crash => Crash
        end)
  | Strndup k data => with_scope st k (fun s => lift_alloc st (alloc_str c (st_a st) s data))
  | Strdup k data => with_scope st k (fun s => lift_alloc st (alloc_str c (st_a st) s (cstr data)))
  | Sprintf k data => with_scope st k (fun s => lift_alloc st (alloc_str c (st_a st) s data))
  | Cleanup k tok =>
      with_scope st k (fun s =>
        match cleanup c (st_a st) s tok with
        | Ok (p, a', s') => Ok (mkState a' (set_nth k s' (st_scs st)) (S (st_ncl st)), EPtr (Some p))
        | Trap => Trap | Exit1 => Exit1 | Crash => Crash
        end)
  | Fill p n v =>
      let a := st_a st in
      Ok (mkState (mkArena (a_frames a) (a_refs a) (mem_fill (a_mem a) p n (CByte v))) (st_scs st) (st_ncl st), EUnit)
  | Read p => Ok (st, ECell (a_mem (st_a st) (fst p) (snd p)))
  | ArenaFree =>
      match arena_free c (st_a st) with
      | Ok a' => Ok (mkState a' (st_scs st) (st_ncl st), EUnit)
      | Trap => Trap | Exit1 => Exit1 | Crash => Crash
      end
  end.

(* arena_alloc *)
Definition init (c : cfg) : option state :=
  match frame_alloc c (mkArena [] 1 (fun _ _ => CUndef)) (c_fsz0 c) with
  | None => None
  | Some a => Some (mkState a [] O)
  end.

(* how a run ended: all operations done, or stopped at operation number i.
   [Unmodelled] is never the ending of [run]/[hrun]; it is the answer of [cut_exposed]
   below: "from here on the model does not claim to describe arena.c". *)
Inductive ending := Done | Trapped | Exited | Crashed | Unmodelled.

Fixpoint run (c : cfg) (st : state) (ops : list op) : list event * ending * state :=
  match ops with
  | [] => ([], Done, st)
  | o :: rest =>
    match step c st o with
    | Ok (st', ev) => let '(evs, e, fin) := run c st' rest in (ev :: evs, e, fin)
    | Trap => ([], Trapped, st)
    | Exit1 => ([], Exited, st)
    | Crash => ([], Crashed, st)
    end
  end.

(* ---- two arenas: operations tagged with the arena they address ------------------------ *)
Definition step2 (c : cfg) (sts : state * state) (o : bool * op) : res ((state * state) * event) :=
  let '(tag, o') := o in
  if tag then
    match step c (snd sts) o' with
    | Ok (st', ev) => Ok ((fst sts, st'), ev)
    | Trap => Trap | Exit1 => Exit1 | Crash => Crash
    end
  else
    match step c (fst sts) o' with
    | Ok (st', ev) => Ok ((st', snd sts), ev)
    | Trap => Trap | Exit1 => Exit1 | Crash => Crash
    end.

(* ---- harness programs: pointers are named by handles -------------------------------------
   Handle i is the i-th pointer an operation of the sequence returned (NULL
   included); this layer only resolves handles and then calls [step]. *)
Inductive hop :=
| HOp (o : op)                                          (* operations without pointer arguments *)
| HRealloc (k : nat) (h : option nat) (mis old new : N)  (* pointer of handle h plus mis bytes *)
| HFill (h : nat) (off n v : N)
| HRead (h : nat) (off : N).

Definition resolve (tbl : list (option loc)) (h : nat) : option loc :=
  match nth_error tbl h with
  | Some (Some p) => Some p
  | _ => None
  end.

Definition hop_to_op (tbl : list (option loc)) (o : hop) : option op :=
  match o with
  | HOp o' => Some o'
  | HRealloc k None _ old new => Some (Realloc k None old new)
  | HRealloc k (Some h) mis old new =>
      match resolve tbl h with
      | Some p => Some (Realloc k (Some (fst p, snd p + mis)) old new)
      | None => None
      end
  | HFill h off n v =>
      match resolve tbl h with
      | Some p => Some (Fill (fst p, snd p + off) n v)
      | None => None
      end
  | HRead h off =>
      match resolve tbl h with
      | Some p => Some (Read (fst p, snd p + off))
      | None => None
      end
  end.

(* the pointer-returning operations extend the handle table *)
Definition returns_ptr (o : op) : bool :=
  match o with
  | Malloc _ _ | Calloc _ _ _ | Realloc _ _ _ _ | Strndup _ _ | Strdup _ _ | Sprintf _ _ => true
  | _ => false
  end.

(* one observation per executed operation: the event and the arena's
   (number of frames, a->frame->len, a->refs) afterwards *)
Definition shape (st : state) : N * N * N :=
  (N.of_nat (length (a_frames (st_a st))),
   match a_frames (st_a st) with [] => 0 | fr :: _ => f_len fr end,
   a_refs (st_a st)).

Fixpoint hrun (c : cfg) (st : state) (tbl : list (option loc)) (ops : list hop)
  : list (event * (N * N * N)) * ending :=
  match ops with
  | [] => ([], Done)
  | o :: rest =>
    match hop_to_op tbl o with
    | None => ([], Crashed)
    | Some o' =>
      match step c st o' with
      | Ok (st', ev) =>
          let tbl' := if returns_ptr o' then
                        tbl ++ [match ev with EPtr p => p | _ => None end]
                      else tbl in
          let '(obs, e) := hrun c st' tbl' rest in ((ev, shape st') :: obs, e)
      | Trap => ([], Trapped)
      | Exit1 => ([], Exited)
      | Crash => ([], Crashed)
      end
    end
  end.

(* ---- where the model stops being a model of arena.c ------------------------------------------
   The frame metadata ([f_size], [f_len]) is kept apart from [mem], and memory given back to
   malloc stays readable here.  In C struct arena_frame occupies offsets 0 .. c_hdr of its
   chunk, and a freed chunk is gone.  The two agree as long as
   (a) no block below c_hdr is handed out.  The "len = 0" branch of arena_scope_leave (taken
       only after a leave of a scope that is not the innermost one, ArenaThms.leave_spec)
       rewinds the bump pointer to 0: the next allocation IS the header, a client write into
       it rewrites frame->ptr/size/len in C but only [mem] here; with ASan the rewind poisons
       the header itself, so the very next arena call dies;
   (b) no leave of a scope that is NOT the innermost one frees a frame: the scopes still open
       may have blocks and cleanup nodes in it, which the arena reads when they are left;
   (c) with ASan, no leave of a scope that is not the innermost one at all: frame_poison then
       covers the blocks and cleanup nodes of the scopes still open, and the arena dies on
       its own poisoned nodes when one of them is left.
   [cut_exposed] cuts the model's answer at the first such event and says [Unmodelled]; the
   harness compares nothing beyond it (and judges the implementation by the oracle alone).
   It is the identity on well-bracketed API-respecting runs (ArenaOracle.cut_obs_id,
   api_step_not_exposing). *)
Definition exposes (c : cfg) (ev : event) : bool :=
  match ev with
  | ELeave _ true => 0 <? c_gap c            (* ASan: frame_poison covers the header *)
  | EPtr (Some p) => snd p <? c_hdr c        (* the header itself is handed out *)
  | _ => false
  end.

Definition nonlifo_hop (h : hop) : bool :=
  match h with HOp (LeaveAt (S _)) => true | _ => false end.

(* nfr = number of frames before the operation; an observation carries the number after it *)
Fixpoint cut_obs (c : cfg) (nfr : N) (ops : list hop) (obs : list (event * (N * N * N)))
  : list (event * (N * N * N)) * bool :=
  match ops, obs with
  | o :: ops', x :: rest =>
      let nfr' := fst (fst (snd x)) in
      if exposes c (fst x) || (nonlifo_hop o && ((nfr' <? nfr) || (0 <? c_gap c))) then ([x], true)
      else let '(l, b) := cut_obs c nfr' ops' rest in (x :: l, b)
  | _, _ => ([], false)
  end.

(* for a run from arena_alloc (one frame) *)
Definition cut_exposed (c : cfg) (ops : list hop) (r : list (event * (N * N * N)) * ending)
  : list (event * (N * N * N)) * ending :=
  let '(l, b) := cut_obs c 1 ops (fst r) in (l, if b then Unmodelled else snd r).
