(* ArenaProofs.v - lemmas for C19.  The central result is [reach_inv]: every
   state reachable by an API-respecting program satisfies the invariant [inv],
   from which the property theorems follow.  Part 1: arithmetic of alignment. *)
From Robsd Require Import Base.Bytes Arena.ArenaDefs Arena.ArenaSpec.
Local Open Scope N_scope.

(* ======================================================================== *)
(* 1. alignment                                                              *)
(* ======================================================================== *)
Section Align.
Variable c : cfg.
Hypothesis Hwf : wf_cfg c.

Lemma ma_pos : 0 < c_ma c.
Proof.
  destruct Hwf as [[k Hk] _]. rewrite Hk. apply N.neq_0_lt_0, N.pow_nonzero. discriminate.
Qed.

Lemma ma_nz : c_ma c <> 0.
Proof. pose proof ma_pos. lia. Qed.

(* the growth path of arena_realloc_fast validates the scope (last conjunct of wf_cfg) *)
Lemma gv_true : c_gv c = true.
Proof. destruct Hwf as (_ & _ & _ & _ & _ & _ & _ & _ & H). exact H. Qed.

Lemma round_up_div x : round_up c x = (x + (c_ma c - 1)) / c_ma c * c_ma c.
Proof.
  unfold round_up. destruct Hwf as [[k Hk] _]. rewrite Hk.
  replace (2 ^ k - 1) with (N.ones k) by (rewrite N.ones_equiv; lia).
  rewrite N.ldiff_ones_r, N.shiftl_mul_pow2, N.shiftr_div_pow2. reflexivity.
Qed.

Lemma round_up_ge x : x <= round_up c x.
Proof.
  rewrite round_up_div. pose proof ma_nz as Hnz.
  pose proof (N.div_mod (x + (c_ma c - 1)) (c_ma c) Hnz) as Hd.
  pose proof (N.mod_lt (x + (c_ma c - 1)) (c_ma c) Hnz) as Hl.
  rewrite (N.mul_comm _ (c_ma c)).
  generalize dependent ((x + (c_ma c - 1)) / c_ma c). generalize dependent ((x + (c_ma c - 1)) mod c_ma c).
  intros r Hl q Hd. lia.
Qed.

Lemma round_up_lt x : round_up c x < x + c_ma c.
Proof.
  rewrite round_up_div. pose proof ma_nz as Hnz.
  pose proof (N.div_mod (x + (c_ma c - 1)) (c_ma c) Hnz) as Hd.
  rewrite (N.mul_comm _ (c_ma c)).
  generalize dependent ((x + (c_ma c - 1)) / c_ma c). generalize dependent ((x + (c_ma c - 1)) mod c_ma c).
  intros r q Hd. lia.
Qed.

Lemma round_up_aligned x : (c_ma c | round_up c x).
Proof. rewrite round_up_div. exists ((x + (c_ma c - 1)) / c_ma c). reflexivity. Qed.

Lemma round_up_id x : (c_ma c | x) -> round_up c x = x.
Proof.
  intros [j Hj]. rewrite round_up_div. pose proof ma_pos as Hp.
  assert (Hq : j = (x + (c_ma c - 1)) / c_ma c).
  { apply N.div_unique with (r := c_ma c - 1); lia. }
  rewrite <- Hq. lia.
Qed.

Lemma round_up_mono x y : x <= y -> round_up c x <= round_up c y.
Proof.
  intros Hxy. rewrite !round_up_div. apply N.mul_le_mono_r.
  apply N.div_le_mono; [apply ma_nz | lia].
Qed.

Lemma gap_cases : c_gap c = 0 \/ c_ma c <= c_gap c.
Proof.
  destruct Hwf as (_ & Hg & _). destruct (N.eq_dec (c_gap c) 0) as [H0|Hn]; [now left|right].
  apply N.divide_pos_le; [lia|exact Hg].
Qed.

Lemma align_off_eq x : align_off c x = round_up c x + c_gap c.
Proof.
  unfold align_off. pose proof (round_up_lt x) as Hl. pose proof (round_up_ge x) as Hg.
  destruct gap_cases as [H0|Hge].
  - rewrite H0. simpl. lia.
  - assert (H1 : (0 <? c_gap c) = true) by (apply N.ltb_lt; pose proof ma_pos; lia).
    assert (H2 : (round_up c x - x <? c_gap c) = true) by (apply N.ltb_lt; lia).
    cbv zeta. rewrite H1, H2. reflexivity.
Qed.

Lemma align_off_ge x : x + c_gap c <= align_off c x.
Proof. rewrite align_off_eq. pose proof (round_up_ge x). lia. Qed.

Lemma align_off_aligned x : (c_ma c | align_off c x).
Proof.
  rewrite align_off_eq. apply N.divide_add_r; [apply round_up_aligned|]. apply Hwf.
Qed.

Lemma align_off_mono x y : x <= y -> align_off c x <= align_off c y.
Proof. intros H. rewrite !align_off_eq. pose proof (round_up_mono x y H). lia. Qed.

Lemma align_off_id x : (c_ma c | x) -> align_off c x = x + c_gap c.
Proof. intros H. rewrite align_off_eq, round_up_id by assumption. reflexivity. Qed.

(* the bump pointer after an allocation ending at x in a frame of size fs *)
Definition bump (fs x : N) : N := if fs <? align_off c x then fs else align_off c x.

Lemma bump_le_fs fs x : bump fs x <= fs.
Proof. unfold bump. destruct (N.ltb_spec fs (align_off c x)); lia. Qed.

Lemma bump_ge fs x : x <= fs -> x <= bump fs x.
Proof. unfold bump. pose proof (align_off_ge x). destruct (N.ltb_spec fs (align_off c x)); lia. Qed.

Lemma bump_mono fs x y : x <= y -> bump fs x <= bump fs y.
Proof.
  intros H. unfold bump. pose proof (align_off_mono x y H).
  destruct (N.ltb_spec fs (align_off c x)); destruct (N.ltb_spec fs (align_off c y)); lia.
Qed.

Lemma bump_aligned fs x : (c_ma c | fs) -> (c_ma c | bump fs x).
Proof. intros H. unfold bump. destruct (fs <? align_off c x); [exact H|apply align_off_aligned]. Qed.

Lemma bump_gap fs x : bump fs x < fs -> x + c_gap c <= bump fs x.
Proof. unfold bump. pose proof (align_off_ge x). destruct (N.ltb_spec fs (align_off c x)); lia. Qed.

End Align.

(* ======================================================================== *)
(* 2. frames, push, grow                                                     *)
(* ======================================================================== *)
Lemma frame_at_lt l i fr : frame_at l i = Some fr -> (i < length l)%nat.
Proof.
  induction l as [|f rest IH]; simpl; [discriminate|].
  destruct (Nat.eqb_spec i (length rest)); intros H; [lia|]. apply IH in H. lia.
Qed.

Lemma frame_at_top fr rest : frame_at (fr :: rest) (length rest) = Some fr.
Proof. simpl. now rewrite Nat.eqb_refl. Qed.

Lemma frame_at_cons_lt fr rest i : (i < length rest)%nat -> frame_at (fr :: rest) i = frame_at rest i.
Proof. intros H. simpl. destruct (Nat.eqb_spec i (length rest)); [lia|reflexivity]. Qed.

Lemma frame_at_some l i : (i < length l)%nat -> exists fr, frame_at l i = Some fr.
Proof.
  induction l as [|f rest IH]; simpl; [lia|]. intros H.
  destruct (Nat.eqb_spec i (length rest)); [eauto|]. apply IH. lia.
Qed.

Lemma frame_at_In l i fr : frame_at l i = Some fr -> In fr l.
Proof.
  induction l as [|f rest IH]; simpl; [discriminate|].
  destruct (Nat.eqb i (length rest)); intros H; [inversion H; auto|auto].
Qed.

Lemma frame_at_none l i : (length l <= i)%nat -> frame_at l i = None.
Proof.
  intros H. destruct (frame_at l i) eqn:E; [|reflexivity]. apply frame_at_lt in E. lia.
Qed.

(* every old frame is still there, with its size, and its bump pointer has not gone down *)
Definition frames_ext (l l' : list frame) : Prop :=
  forall i fr, frame_at l i = Some fr ->
    exists fr', frame_at l' i = Some fr' /\ f_size fr' = f_size fr /\ f_len fr <= f_len fr'.

Lemma frames_ext_refl l : frames_ext l l.
Proof. intros i fr H. exists fr. split; [assumption|split; [reflexivity|lia]]. Qed.

Lemma frames_ext_top fr fr' rest :
  f_size fr' = f_size fr -> f_len fr <= f_len fr' -> frames_ext (fr :: rest) (fr' :: rest).
Proof.
  intros Hs Hl i f H. simpl in *. destruct (Nat.eqb i (length rest)).
  - inversion H; subst. eauto.
  - exists f. split; [assumption|split; [reflexivity|lia]].
Qed.

Lemma frames_ext_new fr1 l : frames_ext l (fr1 :: l).
Proof.
  intros i f H. pose proof (frame_at_lt _ _ _ H) as Hlt.
  rewrite frame_at_cons_lt by assumption. exists f. split; [assumption|split; [reflexivity|lia]].
Qed.

Section Frames.
Variable c : cfg.
Hypothesis Hwf : wf_cfg c.

Definition frame_ok (fr : frame) : Prop :=
  f_len fr <= f_size fr /\ c_hdr c <= f_len fr /\ (c_ma c | f_len fr) /\ (c_ma c | f_size fr) /\
  f_size fr < SIZE_LIMIT /\ (c_fsz0 c | f_size fr).

Lemma push_some fr size off fr' :
  push c fr size = Some (off, fr') ->
  off = f_len fr /\ f_size fr' = f_size fr /\ f_len fr' = bump c (f_size fr) (f_len fr + size) /\
  f_len fr + size <= f_size fr /\ f_len fr + size < SIZE_LIMIT.
Proof.
  unfold push, bump.
  destruct (N.leb_spec SIZE_LIMIT (f_len fr + size)) as [H1|H1]; [discriminate|].
  destruct (N.ltb_spec (f_size fr) (f_len fr + size)) as [H2|H2]; [discriminate|].
  intros H; inversion H; subst; simpl. repeat split; try reflexivity; lia.
Qed.

Lemma push_none fr size :
  push c fr size = None -> f_size fr < f_len fr + size \/ SIZE_LIMIT <= f_len fr + size.
Proof.
  unfold push.
  destruct (N.leb_spec SIZE_LIMIT (f_len fr + size)) as [H1|H1]; [auto|].
  destruct (N.ltb_spec (f_size fr) (f_len fr + size)) as [H2|H2]; [auto|discriminate].
Qed.

Lemma push_frame_ok fr size off fr' :
  frame_ok fr -> push c fr size = Some (off, fr') -> frame_ok fr' /\ f_len fr <= f_len fr'.
Proof.
  intros (H1 & H2 & H3 & H4 & H5 & H6) Hp. apply push_some in Hp. destruct Hp as (-> & Hs & Hl & Hfit & _).
  unfold frame_ok. rewrite Hs, Hl.
  pose proof (bump_le_fs c (f_size fr) (f_len fr + size)).
  pose proof (bump_ge c Hwf (f_size fr) (f_len fr + size) Hfit).
  pose proof (bump_aligned c Hwf (f_size fr) (f_len fr + size) H4).
  repeat split; try assumption; lia.
Qed.

Lemma grow_some fuel : forall fs total r,
  fs < SIZE_LIMIT -> grow fuel fs total = Some r -> total <= r /\ (fs | r) /\ r < SIZE_LIMIT.
Proof.
  induction fuel as [|f IH]; intros fs total r Hfs; cbn [grow].
  - destruct (N.ltb_spec fs total) as [Hlt|Hge]; [discriminate|]. intros H0; inversion H0; subst.
    split; [lia|split; [apply N.divide_refl|assumption]].
  - destruct (N.ltb_spec fs total) as [Hlt|Hge]; [|intros H0; inversion H0; subst;
      split; [lia|split; [apply N.divide_refl|assumption]]].
    destruct (N.leb_spec SIZE_LIMIT (2 * fs)); [discriminate|]. intros Hg.
    apply IH in Hg; [|assumption]. destruct Hg as (Ha & Hb & Hc).
    split; [assumption|split; [|assumption]].
    apply N.divide_trans with (2 * fs); [|assumption]. exists 2. lia.
Qed.

Lemma grow_none fuel : forall fs total,
  0 < fs -> SIZE_LIMIT <= fs * 2 ^ N.of_nat fuel -> grow fuel fs total = None ->
  9223372036854775808 < total.
Proof.
  induction fuel as [|f IH]; intros fs total Hpos Hbig; cbn [grow].
  - destruct (N.ltb_spec fs total); [|discriminate]. intros _. cbn in Hbig. unfold SIZE_LIMIT in *. lia.
  - destruct (N.ltb_spec fs total); [|discriminate].
    destruct (N.leb_spec SIZE_LIMIT (2 * fs)); [intros _; unfold SIZE_LIMIT in *; lia|].
    apply IH; [lia|]. rewrite Nat2N.inj_succ, N.pow_succ_r' in Hbig. lia.
Qed.

End Frames.

