(* ArenaAny.v - alignment in the MODEL without any hypothesis on the client.

   [reach_any] is closed under EVERY operation that returns - no [api_okb], no ghost:
   leaves in any order, realloc of arbitrary pointers with arbitrary sizes, client
   writes anywhere, use after arena_free (which the model answers with Crash, so it
   produces no successor).  The light invariant [al_inv] (frame sizes, bump pointers
   and scope marks are multiples of maxalign) survives all of that, and with it every
   pointer any operation of the MODEL returns is maxalign-aligned.

   THIS IS A FACT ABOUT THE MODEL, NOT ABOUT arena.c.  The model keeps the frame
   metadata ([f_size], [f_len]) apart from [mem]; in C struct arena_frame lives at
   offsets 0 .. c_hdr of the chunk.  After a leave of a non-innermost scope the "len = 0"
   branch hands out the header (ArenaHoles.hits_header); a client write into that block
   rewrites frame->ptr/size/len in C, and the next arena_malloc returns a wild,
   misaligned pointer (replayed: corpus/C19/nonlifo_header_written.json, normal build;
   the ASan build dies in arena_scope_enter_impl).  The model marks the place where it
   stops describing the code ([ArenaDefs.cut_exposed], ending Unmodelled).  Clause 1 of
   C19 is claimed under the guard only: ArenaThms.returned_aligned, live_aligned. *)
From Robsd Require Import Base.Bytes Arena.ArenaDefs Arena.ArenaSpec Arena.ArenaProofs Arena.ArenaInv.
Local Open Scope N_scope.

Inductive reach_any (c : cfg) : state -> Prop :=
| ra_init : forall st, init c = Some st -> reach_any c st
| ra_step : forall st o st' ev, reach_any c st -> step c st o = Ok (st', ev) -> reach_any c st'.

Section Any.
Variable c : cfg.
Hypothesis Hwf : wf_cfg c.

Definition fr_al (fr : frame) : Prop := (c_ma c | f_len fr) /\ (c_ma c | f_size fr).
Definition sc_al (s : scope) : Prop := (c_ma c | s_flen s).

Definition al_inv (st : state) : Prop :=
  Forall fr_al (a_frames (st_a st)) /\ Forall sc_al (st_scs st).

Lemma land_zero_aligned x : N.land x (c_ma c - 1) = 0 -> (c_ma c | x).
Proof.
  pose proof Hwf as [[k Hk] _]. rewrite Hk.
  replace (2 ^ k - 1) with (N.ones k) by (rewrite N.ones_equiv; lia).
  rewrite N.land_ones. intros H. apply N.mod_divide; [apply N.pow_nonzero; discriminate|assumption].
Qed.

Lemma push_al fr size off fr' :
  fr_al fr -> push c fr size = Some (off, fr') -> off = f_len fr /\ fr_al fr'.
Proof.
  intros [H1 H2] Hp. apply push_some in Hp. destruct Hp as (-> & Hs & Hl & _).
  split; [reflexivity|]. unfold fr_al. rewrite Hs, Hl. split; [|assumption].
  apply (bump_aligned c Hwf). assumption.
Qed.

Lemma malloc_al a s size p a' :
  Forall fr_al (a_frames a) -> malloc c a s size = Ok (p, a') ->
  (c_ma c | snd p) /\ Forall fr_al (a_frames a').
Proof.
  intros Hal. unfold malloc. destruct (negb (validate a s)); [discriminate|].
  destruct (a_frames a) as [|fr rest] eqn:Efr; [discriminate|].
  inversion Hal as [|? ? Hfr Hrest]; subst.
  destruct (push c fr size) as [[off fr']|] eqn:Ep.
  - intros H; inversion H; subst; clear H. destruct (push_al _ _ _ _ Hfr Ep) as [-> Hfr'].
    split; [apply Hfr|]. constructor; assumption.
  - destruct ((SIZE_LIMIT <=? size + c_hdr c) || (SIZE_LIMIT <=? c_gap c + (size + c_hdr c))); [discriminate|].
    destruct (grow 64 (c_fsz0 c) (c_gap c + (size + c_hdr c))) as [fsz|] eqn:Eg; [|discriminate].
    pose proof Hwf as (_ & _ & _ & W4 & _ & _ & W7 & _).
    apply grow_some in Eg; [|assumption]. destruct Eg as (_ & Gdiv & _).
    assert (Hnew : fr_al (mkFrame fsz 0)).
    { split; simpl; [apply N.divide_0_r|]. apply N.divide_trans with (c_fsz0 c); assumption. }
    unfold frame_alloc. destruct (push c (mkFrame fsz 0) (c_hdr c)) as [[off0 fr1]|] eqn:Ep1; [|discriminate].
    cbn [a_frames]. destruct (push_al _ _ _ _ Hnew Ep1) as [_ Hfr1].
    destruct (push c fr1 size) as [[off fr1']|] eqn:Ep2; [|discriminate].
    intros H; inversion H; subst; clear H. destruct (push_al _ _ _ _ Hfr1 Ep2) as [-> Hfr1'].
    split; [apply Hfr1|]. constructor; [assumption|]. rewrite Efr. constructor; assumption.
Qed.

Lemma drop_frames_al keep l : Forall fr_al l -> Forall fr_al (drop_frames keep l).
Proof.
  induction l as [|x l IH]; intros H; [constructor|].
  change (drop_frames keep (x :: l)) with (if Nat.eqb (length (x :: l)) keep then x :: l else drop_frames keep l).
  destruct (Nat.eqb (length (x :: l)) keep); [assumption|]. apply IH. inversion H; assumption.
Qed.

Lemma remove_nth_al k (l : list scope) : Forall sc_al l -> Forall sc_al (remove_nth k l).
Proof.
  revert k. induction l as [|x l IH]; intros [|k] H; simpl; try constructor; inversion H; subst; auto.
Qed.

Lemma set_nth_al k s (l : list scope) : sc_al s -> Forall sc_al l -> Forall sc_al (set_nth k s l).
Proof.
  intros Hs. revert k. induction l as [|x l IH]; intros [|k] H; simpl; try constructor; inversion H; subst; auto.
Qed.

Lemma nth_al k s (l : list scope) : Forall sc_al l -> nth_error l k = Some s -> sc_al s.
Proof. intros H Hk. rewrite Forall_forall in H. apply H. eapply nth_error_In; eauto. Qed.

Lemma scope_leave_al fuel a s a' toks reset :
  Forall fr_al (a_frames a) -> sc_al s -> scope_leave c fuel a s = Ok (a', toks, reset) ->
  Forall fr_al (a_frames a').
Proof.
  intros Hal Hs. unfold scope_leave.
  destruct (run_cleanups fuel (c_node c) (a_mem a) (s_cleanup s)); [|discriminate].
  pose proof (drop_frames_al (if a_refs a =? 1 then 0%nat else s_nframes s) _ Hal) as Hd.
  destruct (drop_frames (if a_refs a =? 1 then 0%nat else s_nframes s) (a_frames a)) as [|fr rest].
  - intros H; inversion H; subst. constructor.
  - inversion Hd as [|? ? [_ Hsz] Hrest]; subst.
    destruct (s_flen s <=? f_len fr); intros H; inversion H; subst; simpl;
      (constructor; [split; simpl; [|assumption]|assumption]); [exact Hs|apply N.divide_0_r].
Qed.

Lemma init_al st : init c = Some st -> al_inv st.
Proof.
  unfold init, frame_alloc.
  destruct (push c (mkFrame (c_fsz0 c) 0) (c_hdr c)) as [[off fr]|] eqn:Ep; [|discriminate].
  intros H; inversion H; subst; clear H. split; simpl; [|constructor].
  assert (Hnew : fr_al (mkFrame (c_fsz0 c) 0)).
  { split; simpl; [apply N.divide_0_r|apply Hwf]. }
  destruct (push_al _ _ _ _ Hnew Ep) as [_ Hfr]. constructor; [assumption|constructor].
Qed.

(* every operation that returns keeps the invariant and returns aligned pointers only *)
Theorem step_al st o st' ev :
  al_inv st -> step c st o = Ok (st', ev) ->
  al_inv st' /\ (forall p, ev = EPtr (Some p) -> (c_ma c | snd p)).
Proof.
  intros [Hfr Hsc]. unfold step. destruct (a_refs (st_a st) =? 0); [discriminate|].
  assert (Halloc : forall s size p a1, malloc c (st_a st) s size = Ok (p, a1) ->
            (c_ma c | snd p) /\ Forall fr_al (a_frames a1)).
  { intros s size p a1 Hm. apply (malloc_al _ _ _ _ _ Hfr Hm). }
  destruct o as [|k|k size|k nmemb size|k p0 old new|k data|k data|k data|k tok|p n v|p|].
  - (* Enter *)
    unfold scope_enter. destruct (a_frames (st_a st)) as [|fr rest] eqn:Efr; [discriminate|].
    intros H; inversion H; subst; clear H. split; [|intros p Hp; discriminate].
    split; simpl; [assumption|]. constructor; [|assumption].
    inversion Hfr as [|? ? [Hl _] _]; subst. exact Hl.
  - (* LeaveAt, any k *)
    unfold with_scope. destruct (nth_error (st_scs st) k) as [s|] eqn:Hk; [|discriminate].
    destruct (scope_leave c (st_ncl st) (st_a st) s) as [[[a' toks] reset]| | |] eqn:El; try discriminate.
    intros H; inversion H; subst; clear H. split; [|intros p Hp; discriminate].
    split; simpl; [|apply remove_nth_al; assumption].
    apply (scope_leave_al _ _ _ _ _ _ Hfr (nth_al _ _ _ Hsc Hk) El).
  - (* Malloc *)
    unfold with_scope. destruct (nth_error (st_scs st) k) as [s|]; [|discriminate].
    unfold lift_alloc. destruct (malloc c (st_a st) s size) as [[q a1]| | |] eqn:Em; try discriminate.
    intros H; inversion H; subst; clear H. destruct (Halloc _ _ _ _ Em) as [H1 H2].
    split; [split; assumption|]. intros p Hp; inversion Hp; subst; assumption.
  - (* Calloc *)
    unfold with_scope. destruct (nth_error (st_scs st) k) as [s|]; [|discriminate].
    unfold lift_alloc, calloc. destruct (SIZE_LIMIT <=? nmemb * size); [discriminate|].
    destruct (malloc c (st_a st) s (nmemb * size)) as [[q a1]| | |] eqn:Em; try discriminate.
    intros H; inversion H; subst; clear H. destruct (Halloc _ _ _ _ Em) as [H1 H2].
    split; [split; assumption|]. intros p Hp; inversion Hp; subst; assumption.
  - (* Realloc, any pointer *)
    unfold with_scope. destruct (nth_error (st_scs st) k) as [s|]; [|discriminate].
    assert (Hslow : forall q a', match malloc c (st_a st) s new with
                      | Ok (q0, a0) =>
                          match p0 with
                          | Some p1 => Ok (Some q0, mkArena (a_frames a0) (a_refs a0) (mem_copy (a_mem a0) q0 p1 old))
                          | None => Ok (Some q0, a0)
                          end
                      | Trap => Trap | Exit1 => Exit1 | Crash => Crash end = Ok (q, a') ->
              Forall fr_al (a_frames a') /\ (forall p, q = Some p -> (c_ma c | snd p))).
    { intros q a'. destruct (malloc c (st_a st) s new) as [[q0 a0]| | |] eqn:Em; try discriminate.
      destruct (Halloc _ _ _ _ Em) as [H1 H2].
      destruct p0; intros H; inversion H; subst; simpl; (split; [assumption|intros p Hp; inversion Hp; subst; assumption]). }
    destruct (realloc c (st_a st) s p0 old new) as [[q a']| | |] eqn:Er; try discriminate.
    intros H; inversion H; subst; clear H.
    assert (Hres : Forall fr_al (a_frames a') /\ (forall p, q = Some p -> (c_ma c | snd p))).
    { unfold realloc in Er. destruct p0 as [p1|]; [|apply Hslow; assumption].
      destruct (N.land (snd p1) (c_ma c - 1) =? 0) eqn:Eal; cbn [negb] in Er.
      2:{ inversion Er; subst. split; [assumption|intros p Hp; discriminate]. }
      apply N.eqb_eq, land_zero_aligned in Eal.
      unfold realloc_fast in Er.
      destruct (new <=? old).
      { destruct (c_sv c && negb (validate (st_a st) s)); [discriminate|].
        inversion Er; subst. split; [assumption|intros p Hp; inversion Hp; subst; assumption]. }
      destruct (c_gv c && negb (validate (st_a st) s)); [discriminate|].
      destruct (a_frames (st_a st)) as [|fr rest] eqn:Efr; [discriminate|].
      inversion Hfr as [|? ? [Hl Hs] Hrest]; subst.
      destruct (Nat.eqb (fst p1) (length rest) && (align_off c (snd p1 + old) =? f_len fr)).
      - destruct (push c (mkFrame (f_size fr) (snd p1)) new) as [[x fr']|] eqn:Ep.
        + inversion Er; subst; clear Er.
          assert (Htmp : fr_al (mkFrame (f_size fr) (snd p1))) by (split; simpl; assumption).
          destruct (push_al _ _ _ _ Htmp Ep) as [_ Hfr']. simpl.
          split; [constructor; assumption|intros p Hp; inversion Hp; subst; assumption].
        + apply Hslow; assumption.
      - apply Hslow; assumption. }
    destruct Hres as [H1 H2]. split; [split; assumption|]. intros p Hp; inversion Hp; subst. auto.
  - (* Strndup *)
    unfold with_scope. destruct (nth_error (st_scs st) k) as [s|]; [|discriminate].
    unfold lift_alloc, alloc_str. destruct (SIZE_LIMIT <=? N.of_nat (length data) + 1); [discriminate|].
    destruct (malloc c (st_a st) s (N.of_nat (length data) + 1)) as [[q a1]| | |] eqn:Em; try discriminate.
    intros H; inversion H; subst; clear H. destruct (Halloc _ _ _ _ Em) as [H1 H2].
    split; [split; assumption|]. intros p Hp; inversion Hp; subst; assumption.
  - (* Strdup *)
    unfold with_scope. destruct (nth_error (st_scs st) k) as [s|]; [|discriminate].
    unfold lift_alloc, alloc_str. destruct (SIZE_LIMIT <=? N.of_nat (length (cstr data)) + 1); [discriminate|].
    destruct (malloc c (st_a st) s (N.of_nat (length (cstr data)) + 1)) as [[q a1]| | |] eqn:Em; try discriminate.
    intros H; inversion H; subst; clear H. destruct (Halloc _ _ _ _ Em) as [H1 H2].
    split; [split; assumption|]. intros p Hp; inversion Hp; subst; assumption.
  - (* Sprintf *)
    unfold with_scope. destruct (nth_error (st_scs st) k) as [s|]; [|discriminate].
    unfold lift_alloc, alloc_str. destruct (SIZE_LIMIT <=? N.of_nat (length data) + 1); [discriminate|].
    destruct (malloc c (st_a st) s (N.of_nat (length data) + 1)) as [[q a1]| | |] eqn:Em; try discriminate.
    intros H; inversion H; subst; clear H. destruct (Halloc _ _ _ _ Em) as [H1 H2].
    split; [split; assumption|]. intros p Hp; inversion Hp; subst; assumption.
  - (* Cleanup *)
    unfold with_scope. destruct (nth_error (st_scs st) k) as [s|] eqn:Hk; [|discriminate].
    unfold cleanup. destruct (malloc c (st_a st) s (c_node c)) as [[q a1]| | |] eqn:Em; try discriminate.
    intros H; inversion H; subst; clear H. destruct (Halloc _ _ _ _ Em) as [H1 H2].
    split; [|intros p Hp; inversion Hp; subst; assumption].
    split; simpl; [assumption|]. apply set_nth_al; [|assumption]. exact (nth_al _ _ _ Hsc Hk).
  - (* Fill, anywhere *)
    intros H; inversion H; subst; clear H. split; [split; assumption|intros q Hq; discriminate].
  - (* Read *)
    intros H; inversion H; subst; clear H. split; [split; assumption|intros q Hq; discriminate].
  - (* ArenaFree *)
    destruct (arena_free c (st_a st)) as [a'| | |] eqn:Ef; try discriminate.
    intros H; inversion H; subst; clear H. split; [|intros q Hq; discriminate].
    split; simpl; [|assumption]. unfold arena_free in Ef.
    destruct (1 <? a_refs (st_a st)); [inversion Ef; subst; assumption|].
    destruct (scope_leave c 0 (st_a st) (mkScope 0 0 0 None)) as [[[a1 t1] r1]| | |] eqn:El; try discriminate.
    inversion Ef; subst. refine (scope_leave_al _ _ _ _ _ _ Hfr _ El). unfold sc_al. simpl. apply N.divide_0_r.
Qed.

Theorem reach_any_al st : reach_any c st -> al_inv st.
Proof.
  induction 1 as [st Hi|st o st' ev _ IH Hstep]; [apply init_al; assumption|].
  apply (step_al _ _ _ _ IH Hstep).
Qed.

(* clause 1 of C19 for ALL sequences of calls: whatever was done before, a pointer that is
   returned is maxalign-aligned *)
Theorem returned_aligned_any st o st' p :
  reach_any c st -> step c st o = Ok (st', EPtr (Some p)) -> snd p mod c_ma c = 0.
Proof.
  intros R Hstep. destruct (step_al _ _ _ _ (reach_any_al _ R) Hstep) as [_ H].
  apply N.mod_divide; [apply (ma_nz c Hwf)|]. apply H. reflexivity.
Qed.

(* the API-respecting states are among them *)
Lemma reach_reach_any st g : reach c st g -> reach_any c st.
Proof. induction 1; [constructor; assumption|econstructor; eassumption]. Qed.

End Any.
