(* ArenaHoles.v - the two uses of a non-innermost scope the arena does not detect (C19, S2).

   1. [outer_use_dichotomy]: in every reachable state an allocating call through a
      scope that is not the innermost one either does not return normally, or it is
      arena_realloc on a pointer - returning NULL (misaligned pointer, EFAULT), or
      returning the pointer itself for new <= old on a source whose shrinking path
      is not validated.  Nothing else escapes arena_scope_validate.
   2. [outer_shrink_reuse]: what that hole costs, for EVERY reachable state with a
      scope open: enter, allocate m bytes, shrink the block through the enclosing
      scope, leave, allocate n <= m bytes - no trap, and the last pointer is the
      shrunk block itself (or the shrunk block's frame has been given back to
      malloc).  The caller obtained both through the same, still open, scope.
   3. [nonlifo_leave_reuse]: the same for a leave of a scope that is not the
      innermost one (arena_scope_leave validates nothing): enter A, enter B,
      allocate in B, leave A, enter C, allocate in C - the block of B, a scope
      that was never left, is handed out again.  C19 quantifies over all sequences
      of enter/leave: this and [hits_header] are the _refuted witnesses of "leaving
      a scope invalidates only that scope's blocks" / "detected instead of silently
      corrupting" outside the LIFO guard (known finding nonlifo-leave-undetected;
      the oracle's verdict on these runs: ArenaOracle.nonlifo_flagged_builds).
   4. [outer_shrink_traps_validated]: with the repaired source (c_sv) hole 1 is closed. *)
From Robsd Require Import Base.Bytes Arena.ArenaDefs Arena.ArenaSpec Arena.ArenaProofs Arena.ArenaInv Arena.ArenaThms.
From RobsdGen Require Import Gen_Arena.
Local Open Scope N_scope.

(* the scope an operation allocates through *)
Definition scope_of (o : op) : option nat :=
  match o with
  | Malloc k _ | Calloc k _ _ | Realloc k _ _ _ | Strndup k _ | Strdup k _ | Sprintf k _ | Cleanup k _ => Some k
  | _ => None
  end.

(* the client-side bookkeeping over a whole run *)
Fixpoint gsteps (c : cfg) (g : ghost) (ops : list op) (evs : list event) : ghost :=
  match ops, evs with
  | o :: os, e :: es => gsteps c (gstep c g o e) os es
  | _, _ => g
  end.

Definition HALF_LIMIT : N := 9223372036854775808.

Section Holes.
Variable c : cfg.
Hypothesis Hwf : wf_cfg c.

(* ---- 1. what escapes arena_scope_validate ------------------------------------------------ *)
Theorem outer_use_dichotomy st g o k st' ev :
  reach c st g -> g_freed g = false -> (0 < k)%nat -> scope_of o = Some k ->
  step c st o = Ok (st', ev) ->
  exists p old new, o = Realloc k (Some p) old new /\ st' = st /\
    (ev = EPtr None \/ (ev = EPtr (Some p) /\ new <= old /\ c_sv c = false)).
Proof.
  intros R Hf Hk Hsc. unfold step.
  destruct (a_refs (st_a st) =? 0); [discriminate|].
  assert (Htrap : forall s size, nth_error (st_scs st) k = Some s -> malloc c (st_a st) s size = Trap).
  { intros s size Hs. apply (malloc_outer_traps c Hwf _ _ _ _ _ R Hf Hs Hk). }
  destruct o as [|k0|k0 size|k0 nmemb size|k0 p0 old new|k0 data|k0 data|k0 data|k0 tok|p n v|p|];
    simpl in Hsc; try discriminate; injection Hsc as ->;
    unfold with_scope; destruct (nth_error (st_scs st) k) as [s|] eqn:Hs; try discriminate.
  - unfold lift_alloc. rewrite (Htrap s size eq_refl). discriminate.
  - unfold lift_alloc, calloc. destruct (SIZE_LIMIT <=? nmemb * size); [discriminate|].
    rewrite (Htrap s _ eq_refl). discriminate.
  - (* Realloc *)
    destruct p0 as [p|].
    + unfold realloc. destruct (N.land (snd p) (c_ma c - 1) =? 0) eqn:Eal; cbn [negb].
      * unfold realloc_fast.
        assert (Hv : validate (st_a st) s = false).
        { pose proof (reach_inv c Hwf _ _ R) as [G _ _]. rewrite Hf in G. unfold validate.
          apply (outer_not_validated c _ _ _ _ _ _ _ G Hs Hk). }
        rewrite Hv, (gv_true c Hwf). cbn [negb andb]. rewrite andb_true_r.
        destruct (N.leb_spec new old) as [Hle|Hgt]; [|discriminate].
        destruct (c_sv c) eqn:Esv; [discriminate|].
        intros H; inversion H; subst; clear H. exists p, old, new.
        split; [reflexivity|]. split; [apply state_eta|]. right. auto.
      * intros H; inversion H; subst; clear H. exists p, old, new.
        split; [reflexivity|]. split; [apply state_eta|]. left. reflexivity.
    + unfold realloc. rewrite (Htrap s new eq_refl). discriminate.
  - unfold lift_alloc, alloc_str. destruct (SIZE_LIMIT <=? N.of_nat (length data) + 1); [discriminate|].
    rewrite (Htrap s _ eq_refl). discriminate.
  - unfold lift_alloc, alloc_str. destruct (SIZE_LIMIT <=? N.of_nat (length (cstr data)) + 1); [discriminate|].
    rewrite (Htrap s _ eq_refl). discriminate.
  - unfold lift_alloc, alloc_str. destruct (SIZE_LIMIT <=? N.of_nat (length data) + 1); [discriminate|].
    rewrite (Htrap s _ eq_refl). discriminate.
  - unfold cleanup. rewrite (Htrap s _ eq_refl). discriminate.
Qed.

(* ---- 4. the repaired source refuses the shrinking realloc of an inner block ----------------- *)
Lemma outer_shrink_spec g o :
  outer_shrink g o = true ->
  exists k p old new b, o = Realloc k (Some p) old new /\ scope_okb g k = true /\
    find (is_user_at p old) (g_blocks g) = Some b /\ (lvl_of g k < b_lvl b)%nat /\ new <= old.
Proof.
  destruct o as [|k|k size|k nmemb size|k [p|] old new|k data|k data|k data|k tok|p n v|p|]; simpl; try discriminate.
  intros H. apply andb_true_iff in H. destruct H as [Hsc H].
  destruct (find (is_user_at p old) (g_blocks g)) as [b|] eqn:Ef; [|discriminate].
  apply andb_true_iff in H. destruct H as [H1 H2]. apply Nat.ltb_lt in H1. apply N.leb_le in H2.
  exists k, p, old, new, b. auto.
Qed.

Lemma outer_shrink_not_api g o : outer_shrink g o = true -> api_okb g o = false.
Proof.
  intros H. destruct (outer_shrink_spec _ _ H) as (k & p & old & new & b & -> & Hsc & Hf & Hl & Hle).
  simpl. rewrite Hsc, Hf. simpl. apply orb_false_iff. split.
  - apply Nat.leb_gt. assumption.
  - apply N.ltb_ge. assumption.
Qed.

Lemma outer_shrink_is_outer st g k p old b :
  reach c st g -> find (is_user_at p old) (g_blocks g) = Some b -> (lvl_of g k < b_lvl b)%nat -> (0 < k)%nat.
Proof.
  intros R Hf Hl. destruct (find_is_user _ _ _ _ Hf) as (Hb & _).
  pose proof (reach_inv c Hwf _ _ R) as [G _ _].
  pose proof (g_lvl _ _ _ _ _ _ _ G) as Hlv. rewrite Forall_forall in Hlv. specialize (Hlv _ Hb).
  unfold lvl_of in Hl. lia.
Qed.

Theorem outer_shrink_traps_validated st g o :
  c_sv c = true -> reach c st g -> outer_shrink g o = true -> step c st o = Trap.
Proof.
  intros Hsv R H. destruct (outer_shrink_spec _ _ H) as (k & p & old & new & b & -> & Hsc & Hf & Hl & Hle).
  destruct (scope_okb_spec _ _ Hsc) as [Hkd Hfr].
  pose proof (outer_shrink_is_outer _ _ _ _ _ _ R Hf Hl) as Hk.
  destruct (scope_lookup c Hwf _ _ _ R Hkd) as [s Hs].
  destruct (find_is_user _ _ _ _ Hf) as (Hb & _ & Hloc & _).
  pose proof (live_aligned c Hwf _ _ _ R Hb) as Hal. unfold b_off in Hal. rewrite Hloc in Hal.
  apply N.mod_divide in Hal; [|apply (ma_nz c Hwf)].
  unfold step. destruct (N.eqb_spec (a_refs (st_a st)) 0) as [Hz|_].
  { exfalso. eapply (reach_refs_nz c Hwf); eauto. }
  unfold with_scope. rewrite Hs. unfold realloc, realloc_fast. rewrite (land_aligned c Hwf _ Hal). cbn [negb N.eqb].
  pose proof (reach_inv c Hwf _ _ R) as [G _ _]. rewrite Hfr in G. unfold validate.
  rewrite (outer_not_validated c _ _ _ _ _ _ _ G Hs Hk), Hsv.
  destruct (N.leb_spec new old); [reflexivity|lia].
Qed.

(* ---- building blocks for the two damage theorems ----------------------------------------------- *)
Lemma run_cleanups_none fuel sz m : run_cleanups fuel sz m None = Some [].
Proof. destruct fuel; reflexivity. Qed.

Lemma frame_eta fr : mkFrame (f_size fr) (f_len fr) = fr.
Proof. destruct fr; reflexivity. Qed.

(* where arena_malloc puts a block of moderate size: at the bump pointer of the newest
   frame when it fits there, otherwise right behind the header of a new frame *)
Lemma malloc_shape a s fr rest size :
  a_frames a = fr :: rest -> Forall (frame_ok c) (a_frames a) -> validate a s = true ->
  size + c_hdr c + c_gap c <= HALF_LIMIT ->
  exists p a', malloc c a s size = Ok (p, a') /\ a_refs a' = a_refs a /\
    ((f_len fr + size <= f_size fr /\ p = (length rest, f_len fr) /\
      exists fr', a_frames a' = fr' :: rest /\ f_size fr' = f_size fr /\ f_len fr <= f_len fr') \/
     (f_size fr < f_len fr + size /\ p = (S (length rest), c_hdr c + c_gap c) /\
      exists frn, a_frames a' = frn :: fr :: rest)).
Proof.
  intros Efr Hok Hv Hsmall. unfold HALF_LIMIT in Hsmall. unfold malloc. rewrite Hv, Efr. cbn [negb].
  rewrite Efr in Hok. pose proof (Forall_inv Hok) as Fok. destruct Fok as (F1 & F2 & F3 & F4 & F5 & F6).
  destruct (push c fr size) as [[off fr']|] eqn:Ep.
  - apply push_some in Ep. destruct Ep as (-> & Hs & Hl & Hfit & _).
    eexists _, _. split; [reflexivity|]. split; [reflexivity|]. left.
    split; [assumption|]. split; [reflexivity|]. exists fr'. split; [reflexivity|]. split; [assumption|].
    rewrite Hl. pose proof (bump_ge c Hwf (f_size fr) (f_len fr + size) Hfit). lia.
  - assert (Hnofit : f_size fr < f_len fr + size).
    { apply push_none in Ep. destruct Ep as [H|H]; [assumption|]. unfold SIZE_LIMIT in *. lia. }
    pose proof Hwf as (W1 & W2 & W3 & W4 & W5 & W6 & W7 & W8 & _).
    assert (E1 : (SIZE_LIMIT <=? size + c_hdr c) || (SIZE_LIMIT <=? c_gap c + (size + c_hdr c)) = false).
    { apply orb_false_iff. split; apply N.leb_gt; unfold SIZE_LIMIT; lia. }
    rewrite E1.
    destruct (grow 64 (c_fsz0 c) (c_gap c + (size + c_hdr c))) as [fsz|] eqn:Eg.
    2:{ exfalso. apply grow_none in Eg; [lia|assumption|].
        change (2 ^ N.of_nat 64) with 18446744073709551616. unfold SIZE_LIMIT. lia. }
    apply grow_some in Eg; [|assumption]. destruct Eg as (Gtot & Gdiv & Glim).
    unfold frame_alloc.
    destruct (push_fits c (mkFrame fsz 0) (c_hdr c)) as (off0 & fr1 & Ep1); simpl; try lia.
    rewrite Ep1. cbn [a_frames]. rewrite ?Efr.
    apply push_some in Ep1. simpl in Ep1. destruct Ep1 as (_ & Hs1 & Hl1 & _ & _).
    assert (Hlen : f_len fr1 = c_hdr c + c_gap c).
    { rewrite Hl1. unfold bump. rewrite (align_off_id c Hwf _ W3).
      destruct (N.ltb_spec fsz (c_hdr c + c_gap c)); [lia|reflexivity]. }
    destruct (push_fits c fr1 size) as (off & fr1' & Ep2); try (rewrite ?Hs1, ?Hlen; lia).
    rewrite Ep2. apply push_some in Ep2. destruct Ep2 as (-> & _).
    eexists _, _. split; [reflexivity|]. split; [reflexivity|]. right.
    split; [assumption|]. split; [simpl; rewrite Hlen; reflexivity|]. exists fr1'. reflexivity.
Qed.

(* arena_scope_enter_impl, spelled out *)
Lemma step_enter st fr rest :
  a_refs (st_a st) <> 0 -> a_frames (st_a st) = fr :: rest ->
  step c st Enter =
    Ok (mkState (mkArena (fr :: rest) (a_refs (st_a st) + 1) (a_mem (st_a st)))
                (mkScope (S (length rest)) (f_len fr) (a_refs (st_a st) + 1) None :: st_scs st) (st_ncl st), EUnit).
Proof.
  intros Hnz Efr. unfold step. destruct (N.eqb_spec (a_refs (st_a st)) 0); [contradiction|].
  unfold scope_enter. rewrite Efr. reflexivity.
Qed.

(* leaving a scope that was entered when the frame list was fr :: rest and that has no
   cleanups, after at most one allocation: the arena is back where it was (one reference
   less); nothing looks at the scope's id *)
Lemma leave_fresh fuel a2 fr rest id r :
  a_refs a2 = r + 1 -> r <> 0 ->
  ((exists fr', a_frames a2 = fr' :: rest /\ f_size fr' = f_size fr /\ f_len fr <= f_len fr') \/
   (exists frn, a_frames a2 = frn :: fr :: rest)) ->
  scope_leave c fuel a2 (mkScope (S (length rest)) (f_len fr) id None) =
    Ok (mkArena (fr :: rest) r (a_mem a2), [], false).
Proof.
  intros Hr Hnz Hfr. unfold scope_leave. cbn [s_cleanup s_nframes s_flen]. rewrite run_cleanups_none.
  assert (E1 : (a_refs a2 =? 1) = false) by (apply N.eqb_neq; lia). rewrite E1.
  assert (Er : a_refs a2 - 1 = r) by lia. rewrite Er.
  destruct Hfr as [(fr' & -> & Hs & Hl)|(frn & ->)].
  - cbn [drop_frames length]. rewrite Nat.eqb_refl.
    assert (E2 : (f_len fr <=? f_len fr') = true) by (apply N.leb_le; assumption).
    rewrite E2, Hs, frame_eta. reflexivity.
  - cbn [drop_frames length].
    assert (E3 : Nat.eqb (S (S (length rest))) (S (length rest)) = false) by (apply Nat.eqb_neq; lia).
    rewrite E3, Nat.eqb_refl, N.leb_refl, frame_eta. reflexivity.
Qed.

(* a block of n <= m bytes goes where a block of m bytes went, unless the larger one needed a frame of its own *)
Lemma same_place (fr : frame) (rest : list frame) m n (p q : loc) :
  n <= m ->
  (f_len fr + m <= f_size fr /\ p = (length rest, f_len fr)) \/
  (f_size fr < f_len fr + m /\ p = (S (length rest), c_hdr c + c_gap c)) ->
  (f_len fr + n <= f_size fr /\ q = (length rest, f_len fr)) \/
  (f_size fr < f_len fr + n /\ q = (S (length rest), c_hdr c + c_gap c)) ->
  q = p \/ (fst q = length rest /\ fst p = S (length rest)).
Proof.
  intros Hnm [[H1 ->]|[H1 ->]] [[H2 ->]|[H2 ->]]; auto; lia.
Qed.

Lemma shape_frames (a' : arena) fr (rest : list frame) (p : loc) size :
  ((f_len fr + size <= f_size fr /\ p = (length rest, f_len fr) /\
    exists fr', a_frames a' = fr' :: rest /\ f_size fr' = f_size fr /\ f_len fr <= f_len fr') \/
   (f_size fr < f_len fr + size /\ p = (S (length rest), c_hdr c + c_gap c) /\
    exists frn, a_frames a' = frn :: fr :: rest)) ->
  ((exists fr', a_frames a' = fr' :: rest /\ f_size fr' = f_size fr /\ f_len fr <= f_len fr') \/
   (exists frn, a_frames a' = frn :: fr :: rest)) /\
  ((f_len fr + size <= f_size fr /\ p = (length rest, f_len fr)) \/
   (f_size fr < f_len fr + size /\ p = (S (length rest), c_hdr c + c_gap c))) /\
  (fst p = length rest -> length (a_frames a') = S (length rest)).
Proof.
  intros [(H1 & -> & fr' & E & H2 & H3)|(H1 & -> & frn & E)].
  - split; [left; eauto|]. split; [left; auto|]. intros _. rewrite E. reflexivity.
  - split; [right; eauto|]. split; [right; auto|]. simpl. intros H. lia.
Qed.

Lemma shape_aligned fr (p : loc) (rest : list frame) m :
  frame_ok c fr ->
  (f_len fr + m <= f_size fr /\ p = (length rest, f_len fr)) \/
  (f_size fr < f_len fr + m /\ p = (S (length rest), c_hdr c + c_gap c)) ->
  N.land (snd p) (c_ma c - 1) = 0.
Proof.
  intros (_ & _ & F3 & _) [[_ ->]|[_ ->]]; apply (land_aligned c Hwf); simpl; [assumption|].
  pose proof Hwf as (_ & W2 & W3 & _). apply N.divide_add_r; assumption.
Qed.

(* what every reachable state offers to the two programs below *)
Lemma reach_facts st g :
  reach c st g -> g_freed g = false ->
  exists fr rest, a_frames (st_a st) = fr :: rest /\ Forall (frame_ok c) (fr :: rest) /\
    a_refs (st_a st) = N.of_nat (depth g) + 1 /\ length (st_scs st) = depth g /\
    (forall s, nth_error (st_scs st) 0 = Some s -> s_id s = a_refs (st_a st)).
Proof.
  intros R Hf. pose proof (reach_inv c Hwf _ _ R) as [G _ _].
  destruct G as [Glen Grefs Gids Gfr Gne Gmarks Gsort Gblks Glvl Gst Gbel]. rewrite Hf in Grefs.
  destruct (a_frames (st_a st)) as [|fr rest] eqn:Efr.
  { exfalso. apply Gne; [lia|reflexivity]. }
  exists fr, rest. split; [reflexivity|]. split; [assumption|]. split; [assumption|]. split; [assumption|].
  intros s Hs. rewrite (Gids _ _ Hs), Grefs, Nat.sub_0_r. reflexivity.
Qed.

Lemma step_malloc0 st s scs p a' size :
  a_refs (st_a st) <> 0 -> st_scs st = s :: scs -> malloc c (st_a st) s size = Ok (p, a') ->
  step c st (Malloc 0 size) = Ok (mkState a' (st_scs st) (st_ncl st), EPtr (Some p)).
Proof.
  intros Hnz Hs Hm. unfold step. destruct (N.eqb_spec (a_refs (st_a st)) 0); [contradiction|].
  unfold with_scope. rewrite Hs. cbn [nth_error]. unfold lift_alloc. rewrite Hm. rewrite <- Hs. reflexivity.
Qed.

(* ---- 2. the shrinking hole, from every reachable state ------------------------------------------- *)
Theorem outer_shrink_reuse st g m new n :
  c_sv c = false -> reach c st g -> g_freed g = false -> (1 <= depth g)%nat ->
  0 < new <= m -> 0 < n <= m -> m + c_hdr c + c_gap c <= HALF_LIMIT ->
  exists p q fin,
    let ops := [Enter; Malloc 0 m; Realloc 1 (Some p) m new; LeaveAt 0; Malloc 0 n] in
    let evs := [EUnit; EPtr (Some p); EPtr (Some p); ELeave [] false; EPtr (Some q)] in
    run c st ops = (evs, Done, fin) /\
    (q = p \/ (length (a_frames (st_a fin)) <= fst p)%nat) /\
    depth (gsteps c g ops evs) = depth g /\
    In (mkB p new (depth g) false) (g_blocks (gsteps c g ops evs)) /\
    In (mkB q n (depth g) false) (g_blocks (gsteps c g ops evs)).
Proof.
  intros Hsv R Hf Hd Hnew Hn Hsmall.
  destruct (reach_facts _ _ R Hf) as (fr & rest & Efr & Hok & Hrefs & Hlen & Hid).
  set (r := a_refs (st_a st)) in *.
  assert (Hr : r <> 0) by lia.
  destruct (st_scs st) as [|s0 scs] eqn:Escs; [simpl in Hlen; lia|].
  (* 1. Enter *)
  pose proof (step_enter _ _ _ Hr Efr) as E1. fold r in E1. rewrite Escs in E1.
  set (s1 := mkScope (S (length rest)) (f_len fr) (r + 1) None) in *.
  set (a1 := mkArena (fr :: rest) (r + 1) (a_mem (st_a st))) in *.
  set (st1 := mkState a1 (s1 :: s0 :: scs) (st_ncl st)) in *.
  (* 2. Malloc 0 m *)
  destruct (malloc_shape a1 s1 fr rest m eq_refl Hok (N.eqb_refl _) Hsmall) as (p & a2 & Em & Hr2 & Hsh).
  destruct (shape_frames _ _ _ _ _ Hsh) as (Hfr2 & Hp & _).
  assert (E2 : step c st1 (Malloc 0 m) = Ok (mkState a2 (s1 :: s0 :: scs) (st_ncl st), EPtr (Some p))).
  { apply (step_malloc0 st1 s1 (s0 :: scs)); [simpl; lia|reflexivity|exact Em]. }
  set (st2 := mkState a2 (s1 :: s0 :: scs) (st_ncl st)) in *.
  (* 3. the shrinking realloc through the enclosing scope *)
  assert (E3 : step c st2 (Realloc 1 (Some p) m new) = Ok (st2, EPtr (Some p))).
  { apply (realloc_shrink_in_place c st2 1 s0); [assumption|reflexivity|simpl; rewrite Hr2; simpl; lia|lia|].
    apply (shape_aligned fr p rest m); [apply (Forall_inv Hok)|assumption]. }
  (* 4. LeaveAt 0 *)
  assert (E4 : step c st2 (LeaveAt 0) =
               Ok (mkState (mkArena (fr :: rest) r (a_mem a2)) (s0 :: scs) (st_ncl st), ELeave [] false)).
  { unfold step. assert (Hnz2 : (a_refs (st_a st2) =? 0) = false) by (apply N.eqb_neq; simpl; rewrite Hr2; simpl; lia).
    rewrite Hnz2. unfold with_scope. cbn [st2 st_scs nth_error st_a st_ncl].
    unfold s1. rewrite (leave_fresh _ a2 fr rest (r + 1) r); [reflexivity|rewrite Hr2; reflexivity|assumption|assumption]. }
  set (st4 := mkState (mkArena (fr :: rest) r (a_mem a2)) (s0 :: scs) (st_ncl st)) in *.
  (* 5. Malloc 0 n *)
  assert (Hv5 : validate (st_a st4) s0 = true).
  { unfold validate. simpl. apply N.eqb_eq. apply Hid. reflexivity. }
  assert (Hsmall5 : n + c_hdr c + c_gap c <= HALF_LIMIT) by lia.
  destruct (malloc_shape (st_a st4) s0 fr rest n eq_refl Hok Hv5 Hsmall5) as (q & a5 & Em5 & Hr5 & Hsh5).
  destruct (shape_frames _ _ _ _ _ Hsh5) as (_ & Hq & Hlen5).
  assert (E5 : step c st4 (Malloc 0 n) = Ok (mkState a5 (s0 :: scs) (st_ncl st), EPtr (Some q))).
  { apply (step_malloc0 st4 s0 scs); [simpl; assumption|reflexivity|exact Em5]. }
  exists p, q, (mkState a5 (s0 :: scs) (st_ncl st)).
  cbv zeta. split.
  { cbn [run]. rewrite E1. cbn [run]. rewrite E2. cbn [run]. rewrite E3. cbn [run]. rewrite E4. cbn [run]. rewrite E5.
    reflexivity. }
  split.
  { destruct (same_place fr rest m n p q (proj2 Hn) Hp Hq) as [->|[Hq1 Hp1]]; [left; reflexivity|right].
    simpl. rewrite (Hlen5 Hq1), Hp1. lia. }
  (* the client's bookkeeping: both blocks are live, obtained through the scope of level depth g *)
  assert (Hu : is_user_at p m (mkB p m (S (depth g)) false) = true).
  { unfold is_user_at. simpl. unfold loc_eqb. rewrite Nat.eqb_refl, !N.eqb_refl. reflexivity. }
  cbn [gsteps gstep alloc_args]. unfold lvl_of, depth. cbn [g_scopes g_blocks g_freed length remove_nth].
  rewrite !Nat.sub_0_r. cbn [remove_first]. fold (depth g). rewrite Hu.
  replace (S (depth g) - 1)%nat with (depth g) by lia.
  cbn [filter b_lvl]. assert (Hlt : (depth g <? S (depth g))%nat = true) by (apply Nat.ltb_lt; lia).
  rewrite Hlt. split; [reflexivity|]. split; [right; left; reflexivity|left; reflexivity].
Qed.

(* ---- 3. the non-LIFO leave, from every reachable state ------------------------------------------------ *)
Theorem nonlifo_leave_reuse st g m n :
  reach c st g -> g_freed g = false -> 0 < n <= m -> m + c_hdr c + c_gap c <= HALF_LIMIT ->
  exists p q fin,
    run c st [Enter; Enter; Malloc 0 m; LeaveAt 1; Enter; Malloc 0 n] =
      ([EUnit; EUnit; EPtr (Some p); ELeave [] false; EUnit; EPtr (Some q)], Done, fin) /\
    (q = p \/ (length (a_frames (st_a fin)) <= fst p)%nat) /\
    (* the scope the first block was allocated through is still held by the client, two below the top *)
    length (st_scs fin) = (2 + length (st_scs st))%nat.
Proof.
  intros R Hf Hn Hsmall.
  destruct (reach_facts _ _ R Hf) as (fr & rest & Efr & Hok & Hrefs & Hlen & Hid).
  set (r := a_refs (st_a st)) in *.
  assert (Hr : r <> 0) by lia.
  (* Enter A *)
  pose proof (step_enter _ _ _ Hr Efr) as E1. fold r in E1.
  set (sA := mkScope (S (length rest)) (f_len fr) (r + 1) None) in *.
  set (stA := mkState (mkArena (fr :: rest) (r + 1) (a_mem (st_a st))) (sA :: st_scs st) (st_ncl st)) in *.
  (* Enter B *)
  assert (HrA : a_refs (st_a stA) <> 0) by (simpl; lia).
  pose proof (step_enter stA fr rest HrA eq_refl) as E2. cbn [stA st_a a_refs a_mem st_scs st_ncl] in E2.
  set (sB := mkScope (S (length rest)) (f_len fr) (r + 1 + 1) None) in *.
  set (aB := mkArena (fr :: rest) (r + 1 + 1) (a_mem (st_a st))) in *.
  set (stB := mkState aB (sB :: sA :: st_scs st) (st_ncl st)) in *.
  (* Malloc 0 m through B *)
  destruct (malloc_shape aB sB fr rest m eq_refl Hok (N.eqb_refl _) Hsmall) as (p & a3 & Em & Hr3 & Hsh).
  destruct (shape_frames _ _ _ _ _ Hsh) as (Hfr3 & Hp & _).
  assert (E3 : step c stB (Malloc 0 m) = Ok (mkState a3 (sB :: sA :: st_scs st) (st_ncl st), EPtr (Some p))).
  { apply (step_malloc0 stB sB (sA :: st_scs st)); [simpl; lia|reflexivity|exact Em]. }
  set (st3 := mkState a3 (sB :: sA :: st_scs st) (st_ncl st)) in *.
  (* LeaveAt 1: scope A, while B is open *)
  assert (E4 : step c st3 (LeaveAt 1) =
               Ok (mkState (mkArena (fr :: rest) (r + 1) (a_mem a3)) (sB :: st_scs st) (st_ncl st), ELeave [] false)).
  { unfold step. assert (Hnz3 : (a_refs (st_a st3) =? 0) = false) by (apply N.eqb_neq; simpl; rewrite Hr3; simpl; lia).
    rewrite Hnz3. unfold with_scope. cbn [st3 st_scs nth_error st_a st_ncl].
    unfold sA. rewrite (leave_fresh _ a3 fr rest (r + 1) (r + 1)); [reflexivity|rewrite Hr3; reflexivity|lia|assumption]. }
  set (st4 := mkState (mkArena (fr :: rest) (r + 1) (a_mem a3)) (sB :: st_scs st) (st_ncl st)) in *.
  (* Enter C: it gets B's id *)
  assert (Hr4 : a_refs (st_a st4) <> 0) by (simpl; lia).
  pose proof (step_enter st4 fr rest Hr4 eq_refl) as E5. cbn [st4 st_a a_refs a_mem st_scs st_ncl] in E5.
  set (sC := mkScope (S (length rest)) (f_len fr) (r + 1 + 1) None) in *.
  set (aC := mkArena (fr :: rest) (r + 1 + 1) (a_mem a3)) in *.
  set (st5 := mkState aC (sC :: sB :: st_scs st) (st_ncl st)) in *.
  (* Malloc 0 n through C *)
  assert (Hsmall6 : n + c_hdr c + c_gap c <= HALF_LIMIT) by lia.
  destruct (malloc_shape aC sC fr rest n eq_refl Hok (N.eqb_refl _) Hsmall6) as (q & a6 & Em6 & Hr6 & Hsh6).
  destruct (shape_frames _ _ _ _ _ Hsh6) as (_ & Hq & Hlen6).
  assert (E6 : step c st5 (Malloc 0 n) = Ok (mkState a6 (sC :: sB :: st_scs st) (st_ncl st), EPtr (Some q))).
  { apply (step_malloc0 st5 sC (sB :: st_scs st)); [simpl; lia|reflexivity|exact Em6]. }
  exists p, q, (mkState a6 (sC :: sB :: st_scs st) (st_ncl st)). split.
  { cbn [run]. rewrite E1. cbn [run]. rewrite E2. cbn [run]. rewrite E3. cbn [run]. rewrite E4. cbn [run]. rewrite E5.
    cbn [run]. rewrite E6. reflexivity. }
  split; [|reflexivity].
  destruct (same_place fr rest m n p q (proj2 Hn) Hp Hq) as [->|[Hq1 Hp1]]; [left; reflexivity|right].
  simpl. rewrite (Hlen6 Hq1), Hp1. lia.
Qed.

(* ---- 5. the detection clause at full strength, for a source that validates the shrinking path ------
   [api_full] drops the one narrowing of [api_okb] that concerned the use of an outer scope:
   realloc of ANY live user block, named with its size or a positive part of it, through ANY open scope. *)
Lemma api_full_realloc g k p old new :
  api_full g (Realloc k (Some p) old new) =
  scope_okb g k && match find (is_user_at p old) (g_blocks g) with Some _ => true | None => false end.
Proof.
  unfold api_full. simpl. destruct (scope_okb g k); simpl; [|reflexivity].
  destruct (find (is_user_at p old) (g_blocks g)) as [b|]; [|reflexivity].
  destruct (Nat.leb_spec (b_lvl b) (lvl_of g k)) as [H1|H1]; simpl; [reflexivity|].
  destruct (N.ltb_spec old new) as [H2|H2]; simpl; [reflexivity|].
  assert (E1 : (lvl_of g k <? b_lvl b)%nat = true) by (apply Nat.ltb_lt; assumption).
  assert (E2 : (new <=? old) = true) by (apply N.leb_le; assumption).
  rewrite E1, E2. reflexivity.
Qed.

Lemma api_full_other g o :
  (forall k p old new, o <> Realloc k (Some p) old new) -> api_full g o = api_okb g o.
Proof.
  intros H. unfold api_full.
  destruct o as [|k|k size|k nmemb size|k [p|] old new|k data|k data|k data|k tok|p n v|p|]; simpl;
    try apply orb_false_r. exfalso. eapply H. reflexivity.
Qed.

Theorem outer_use_traps_full st g o :
  c_sv c = true -> reach c st g -> api_full g o = true -> must_trap c o = true -> step c st o = Trap.
Proof.
  intros Hsv R Hapi Hmt. unfold api_full in Hapi. apply orb_true_iff in Hapi. destruct Hapi as [Hapi|Hos].
  - apply (outer_use_traps c Hwf _ _ _ R Hapi Hmt).
  - apply (outer_shrink_traps_validated _ _ _ Hsv R Hos).
Qed.

Theorem inner_use_ok_full st g o :
  c_sv c = true -> reach c st g -> api_full g o = true -> must_trap c o = false ->
  (exists st' ev, step c st o = Ok (st', ev) /\ api_okb g o = true) \/ (step c st o = Exit1 /\ may_exit c o = true).
Proof.
  intros Hsv R Hapi Hmt. unfold api_full in Hapi. apply orb_true_iff in Hapi. destruct Hapi as [Hapi|Hos].
  - destruct (inner_use_ok c Hwf _ _ _ R Hapi Hmt) as [(st' & ev & Es)|He]; [left; eauto|right; assumption].
  - exfalso. destruct (outer_shrink_spec _ _ Hos) as (k & p & old & new & b & -> & Hsc & Hf & Hl & Hle).
    pose proof (outer_shrink_is_outer _ _ _ _ _ _ R Hf Hl) as Hk. simpl in Hmt. rewrite Hsv in Hmt.
    apply Nat.ltb_lt in Hk. rewrite Hk in Hmt. discriminate.
Qed.

(* hence nothing is lost by closing [reach] under [api_okb] only *)
Inductive reach_full : state -> ghost -> Prop :=
| rf_init : forall st, init c = Some st -> reach_full st ghost0
| rf_step : forall st g o st' ev,
    reach_full st g -> api_full g o = true -> step c st o = Ok (st', ev) ->
    reach_full st' (gstep c g o ev).

Theorem reach_full_reach st g : c_sv c = true -> reach_full st g -> reach c st g.
Proof.
  intros Hsv. induction 1 as [st Hi|st g o st' ev _ IH Hapi Hstep]; [constructor; assumption|].
  unfold api_full in Hapi. apply orb_true_iff in Hapi. destruct Hapi as [Hapi|Hos].
  - eapply reach_step; eassumption.
  - rewrite (outer_shrink_traps_validated _ _ _ Hsv IH Hos) in Hstep. discriminate.
Qed.

End Holes.

(* ---- concrete runs from arena_alloc, for the configurations of the two builds --------------------- *)
Definition run_from_alloc (c : cfg) (ops : list op) : option (list event * ending) :=
  match init c with Some st => Some (fst (run c st ops)) | None => None end.

(* leaving the nested scope after its enclosing scope takes the "len = 0" branch of
   arena_scope_leave, and the next block is struct arena_frame itself (offset 0) *)
Definition hits_header (c : cfg) : bool :=
  match run_from_alloc c [Enter; Malloc 0 16; Enter; Malloc 0 16; LeaveAt 1; LeaveAt 0; Enter; Malloc 0 16] with
  | Some ([EUnit; EPtr (Some _); EUnit; EPtr (Some _); ELeave [] false; ELeave [] true; EUnit; EPtr (Some (O, 0))], Done) => true
  | _ => false
  end.

Lemma hits_header_builds :
  Forall (fun ps => hits_header (cfg_of poison_normal ps) = true /\ hits_header (cfg_of poison_asan ps) = true)
         [4096; 8192; 16384; 65536].
Proof. repeat constructor; vm_compute; reflexivity. Qed.
