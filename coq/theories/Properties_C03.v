(* Properties_C03.v - resume restarts exactly at the step that did not complete.
   [step_next] models util.sh step_next on the abstract step file (rows in
   ascending id order, which C01 guarantees); [orch] models the loop of robsd()
   over synchronous steps with the two records step_exec_job writes per step;
   [reach steps] = every file a crash (kill at ANY point between two step-file
   writes) can leave during a fresh run or during a run resumed from such a
   file, any number of times.  A crash inside one robsd-step -W is outside the
   quantifier (C01/C02 cover the write itself). *)
From Robsd Require Import Orch.ResumeSpec Orch.ResumeProofs Orch.ReportBridge Report.ReportSpec.
Local Open Scope Z_scope.

(* the sentence of the property, literally: last recorded non-skipped step if it
   failed / was in flight / is end, otherwise the following one; fail if only
   skipped steps are recorded - for EVERY row list *)
Theorem C03_resume_point : forall f, step_next f = spec_resume f.
Proof. exact step_next_spec. Qed.
Print Assumptions C03_resume_point.

Theorem C03_skip_only_fails : forall f,
  (forall r, In r f -> nonskip r = false) -> step_next f = None.
Proof. exact skip_only_fails. Qed.
Print Assumptions C03_skip_only_fails.

(* for every schedule of synchronous steps with arbitrary exit codes, every
   skip set and every crash point, also across repeated crashes and resumes:
   resuming never re-executes a step that completed successfully (other than
   end) and never starts beyond a step that did not *)
Theorem C03_crash_resume : forall steps, wf_steps steps ->
  forall f x, reach steps f -> step_next f = Some x -> resume_ok f x.
Proof. exact crash_resume. Qed.
Print Assumptions C03_crash_resume.

(* the files the sequential orchestrator can leave are exactly of the shape the
   report relies on (C05): every non-skipped record except the last completed
   successfully and is not the end step *)
Theorem C03_orchestrator_files_are_good : forall steps, wf_steps steps ->
  forall f, reach steps f -> good steps f.
Proof. exact reach_good. Qed.
Print Assumptions C03_orchestrator_files_are_good.

(* ... and that shape is exactly the hypothesis [reachable_seq] under which C05 proves the
   status line of the report for the sequential modes *)
Theorem C03_files_meet_report_hypothesis : forall steps, wf_steps steps ->
  forall f, reach steps f -> reachable_seq (map to_report f).
Proof. exact (fun steps W f R => good_meets_report_hypothesis steps f (reach_good steps W f R)). Qed.
Print Assumptions C03_files_meet_report_hypothesis.

Theorem C03_oracle_reflects : forall f x, resume_okb f x = true <-> resume_ok f x.
Proof. exact resume_okb_spec. Qed.
Print Assumptions C03_oracle_reflects.

(* non-vacuity: a run of a, b(skipped), c(fails), d, end crashed while c was in flight *)
Example C03_example :
  let nm := fun c => [c]%N in
  let steps := [(1, nm 97%N, 0); (2, nm 98%N, 0); (3, nm 99%N, 2); (4, nm 100%N, 0); (5, END, 0)] in
  let f0 := [mkrow 2 (nm 98%N) 0 1] in
  let files := map fst (orch steps f0) in
  wf_steps steps /\ skip_only steps f0 /\
  map step_next files = [Some 1; Some 2; Some 3; Some 3] /\
  (forall f, In f files -> reach steps f).
Proof.
  cbv zeta. split; [|split; [|split]].
  - split; [repeat constructor; cbn; lia|].
    cbn. repeat constructor; cbn; intuition discriminate.
  - split; [repeat constructor|]. split.
    + intros r [<-|[]]. reflexivity.
    + intros r [<-|[]]. cbn. eexists. right. left. reflexivity.
  - vm_compute. reflexivity.
  - intros f Hin. apply in_map_iff in Hin. destruct Hin as [[g ex] [<- Hin]].
    eapply reach_fresh; [|exact Hin].
    split; [repeat constructor|]. split.
    + intros r [<-|[]]. reflexivity.
    + intros r [<-|[]]. cbn. eexists. right. left. reflexivity.
Qed.
