(* Properties_C03.v - resume restarts exactly at the step that did not complete.
   [step_next] models util.sh step_next on the abstract step file (rows in ascending id order, which C01
   guarantees); [orch] models the loop of robsd() over synchronous steps with the two records
   step_exec_job writes per step; both are proved equal to the functions assembled from what the
   translator reads in util.sh ([C03_step_next_translated], [C03_loop_translated]).

   Quantifiers.  [k] is the skeleton of the configuration: (id, name) in ascending id order, names may
   repeat ([wf_skel]).  [reachv k] = every file a crash (kill at ANY point between two step-file writes)
   can leave during a fresh run or during a run resumed from such a file, any number of times; every
   run comes with its own exit codes (a step that failed may succeed when the invocation is resumed).
   Files start from the skip records of the entry script (skip = 1, exit 0: what step_write -S -e 0
   writes); an invocation resumed at step 1 writes the skip records of ITS OWN skip set first ([rv_reskip]:
   other -s options than the first invocation; a failed step 1 may so be turned into a skipped one).  The
   theorems about what a resumed invocation executes speak of the loop started on the file as the crash
   left it, i.e. of resumed invocations that add no skip records.  A crash inside one robsd-step -W is
   outside the quantifier (C01/C02 cover the write itself).

   The earlier theorems C03_crash_resume / C03_orchestrator_files_are_good / C03_files_meet_report_hypothesis
   (one fixed exit code per step for all attempts, distinct names: Orch/ResumeProofs.v [reach], [good]) are
   replaced by the stronger statements below; their lemmas remain in ResumeProofs.v. *)
From Robsd Require Import Orch.ResumeSpec Orch.ResumeProofs Orch.ResumeExec Orch.ResumeTie Orch.WrittenInv
                          Orch.ReportBridge.
From Robsd Require Orch.OrchDefs Report.ReportSpec Orch.RunLock Orch.RunLockProofs Orch.ResumeDamaged.
From Coq Require Import Sorting.Sorted.
From RobsdGen Require Gen_Orch.
Local Open Scope Z_scope.

(* the sentence of the property, literally: last recorded non-skipped step if it failed / was in flight /
   is end, otherwise the following one; fail if only skipped steps are recorded - for EVERY row list *)
Theorem C03_resume_point : forall f, step_next f = spec_resume f.
Proof. exact step_next_spec. Qed.
Print Assumptions C03_resume_point.

Theorem C03_skip_only_fails : forall f,
  (forall r, In r f -> nonskip r = false) -> step_next f = None.
Proof. exact skip_only_fails. Qed.
Print Assumptions C03_skip_only_fails.

(* the records: for every configuration, every skip set, every crash point, repeated crashes and resumes
   with exit codes that may change between attempts - the resume point never lies beyond a step that did
   not complete, and no record of a successfully completed step (other than end) lies at or beyond it *)
Theorem C03_crash_resume : forall k, wf_skel k ->
  forall f x, reachv k f -> step_next f = Some x -> resume_ok f x.
Proof. exact (fun k W f x => crash_resume_v k f x W). Qed.
Print Assumptions C03_crash_resume.

(* the "Consequently" clause, about what the resumed invocation EXECUTES ([ex]: the ids of the steps whose
   commands it runs, in order; [g]: the file at any later crash point or at the end of the run):
   nothing below the resume point runs, steps run in order and at most once; a step that completed
   successfully is never run again; when the resume point is the record of a failed or interrupted step
   that step is the first to run; and it never starts beyond: every configured step before the first
   one it runs is marked skipped or completed successfully *)
Theorem C03_resumed_run_executes : forall k steps f x g ex,
  wf_skel k -> skel_of steps = k -> reachv k f -> step_next f = Some x ->
  In (g, ex) (orch (from_step x steps) f) ->
  Forall (fun i => x <= i) ex /\ StronglySorted Z.lt ex /\
  (forall j, completed f j -> ~ In j ex) /\
  (forall r, In r f -> nonskip r = true -> r_id r = x -> r_name r <> END ->
     ex = [] \/ exists ex', ex = x :: ex') /\
  (forall i ex', ex = i :: ex' -> forall s, In s k -> fst s < i ->
     skipped f (snd s) = true \/ completed f (fst s)).
Proof. exact resumed_run_executes_v. Qed.
Print Assumptions C03_resumed_run_executes.

(* ... and it does run the interrupted or failed step again: its record is rewritten as in flight, then
   with the new outcome [e] (any exit code), and every later point of the run has executed it first *)
Theorem C03_resume_reexecutes : forall k steps f x r,
  wf_skel k -> skel_of steps = k -> reachv k f -> step_next f = Some x ->
  In r f -> nonskip r = true -> r_id r = x -> r_name r <> END ->
  exists e tl,
    In (x, r_name r, e) steps /\
    orch (from_step x steps) f =
      (upsert (mkrow x (r_name r) (-1) 0) f, []) ::
      (upsert (mkrow x (r_name r) e 0) (upsert (mkrow x (r_name r) (-1) 0) f), [x]) :: tl /\
    forall g ex, In (g, ex) tl -> exists ex', ex = x :: ex'.
Proof. exact resume_reexecutes_v. Qed.
Print Assumptions C03_resume_reexecutes.

(* the invariant of the files the orchestrator leaves: ascending ids, records carry the names of their
   steps, every record that is not a skip record except the one with the largest id completed successfully
   and is not end, no such record carries a name marked skipped, below such a record every configured step
   is marked skipped or has such a record, skip records carry exit 0 *)
Theorem C03_orchestrator_files_are_good : forall k, wf_skel k ->
  forall f, reachv k f -> goodk k f.
Proof. exact reachv_goodk. Qed.
Print Assumptions C03_orchestrator_files_are_good.

(* ... which gives the hypothesis [reachable_seq] of C05's status theorem on the report's view of the
   same rows of the step file (composed with the status theorem itself in C05_status_orchestrated) *)
Theorem C03_files_meet_report_hypothesis : forall k (rows : list StepDefs.row), wf_skel k ->
  reachv k (map orch_view rows) -> ReportSpec.reachable_seq (map ReportTypes.view rows).
Proof. exact (fun k rows W R => reachable_seq_of_goodk k rows (reachv_goodk k W _ R)). Qed.
Print Assumptions C03_files_meet_report_hypothesis.

(* the two oracles of the harness: the one on records is the statement of C03_crash_resume; the one on the
   steps a resumed invocation really started accepts every run of the model *)
Theorem C03_oracle_reflects : forall f x, resume_okb f x = true <-> resume_ok f x.
Proof. exact resume_okb_spec. Qed.
Print Assumptions C03_oracle_reflects.

Theorem C03_exec_oracle_accepts_model : forall k steps f x g ex,
  wf_skel k -> skel_of steps = k -> reachv k f -> step_next f = Some x ->
  In (g, ex) (orch (from_step x steps) f) -> spec_ok_resumed k f x ex = true.
Proof. exact spec_ok_resumed_model_v. Qed.
Print Assumptions C03_exec_oracle_accepts_model.

(* tie to util.sh by translation: the decision of step_next on one row and the walk from the last row
   backwards; the loop of robsd() with step_skip's test, the two records of step_exec_job (exit -1, then
   the outcome), skip = 0 on every record of the loop, the end record, the stop after a failed step *)
Theorem C03_step_next_translated : forall f, step_next f = gen_next_from_rev (rev f).
Proof. exact step_next_translated. Qed.
Print Assumptions C03_step_next_translated.

Theorem C03_loop_translated : forall steps f, orch steps f = gen_orch steps f.
Proof. exact orch_translated. Qed.
Print Assumptions C03_loop_translated.

(* boundary, stated as a theorem: with PARALLEL steps (regress, canvas) an interrupted step below a later
   completed one is not executed again - p1 in flight, p2 (higher id, parallel) completed, kill: the file
   reads 1,p1,-1 2,p2,0, step_next answers 3 and no resumed run executes step 1.  The property speaks of
   sequential invocations; the record with exit -1 stays and is reported as a failure (C05). *)
Theorem C03_parallel_resume_skips_inflight :
  OrchDefs.sfile_ par_crashed = [mkrow 1 par_p1 (-1) 0; mkrow 2 par_p2 0 0] /\
  OrchDefs.running par_crashed = [(1, OrchDefs.JRunning)] /\
  step_next (OrchDefs.sfile_ par_crashed) = Some 3 /\
  ~ resume_ok (OrchDefs.sfile_ par_crashed) 3 /\
  (forall steps g ex, StronglySorted (fun a b => sid a < sid b) steps ->
     In (g, ex) (orch (from_step 3 steps) (OrchDefs.sfile_ par_crashed)) -> ~ In 1 ex).
Proof. exact parallel_resume_skips_inflight. Qed.
Print Assumptions C03_parallel_resume_skips_inflight.

(* "if nothing but skipped steps is recorded resuming fails" - and what the failed attempt then does.  The entry
   scripts install their EXIT trap BEFORE step_next runs; when step_next fails (nothing but skip records - or a step
   file robsd-step cannot read: emptied or cut short, what the C01 known finding refused-write-damages-file leaves),
   trap_exit finds has_steps false and removes the WHOLE build directory the operator asked to resume, logs and
   report included.  Stated on the invocation model (Orch/RunLock.v: an unreadable file reads as no rows); replayed
   on the real canvas for an emptied step file, one cut in the header and one cut inside a row (harness lane
   damaged-resume, signature resume-on-damaged-step-file-deletes-build) *)
Theorem C03_failed_resume_removes_the_build_directory : forall w b d f,
  RunLock.dir_find (RunLock.iw_dirs w) b = Some f -> OrchDefs.has_steps f = false ->
  let w' := fst (RunLock.invoke_end ShapeDefs.RelWholeFileEqual w b OrchDefs.OFailed d) in
  step_next f = None /\ RunLock.dir_find (RunLock.iw_dirs w') b = None /\
  snd (RunLock.invoke_end ShapeDefs.RelWholeFileEqual w b OrchDefs.OFailed d) = 1.
Proof. exact ResumeDamaged.failed_resume_removes_the_build_directory. Qed.
Print Assumptions C03_failed_resume_removes_the_build_directory.

(* the same, for the entry scripts as they are on this run (gen/Gen_Orch.resume_failure_form, read by harness/t_orch.py in
   canvas, robsd, robsd-cross, robsd-ports, robsd-regress): EITHER they are the shipped ones - trap first, $BUILDDIR kept -
   and a resume attempt on a directory whose step file has no readable step removes that directory, OR they are repaired
   (the trap installed later, or $BUILDDIR cleared before `exit 1`: /repo d2af489) and the failed attempt leaves the world
   exactly as it was.  Proved by cases on the generated constant: the theorem follows the source *)
Theorem C03_failed_resume_decided :
  (Gen_Orch.resume_failure_form = ShapeDefs.RFTrapOnBuilddir /\
   forall w b d f, RunLock.dir_find (RunLock.iw_dirs w) b = Some f -> OrchDefs.has_steps f = false ->
     step_next f = None /\
     RunLock.dir_find (RunLock.iw_dirs (ResumeDamaged.failed_resume Gen_Orch.resume_failure_form w b d)) b = None) \/
  (Gen_Orch.resume_failure_form <> ShapeDefs.RFTrapOnBuilddir /\
   forall w b d, ResumeDamaged.failed_resume Gen_Orch.resume_failure_form w b d = w).
Proof.
  exact (match Gen_Orch.resume_failure_form as t return
           (t = ShapeDefs.RFTrapOnBuilddir /\
            forall w b d f, RunLock.dir_find (RunLock.iw_dirs w) b = Some f -> OrchDefs.has_steps f = false ->
              step_next f = None /\ RunLock.dir_find (RunLock.iw_dirs (ResumeDamaged.failed_resume t w b d)) b = None) \/
           (t <> ShapeDefs.RFTrapOnBuilddir /\ forall w b d, ResumeDamaged.failed_resume t w b d = w)
         with
         | ShapeDefs.RFTrapOnBuilddir => or_introl (conj eq_refl ResumeDamaged.failed_resume_trap_on_builddir_removes)
         | ShapeDefs.RFTrapLater =>
             or_intror (conj (fun H : ShapeDefs.RFTrapLater = ShapeDefs.RFTrapOnBuilddir => eq_ind ShapeDefs.RFTrapLater (fun x => match x with ShapeDefs.RFTrapLater => True | _ => False end) I _ H)
                             (fun w b d => eq_refl))
         | ShapeDefs.RFBuilddirCleared =>
             or_intror (conj (fun H : ShapeDefs.RFBuilddirCleared = ShapeDefs.RFTrapOnBuilddir => eq_ind ShapeDefs.RFBuilddirCleared (fun x => match x with ShapeDefs.RFBuilddirCleared => True | _ => False end) I _ H)
                             (fun w b d => eq_refl))
         end).
Qed.
Print Assumptions C03_failed_resume_decided.

(* the source as it is now (/repo d2af489): a failed resume attempt leaves the world exactly as it was.  Closed through
   [eq_ind] on the generated constant: with the shipped form (RFTrapOnBuilddir) this proof does not type-check, and the lane
   damaged-resume finds the build directory removed *)
Theorem C03_failed_resume_is_harmless_now :
  Gen_Orch.resume_failure_form <> ShapeDefs.RFTrapOnBuilddir /\
  forall w b d, ResumeDamaged.failed_resume Gen_Orch.resume_failure_form w b d = w.
Proof.
  exact (match C03_failed_resume_decided with
         | or_intror H => H
         | or_introl (conj H _) =>
             match (eq_ind Gen_Orch.resume_failure_form
                      (fun x => match x with ShapeDefs.RFTrapOnBuilddir => False | _ => True end) I _ H) with end
         end).
Qed.
Print Assumptions C03_failed_resume_is_harmless_now.

(* that the repaired forms are repairs: in every form but the shipped one a failed resume attempt changes nothing *)
Theorem C03_failed_resume_repaired_forms : forall rf w b d,
  rf <> ShapeDefs.RFTrapOnBuilddir -> ResumeDamaged.failed_resume rf w b d = w.
Proof. exact ResumeDamaged.failed_resume_otherwise_keeps. Qed.
Print Assumptions C03_failed_resume_repaired_forms.

(* the guard under which an exit trap never removes a directory: its step file holds a step that is not skipped *)
Theorem C03_exit_trap_keeps_directories_with_steps : forall t w b m d f,
  RunLock.dir_find (RunLock.iw_dirs w) b = Some f -> OrchDefs.has_steps f = true ->
  RunLock.dir_find (RunLock.iw_dirs (fst (RunLock.invoke_end t w b m d))) b = Some f.
Proof. exact ResumeDamaged.exit_trap_keeps_directories_with_steps. Qed.
Print Assumptions C03_exit_trap_keeps_directories_with_steps.

(* non-vacuity: a, b(skipped), c(fails with 2), a AGAIN (same name as step 1), end.  The fresh run is killed
   while c is in flight / stops after c failed; the operator repairs c; the resumed run (c now exits 0) runs
   c, the second a and end - and nothing else *)
Example C03_example :
  let nm := fun c => [c]%N in
  let k := [(1, nm 97%N); (2, nm 98%N); (3, nm 99%N); (4, nm 97%N); (5, END)] in
  let steps1 := [(1, nm 97%N, 0); (2, nm 98%N, 0); (3, nm 99%N, 2); (4, nm 97%N, 0); (5, END, 0)] in
  let steps2 := [(1, nm 97%N, 0); (2, nm 98%N, 0); (3, nm 99%N, 0); (4, nm 97%N, 0); (5, END, 0)] in
  let f0 := [mkrow 2 (nm 98%N) 0 1] in
  let files := map fst (orch steps1 f0) in
  let crashed := [mkrow 1 (nm 97%N) 0 0; mkrow 2 (nm 98%N) 0 1; mkrow 3 (nm 99%N) 2 0] in
  wf_skel k /\ skip_only0 k f0 /\ skel_of steps1 = k /\ skel_of steps2 = k /\
  map step_next files = [Some 1; Some 2; Some 3; Some 3] /\
  (forall f, In f files -> reachv k f) /\
  last files [] = crashed /\
  map snd (orch (from_step 3 steps2) crashed) = [[]; [3]; [3]; [3; 4]; [3; 4]] /\
  (forall g ex, In (g, ex) (orch (from_step 3 steps2) crashed) -> reachv k g).
Proof.
  cbv zeta.
  assert (W : wf_skel [(1, [97%N]); (2, [98%N]); (3, [99%N]); (4, [97%N]); (5, END)])
    by (repeat constructor; cbn; lia).
  assert (S0 : skip_only0 [(1, [97%N]); (2, [98%N]); (3, [99%N]); (4, [97%N]); (5, END)] [mkrow 2 [98%N] 0 1]).
  { split; [repeat constructor|]. split.
    - intros r [<-|[]]. split; reflexivity.
    - intros r [<-|[]]. cbn. right. now left. }
  assert (R : forall f, In f (map fst (orch [(1, [97%N], 0); (2, [98%N], 0); (3, [99%N], 2); (4, [97%N], 0); (5, END, 0)]
                                           [mkrow 2 [98%N] 0 1])) ->
              reachv [(1, [97%N]); (2, [98%N]); (3, [99%N]); (4, [97%N]); (5, END)] f).
  { intros f Hin. apply in_map_iff in Hin. destruct Hin as [[g ex] [<- Hin]].
    eapply rv_fresh; [exact S0| |exact Hin]. reflexivity. }
  split; [exact W|]. split; [exact S0|]. split; [reflexivity|]. split; [reflexivity|].
  split; [vm_compute; reflexivity|]. split; [exact R|]. split; [vm_compute; reflexivity|].
  split; [vm_compute; reflexivity|].
  intros g ex Hin. eapply rv_resume with (x := 3); [| | |exact Hin].
  - apply R. vm_compute. right. right. right. now left.
  - vm_compute. reflexivity.
  - reflexivity.
Qed.
