(* VectorMem.v - the vector at the level of BYTES: "growth preserves contents".

   VectorDefs.v keeps the live elements as a list, so a reallocation cannot lose
   anything there.  Here the vector is the block of memory libks/vector.c manages:
   [mv_raw] = sizeof(struct vector) header bytes followed by vc_siz slots of
   vc_stride bytes.  The block only ever changes through
     - the realloc callback  vc_callbacks.realloc(vc, oldlen, totlen, arg)  - modelled by ANY
       function [mv] that returns a block of the new size whose first [oldlen] bytes are
       those of the old block (realloc(3); arena_realloc: memcpy(new, old, old_size)) - the
       bytes beyond [oldlen] are whatever the allocator leaves there;
     - the store through the pointer VECTOR_ALLOC hands out / memset of VECTOR_CALLOC ([poke]);
     - qsort(3) permuting the live slots ([sortc]).
   The abstract component [mv_v] runs VectorDefs.vstep unchanged (capacity arithmetic,
   doubling, failure).  [oldlen] is the size the vector passes as old size
   (regenerated from vector_reserve1 by harness/t_ksconst.py: Gen_KsConst.vector_oldlen).

   Theorem [mvrun_decodes]: if hdr + len*stride <= oldlen <= hdr + siz*stride, then after
   EVERY operation sequence and for EVERY allocator / mover, decoding the live slots of the
   block gives exactly the abstract elements, the block has the size the capacity says, and
   the header bytes are untouched.  [oldlen_matters]: with an old size that forgets the
   header (len*stride) a mover that keeps exactly that many bytes loses the last elements -
   the hypothesis is needed, which is why the harness reallocates through a callback that
   copies exactly oldsize bytes (harness/ks_harness.c, strict mode). *)
From Coq Require Import Lia Sorting.Permutation.
From Robsd Require Import Base.Bytes Ks.VectorSpec Ks.VectorProofs.
Local Open Scope Z_scope.

(* ---- lists of bytes ------------------------------------------------------------------- *)

Definition chunk_at (k i : nat) (l : bytes) : bytes := firstn k (skipn (i * k) l).

Definition poke (raw : bytes) (off : nat) (c : bytes) : bytes :=
  firstn off raw ++ c ++ skipn (off + length c) raw.

Lemma skipn_skipn {A} (x y : nat) : forall l : list A, skipn x (skipn y l) = skipn (x + y) l.
Proof.
  induction y as [|y IH]; intros l; [rewrite Nat.add_0_r; reflexivity|].
  destruct l as [|a l]; [rewrite !skipn_nil; reflexivity|].
  rewrite Nat.add_succ_r. cbn [skipn]. apply IH.
Qed.

Lemma poke_length raw off c : (off + length c <= length raw)%nat -> length (poke raw off c) = length raw.
Proof. intros H. unfold poke. rewrite !app_length, firstn_length, skipn_length. lia. Qed.

Lemma poke_firstn raw off c a : (a <= off)%nat -> (off <= length raw)%nat -> firstn a (poke raw off c) = firstn a raw.
Proof.
  intros Ha Ho. unfold poke. rewrite firstn_app, firstn_firstn, firstn_length.
  replace (Nat.min a off) with a by lia. replace (a - Nat.min off (length raw))%nat with 0%nat by lia.
  cbn [firstn]. apply app_nil_r.
Qed.

Lemma poke_skipn raw off c : (off <= length raw)%nat -> skipn off (poke raw off c) = c ++ skipn (off + length c) raw.
Proof.
  intros Ho. unfold poke. rewrite skipn_app, firstn_length.
  replace (Nat.min off (length raw)) with off by lia. rewrite Nat.sub_diag. cbn [skipn].
  rewrite skipn_all2 by (rewrite firstn_length; lia). reflexivity.
Qed.

(* a cell is determined by the prefix that contains it *)
Lemma chunk_at_prefix k i a l1 l2 :
  firstn a l1 = firstn a l2 -> (i * k + k <= a)%nat -> chunk_at k i l1 = chunk_at k i l2.
Proof.
  intros H Hle. unfold chunk_at. rewrite !firstn_skipn_comm.
  assert (E : forall l : list N, firstn (i * k + k) l = firstn (i * k + k) (firstn a l))
    by (intros l; rewrite firstn_firstn; f_equal; lia).
  rewrite (E l1), (E l2), H. reflexivity.
Qed.

Lemma chunk_at_skip k i h a l1 l2 :
  firstn a l1 = firstn a l2 -> (h + i * k + k <= a)%nat -> chunk_at k i (skipn h l1) = chunk_at k i (skipn h l2).
Proof.
  intros H Hle. apply (chunk_at_prefix k i (a - h)); [|lia].
  rewrite !firstn_skipn_comm. replace (h + (a - h))%nat with a by lia. now rewrite H.
Qed.

(* the cell just written *)
Lemma chunk_at_poke k n h raw c :
  length c = k -> (h + n * k <= length raw)%nat -> chunk_at k n (skipn h (poke raw (h + n * k) c)) = c.
Proof.
  intros Hc Hl. unfold chunk_at. rewrite skipn_skipn. rewrite (Nat.add_comm (n * k) h).
  rewrite poke_skipn by assumption. rewrite firstn_app, Hc, Nat.sub_diag. cbn [firstn]. rewrite app_nil_r.
  rewrite <- Hc. apply firstn_all.
Qed.

(* cells of a concatenation of cells *)
Lemma chunk_at_concat k : forall cs i rest,
  Forall (fun c => length c = k) cs -> (i < length cs)%nat -> chunk_at k i (concat cs ++ rest) = nth i cs [].
Proof.
  induction cs as [|c cs IH]; intros i rest Hall Hi; [simpl in Hi; lia|].
  inversion Hall as [|? ? Hc Hall']; subst. destruct i as [|i].
  - unfold chunk_at. cbn [Nat.mul skipn concat nth]. rewrite <- app_assoc, firstn_app, Nat.sub_diag. cbn [firstn].
    rewrite app_nil_r. apply firstn_all.
  - unfold chunk_at in *. cbn [concat nth]. rewrite <- app_assoc.
    replace (S i * length c)%nat with (i * length c + length c)%nat by lia.
    rewrite <- skipn_skipn. rewrite (skipn_app (length c)), Nat.sub_diag, skipn_all. cbn [skipn app].
    apply IH; [assumption|simpl in Hi; lia].
Qed.

Lemma nth_removelast {A} (l : list A) i d : (S i < length l)%nat -> nth i (removelast l) d = nth i l d.
Proof.
  intros Hi. destruct (snoc_case l) as [->|(r & x & ->)]; [simpl in Hi; lia|].
  rewrite removelast_snoc. rewrite app_length in Hi. cbn in Hi. rewrite app_nth1 by lia. reflexivity.
Qed.

(* ---- the memory-level model ------------------------------------------------------------ *)

Record mvec := mkmvec { mv_v : vec; mv_raw : bytes }.

Section VMem.
Variables stride hdr init_cap : Z.
Variable alloc_ok : Z -> bool.
Variable sortf : list Z -> list Z.
Variable enc : Z -> bytes.            (* object representation of an element *)
Variable dec : bytes -> Z.
Variable mv : bytes -> Z -> Z -> bytes.   (* old block, old size, new size -> new block *)
Variable oldlen : Z -> Z -> Z -> Z -> Z.  (* hdr len stride siz -> old size passed to realloc *)
Variable sortc : list bytes -> list bytes. (* qsort on the live cells *)

Notation k := (Z.to_nat stride).
Notation h := (Z.to_nat hdr).
Notation vreserve1 := (vreserve1 stride hdr init_cap alloc_ok).
Notation vstep := (vstep stride hdr init_cap alloc_ok sortf).

Definition nlen (v : vec) : nat := length (v_elems v).
Definition slot (v : vec) : nat := (h + nlen v * k)%nat.
Definition cell (raw : bytes) (i : nat) : bytes := chunk_at k i (skipn h raw).
Definition cells (v : vec) (raw : bytes) : list bytes := map (cell raw) (seq 0 (nlen v)).
Definition decode (v : vec) (raw : bytes) : list Z := map dec (cells v raw).

Definition regrow (v : vec) (raw : bytes) (s : Z) : bytes :=
  mv raw (oldlen hdr (zlen (v_elems v)) stride (v_siz v)) (s * stride + hdr).

Definition raw_store (v : vec) (raw : bytes) (c : bytes) : bytes :=
  match vreserve1 v 1 with
  | RsvErr => raw
  | RsvSame => poke raw (slot v) c
  | RsvGrown s => poke (regrow v raw s) (slot v) c
  end.

Definition raw_step (v : vec) (raw : bytes) (op : vop) : bytes :=
  match op with
  | VPush x => raw_store v raw (enc x)
  | VCalloc => raw_store v raw (repeat 0%N k)
  | VReserve n => match vreserve1 v n with RsvGrown s => regrow v raw s | _ => raw end
  | VSort => match v_elems v with
             | [] => raw
             | _ => firstn h raw ++ concat (sortc (cells v raw)) ++ skipn (slot v) raw
             end
  | _ => raw
  end.

Definition mvstep (m : mvec) (op : vop) : mvec * vout :=
  (mkmvec (fst (vstep (mv_v m) op)) (raw_step (mv_v m) (mv_raw m) op), snd (vstep (mv_v m) op)).

Fixpoint mvrun (m : mvec) (ops : list vop) : mvec * list vout :=
  match ops with
  | [] => (m, [])
  | op :: ops' => let '(m1, o) := mvstep m op in let '(m2, os) := mvrun m1 ops' in (m2, o :: os)
  end.

(* ---- hypotheses --------------------------------------------------------------------------- *)
Hypothesis stride_range : 0 < stride <= 65536.
Hypothesis hdr_range : 0 <= hdr <= 65536.
Hypothesis init_range : 0 < init_cap <= 65536.
Hypothesis sortf_sorts : sorts sortf.
Hypothesis enc_len : forall x, length (enc x) = k.
Hypothesis dec_enc : forall x, dec (enc x) = x.
Hypothesis dec_zero : dec (repeat 0%N k) = 0.
(* the realloc contract: new size, first [old] bytes kept *)
Hypothesis mv_len : forall raw old new, 0 <= new -> zlen (mv raw old new) = new.
Hypothesis mv_keep : forall raw old new, 0 <= old <= zlen raw -> old <= new ->
  firstn (Z.to_nat old) (mv raw old new) = firstn (Z.to_nat old) raw.
(* the old size covers the header and the live elements, and does not exceed the block *)
Hypothesis oldlen_ok : forall len siz, 0 <= len <= siz ->
  hdr + len * stride <= oldlen hdr len stride siz <= hdr + siz * stride.
(* qsort permutes the cells; on the decoded values it is the abstract sort *)
Hypothesis sortc_perm : forall cs, Permutation cs (sortc cs).
Hypothesis sortc_dec : forall cs, map dec (sortc cs) = sortf (map dec cs).

Definition MInv (m : mvec) : Prop :=
  vinv stride hdr (mv_v m) /\
  zlen (mv_raw m) = hdr + v_siz (mv_v m) * stride /\
  forall i, (i < nlen (mv_v m))%nat -> dec (cell (mv_raw m) i) = nth i (v_elems (mv_v m)) 0.

Lemma zlen_nat {A} (l : list A) : zlen l = Z.of_nat (length l).
Proof. reflexivity. Qed.

Lemma slot_Z v : Z.of_nat (slot v) = hdr + zlen (v_elems v) * stride.
Proof. unfold slot, nlen, zlen. rewrite Nat2Z.inj_add, Nat2Z.inj_mul, !Z2Nat.id by lia. reflexivity. Qed.

(* growth: the new block has the new size and every live cell and the header are as before *)
Lemma regrow_ok v raw s :
  vinv stride hdr v -> zlen raw = hdr + v_siz v * stride ->
  zlen (v_elems v) <= s -> v_siz v <= s ->
  zlen (regrow v raw s) = hdr + s * stride /\
  firstn (slot v) (regrow v raw s) = firstn (slot v) raw.
Proof.
  intros (Hlen & Hsiz & Hbytes) Hraw Hs1 Hs2. unfold regrow.
  pose proof (zlen_nonneg (v_elems v)) as Hl0.
  pose proof (oldlen_ok (zlen (v_elems v)) (v_siz v) ltac:(lia)) as [Ho1 Ho2].
  set (old := oldlen hdr (zlen (v_elems v)) stride (v_siz v)) in *.
  assert (Hnew : old <= s * stride + hdr) by nia.
  split; [rewrite mv_len by nia; lia|].
  pose proof (mv_keep raw old (s * stride + hdr) ltac:(nia) Hnew) as Hk.
  assert (Hsl : (slot v <= Z.to_nat old)%nat) by (apply Nat2Z.inj_le; rewrite slot_Z, Z2Nat.id by nia; lia).
  assert (E : forall l : list N, firstn (slot v) l = firstn (slot v) (firstn (Z.to_nat old) l))
    by (intros l; rewrite firstn_firstn; f_equal; lia).
  rewrite (E (mv raw old (s * stride + hdr))), (E raw), Hk. reflexivity.
Qed.

(* storing element [c] (|c| = stride) into the slot behind the live ones, in a block that has room *)
Lemma store_ok v raw c x s :
  zlen raw = hdr + s * stride -> zlen (v_elems v) + 1 <= s -> length c = k -> dec c = x ->
  (forall i, (i < nlen v)%nat -> dec (cell raw i) = nth i (v_elems v) 0) ->
  zlen (poke raw (slot v) c) = hdr + s * stride /\
  firstn h (poke raw (slot v) c) = firstn h raw /\
  forall i, (i < length (v_elems v ++ [x]))%nat -> dec (cell (poke raw (slot v) c) i) = nth i (v_elems v ++ [x]) 0.
Proof.
  intros Hraw Hroom Hc Hx Hcells.
  assert (Hk : Z.of_nat k = stride) by (apply Z2Nat.id; lia).
  assert (Hfit : (slot v + length c <= length raw)%nat).
  { apply Nat2Z.inj_le. rewrite Nat2Z.inj_add, slot_Z, Hc, Hk. unfold zlen in Hraw. rewrite Hraw. nia. }
  split; [unfold zlen in *; rewrite poke_length by assumption; assumption|].
  split; [apply poke_firstn; [unfold slot; lia|lia]|].
  intros i Hi. rewrite app_length in Hi. cbn [length] in Hi. unfold cell.
  destruct (Nat.eq_dec i (nlen v)) as [->|Hne].
  - unfold slot. rewrite chunk_at_poke; [|assumption|unfold slot in Hfit; lia].
    unfold nlen. rewrite app_nth2, Nat.sub_diag by lia. cbn [nth]. assumption.
  - assert (Hi' : (i < nlen v)%nat) by (unfold nlen in *; lia).
    rewrite app_nth1 by (unfold nlen in Hi'; lia). rewrite <- (Hcells i Hi'). unfold cell. f_equal.
    apply (chunk_at_skip k i h (slot v)); [apply poke_firstn; [lia|lia]|].
    unfold slot. nia.
Qed.

Lemma raw_store_ok m c x :
  MInv m -> length c = k -> dec c = x ->
  let v := mv_v m in
  let v' := fst (vpush stride hdr init_cap alloc_ok v x) in
  MInv (mkmvec v' (raw_store v (mv_raw m) c)) /\ firstn h (raw_store v (mv_raw m) c) = firstn h (mv_raw m).
Proof.
  intros (Hi & Hraw & Hcells) Hc Hx. cbv zeta. unfold raw_store, vpush.
  pose proof (vreserve1_spec stride hdr init_cap alloc_ok stride_range hdr_range init_range (mv_v m) 1 Hi
                ltac:(unfold ULONG_MAX; lia)) as Hr.
  pose proof Hi as (Hlen & Hsiz & Hbytes).
  destruct (vreserve1 (mv_v m) 1) as [|s|] eqn:Er; cbn [fst].
  - destruct (store_ok (mv_v m) (mv_raw m) c x (v_siz (mv_v m)) Hraw Hr Hc Hx Hcells) as (S1 & S2 & S3).
    split; [|assumption]. split; [|split; [exact S1|exact S3]].
    unfold vinv. cbn [mv_v v_siz v_elems]. rewrite zlen_app. change (zlen [x]) with 1. lia.
  - destruct Hr as (H1 & H2 & H3).
    destruct (regrow_ok (mv_v m) (mv_raw m) s Hi Hraw ltac:(lia) H2) as [G1 G2].
    assert (Hcells' : forall i, (i < nlen (mv_v m))%nat -> dec (cell (regrow (mv_v m) (mv_raw m) s) i) = nth i (v_elems (mv_v m)) 0).
    { intros i Hlt. rewrite <- (Hcells i Hlt). unfold cell. f_equal.
      apply (chunk_at_skip k i h (slot (mv_v m))); [assumption|unfold slot; nia]. }
    destruct (store_ok (mv_v m) (regrow (mv_v m) (mv_raw m) s) c x s ltac:(lia) H1 Hc Hx Hcells') as (S1 & S2 & S3).
    split.
    + split; [|split; [cbn [mv_raw mv_v v_siz]; lia|exact S3]].
      unfold vinv. cbn [mv_v v_siz v_elems]. rewrite zlen_app. change (zlen [x]) with 1. lia.
    + rewrite S2. assert (E : forall l : list N, firstn h l = firstn h (firstn (slot (mv_v m)) l))
        by (intros l; rewrite firstn_firstn; f_equal; unfold slot; lia).
      rewrite (E (regrow _ _ _)), (E (mv_raw m)), G2. reflexivity.
  - split; [|reflexivity]. split; [assumption|split; assumption].
Qed.

Lemma cells_length v raw : length (cells v raw) = nlen v.
Proof. unfold cells. rewrite map_length, seq_length. reflexivity. Qed.

Lemma cells_len_k v raw : zlen raw = hdr + v_siz v * stride -> vinv stride hdr v -> Forall (fun c => length c = k) (cells v raw).
Proof.
  intros Hraw (Hlen & Hsiz & _). unfold cells. rewrite Forall_forall. intros c Hc.
  apply in_map_iff in Hc. destruct Hc as (i & <- & Hi). apply in_seq in Hi.
  unfold cell, chunk_at. rewrite firstn_length, !skipn_length.
  assert (Hk : Z.of_nat k = stride) by (apply Z2Nat.id; lia).
  assert (Hh : Z.of_nat h = hdr) by (apply Z2Nat.id; lia).
  unfold zlen, nlen in *. apply Nat.min_l. apply Nat2Z.inj_le.
  rewrite !Nat2Z.inj_sub, Nat2Z.inj_mul, Hk, Hraw by nia. nia.
Qed.

Lemma decode_pointwise v raw :
  (forall i, (i < nlen v)%nat -> dec (cell raw i) = nth i (v_elems v) 0) <-> decode v raw = v_elems v.
Proof.
  unfold decode, cells. split.
  - intros H. apply (nth_ext _ _ 0 0); [rewrite !map_length, seq_length; reflexivity|].
    intros i Hi. rewrite !map_length, seq_length in Hi.
    rewrite map_map. rewrite (nth_indep _ 0 (dec (cell raw 0))) by (rewrite map_length, seq_length; assumption).
    rewrite (map_nth (fun j => dec (cell raw j))), seq_nth by assumption. apply H. assumption.
  - intros H i Hi. rewrite <- H. rewrite map_map.
    rewrite (nth_indep _ 0 (dec (cell raw 0))) by (rewrite map_length, seq_length; assumption).
    rewrite (map_nth (fun j => dec (cell raw j))), seq_nth by assumption. reflexivity.
Qed.

(* one operation keeps the memory invariant and the header *)
Lemma mvstep_inv m op :
  MInv m -> op_wf op ->
  MInv (fst (mvstep m op)) /\ firstn h (mv_raw (fst (mvstep m op))) = firstn h (mv_raw m).
Proof.
  intros HM Hwf. pose proof HM as (Hi & Hraw & Hcells). pose proof Hi as (Hlen & Hsiz & Hbytes).
  unfold mvstep. cbn [fst mv_v mv_raw].
  destruct op as [x| |n| | | | | | |]; cbn [VectorDefs.vstep raw_step].
  - exact (raw_store_ok m (enc x) x HM (enc_len x) (dec_enc x)).
  - apply (raw_store_ok m (repeat 0%N k) 0 HM); [apply repeat_length|exact dec_zero].
  - cbn [op_wf] in Hwf.
    pose proof (vreserve1_spec stride hdr init_cap alloc_ok stride_range hdr_range init_range (mv_v m) n Hi Hwf) as Hr.
    destruct (vreserve1 (mv_v m) n) as [|s|] eqn:Er; cbn [fst].
    + split; [exact HM|reflexivity].
    + destruct Hr as (H1 & H2 & H3).
      destruct (regrow_ok (mv_v m) (mv_raw m) s Hi Hraw ltac:(lia) H2) as [G1 G2].
      split.
      * split; [unfold vinv; cbn [mv_v v_siz v_elems]; lia|]. split; [cbn [mv_v mv_raw v_siz]; lia|].
        cbn [mv_v mv_raw v_elems]. intros i Hlt. rewrite <- (Hcells i Hlt). unfold cell. f_equal.
        apply (chunk_at_skip k i h (slot (mv_v m))); [assumption|unfold slot; unfold nlen in *; cbn [v_elems] in Hlt; nia].
      * assert (E : forall l : list N, firstn h l = firstn h (firstn (slot (mv_v m)) l))
          by (intros l; rewrite firstn_firstn; f_equal; unfold slot; lia).
        rewrite (E (regrow _ _ _)), (E (mv_raw m)), G2. reflexivity.
    + split; [exact HM|reflexivity].
  - (* pop: the block is untouched, one cell fewer is live *)
    destruct (v_elems (mv_v m)) as [|y t] eqn:E; cbn [fst]; [split; [exact HM|reflexivity]|]. rewrite <- E in *.
    split; [|reflexivity]. split; [|split; [exact Hraw|]].
    + unfold vinv. cbn [mv_v v_siz v_elems]. assert (zlen (removelast (v_elems (mv_v m))) <= zlen (v_elems (mv_v m))); [|lia].
      destruct (snoc_case (v_elems (mv_v m))) as [->|(r & z & ->)]; [cbn; lia|]. rewrite removelast_snoc, zlen_app. unfold zlen. cbn. lia.
    + cbn [mv_v mv_raw v_elems]. unfold nlen. cbn [v_elems]. intros i Hlt.
      assert (Hl : (S (length (removelast (v_elems (mv_v m)))) = length (v_elems (mv_v m)))%nat).
      { destruct (snoc_case (v_elems (mv_v m))) as [E0|(r & z & E0)]; [rewrite E0 in E; discriminate|].
        rewrite E0, removelast_snoc, app_length. cbn. lia. }
      rewrite nth_removelast by lia. apply Hcells. unfold nlen. lia.
  - (* clear *)
    cbn [fst]. split; [|reflexivity]. split; [unfold vinv; cbn [mv_v v_siz v_elems]; change (zlen []) with 0; lia|].
    split; [exact Hraw|]. unfold nlen. cbn [mv_v v_elems length]. intros i Hlt. lia.
  - split; [exact HM|reflexivity].
  - split; [exact HM|reflexivity].
  - (* sort: the live cells are permuted *)
    destruct (v_elems (mv_v m)) as [|y t] eqn:E; cbn [fst]; [split; [exact HM|reflexivity]|]. rewrite <- E in *.
    set (cs := cells (mv_v m) (mv_raw m)).
    assert (Hcsl : length (sortc cs) = nlen (mv_v m))
      by (rewrite <- (Permutation_length (sortc_perm cs)); apply cells_length).
    assert (Hcsk : Forall (fun c => length c = k) (sortc cs))
      by (eapply Permutation_Forall; [apply sortc_perm|apply cells_len_k; assumption]).
    assert (Hcat : length (concat (sortc cs)) = (nlen (mv_v m) * k)%nat).
    { rewrite <- Hcsl. clear -Hcsk. induction Hcsk as [|c l Hc _ IH]; [reflexivity|].
      cbn [concat length]. rewrite app_length, IH, Hc. lia. }
    assert (Hk : Z.of_nat k = stride) by (apply Z2Nat.id; lia).
    assert (Hh : Z.of_nat h = hdr) by (apply Z2Nat.id; lia).
    assert (Hhl : (h <= length (mv_raw m))%nat) by (apply Nat2Z.inj_le; unfold zlen in Hraw; rewrite Hraw, Hh; nia).
    assert (Hsl : (slot (mv_v m) <= length (mv_raw m))%nat).
    { apply Nat2Z.inj_le. rewrite slot_Z. unfold zlen in Hraw. rewrite Hraw. nia. }
    assert (Hdec : map dec cs = v_elems (mv_v m)) by (apply decode_pointwise; exact Hcells).
    split; [|rewrite firstn_app, firstn_firstn, firstn_length; replace (Nat.min h h) with h by lia;
              replace (h - Nat.min h (length (mv_raw m)))%nat with 0%nat by lia; cbn [firstn]; apply app_nil_r].
    split; [|split].
    + unfold vinv. cbn [mv_v v_siz v_elems]. rewrite (sorts_is_isort sortf sortf_sorts).
      assert (zlen (isort (v_elems (mv_v m))) = zlen (v_elems (mv_v m))) as ->
        by (unfold zlen; f_equal; symmetry; apply Permutation_length, isort_perm).
      lia.
    + cbn [mv_v mv_raw v_siz]. unfold zlen in *. rewrite !app_length, firstn_length, skipn_length, Hcat.
      replace (Nat.min h (length (mv_raw m))) with h by lia. unfold slot in *. rewrite <- Hraw. lia.
    + cbn [mv_v mv_raw v_elems]. intros i Hlt.
      assert (Hlt' : (i < nlen (mv_v m))%nat).
      { unfold nlen in *. cbn [v_elems] in Hlt. rewrite (sorts_is_isort sortf sortf_sorts) in Hlt.
        rewrite <- (Permutation_length (isort_perm _)) in Hlt. assumption. }
      unfold cell. rewrite skipn_app, firstn_length. replace (Nat.min h (length (mv_raw m))) with h by lia.
      rewrite Nat.sub_diag, skipn_all2 by (rewrite firstn_length; lia). cbn [skipn app].
      rewrite chunk_at_concat by (try assumption; lia).
      rewrite <- Hdec, <- sortc_dec.
      rewrite (nth_indep (map dec (sortc cs)) 0 (dec [])) by (rewrite map_length; lia).
      symmetry. apply map_nth.
  - split; [exact HM|reflexivity].
  - split; [exact HM|reflexivity].
Qed.

(* every operation sequence: the abstract component is VectorDefs.vrun, the block decodes to it, has the
   size the capacity says, and its header bytes never change *)
Theorem mvrun_decodes : forall ops m,
  MInv m -> Forall op_wf ops ->
  let '(m', os) := mvrun m ops in
  mv_v m' = fst (vrun stride hdr init_cap alloc_ok sortf (mv_v m) ops) /\
  os = map fst (snd (vrun stride hdr init_cap alloc_ok sortf (mv_v m) ops)) /\
  decode (mv_v m') (mv_raw m') = v_elems (mv_v m') /\
  zlen (mv_raw m') = hdr + v_siz (mv_v m') * stride /\
  firstn h (mv_raw m') = firstn h (mv_raw m).
Proof.
  induction ops as [|op ops IH]; intros m HM Hwf.
  - cbn. repeat split; try reflexivity; [apply decode_pointwise|]; apply HM.
  - inversion Hwf as [|? ? Hop Hops]; subst. cbn [mvrun VectorDefs.vrun].
    destruct (mvstep_inv m op HM Hop) as [HM1 Hh1]. unfold mvstep in *. cbn [fst snd mv_v mv_raw] in *.
    destruct (vstep (mv_v m) op) as [v1 o] eqn:Es. cbn [fst snd] in *.
    specialize (IH _ HM1 Hops). cbn [mv_v mv_raw] in IH.
    destruct (mvrun (mkmvec v1 (raw_step (mv_v m) (mv_raw m) op)) ops) as [m2 os].
    destruct (vrun stride hdr init_cap alloc_ok sortf v1 ops) as [v2 tr].
    cbn [fst snd map] in *. destruct IH as (I1 & I2 & I3 & I4 & I5).
    repeat split; try assumption; [congruence|congruence].
Qed.

End VMem.
