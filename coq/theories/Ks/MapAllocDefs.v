(* MapAllocDefs.v - libks/map.c together with its allocator: which blocks every
   operation allocates and frees, and what happens when calloc returns NULL.

   MapDefs.v identifies an element by the number of the insert that allocated it
   and treats elements as immutable records: "values never move" is true there
   for free.  Here the allocator is part of the model.  The blocks map.c owns:
     BElt id     the element calloc'ed by map_alloc_element for the id-th element
                 allocation (struct map_element + value + key): the address
                 MAP_INSERT / MAP_FIND / MAP_ITERATE hand out points into it
     BTbl        struct UT_hash_table (HASH_MAKE_TABLE)
     BBkts nb    the bucket array of nb buckets (HASH_MAKE_TABLE, HASH_EXPAND_BUCKETS)
   [astep] returns, next to the new state and the answer, the allocator calls of
   the operation in order ([aev]); the harness interposes calloc/free inside
   libks/map.c and compares the real calls (kind, identity, order) with these.

   Allocation failure: [fails c] says whether the c-th calloc (counted from the
   first operation on) returns NULL.  The paths of map_insert_n / HASH_ADD:
     element calloc fails            -> NULL, nothing changed            ANullFresh
     first insert, table or bucket
       calloc fails                  -> NULL, map still empty, the element block
                                        is never freed (leak)             ANullLeak id
     HASH_EXPAND_BUCKETS calloc fails
       (or num_buckets*2 overflows)  -> NULL although the element is already
                                        linked into the list and its bucket,
                                        num_items counts it, its value is the
                                        zero bytes of calloc              ANullLinked id
   Identities: an id is consumed by every successful element calloc (also by the
   leaked one), so ids stay allocation order.

   Definitions only; proofs in Ks/MapAllocProofs.v. *)
From Robsd Require Export Ks.MapDefs.
Local Open Scope N_scope.

Inductive blk := BElt (id : N) | BTbl | BBkts (nb : N).
Inductive aev := ACalloc (b : blk) | ACallocFail (b : blk) | AFree (b : blk).

Inductive aout :=
  | AOk (o : mout)
  | ANullFresh
  | ANullLeak (id : N)
  | ANullLinked (id : N).

Record amap := mkamap { a_map : hmap; a_calls : N; a_leaked : list N }.
Definition amap0 : amap := mkamap map0 0 [].

Definition blk_eqb (a b : blk) : bool :=
  match a, b with
  | BElt i, BElt j => i =? j
  | BTbl, BTbl => true
  | BBkts n, BBkts m => n =? m
  | _, _ => false
  end.

Section MapAlloc.
Variable hash : bytes -> N.
Variables init_nb init_log2 thresh : N.
Variable fails : N -> bool.

(* HASH_ADD_TO_TABLE up to the expansion test: the element is in its bucket, num_items counts it *)
Definition add_linked (t : table) (e : elt) : table :=
  let i := to_bkt (e_hash e) (t_nb t) in
  let b := nth i (t_bkts t) empty_bkt in
  mktbl (upd i (fun _ => mkbkt (e :: bk_chain b) (bk_mult b)) (t_bkts t)) (t_nb t) (t_log2 t)
        (t_items t + 1) (t_ideal t) (t_nonideal t) (t_ineff t) (t_noexpand t).

(* bkt->count >= (bkt->expand_mult + 1) * HASH_BKT_CAPACITY_THRESH && !noexpand *)
Definition expand_needed (t : table) (e : elt) : bool :=
  let b := nth (to_bkt (e_hash e) (t_nb t)) (t_bkts t) empty_bkt in
  ((bk_mult b + 1) * thresh <=? nlen (bk_chain b) + 1) && negb (t_noexpand t).

Definition bump (m : hmap) : hmap := mkmap (m_list m) (m_tbl m) (m_next m + 1) (m_it m).

(* HASH_ADD_TO_TABLE with table [t] (the map's, or the one just made); [lpre] = the list before the append;
   [c] = number of callocs attempted so far, [evs] = allocator calls so far; [e0] = the element as it is when
   the caller never gets to store the value *)
Definition alink (a : amap) (t : table) (lpre : list elt) (e e0 : elt) (c : N) (evs : list aev) : amap * aout * list aev :=
  let m := a_map a in
  let done (tb : table) (el : elt) (c' : N) :=
    mkamap (mkmap (lpre ++ [el]) (Some tb) (m_next m + 1) (m_it m)) c' (a_leaked a) in
  if expand_needed t e then
    (* KS_u32_mul_overflow(tbl->num_buckets, 2, &nbuckets) *)
    if 4294967296 <=? 2 * t_nb t then (done (add_linked t e0) e0 c, ANullLinked (e_id e), evs)
    else if fails c then (done (add_linked t e0) e0 (c + 1), ANullLinked (e_id e), evs ++ [ACallocFail (BBkts (2 * t_nb t))])
    else (done (expand (add_linked t e)) e (c + 1), AOk (MoPtr (e_id e) (e_val e)),
          evs ++ [ACalloc (BBkts (2 * t_nb t)); AFree (BBkts (t_nb t))])
  else (done (add_linked t e) e c, AOk (MoPtr (e_id e) (e_val e)), evs).

(* MAP_INSERT_VALUE = map_insert_n + HASH_ADD, then the store of the value when non-NULL *)
Definition ainsert (a : amap) (k : bytes) (v : Z) : amap * aout * list aev :=
  let m := a_map a in
  let c := a_calls a in
  let id := m_next m in
  if fails c then (mkamap m (c + 1) (a_leaked a), ANullFresh, [ACallocFail (BElt id)])
  else
    let e := mkelt id k v (hash k) in
    let e0 := mkelt id k 0 (hash k) in        (* what the element holds when the caller never stores the value *)
    match m_tbl m with
    | None =>
        if fails (c + 1)
        then (mkamap (bump m) (c + 2) (id :: a_leaked a), ANullLeak id, [ACalloc (BElt id); ACallocFail BTbl])
        else if fails (c + 2)
        then (mkamap (bump m) (c + 3) (id :: a_leaked a), ANullLeak id,
              [ACalloc (BElt id); ACalloc BTbl; ACallocFail (BBkts init_nb); AFree BTbl])
        else alink a (make_table init_nb init_log2) [] e e0 (c + 3) [ACalloc (BElt id); ACalloc BTbl; ACalloc (BBkts init_nb)]
    | Some t => alink a t (m_list m) e e0 (c + 1) [ACalloc (BElt id)]
    end.

(* HASH_DELETE: free(tbl->buckets); free(tbl) when the last element goes; free(del) *)
Definition del_events (m : hmap) (d : elt) : list aev :=
  match m_tbl m with
  | None => []
  | Some t =>
      match drop_id (e_id d) (m_list m) with
      | [] => [AFree (BBkts (t_nb t)); AFree BTbl; AFree (BElt (e_id d))]
      | _ => [AFree (BElt (e_id d))]
      end
  end.

Definition remove_events (m : hmap) (k : bytes) : list aev :=
  match hfind hash m k with Some d => del_events m d | None => [] end.

Definition astep (a : amap) (op : mop) : amap * aout * list aev :=
  let m := a_map a in
  match op with
  | MInsert k v => ainsert a k v
  | MRemove k =>
      (mkamap (fst (mstep hash init_nb init_log2 thresh m op)) (a_calls a) (a_leaked a), AOk MoUnit, remove_events m k)
  | MIterNextDel =>
      let '(m', o) := mstep hash init_nb init_log2 thresh m op in
      (mkamap m' (a_calls a) (a_leaked a), AOk o,
       match iterate m with
       | Some (it, Some e) => remove_events (set_it m it) (e_key e)
       | _ => []
       end)
  | _ =>
      let '(m', o) := mstep hash init_nb init_log2 thresh m op in (mkamap m' (a_calls a) (a_leaked a), AOk o, [])
  end.

Fixpoint arun (a : amap) (ops : list mop) : amap * list (aout * option shape * list aev) :=
  match ops with
  | [] => (a, [])
  | op :: ops' =>
      let '(a1, o, evs) := astep a op in
      let '(a2, tr) := arun a1 ops' in
      (a2, (o, shape_of (a_map a1), evs) :: tr)
  end.

(* map_free: HASH_DELETE of every element from the head on *)
Fixpoint free_all (fuel : nat) (m : hmap) : list aev :=
  match fuel with
  | O => []
  | S f =>
      match m_list m with
      | [] => []
      | d :: _ => del_events m d ++ free_all f (hdelete m d)
      end
  end.

End MapAlloc.
