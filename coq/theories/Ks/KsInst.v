(* KsInst.v - the container models instantiated with the constants regenerated
   from the sources (coq/gen/Gen_KsConst.v) and with the allocator / qsort
   stand-ins used when the model is executed next to the implementation:
   allocations up to 2^50 bytes succeed, larger ones fail; qsort = insertion
   sort (any sorted permutation of integers is that one, VectorProofs). *)
From Robsd Require Export Ks.VectorSpec Ks.BufferSpec Ks.GetlineDefs Ks.GetlineSpec Ks.MapSpec Ks.MapMultiSpec Ks.MapKeySpec Ks.MapAllocDefs.
From RobsdGen Require Gen_KsConst.
Local Open Scope Z_scope.

Definition alloc_ok_inst (sz : Z) : bool := sz <=? 1125899906842624.

(* allocation-failure injection as the harness performs it: requests of exactly the listed byte sizes are
   refused as well (the realloc callbacks of harness/ks_harness.c, strict mode) *)
Definition alloc_ok_f (fails : list Z) (sz : Z) : bool :=
  (sz <=? 1125899906842624) && negb (existsb (Z.eqb sz) fails).

Definition vrun_instf (fails : list Z) (stride hdr : Z) (ops : list vop) : list (vout * Z) :=
  snd (vrun stride hdr Gen_KsConst.vector_init_cap (alloc_ok_f fails) isort vec0 ops).
Definition vrun_inst (stride hdr : Z) (ops : list vop) : list (vout * Z) :=
  snd (vrun stride hdr Gen_KsConst.vector_init_cap alloc_ok_inst isort vec0 ops).

(* buffer_alloc(init_size) followed by the operations; None = buffer_alloc returned NULL *)
Definition brun_instf (fails : list Z) (init_size : Z) (ops : list bop) : option (Z * list (bout * Z)) :=
  match balloc Gen_KsConst.buffer_init_cap (alloc_ok_f fails) init_size with
  | None => None
  | Some b => Some (b_siz b, snd (brun Gen_KsConst.buffer_init_cap (alloc_ok_f fails) b ops))
  end.
Definition brun_inst (init_size : Z) (ops : list bop) : option (Z * list (bout * Z)) :=
  match balloc Gen_KsConst.buffer_init_cap alloc_ok_inst init_size with
  | None => None
  | Some b => Some (b_siz b, snd (brun Gen_KsConst.buffer_init_cap alloc_ok_inst b ops))
  end.

(* the buffer with a buffer_getline iterator next to it (zeroed at the start) *)
Definition grun_instf (fails : list Z) (init_size : Z) (ops : list gop) : option (Z * list (gout * Z)) :=
  match balloc Gen_KsConst.buffer_init_cap (alloc_ok_f fails) init_size with
  | None => None
  | Some b => Some (b_siz b, snd (grun Gen_KsConst.buffer_init_cap (alloc_ok_f fails) (mkgbuf b 0) ops))
  end.

(* the oracle for buffer operations interleaved with single getline calls, from the empty buffer and a zeroed iterator *)
Definition spec_ok_gbuf_inst (tr : list (gop * gout)) : bool := spec_ok_gbuf [] 0 tr.

Definition spec_ok_vec_faulty_inst (stride hdr : Z) (tr : list (vop * vout)) : bool :=
  spec_ok_vec_faulty stride hdr [] tr.
Definition spec_ok_buf_faulty_inst (tr : list (bop * bout)) : bool := spec_ok_buf_faulty [] tr.

Definition spec_ok_vec_inst (stride hdr : Z) (tr : list (vop * vout)) : bool :=
  spec_ok_vec stride hdr [] tr.
Definition spec_ok_buf_inst (tr : list (bop * bout)) : bool := spec_ok_buf [] tr.

(* the map model with HASH_JEN and the bucket constants of map.c *)
Definition map_nb : N := Z.to_N Gen_KsConst.map_init_buckets.
Definition map_log2 : N := Z.to_N Gen_KsConst.map_init_buckets_log2.
Definition map_thresh : N := Z.to_N Gen_KsConst.map_bkt_thresh.

Definition mrun_inst (ops : list mop) : list (mout * option shape) * list (N * list N) :=
  let '(m, tr) := mrun hash_jen map_nb map_log2 map_thresh map0 ops in (tr, structure_of m).

(* the map with its allocator: calloc number c (0 = the first after MAP_INIT) returns NULL when c is listed;
   answers with table shape and allocator calls, final bucket structure, what map_free frees, leaked elements *)
Definition fails_of (fl : list N) (c : N) : bool := existsb (N.eqb c) fl.
Definition arun_inst (fl : list N) (ops : list mop)
  : list (aout * option shape * list aev) * list (N * list N) * list aev * list N :=
  let '(a, tr) := arun hash_jen map_nb map_log2 map_thresh (fails_of fl) amap0 ops in
  (tr, structure_of (a_map a), free_all (S (length (m_list (a_map a)))) (a_map a), a_leaked a).

(* the answers of an allocator-aware run as the dictionary oracles see them: a NULL from MAP_INSERT_VALUE has
   no counterpart there *)
Definition aout_mout (o : aout) : option mout := match o with AOk m => Some m | _ => None end.
