(* KsInst.v - the container models instantiated with the constants regenerated
   from the sources (coq/gen/Gen_KsConst.v) and with the allocator / qsort
   stand-ins used when the model is executed next to the implementation:
   allocations up to 2^50 bytes succeed, larger ones fail; qsort = insertion
   sort (any sorted permutation of integers is that one, VectorProofs). *)
From Robsd Require Export Ks.VectorSpec Ks.BufferSpec Ks.MapSpec.
From RobsdGen Require Gen_KsConst.
Local Open Scope Z_scope.

Definition alloc_ok_inst (sz : Z) : bool := sz <=? 1125899906842624.

Definition vrun_inst (stride hdr : Z) (ops : list vop) : list (vout * Z) :=
  snd (vrun stride hdr Gen_KsConst.vector_init_cap alloc_ok_inst isort vec0 ops).

(* buffer_alloc(init_size) followed by the operations; None = buffer_alloc returned NULL *)
Definition brun_inst (init_size : Z) (ops : list bop) : option (Z * list (bout * Z)) :=
  match balloc Gen_KsConst.buffer_init_cap alloc_ok_inst init_size with
  | None => None
  | Some b => Some (b_siz b, snd (brun Gen_KsConst.buffer_init_cap alloc_ok_inst b ops))
  end.

Definition spec_ok_vec_inst (stride hdr : Z) (tr : list (vop * vout)) : bool :=
  spec_ok_vec stride hdr [] tr.
Definition spec_ok_buf_inst (tr : list (bop * bout)) : bool := spec_ok_buf [] tr.

(* the map model with HASH_JEN and the bucket constants of map.c *)
Definition map_nb : N := Z.to_N Gen_KsConst.map_init_buckets.
Definition map_log2 : N := Z.to_N Gen_KsConst.map_init_buckets_log2.
Definition map_thresh : N := Z.to_N Gen_KsConst.map_bkt_thresh.

Definition mrun_inst (ops : list mop) : list (mout * option shape) * list (N * list N) :=
  let '(m, tr) := mrun hash_jen map_nb map_log2 map_thresh map0 ops in (tr, structure_of m).
