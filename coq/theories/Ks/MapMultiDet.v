(* MapMultiDet.v - on sequences that keep to the call-site discipline the multi-dictionary
   is the deterministic dictionary: the candidate set of the oracle stays a singleton and
   [spec_ok_multi] accepts exactly the trace of [drun].  So the oracle without discipline
   is as strong as the dictionary oracle wherever the latter applied. *)
From Coq Require Import Lia.
From Robsd Require Import Ks.MapMultiSpec Ks.MapProofs Ks.MapIterProofs Ks.MapDup.
Local Open Scope N_scope.

Definition dinv (d : dict) : Prop :=
  NoDup (map ent_key (d_ents d)) /\ NoDup (map ent_id (d_ents d)) /\
  forall e, In e (d_ents d) -> ent_id e < d_next d.

Lemma dinv0 : dinv dict0.
Proof. repeat split; try constructor. intros e []. Qed.

Lemma mout_eqb_eq a b : mout_eqb a b = true <-> a = b.
Proof.
  destruct a, b; simpl; try (split; [discriminate|intros; discriminate]); try tauto.
  - rewrite andb_true_iff, N.eqb_eq, Z.eqb_eq. split; [intros [-> ->]; reflexivity|intros H; injection H; auto].
  - rewrite !andb_true_iff, N.eqb_eq, Z.eqb_eq, beq_eq. split; [intros [[-> ->] ->]; reflexivity|intros H; injection H; auto].
Qed.

(* with distinct keys the entries carrying a key are the one the dictionary finds *)
Lemma with_key_dfind l k : NoDup (map ent_key l) ->
  with_key k l = match dfind l k with Some e => [e] | None => [] end.
Proof.
  unfold with_key, dfind. induction l as [|x l IH]; intros Hn; [reflexivity|].
  cbn [map] in Hn. inversion Hn as [|? ? Hx Hn']; subst. cbn [filter find].
  destruct (beq_spec (ent_key x) k) as [E|E]; [|apply IH; assumption].
  f_equal. apply filter_nil_iff. intros y Hy. destruct (beq_spec (ent_key y) k) as [E'|E']; [|reflexivity].
  exfalso. apply Hx. rewrite E, <- E'. now apply in_map.
Qed.

Lemma dremove_by_id l e :
  NoDup (map ent_key l) -> NoDup (map ent_id l) -> In e l -> dremove l (ent_key e) = dremove_id l (ent_id e).
Proof.
  intros Hk Hi He. unfold dremove, dremove_id. apply filter_ext_in. intros x Hx. f_equal.
  destruct (beq_spec (ent_key x) (ent_key e)) as [E|E], (N.eqb_spec (ent_id x) (ent_id e)) as [E'|E']; try reflexivity.
  - exfalso. apply E'. f_equal. eapply nodup_map_inj; [exact Hk|assumption|assumption|assumption].
  - exfalso. apply E. f_equal. eapply nodup_map_inj; [exact Hi|assumption|assumption|assumption].
Qed.

Lemma dremove_none l k : dfind l k = None -> dremove l k = l.
Proof.
  unfold dfind, dremove. intros H. rewrite find_none_iff in H.
  induction l as [|x l IH]; [reflexivity|]. cbn [filter]. rewrite (H x (or_introl eq_refl)). cbn [negb].
  f_equal. apply IH. intros y Hy. apply H. now right.
Qed.

Lemma md_remove_det d k : dinv d ->
  md_remove d k = [mkdict (dremove (d_ents d) k) (d_next d) (d_it d)].
Proof.
  intros (Hk & Hi & _). unfold md_remove. rewrite with_key_dfind by assumption.
  destruct (dfind (d_ents d) k) as [e|] eqn:Ef.
  - apply find_some in Ef. destruct Ef as [Hin Hb]. apply beq_eq in Hb. subst k.
    cbn [map]. rewrite dremove_by_id by assumption. reflexivity.
  - rewrite dremove_none by assumption. destruct d; reflexivity.
Qed.

Lemma dlocate_in i : forall l e nx, dlocate i l = Some (e, nx) -> In e l.
Proof.
  induction l as [|x l IH]; intros e nx H; [discriminate|]. cbn [dlocate] in H.
  destruct (ent_id x =? i); [injection H as <- _; now left|right; eapply IH; exact H].
Qed.

Lemma diterate_in d it e : diterate d = Some (it, Some e) -> In e (d_ents d).
Proof.
  unfold diterate. destruct (d_it d) as [[i|]|].
  - destruct (dlocate i (d_ents d)) as [[x nx]|] eqn:El; [|discriminate]. intros H. injection H as _ <-.
    eapply dlocate_in. exact El.
  - discriminate.
  - destruct (d_ents d) as [|x l]; [discriminate|]. intros H. injection H as _ <-. now left.
Qed.

(* one operation: a singleton, exactly when the answer is the dictionary's *)
Lemma mdsteps_det d op o : dinv d ->
  mdsteps d op o = if mout_eqb o (snd (dstep d op)) then [fst (dstep d op)] else [].
Proof.
  intros Hd. pose proof Hd as (Hk & Hi & Hlt). destruct op as [k v|k|k| | |]; cbn [mdsteps dstep fst snd].
  - reflexivity.
  - rewrite with_key_dfind by assumption. destruct (dfind (d_ents d) k) as [e|] eqn:Ef.
    + destruct o as [i w| | | |]; cbn [mout_eqb existsb]; try reflexivity. rewrite orb_false_r, (N.eqb_sym (ent_id e) i), (Z.eqb_sym (ent_val e) w). reflexivity.
    + destruct o; reflexivity.
  - rewrite md_remove_det by assumption. destruct o; reflexivity.
  - destruct o; destruct d; reflexivity.
  - destruct (diterate d) as [[it [e|]]|]; cbn [fst snd].
    + unfold ent_mout, set_dit. reflexivity.
    + destruct o; reflexivity.
    + destruct o; reflexivity.
  - destruct (diterate d) as [[it [e|]]|] eqn:Ei; cbn [fst snd].
    + unfold ent_mout. destruct (mout_eqb o _); [|reflexivity].
      rewrite md_remove_det by exact Hd. reflexivity.
    + destruct o; reflexivity.
    + destruct o; reflexivity.
Qed.

Lemma dinv_step d op : dinv d -> op_ok d op = true -> dinv (fst (dstep d op)).
Proof.
  intros (Hk & Hi & Hlt) Hok.
  assert (Hrm : forall k it, dinv (mkdict (dremove (d_ents d) k) (d_next d) it)).
  { intros k it. unfold dinv, dremove. cbn [d_ents d_next].
    split; [apply nodup_map_filter; assumption|]. split; [apply nodup_map_filter; assumption|].
    intros e He. apply filter_In in He. apply Hlt. tauto. }
  destruct op as [k v|k|k| | |]; cbn [dstep fst].
  - cbn [op_ok] in Hok. destruct (dfind (d_ents d) k) as [e0|] eqn:Ef; [discriminate|].
    unfold dinv. cbn [d_ents d_next]. rewrite !map_app. cbn [map]. unfold ent_key, ent_id. cbn [fst snd].
    split; [apply NoDup_app_one; [assumption|]|split; [apply NoDup_app_one; [assumption|]|]].
    + intros Hin. apply in_map_iff in Hin. destruct Hin as (x & E & Hx).
      unfold dfind in Ef. rewrite find_none_iff in Ef. specialize (Ef x Hx). unfold ent_key in Ef.
      rewrite E, beq_refl in Ef. discriminate.
    + intros Hin. apply in_map_iff in Hin. destruct Hin as (x & E & Hx). specialize (Hlt x Hx). unfold ent_id in Hlt. lia.
    + intros e He. apply in_app_iff in He. destruct He as [He|[<-|[]]]; [specialize (Hlt e He); unfold ent_id in *; lia|unfold ent_id in *; cbn; lia].
  - repeat split; assumption.
  - apply Hrm.
  - repeat split; assumption.
  - destruct (diterate d) as [[it [e|]]|]; cbn [fst]; repeat split; assumption.
  - destruct (diterate d) as [[it [e|]]|]; cbn [fst]; [apply Hrm|repeat split; assumption|repeat split; assumption].
Qed.

Theorem multi_det : forall ops d outs,
  dinv d -> disciplined d ops = true ->
  mdrun [d] ops outs = if mouts_eqb outs (snd (drun d ops)) then [fst (drun d ops)] else [].
Proof.
  induction ops as [|op ops IH]; intros d outs Hd Hdisc.
  - destruct outs; reflexivity.
  - cbn [disciplined] in Hdisc. apply andb_true_iff in Hdisc. destruct Hdisc as [Hok Hrest].
    destruct outs as [|o outs]; cbn [mdrun drun].
    + destruct (dstep d op) as [d1 o1]. destruct (drun d1 ops). reflexivity.
    + cbn [flat_map]. rewrite app_nil_r, mdsteps_det by assumption.
      pose proof (dinv_step d op Hd Hok) as Hd1.
      destruct (dstep d op) as [d1 o1]. cbn [fst snd] in *.
      specialize (IH d1 outs Hd1 Hrest). destruct (drun d1 ops) as [d2 os]. cbn [fst snd mouts_eqb] in *.
      destruct (mout_eqb o o1); cbn [andb]; [exact IH|].
      clear. revert outs. induction ops as [|op' ops' IH']; intros [|o' outs']; try reflexivity. cbn [mdrun flat_map]. apply IH'.
Qed.

Lemma mouts_eqb_eq a : forall b, mouts_eqb a b = true <-> a = b.
Proof.
  induction a as [|x a IH]; intros [|y b]; cbn [mouts_eqb]; try (split; [discriminate|intros; discriminate]); [tauto|].
  rewrite andb_true_iff, mout_eqb_eq, IH. split; [intros [-> ->]; reflexivity|intros H; injection H; auto].
Qed.

(* on a disciplined sequence the multi-dictionary oracle accepts exactly the dictionary's answers *)
Corollary spec_ok_multi_disciplined ops outs :
  disciplined dict0 ops = true -> (spec_ok_multi ops outs = true <-> outs = snd (drun dict0 ops)).
Proof.
  intros Hd. unfold spec_ok_multi. rewrite (multi_det ops dict0 outs dinv0 Hd).
  rewrite <- mouts_eqb_eq. destruct (mouts_eqb outs (snd (drun dict0 ops))); split; congruence.
Qed.
