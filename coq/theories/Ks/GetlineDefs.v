(* GetlineDefs.v - buffer_getline as ONE call with its iterator state, so that calls can be
   interleaved with operations on the buffer (BufferDefs.BLines is the whole loop at once).

   struct buffer_getline { struct buffer *bf; size_t off; }: the iterator owns a private
   buffer for the returned line (not modelled: its contents are the answer) and the offset
   [g_off] of the next line.  buffer_getline_impl:
     off >= bf_len   -> buffer_getline_free: the iterator is zeroed (off = 0), NULL
     otherwise       -> the bytes from off up to the next newline or the end, as a C string;
                        off += linelen + 1
   A NULL therefore rewinds the iterator: the next call starts from the first line again. *)
From Robsd Require Export Ks.BufferDefs.
Local Open Scope Z_scope.

Inductive gop := GBuf (op : bop) | GLine.
Inductive gout := GoBuf (o : bout) | GoLine (l : option bytes).

Record gbuf := mkgbuf { g_buf : buf; g_off : nat }.

Definition gline (data : bytes) (off : nat) : nat * option bytes :=
  if Nat.leb (length data) off then (0%nat, None)
  else let '(line, _) := cut_line (skipn off data) in
       (* the advance is the expression regenerated from buffer_getline_impl: off += linelen + 1 *)
       ((off + Z.to_nat (Gen_KsConst.getline_advance (Z.of_nat (length line))))%nat, Some (cstr line)).

Section Getline.
Variable init_cap : Z.
Variable alloc_ok : Z -> bool.

Definition gstep (g : gbuf) (op : gop) : gbuf * gout :=
  match op with
  | GBuf o => let '(b', r) := bstep init_cap alloc_ok (g_buf g) o in (mkgbuf b' (g_off g), GoBuf r)
  | GLine => let '(off', r) := gline (b_data (g_buf g)) (g_off g) in (mkgbuf (g_buf g) off', GoLine r)
  end.

Fixpoint grun (g : gbuf) (ops : list gop) : gbuf * list (gout * Z) :=
  match ops with
  | [] => (g, [])
  | op :: ops' =>
      let '(g1, o) := gstep g op in
      let '(g2, tr) := grun g1 ops' in
      (g2, (o, b_siz (g_buf g1)) :: tr)
  end.

End Getline.

(* the specification of one call, through Base/Bytes.getlines only: the first line of what lies at and
   after the offset *)
Definition gline_spec (data : bytes) (off : nat) : nat * option bytes :=
  match getlines (skipn off data) with
  | [] => (0%nat, None)
  | x :: _ => ((off + length x + 1)%nat, Some (cstr x))
  end.
