(* KsInstProofs2.v - the executed instances (constants and expressions regenerated from the
   sources, HASH_JEN) against the general theorems of the strengthening pass: oracles accept
   the model for EVERY sequence, with ANY set of refused allocation sizes / failing callocs;
   witnesses of the refuted clauses, computed on the instance. *)
From Coq Require Import Lia.
From Robsd Require Import Ks.KsInst Ks.VectorProofs Ks.BufferProofs Ks.KsInstProofs Ks.VectorMem
  Ks.MapProofs Ks.MapIterProofs Ks.MapDup Ks.MapAllocProofs Ks.MapMultiDet Ks.MapKeyProofs.
From RobsdGen Require Import Gen_KsConst.
Local Open Scope Z_scope.

(* ---- vector / buffer: any set of refused sizes ------------------------------------------ *)

Lemma alloc_f_bounded fails sz : alloc_ok_f fails sz = true -> sz <= 4611686018427387904.
Proof. unfold alloc_ok_f. intros H. apply andb_true_iff in H. destruct H as [H _]. apply Z.leb_le in H. lia. Qed.

Theorem vrun_instf_ok fails stride hdr ops :
  0 < stride <= 65536 -> 0 <= hdr <= 65536 -> Forall op_wf ops ->
  spec_ok_vec_faulty_inst stride hdr (trace_of ops (vrun_instf fails stride hdr ops)) = true.
Proof.
  intros Hs Hh Hwf. unfold spec_ok_vec_faulty_inst, vrun_instf.
  pose proof (vrun_refines_any stride hdr vector_init_cap (alloc_ok_f fails) isort Hs Hh vector_init_cap_ok
                isort_sorts ops vec0 (vinv0 stride hdr Hh) Hwf) as H.
  destruct (vrun stride hdr vector_init_cap (alloc_ok_f fails) isort vec0 ops) as [v' tr].
  destruct H as (_ & Hok & _). exact Hok.
Qed.

Theorem brun_instf_ok fails init ops :
  0 <= init <= ULONG_MAX -> Forall bop_wf ops -> Forall bsize_ok ops ->
  match brun_instf fails init ops with
  | None => balloc buffer_init_cap (alloc_ok_f fails) init = None      (* buffer_alloc itself was refused *)
  | Some (_, tr) => spec_ok_buf_faulty_inst (btrace_of ops tr) = true
  end.
Proof.
  intros Hinit Hwf Hsz. unfold brun_instf, spec_ok_buf_faulty_inst.
  destruct (balloc buffer_init_cap (alloc_ok_f fails) init) as [b|] eqn:Eb; [|reflexivity].
  pose proof (binv_alloc buffer_init_cap (alloc_ok_f fails) buffer_init_cap_ok (alloc_f_bounded fails) init b Hinit Eb) as [Hi Hd].
  pose proof (brun_refines_any buffer_init_cap (alloc_ok_f fails) buffer_init_cap_ok (alloc_f_bounded fails)
                ops b Hi Hwf Hsz) as H.
  destruct (brun buffer_init_cap (alloc_ok_f fails) b ops) as [b' tr]. cbn [snd].
  destruct H as (_ & Hok & _). rewrite Hd in Hok. exact Hok.
Qed.

(* ---- the old size passed to realloc, as regenerated from vector.c / buffer.c -------------- *)

Theorem vector_oldlen_ok hdr stride len siz :
  0 <= stride -> 0 <= len <= siz ->
  hdr + len * stride <= vector_oldlen hdr len stride siz <= hdr + siz * stride.
Proof. intros Hs Hl. unfold vector_oldlen. nia. Qed.

Theorem buffer_oldlen_ok len siz : 0 <= len <= siz -> len <= buffer_oldlen len siz <= siz.
Proof. intros H. unfold buffer_oldlen. lia. Qed.

(* with an old size that forgets the header, a realloc that keeps exactly that many bytes loses elements:
   1-byte elements, 2-byte header, capacity 2; the third push reallocates *)
Definition tiny_enc (x : Z) : list N := [Z.to_N x].
Definition tiny_dec (c : list N) : Z := match c with [b] => Z.of_N b | _ => 0 end.
Definition strict_mv (raw : list N) (old new : Z) : list N :=
  firstn (Z.to_nat old) raw ++ repeat 165%N (Z.to_nat (new - old)).
Definition oldlen_no_header (hdr len stride siz : Z) : Z := len * stride.

Theorem oldlen_matters :
  let run := mvrun 1 2 2 (fun _ => true) isort tiny_enc strict_mv in
  let m0 := mkmvec vec0 [9%N; 9%N] in
  let ops := [VPush 1; VPush 2; VPush 3] in
  decode 1 2 tiny_dec (mv_v (fst (run vector_oldlen (fun l => l) m0 ops))) (mv_raw (fst (run vector_oldlen (fun l => l) m0 ops))) = [1; 2; 3] /\
  decode 1 2 tiny_dec (mv_v (fst (run oldlen_no_header (fun l => l) m0 ops))) (mv_raw (fst (run oldlen_no_header (fun l => l) m0 ops))) = [165; 165; 3] /\
  v_elems (mv_v (fst (run oldlen_no_header (fun l => l) m0 ops))) = [1; 2; 3].
Proof. vm_compute. repeat split; reflexivity. Qed.

(* ---- map ------------------------------------------------------------------------------------ *)
Local Open Scope N_scope.

(* the multi-dictionary oracle accepts every trace of the executed map model - no discipline *)
Theorem mrun_inst_multi_ok ops : spec_ok_multi ops (map fst (fst (mrun_inst ops))) = true.
Proof.
  unfold mrun_inst.
  pose proof (mrun_multi hash_jen map_nb map_log2 map_thresh map_nb_pow2 ops map0 (minv0 hash_jen)) as [H _].
  destruct (mrun hash_jen map_nb map_log2 map_thresh map0 ops) as [m tr]. cbn [fst snd] in *.
  unfold spec_ok_multi. change [dict0] with [absm map0].
  destruct (mdrun [absm map0] ops (map fst tr)); [destruct H|reflexivity].
Qed.

(* whenever no MAP_INSERT of an allocator-aware run returns NULL - whatever the failure plan - the run IS the
   run of MapDefs.v: same states, same answers *)
Section ArunOk.
Variable hash : list N -> N.
Variables nb lg th : N.
Variable fails : N -> bool.

Theorem arun_ok_is_mrun : forall ops a,
  Forall (fun x => exists mo, fst (fst x) = AOk mo) (snd (arun hash nb lg th fails a ops)) ->
  a_map (fst (arun hash nb lg th fails a ops)) = fst (mrun hash nb lg th (a_map a) ops) /\
  map (fun x => aout_mout (fst (fst x))) (snd (arun hash nb lg th fails a ops)) =
    map (fun x => Some (fst x)) (snd (mrun hash nb lg th (a_map a) ops)) /\
  a_leaked (fst (arun hash nb lg th fails a ops)) = a_leaked a.
Proof.
  induction ops as [|op ops IH]; intros a Hall; [repeat split|].
  cbn [MapAllocDefs.arun MapDefs.mrun] in *.
  pose proof (astep_cases hash nb lg th fails a op) as Hc. cbv zeta in Hc.
  destruct (astep hash nb lg th fails a op) as [[a1 o] evs].
  specialize (IH a1). destruct (arun hash nb lg th fails a1 ops) as [a2 tr]. cbn [fst snd] in *.
  inversion Hall as [|? ? [mo Ho] Hrest]; subst. cbn [fst] in Ho. subst o.
  destruct Hc as (Hm & Hmo & Hl). specialize (IH Hrest). destruct IH as (I1 & I2 & I3).
  destruct (mstep hash nb lg th (a_map a) op) as [m1 o1]. cbn [fst snd] in *. subst m1 o1.
  destruct (mrun hash nb lg th (a_map a1) ops) as [m2 tr2]. cbn [fst snd map aout_mout] in *.
  split; [assumption|]. split; [f_equal; assumption|congruence].
Qed.
End ArunOk.

(* ---- witnesses of the refuted clauses, COMPUTED from the regenerated constants ---------------------------
   Nothing below names a bucket count, a threshold or an index: the sequences are long enough for a bucket
   expansion whatever HASH_INITIAL_NUM_BUCKETS / HASH_BKT_CAPACITY_THRESH are (after nb * thresh + 1 distinct
   keys some chain has reached the threshold, by counting), and the place of the expansion is found by
   running the model (at compile time, [Eval vm_compute]; the theorems re-derive it). *)
Definition probe_n : nat := S (N.to_nat (map_nb * map_thresh)).
Definition other_key (i : nat) : list N := [N.of_nat (i mod 256); N.of_nat (i / 256); 7; 7].
Definition dup_key : list N := [98; 105; 110; 47; 108; 115].          (* "bin/ls" *)

Lemma other_key_not_dup i : other_key i <> dup_key.
Proof. unfold other_key, dup_key. intros E. injection E as _ _ _ _ E. discriminate. Qed.

(* THE input class of the duplicate-key finding, smallest form: a present key is inserted again, removed
   once, looked up.  map.c answers an element (the first insert's); every answer the specification allows
   is NULL (MapKeyProofs.kd_removed_absent); the multi-dictionary - what the code does - explains the trace *)
Definition dup_rm_ops : list mop := [MInsert dup_key 1; MInsert dup_key 2; MRemove dup_key; MFind dup_key].

Theorem dup_removed_key_present :
  let outs := map fst (fst (mrun_inst dup_rm_ops)) in
  outs = [MoPtr 0 1; MoPtr 1 2; MoUnit; MoPtr 0 1] /\
  spec_ok_kdict dup_rm_ops outs = false /\ spec_ok_multi dup_rm_ops outs = true /\
  no_reinsert dict0 dup_rm_ops = false /\
  (forall outs', spec_ok_kdict dup_rm_ops outs' = true -> nth 3 outs' MoUB = MoNull).
Proof.
  cbv zeta. split; [vm_compute; reflexivity|]. split; [vm_compute; reflexivity|]. split; [vm_compute; reflexivity|].
  split; [vm_compute; reflexivity|].
  intros outs' H. pose proof (kd_removed_absent [MInsert dup_key 1; MInsert dup_key 2] [] dup_key outs' (Forall_nil _) H) as Hl.
  unfold spec_ok_kdict in H. destruct (kdrun [dict0] dup_rm_ops outs') as [|d l] eqn:E; [discriminate|].
  assert (Hin : In d (kdrun [dict0] dup_rm_ops outs')) by (rewrite E; now left).
  apply kdrun_in in Hin. destruct Hin as [Hlen _].
  destruct outs' as [|a [|b [|c [|e [|]]]]]; try discriminate. exact Hl.
Qed.

(* the lookup of a key nothing touches changes its answer: the key is inserted twice, then looked up after
   every one of probe_n inserts of other keys.  HASH_FIND answers the newest duplicate until the first bucket
   expansion reverses the chain, then the oldest (replayed on libks: findings/C20_map_duplicate_keys.md) *)
Definition dup_probe_ops (n : nat) : list mop :=
  [MInsert dup_key 1; MInsert dup_key 2; MFind dup_key] ++
  flat_map (fun i => [MInsert (other_key i) 5; MFind dup_key]) (seq 0 n).

Definition dup_outs : list mout := map fst (fst (mrun_inst (dup_probe_ops probe_n))).

Fixpoint first_idx (p : mout -> bool) (l : list mout) (i : nat) : option nat :=
  match l with
  | [] => None
  | x :: l' => if p x then Some i else first_idx p l' (S i)
  end.

Lemma first_idx_some p d : forall l i0 i, first_idx p l i0 = Some i -> (i0 <= i)%nat /\ p (nth (i - i0) l d) = true.
Proof.
  induction l as [|x l IH]; intros i0 i H; [discriminate|]. cbn [first_idx] in H.
  destruct (p x) eqn:Ep.
  - injection H as <-. rewrite Nat.sub_diag. split; [lia|exact Ep].
  - apply IH in H. destruct H as [Hle Hp]. split; [lia|].
    replace (i - i0)%nat with (S (i - S i0)) by lia. exact Hp.
Qed.

Lemma nth_skipn_add {A} (d : A) : forall k l n, nth n (skipn k l) d = nth (k + n) l d.
Proof.
  induction k as [|k IH]; intros l n; [reflexivity|]. destruct l as [|x l]; [destruct n; reflexivity|]. apply IH.
Qed.

(* the first answer "entry 0, value 1" after the three initial operations *)
Definition is_first_entry (o : mout) : bool := mout_eqb o (MoPtr 0 1).
Lemma is_first_entry_eq o : is_first_entry o = true -> o = MoPtr 0 1.
Proof. unfold is_first_entry. apply mout_eqb_eq. Qed.
Definition dup_flip_at : option nat := Eval vm_compute in first_idx is_first_entry (skipn 3 dup_outs) 3.

Theorem dup_lookup_flips :
  nth 2 dup_outs MoUB = MoPtr 1 2 /\
  (exists i, (2 < i)%nat /\ nth i dup_outs MoUB = MoPtr 0 1) /\
  (forall i, other_key i <> dup_key) /\
  spec_ok_multi (dup_probe_ops probe_n) dup_outs = true /\
  spec_ok_kdict (dup_probe_ops probe_n) dup_outs = false /\ no_reinsert dict0 (dup_probe_ops probe_n) = false.
Proof.
  split; [vm_compute; reflexivity|]. split.
  - assert (E : first_idx is_first_entry (skipn 3 dup_outs) 3 = dup_flip_at) by (vm_compute; reflexivity).
    (* no conversion may force the kernel to evaluate the run lazily: the computed index stays abstract *)
    destruct dup_flip_at as [i|] eqn:Ed; [|vm_compute in Ed; discriminate Ed]. clear Ed.
    apply (first_idx_some _ MoUB) in E. destruct E as [Hle Hb].
    rewrite nth_skipn_add in Hb. exists (3 + (i - 3))%nat. split; [lia|]. exact (is_first_entry_eq _ Hb).
  - split; [exact other_key_not_dup|]. split; [vm_compute; reflexivity|]. split; vm_compute; reflexivity.
Qed.

(* HASH_EXPAND_BUCKETS cannot allocate: MAP_INSERT answers NULL, yet the element is in the map - the next
   lookup of the key finds it (with the zero value), num_items counts it.  Distinct keys are inserted; the
   calloc that allocates the first larger bucket array is found by scanning the allocator calls of the run
   WITHOUT failures ([first_expand]: its calloc number c and the operation i it belongs to); then that
   calloc is made to fail *)
Definition linked_keys (n : nat) : list mop := map (fun i => MInsert (other_key i) 5) (seq 0 n).

Fixpoint scan_expand (evs : list aev) (c : N) : N + N :=
  match evs with
  | [] => inl c
  | ACalloc (BBkts nb) :: evs' => if nb =? map_nb then scan_expand evs' (c + 1) else inr c
  | ACalloc _ :: evs' | ACallocFail _ :: evs' => scan_expand evs' (c + 1)
  | AFree _ :: evs' => scan_expand evs' c
  end.

Fixpoint first_expand (tr : list (aout * option shape * list aev)) (c : N) (i : nat) : option (N * nat) :=
  match tr with
  | [] => None
  | (_, _, evs) :: tr' =>
      match scan_expand evs c with
      | inr c' => Some (c', i)
      | inl c' => first_expand tr' c' (S i)
      end
  end.

Definition nofail_trace : list (aout * option shape * list aev) := fst (fst (fst (arun_inst [] (linked_keys probe_n)))).
Definition first_expansion : option (N * nat) := Eval vm_compute in first_expand nofail_trace 0 0.

Theorem insert_null_but_linked :
  exists c i, first_expand nofail_trace 0 0 = Some (c, i) /\
    let ops := linked_keys (S i) ++ [MFind (other_key i)] in
    let tr := fst (fst (fst (arun_inst [c] ops))) in
    fst (fst (nth i tr (AOk MoUB, None, []))) = ANullLinked (N.of_nat i) /\
    snd (nth i tr (AOk MoUB, None, [])) = [ACalloc (BElt (N.of_nat i)); ACallocFail (BBkts (2 * map_nb))] /\
    fst (fst (nth (S i) tr (AOk MoUB, None, []))) = AOk (MoPtr (N.of_nat i) 0) /\
    option_map s_items (snd (fst (nth i tr (AOk MoUB, None, [])))) = Some (N.of_nat (S i)).
Proof.
  assert (E : first_expand nofail_trace 0 0 = first_expansion) by (vm_compute; reflexivity).
  unfold first_expansion in E. eexists. eexists. split; [exact E|].
  vm_compute. repeat split; reflexivity.
Qed.

(* the first insert cannot allocate its table: NULL, the map stays empty, the element block is never freed *)
Theorem insert_leaks_element :
  let '(tr, st, fr, lk) := arun_inst [1] [MInsert [1] 5; MInsert [1] 6] in
  map (fun x => fst (fst x)) tr = [ANullLeak 0; AOk (MoPtr 1 6)] /\ lk = [0] /\
  fr = [AFree (BBkts map_nb); AFree BTbl; AFree (BElt 1)].
Proof. vm_compute. repeat split; reflexivity. Qed.

(* ---- the oracle of THE specification accepts the executed model on every sequence that inserts no present key,
        with exactly the deterministic dictionary's answers ---------------------------------------------------- *)
Theorem mrun_inst_kdict_ok ops :
  no_reinsert dict0 ops = true ->
  map fst (fst (mrun_inst ops)) = snd (drun dict0 ops) /\ spec_ok_kdict ops (map fst (fst (mrun_inst ops))) = true.
Proof.
  intros Hn. unfold mrun_inst.
  pose proof (mrun_nr hash_jen map_nb map_log2 map_thresh map_nb_pow2 ops Hn) as [H _].
  destruct (mrun hash_jen map_nb map_log2 map_thresh map0 ops) as [m tr]. cbn [fst snd] in *.
  split; [exact H|]. apply (spec_ok_kdict_partial ops _ Hn). exact H.
Qed.
