(* KsInstProofs2.v - the executed instances (constants and expressions regenerated from the
   sources, HASH_JEN) against the general theorems of the strengthening pass: oracles accept
   the model for EVERY sequence, with ANY set of refused allocation sizes / failing callocs;
   witnesses of the refuted clauses, computed on the instance. *)
From Coq Require Import Lia.
From Robsd Require Import Ks.KsInst Ks.VectorProofs Ks.BufferProofs Ks.KsInstProofs Ks.VectorMem
  Ks.MapProofs Ks.MapIterProofs Ks.MapDup Ks.MapAllocProofs.
From RobsdGen Require Import Gen_KsConst.
Local Open Scope Z_scope.

(* ---- vector / buffer: any set of refused sizes ------------------------------------------ *)

Lemma alloc_f_bounded fails sz : alloc_ok_f fails sz = true -> sz <= 4611686018427387904.
Proof. unfold alloc_ok_f. intros H. apply andb_true_iff in H. destruct H as [H _]. apply Z.leb_le in H. lia. Qed.

Theorem vrun_instf_ok fails stride hdr ops :
  0 < stride <= 65536 -> 0 <= hdr <= 65536 -> Forall op_wf ops ->
  spec_ok_vec_faulty_inst stride hdr (trace_of ops (vrun_instf fails stride hdr ops)) = true.
Proof.
  intros Hs Hh Hwf. unfold spec_ok_vec_faulty_inst, vrun_instf.
  pose proof (vrun_refines_any stride hdr vector_init_cap (alloc_ok_f fails) isort Hs Hh vector_init_cap_ok
                isort_sorts ops vec0 (vinv0 stride hdr Hh) Hwf) as H.
  destruct (vrun stride hdr vector_init_cap (alloc_ok_f fails) isort vec0 ops) as [v' tr].
  destruct H as (_ & Hok & _). exact Hok.
Qed.

Theorem brun_instf_ok fails init ops :
  0 <= init <= ULONG_MAX -> Forall bop_wf ops -> Forall bsize_ok ops ->
  match brun_instf fails init ops with
  | None => balloc buffer_init_cap (alloc_ok_f fails) init = None      (* buffer_alloc itself was refused *)
  | Some (_, tr) => spec_ok_buf_faulty_inst (btrace_of ops tr) = true
  end.
Proof.
  intros Hinit Hwf Hsz. unfold brun_instf, spec_ok_buf_faulty_inst.
  destruct (balloc buffer_init_cap (alloc_ok_f fails) init) as [b|] eqn:Eb; [|reflexivity].
  pose proof (binv_alloc buffer_init_cap (alloc_ok_f fails) buffer_init_cap_ok (alloc_f_bounded fails) init b Hinit Eb) as [Hi Hd].
  pose proof (brun_refines_any buffer_init_cap (alloc_ok_f fails) buffer_init_cap_ok (alloc_f_bounded fails)
                ops b Hi Hwf Hsz) as H.
  destruct (brun buffer_init_cap (alloc_ok_f fails) b ops) as [b' tr]. cbn [snd].
  destruct H as (_ & Hok & _). rewrite Hd in Hok. exact Hok.
Qed.

(* ---- the old size passed to realloc, as regenerated from vector.c / buffer.c -------------- *)

Theorem vector_oldlen_ok hdr stride len siz :
  0 <= stride -> 0 <= len <= siz ->
  hdr + len * stride <= vector_oldlen hdr len stride siz <= hdr + siz * stride.
Proof. intros Hs Hl. unfold vector_oldlen. nia. Qed.

Theorem buffer_oldlen_ok len siz : 0 <= len <= siz -> len <= buffer_oldlen len siz <= siz.
Proof. intros H. unfold buffer_oldlen. lia. Qed.

(* with an old size that forgets the header, a realloc that keeps exactly that many bytes loses elements:
   1-byte elements, 2-byte header, capacity 2; the third push reallocates *)
Definition tiny_enc (x : Z) : list N := [Z.to_N x].
Definition tiny_dec (c : list N) : Z := match c with [b] => Z.of_N b | _ => 0 end.
Definition strict_mv (raw : list N) (old new : Z) : list N :=
  firstn (Z.to_nat old) raw ++ repeat 165%N (Z.to_nat (new - old)).
Definition oldlen_no_header (hdr len stride siz : Z) : Z := len * stride.

Theorem oldlen_matters :
  let run := mvrun 1 2 2 (fun _ => true) isort tiny_enc strict_mv in
  let m0 := mkmvec vec0 [9%N; 9%N] in
  let ops := [VPush 1; VPush 2; VPush 3] in
  decode 1 2 tiny_dec (mv_v (fst (run vector_oldlen (fun l => l) m0 ops))) (mv_raw (fst (run vector_oldlen (fun l => l) m0 ops))) = [1; 2; 3] /\
  decode 1 2 tiny_dec (mv_v (fst (run oldlen_no_header (fun l => l) m0 ops))) (mv_raw (fst (run oldlen_no_header (fun l => l) m0 ops))) = [165; 165; 3] /\
  v_elems (mv_v (fst (run oldlen_no_header (fun l => l) m0 ops))) = [1; 2; 3].
Proof. vm_compute. repeat split; reflexivity. Qed.

(* ---- map ------------------------------------------------------------------------------------ *)
Local Open Scope N_scope.

(* the multi-dictionary oracle accepts every trace of the executed map model - no discipline *)
Theorem mrun_inst_multi_ok ops : spec_ok_multi ops (map fst (fst (mrun_inst ops))) = true.
Proof.
  unfold mrun_inst.
  pose proof (mrun_multi hash_jen map_nb map_log2 map_thresh map_nb_pow2 ops map0 (minv0 hash_jen)) as [H _].
  destruct (mrun hash_jen map_nb map_log2 map_thresh map0 ops) as [m tr]. cbn [fst snd] in *.
  unfold spec_ok_multi. change [dict0] with [absm map0].
  destruct (mdrun [absm map0] ops (map fst tr)); [destruct H|reflexivity].
Qed.

(* whenever no MAP_INSERT of an allocator-aware run returns NULL - whatever the failure plan - the run IS the
   run of MapDefs.v: same states, same answers *)
Section ArunOk.
Variable hash : list N -> N.
Variables nb lg th : N.
Variable fails : N -> bool.

Theorem arun_ok_is_mrun : forall ops a,
  Forall (fun x => exists mo, fst (fst x) = AOk mo) (snd (arun hash nb lg th fails a ops)) ->
  a_map (fst (arun hash nb lg th fails a ops)) = fst (mrun hash nb lg th (a_map a) ops) /\
  map (fun x => aout_mout (fst (fst x))) (snd (arun hash nb lg th fails a ops)) =
    map (fun x => Some (fst x)) (snd (mrun hash nb lg th (a_map a) ops)) /\
  a_leaked (fst (arun hash nb lg th fails a ops)) = a_leaked a.
Proof.
  induction ops as [|op ops IH]; intros a Hall; [repeat split|].
  cbn [MapAllocDefs.arun MapDefs.mrun] in *.
  pose proof (astep_cases hash nb lg th fails a op) as Hc. cbv zeta in Hc.
  destruct (astep hash nb lg th fails a op) as [[a1 o] evs].
  specialize (IH a1). destruct (arun hash nb lg th fails a1 ops) as [a2 tr]. cbn [fst snd] in *.
  inversion Hall as [|? ? [mo Ho] Hrest]; subst. cbn [fst] in Ho. subst o.
  destruct Hc as (Hm & Hmo & Hl). specialize (IH Hrest). destruct IH as (I1 & I2 & I3).
  destruct (mstep hash nb lg th (a_map a) op) as [m1 o1]. cbn [fst snd] in *. subst m1 o1.
  destruct (mrun hash nb lg th (a_map a1) ops) as [m2 tr2]. cbn [fst snd map aout_mout] in *.
  split; [assumption|]. split; [f_equal; assumption|congruence].
Qed.
End ArunOk.

(* report.c / robsd-wait.c insert a key that is already present: the answer of MAP_FIND for that key is the
   newest duplicate until the next bucket expansion and the oldest one after it, although nothing touches the
   key in between (replayed on libks: findings/C20_map_duplicate_keys.md) *)
Definition dup_key : list N := [98; 105; 110; 47; 108; 115].          (* "bin/ls" *)
Definition dup_others : list mop := map (fun i => MInsert [N.of_nat i; 7; 7; 7] 5) (seq 0 150).
Definition dup_ops : list mop := [MInsert dup_key 1; MInsert dup_key 2; MFind dup_key] ++ dup_others ++ [MFind dup_key].

Theorem dup_lookup_flips :
  let outs := map fst (fst (mrun_inst dup_ops)) in
  nth 2 outs MoUB = MoPtr 1 2 /\ nth 153 outs MoUB = MoPtr 0 1 /\
  (forall op, In op dup_others -> exists k v, op = MInsert k v /\ k <> dup_key) /\
  spec_ok_multi dup_ops outs = true /\ disciplined dict0 dup_ops = false.
Proof.
  cbv zeta. split; [vm_compute; reflexivity|]. split; [vm_compute; reflexivity|]. split.
  - intros op Hin. unfold dup_others in Hin. apply in_map_iff in Hin. destruct Hin as (i & <- & _).
    eexists _, _. split; [reflexivity|]. unfold dup_key. intros E. injection E as _ E1. discriminate.
  - split; vm_compute; reflexivity.
Qed.

(* HASH_EXPAND_BUCKETS cannot allocate: MAP_INSERT answers NULL, yet the element is in the map - the next
   lookup of the key finds it (with the zero value), num_items counts it *)
Definition linked_ops : list mop :=
  map (fun i => MInsert [N.of_nat i; 7; 7; 7] 5) (seq 0 149) ++ [MFind [148; 7; 7; 7]].

Theorem insert_null_but_linked :
  let tr := fst (fst (fst (arun_inst [151] linked_ops))) in
  fst (fst (nth 148 tr (AOk MoUB, None, []))) = ANullLinked 148 /\
  snd (nth 148 tr (AOk MoUB, None, [])) = [ACalloc (BElt 148); ACallocFail (BBkts 64)] /\
  fst (fst (nth 149 tr (AOk MoUB, None, []))) = AOk (MoPtr 148 0) /\
  option_map s_items (snd (fst (nth 148 tr (AOk MoUB, None, [])))) = Some 149.
Proof. vm_compute. repeat split; reflexivity. Qed.

(* the first insert cannot allocate its table: NULL, the map stays empty, the element block is never freed *)
Theorem insert_leaks_element :
  let '(tr, st, fr, lk) := arun_inst [1] [MInsert [1] 5; MInsert [1] 6] in
  map (fun x => fst (fst x)) tr = [ANullLeak 0; AOk (MoPtr 1 6)] /\ lk = [0] /\
  fr = [AFree (BBkts 32); AFree BTbl; AFree (BElt 1)].
Proof. vm_compute. repeat split; reflexivity. Qed.
