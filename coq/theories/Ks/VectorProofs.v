(* VectorProofs.v - the vector model refines the list program of VectorSpec.v
   for every operation sequence; capacity invariants; the doubling loop. *)
From Coq Require Import Sorting.Sorted Sorting.Permutation.
From Robsd Require Import Ks.VectorSpec.
Local Open Scope Z_scope.

(* ---- the doubling loop ------------------------------------------------------ *)

Lemma grow_some fuel : forall s need s',
  grow fuel s need = Some s' ->
  need <= s' /\ (0 <= s -> s <= s') /\ (s' = s \/ (s < need /\ s' < 2 * need)).
Proof.
  induction fuel as [|f IH]; intros s need s' H; cbn [grow] in H.
  - destruct (Z.leb_spec need s); [|discriminate]. injection H as <-. lia.
  - destruct (Z.leb_spec need s) as [Hle|Hlt]; [injection H as <-; lia|].
    destruct (Z.ltb_spec (ULONG_MAX / 2) s); [discriminate|].
    apply IH in H. destruct H as (H1 & H2 & H3). split; [assumption|]. split; [lia|].
    right. split; [assumption|]. destruct H3 as [->|[_ H3]]; lia.
Qed.

Lemma grow_succeeds fuel : forall s need,
  0 < s -> need <= 9223372036854775808 -> 18446744073709551616 <= s * 2 ^ Z.of_nat fuel ->
  exists s', grow fuel s need = Some s'.
Proof.
  induction fuel as [|f IH]; intros s need Hs Hn Hf.
  - simpl in *. destruct (Z.leb_spec need s); [eauto|lia].
  - cbn [grow]. destruct (Z.leb_spec need s); [eauto|].
    change (ULONG_MAX / 2) with 9223372036854775807.
    destruct (Z.ltb_spec 9223372036854775807 s); [lia|].
    apply IH; [lia|assumption|].
    rewrite Nat2Z.inj_succ, Z.pow_succ_r in Hf by lia. lia.
Qed.

(* 65 rounds are enough for every capacity >= 1 *)
Lemma grow_fuel s need :
  0 < s -> need <= 9223372036854775808 -> exists s', grow GROW_FUEL s need = Some s'.
Proof.
  intros Hs Hn. apply grow_succeeds; [assumption|assumption|].
  change (2 ^ Z.of_nat GROW_FUEL) with 36893488147419103232. lia.
Qed.

(* [None] really is an overflow: the doubled capacity would not fit a size_t *)
Lemma grow_none s need :
  0 < s -> grow GROW_FUEL s need = None -> 9223372036854775808 < need.
Proof.
  intros Hs H. destruct (Z.leb_spec need 9223372036854775808) as [Hle|]; [|assumption].
  destruct (grow_fuel s need Hs Hle) as [s' E]. congruence.
Qed.

(* ---- sorting: any sorted permutation of integers is the insertion sort -------- *)

Lemma zinsert_perm x l : Permutation (x :: l) (zinsert x l).
Proof.
  induction l as [|y l IH]; simpl; [reflexivity|].
  destruct (x <=? y); [reflexivity|].
  rewrite perm_swap. now constructor.
Qed.

Lemma isort_perm l : Permutation l (isort l).
Proof.
  induction l as [|x l IH]; simpl; [constructor|].
  rewrite <- zinsert_perm. now constructor.
Qed.

Lemma zinsert_sorted x l : StronglySorted Z.le l -> StronglySorted Z.le (zinsert x l).
Proof.
  induction 1 as [|y l Hs IH Hall]; simpl; [repeat constructor|].
  destruct (Z.leb_spec x y).
  - constructor; [constructor; assumption|].
    constructor; [assumption|]. eapply Forall_impl; [|exact Hall]. intros; lia.
  - constructor; [assumption|].
    eapply Permutation_Forall; [apply zinsert_perm|]. constructor; [lia|assumption].
Qed.

Lemma isort_sorted l : StronglySorted Z.le (isort l).
Proof. induction l; simpl; [constructor|now apply zinsert_sorted]. Qed.

Lemma sorted_perm_unique : forall l1 l2,
  StronglySorted Z.le l1 -> StronglySorted Z.le l2 -> Permutation l1 l2 -> l1 = l2.
Proof.
  induction l1 as [|a l1 IH]; intros l2 H1 H2 Hp.
  - apply Permutation_nil in Hp. now subst.
  - destruct l2 as [|b l2]; [apply Permutation_sym, Permutation_nil in Hp; discriminate|].
    inversion H1 as [|? ? Hs1 Ha]; subst. inversion H2 as [|? ? Hs2 Hb]; subst.
    assert (a = b) as ->.
    { assert (In a (b :: l2)) as Hina by (eapply Permutation_in; [exact Hp|now left]).
      assert (In b (a :: l1)) as Hinb by (eapply Permutation_in; [symmetry; exact Hp|now left]).
      rewrite Forall_forall in Ha, Hb.
      destruct Hina as [->|Hina]; [reflexivity|]. destruct Hinb as [->|Hinb]; [reflexivity|].
      specialize (Ha _ Hinb). specialize (Hb _ Hina). lia. }
    f_equal. apply IH; [assumption|assumption|]. eapply Permutation_cons_inv; exact Hp.
Qed.

Definition sorts (f : list Z -> list Z) : Prop :=
  forall l, Permutation l (f l) /\ Sorted Z.le (f l).

Lemma sorts_is_isort f : sorts f -> forall l, f l = isort l.
Proof.
  intros Hf l. destruct (Hf l) as [Hp Hs].
  apply sorted_perm_unique.
  - apply Sorted_StronglySorted; [intros x y z; lia|assumption].
  - apply isort_sorted.
  - rewrite <- Hp. apply isort_perm.
Qed.

Lemma isort_sorts : sorts isort.
Proof. intros l. split; [apply isort_perm|apply StronglySorted_Sorted, isort_sorted]. Qed.

(* ---- small list facts --------------------------------------------------------- *)

Lemma zlen_app {A} (a b : list A) : zlen (a ++ b) = zlen a + zlen b.
Proof. unfold zlen. rewrite app_length. lia. Qed.

Lemma zlen_nonneg {A} (l : list A) : 0 <= zlen l.
Proof. unfold zlen. lia. Qed.

Lemma rev_snoc_inv {A} (l : list A) x r : rev l = x :: r -> l = rev r ++ [x].
Proof. intros H. rewrite <- (rev_involutive l), H. reflexivity. Qed.

Lemma snoc_case {A} (l : list A) : l = [] \/ exists r x, l = r ++ [x].
Proof.
  destruct (rev l) as [|x r] eqn:E.
  - left. rewrite <- (rev_involutive l), E. reflexivity.
  - right. exists (rev r), x. now apply rev_snoc_inv.
Qed.

Lemma last_snoc {A} (l : list A) x d : last (l ++ [x]) d = x.
Proof. induction l as [|y l IH]; [reflexivity|]. simpl. destruct (l ++ [x]) eqn:E; [destruct l; discriminate|exact IH]. Qed.

Lemma removelast_snoc {A} (l : list A) x : removelast (l ++ [x]) = l.
Proof. rewrite removelast_app by discriminate. simpl. apply app_nil_r. Qed.

Lemma zlist_eqb_refl l : zlist_eqb l l = true.
Proof. induction l; simpl; [reflexivity|]. now rewrite Z.eqb_refl. Qed.

Lemma zlist_eqb_eq a : forall b, zlist_eqb a b = true <-> a = b.
Proof.
  induction a as [|x a IH]; intros [|y b]; simpl; try (split; [discriminate|intros; discriminate]); [tauto|].
  rewrite andb_true_iff, Z.eqb_eq, IH. split; [intros [-> ->]; reflexivity|intros H; injection H; auto].
Qed.

Lemma vout_eqb_refl o : vout_eqb o o = true.
Proof. destruct o; simpl; rewrite ?Z.eqb_refl, ?zlist_eqb_refl; reflexivity. Qed.

Lemma vout_eqb_eq a b : vout_eqb a b = true <-> a = b.
Proof.
  destruct a, b; simpl; try (split; [discriminate|intros; discriminate]); try tauto.
  - rewrite andb_true_iff, !Z.eqb_eq. split; [intros [-> ->]; reflexivity|intros H; injection H; auto].
  - rewrite Z.eqb_eq. split; [intros ->; reflexivity|intros H; injection H; auto].
  - rewrite zlist_eqb_eq. split; [intros ->; reflexivity|intros H; injection H; auto].
Qed.

(* ---- the refinement -------------------------------------------------------------- *)

Section Refinement.
Variables stride hdr init_cap : Z.
Variable alloc_ok : Z -> bool.
Variable sortf : list Z -> list Z.

Hypothesis stride_range : 0 < stride <= 65536.
Hypothesis hdr_range : 0 <= hdr <= 65536.
Hypothesis init_range : 0 < init_cap <= 65536.
Hypothesis sortf_sorts : sorts sortf.

Notation vreserve1 := (vreserve1 stride hdr init_cap alloc_ok).
Notation vstep := (vstep stride hdr init_cap alloc_ok sortf).
Notation vrun := (vrun stride hdr init_cap alloc_ok sortf).

(* what holds of the representation after any sequence: every live element lies inside the allocation,
   and the allocation's size in bytes fits a size_t *)
Definition vinv (v : vec) : Prop :=
  zlen (v_elems v) <= v_siz v /\ 0 <= v_siz v /\ v_siz v * stride + hdr <= ULONG_MAX.

Definition op_wf (op : vop) : Prop :=
  match op with VReserve n => 0 <= n <= ULONG_MAX | _ => True end.

Lemma vinv0 : vinv vec0.
Proof. unfold vinv, vec0, zlen, ULONG_MAX; simpl. lia. Qed.

Lemma div_le_mul a b : 0 < b -> 0 <= a -> a <= ULONG_MAX / b -> a * b <= ULONG_MAX.
Proof.
  intros Hb Ha H. pose proof (Z.mul_div_le ULONG_MAX b Hb).
  assert (a * b <= ULONG_MAX / b * b) by (apply Z.mul_le_mono_nonneg_r; lia). lia.
Qed.

Lemma vreserve1_spec v n :
  vinv v -> 0 <= n <= ULONG_MAX ->
  match vreserve1 v n with
  | RsvErr => SMALL < zlen (v_elems v) + n \/
              exists sz, sz <= 1125899906842624 /\ alloc_ok sz = false
  | RsvSame => zlen (v_elems v) + n <= v_siz v
  | RsvGrown s => zlen (v_elems v) + n <= s /\ v_siz v <= s /\ s * stride + hdr <= ULONG_MAX
  end.
Proof.
  intros (Hlen & Hsiz & Hbytes) Hn. unfold VectorDefs.vreserve1.
  pose proof (zlen_nonneg (v_elems v)) as Hl0.
  destruct (Z.ltb_spec (ULONG_MAX - n) (zlen (v_elems v))) as [Hov|Hov].
  { left. unfold SMALL, ULONG_MAX in *. lia. }
  destruct (Z.leb_spec (zlen (v_elems v) + n) (v_siz v)) as [Hfit|Hfit]; [assumption|].
  set (s0 := if v_siz v =? 0 then init_cap else v_siz v).
  assert (Hs0 : 0 < s0) by (unfold s0; destruct (Z.eqb_spec (v_siz v) 0); lia).
  assert (Hs0' : s0 <= Z.max init_cap (v_siz v)) by (unfold s0; destruct (Z.eqb_spec (v_siz v) 0); lia).
  destruct (grow GROW_FUEL s0 (zlen (v_elems v) + n)) as [s|] eqn:Eg.
  - apply grow_some in Eg. destruct Eg as (G1 & G2 & G3).
    destruct (Z.ltb_spec (ULONG_MAX / stride) s) as [Hd|Hd].
    { left. destruct (Z.leb_spec (zlen (v_elems v) + n) SMALL) as [Hsm|]; [exfalso|lia].
      assert (s <= 2 * SMALL) by (unfold SMALL in *; lia).
      assert (2 * SMALL * stride <= ULONG_MAX) by (unfold SMALL, ULONG_MAX; lia).
      assert (2 * SMALL <= ULONG_MAX / stride) by (apply Z.div_le_lower_bound; lia). lia. }
    assert (Hmul : s * stride <= ULONG_MAX) by (apply div_le_mul; lia).
    destruct (Z.ltb_spec (ULONG_MAX - hdr) (s * stride)) as [Hh|Hh].
    { left. destruct (Z.leb_spec (zlen (v_elems v) + n) SMALL) as [Hsm|]; [exfalso|lia].
      assert (s <= 2 * SMALL) by (unfold SMALL in *; lia).
      assert (s * stride <= 2 * SMALL * 65536) by nia. unfold SMALL, ULONG_MAX in *. lia. }
    destruct (alloc_ok (s * stride + hdr)) eqn:Ea.
    + split; [assumption|]. split; [|lia].
      unfold s0 in G2. destruct (Z.eqb_spec (v_siz v) 0); lia.
    + destruct (Z.leb_spec (zlen (v_elems v) + n) SMALL) as [Hsm|]; [right|left; lia].
      exists (s * stride + hdr). split; [|assumption].
      assert (s <= 2 * SMALL) by (unfold SMALL in *; lia).
      assert (s * stride <= 2 * SMALL * 65536) by nia. unfold SMALL in *. lia.
  - left. apply grow_none in Eg; [|assumption]. unfold SMALL. lia.
Qed.

(* why an operation may report failure: the request is not small, or the allocator refused a request of at
   most 2^50 bytes (an allocation failure proper) *)
Definition refusal (v : vec) (n : Z) : Prop :=
  SMALL < zlen (v_elems v) + n \/ exists sz, sz <= 1125899906842624 /\ alloc_ok sz = false.

Lemma vreserve1_err_gen v n :
  vinv v -> 0 <= n <= ULONG_MAX -> vreserve1 v n = RsvErr -> refusal v n.
Proof.
  intros Hi Hn E. pose proof (vreserve1_spec v n Hi Hn) as H. rewrite E in H. exact H.
Qed.

(* one operation: the invariant is kept; a failure changes nothing and only happens on a request that is not
   small; a success does what the list program does and only happens on a representable size *)
Definition refusal_op (v : vec) (op : vop) : Prop :=
  match request op with Some n => refusal v n | None => False end.

(* one operation, ANY allocator: the invariant is kept; a failure changes NOTHING (capacity, length, contents)
   and has a reason; a success does what the list program does and only happens on a representable size *)
Lemma vstep_refines_gen v op :
  vinv v -> op_wf op ->
  let '(v', o) := vstep v op in
  vinv v' /\
  if is_failure op o
  then v' = v /\ refusal_op v op
  else must_fail stride hdr (v_elems v) op = false /\ o = snd (lstep (v_elems v) op) /\
       v_elems v' = fst (lstep (v_elems v) op).
Proof.
  intros Hi Hwf. pose proof Hi as (Hlen & Hsiz & Hbytes).
  pose proof (zlen_nonneg (v_elems v)) as Hl0.
  assert (Hpush : forall x,
    let '(v', o) := vpush stride hdr init_cap alloc_ok v x in
    vinv v' /\
    match o with
    | VoErr => v' = v /\ refusal v 1
    | _ => (ULONG_MAX <? (zlen (v_elems v) + 1) * stride + hdr) = false /\
           o = VoIdx (zlen (v_elems v)) x /\ v_elems v' = v_elems v ++ [x]
    end).
  { intros x. unfold vpush.
    pose proof (vreserve1_spec v 1 Hi ltac:(unfold ULONG_MAX; lia)) as Hr.
    destruct (vreserve1 v 1) as [|s|] eqn:Er.
    - split; [unfold vinv; cbn [v_siz v_elems]; rewrite zlen_app; change (zlen [x]) with 1; lia|].
      split; [|split; reflexivity]. apply Z.ltb_ge. nia.
    - destruct Hr as (H1 & H2 & H3).
      split; [unfold vinv; cbn [v_siz v_elems]; rewrite zlen_app; change (zlen [x]) with 1; lia|].
      split; [|split; reflexivity]. apply Z.ltb_ge. nia.
    - split; [assumption|]. split; [reflexivity|].
      apply vreserve1_err_gen; [assumption|unfold ULONG_MAX; lia|assumption]. }
  destruct op as [x| |n| | | | | | |]; cbn [VectorDefs.vstep].
  - specialize (Hpush x). destruct (vpush stride hdr init_cap alloc_ok v x) as [v' o].
    destruct Hpush as [Hi' Ho]. split; [assumption|].
    destruct o; cbn [is_failure]; unfold refusal_op, must_fail; cbn [request lstep fst snd];
      try (destruct Ho as (? & ? & ?); discriminate); [assumption|].
    destruct Ho as (Hm & E & El). split; [assumption|]. split; assumption.
  - specialize (Hpush 0). destruct (vpush stride hdr init_cap alloc_ok v 0) as [v' o].
    destruct Hpush as [Hi' Ho]. split; [assumption|].
    destruct o; cbn [is_failure]; unfold refusal_op, must_fail; cbn [request lstep fst snd];
      try (destruct Ho as (? & ? & ?); discriminate); [assumption|].
    destruct Ho as (Hm & E & El). split; [assumption|]. split; assumption.
  - cbn [op_wf] in Hwf. pose proof (vreserve1_spec v n Hi Hwf) as Hr.
    destruct (vreserve1 v n) as [|s|] eqn:Er; cbn [is_failure]; unfold refusal_op, must_fail; cbn [request lstep fst snd].
    + split; [assumption|]. split; [apply Z.ltb_ge; nia|split; reflexivity].
    + destruct Hr as (H1 & H2 & H3). split; [unfold vinv; cbn [v_siz v_elems]; lia|].
      split; [apply Z.ltb_ge; nia|split; reflexivity].
    + split; [assumption|]. split; [reflexivity|]. now apply vreserve1_err_gen.
  - (* pop *)
    destruct (snoc_case (v_elems v)) as [E|(r & x & E)].
    + rewrite E. cbn [is_failure lstep rev fst snd]. split; [assumption|]. split; [reflexivity|]. rewrite E. split; reflexivity.
    + rewrite E in Hlen. rewrite E.
      destruct (r ++ [x]) as [|y t] eqn:E0; [destruct r; discriminate|]. rewrite <- E0 in *.
      cbn [is_failure]. unfold must_fail. cbn [request lstep fst snd].
      rewrite rev_app_distr. cbn [rev app]. cbn [fst snd].
      rewrite rev_involutive, last_snoc, removelast_snoc. split.
      * unfold vinv; cbn [v_siz v_elems]. rewrite zlen_app in Hlen. pose proof (zlen_nonneg r).
        change (zlen [x]) with 1 in Hlen. lia.
      * split; [reflexivity|]. split; reflexivity.
  - (* clear *)
    cbn [is_failure]. unfold must_fail. cbn [request lstep fst snd v_elems].
    split; [unfold vinv; cbn [v_siz v_elems]; change (zlen []) with 0; lia|]. repeat split.
  - (* first *)
    assert (is_failure VFirst match v_elems v with [] => VoNull | x :: _ => VoIdx 0 x end = false) as ->
      by (destruct (v_elems v); reflexivity).
    split; [assumption|]. unfold must_fail. cbn [request lstep fst snd]. repeat split.
  - (* last *)
    assert (is_failure VLast match v_elems v with [] => VoNull | _ => VoIdx (zlen (v_elems v) - 1) (last (v_elems v) 0) end = false) as ->
      by (destruct (v_elems v); reflexivity).
    split; [assumption|]. unfold must_fail. cbn [request lstep fst snd]. split; [reflexivity|]. split; [|reflexivity].
    destruct (snoc_case (v_elems v)) as [E|(r & x & E)].
    + rewrite E. reflexivity.
    + rewrite E. destruct (r ++ [x]) as [|y t] eqn:E0; [destruct r; discriminate|]. rewrite <- E0.
      rewrite rev_app_distr. cbn [rev app]. now rewrite last_snoc.
  - (* sort *)
    cbn [is_failure]. unfold must_fail. cbn [request lstep fst snd].
    destruct (v_elems v) as [|y t] eqn:E.
    + split; [assumption|]. rewrite E. repeat split.
    + cbn [v_elems]. split.
      * unfold vinv; cbn [v_siz v_elems]. rewrite sorts_is_isort by assumption.
        assert (zlen (isort (y :: t)) = zlen (y :: t)) as ->
          by (unfold zlen; f_equal; symmetry; apply Permutation_length, isort_perm).
        lia.
      * split; [reflexivity|]. split; [reflexivity|]. apply sorts_is_isort; assumption.
  - cbn [is_failure]. split; [assumption|]. unfold must_fail. cbn [request lstep fst snd]. repeat split.
  - cbn [is_failure]. split; [assumption|]. unfold must_fail. cbn [request lstep fst snd]. repeat split.
Qed.

Definition trace_of (ops : list vop) (tr : list (vout * Z)) : list (vop * vout) :=
  combine ops (map fst tr).

(* a failed operation leaves the vector exactly as it was - whatever the size, whatever the allocator *)
Corollary vstep_fail_unchanged v op :
  vinv v -> op_wf op -> is_failure op (snd (vstep v op)) = true -> fst (vstep v op) = v.
Proof.
  intros Hi Hwf Hf. pose proof (vstep_refines_gen v op Hi Hwf) as H.
  destruct (vstep v op) as [v' o]. cbn [fst snd] in *. rewrite Hf in H. tauto.
Qed.

(* every operation sequence, ANY allocator (failures at any size, any time the size function says so): the
   fault-tolerant list-program oracle accepts the model's trace, the final contents are the list program's
   over the operations that succeeded, the invariant holds at the end *)
Theorem vrun_refines_any : forall ops v,
  vinv v -> Forall op_wf ops ->
  let '(v', tr) := vrun v ops in
  length tr = length ops /\
  spec_ok_vec_faulty stride hdr (v_elems v) (trace_of ops tr) = true /\
  v_elems v' = spec_final (v_elems v) (trace_of ops tr) /\
  vinv v'.
Proof.
  induction ops as [|op ops IH]; intros v Hi Hwf.
  - simpl. split; [reflexivity|]. split; [reflexivity|]. split; [reflexivity|assumption].
  - inversion Hwf as [|? ? Hop Hops]; subst. cbn [VectorDefs.vrun].
    pose proof (vstep_refines_gen v op Hi Hop) as Hs.
    destruct (vstep v op) as [v1 o]. destruct Hs as [Hi1 Hs].
    specialize (IH v1 Hi1 Hops). destruct (vrun v1 ops) as [v2 tr].
    destruct IH as (Hl & Hok & Hfin & Hi2).
    unfold trace_of in *. cbn [map fst combine length spec_ok_vec_faulty spec_final].
    split; [now rewrite Hl|].
    destruct (is_failure op o) eqn:Ef.
    + destruct Hs as [-> _]. split; [assumption|]. split; assumption.
    + destruct Hs as (Hm & -> & El). rewrite Hm, vout_eqb_refl. cbn [negb andb].
      rewrite <- El. split; [assumption|]. split; assumption.
Qed.

(* ---- an allocator that grants every request of at most 2^50 bytes ------------------------- *)
Hypothesis alloc_small : forall sz, sz <= 1125899906842624 -> alloc_ok sz = true.

(* then a failure only happens on a request that is not small *)
Lemma vstep_refines v op :
  vinv v -> op_wf op ->
  let '(v', o) := vstep v op in
  vinv v' /\
  if is_failure op o
  then v' = v /\ small_request (v_elems v) op = false
  else must_fail stride hdr (v_elems v) op = false /\ o = snd (lstep (v_elems v) op) /\
       v_elems v' = fst (lstep (v_elems v) op).
Proof.
  intros Hi Hwf. pose proof (vstep_refines_gen v op Hi Hwf) as H.
  destruct (vstep v op) as [v' o]. destruct H as [Hi' H]. split; [assumption|].
  destruct (is_failure op o); [|assumption].
  destruct H as [-> Hr]. split; [reflexivity|].
  unfold refusal_op in Hr. unfold small_request. destruct (request op) as [n|]; [|destruct Hr].
  destruct Hr as [Hr|(sz & Hsz & Ha)]; [apply Z.leb_gt; assumption|].
  rewrite alloc_small in Ha by assumption. discriminate.
Qed.

(* every operation sequence: the oracle accepts the model's trace, the final contents are the list
   program's, the invariant holds at the end *)
Theorem vrun_refines : forall ops v,
  vinv v -> Forall op_wf ops ->
  let '(v', tr) := vrun v ops in
  length tr = length ops /\
  spec_ok_vec stride hdr (v_elems v) (trace_of ops tr) = true /\
  v_elems v' = spec_final (v_elems v) (trace_of ops tr) /\
  vinv v'.
Proof.
  induction ops as [|op ops IH]; intros v Hi Hwf.
  - simpl. split; [reflexivity|]. split; [reflexivity|]. split; [reflexivity|assumption].
  - inversion Hwf as [|? ? Hop Hops]; subst. cbn [VectorDefs.vrun].
    pose proof (vstep_refines v op Hi Hop) as Hs.
    destruct (vstep v op) as [v1 o]. destruct Hs as [Hi1 Hs].
    specialize (IH v1 Hi1 Hops). destruct (vrun v1 ops) as [v2 tr].
    destruct IH as (Hl & Hok & Hfin & Hi2).
    unfold trace_of in *. cbn [map fst combine length spec_ok_vec spec_final].
    split; [now rewrite Hl|].
    destruct (is_failure op o) eqn:Ef.
    + destruct Hs as [-> Hsm]. rewrite Hsm. cbn [negb andb].
      split; [assumption|]. split; assumption.
    + destruct Hs as (Hm & -> & El). rewrite Hm, vout_eqb_refl. cbn [negb andb].
      rewrite <- El. split; [assumption|]. split; assumption.
Qed.

(* when nothing fails the outputs are exactly the list program's *)
Lemma spec_ok_no_failure : forall tr l,
  spec_ok_vec stride hdr l tr = true ->
  forallb (fun p => negb (is_failure (fst p) (snd p))) tr = true ->
  map snd tr = snd (lrun l (map fst tr)) /\ spec_final l tr = fst (lrun l (map fst tr)).
Proof.
  induction tr as [|[op o] tr IH]; intros l Hok Hnf; [split; reflexivity|].
  cbn [spec_ok_vec forallb fst snd] in *. apply andb_true_iff in Hnf. destruct Hnf as [Hf Hnf].
  apply negb_true_iff in Hf. rewrite Hf in Hok.
  apply andb_true_iff in Hok. destruct Hok as [Hok Hrest]. apply andb_true_iff in Hok. destruct Hok as [_ Ho].
  apply vout_eqb_eq in Ho. specialize (IH _ Hrest Hnf). destruct IH as [IH1 IH2].
  cbn [map fst snd lrun spec_final]. rewrite Hf.
  destruct (lstep l op) as [l1 o1] eqn:El. cbn [fst snd] in *.
  destruct (lrun l1 (map fst tr)) as [l2 os] eqn:Er. cbn [fst snd] in *.
  split; congruence.
Qed.

Lemma combine_map_fst {A B} (a : list A) (b : list B) : length b = length a -> map fst (combine a b) = a.
Proof. revert b; induction a as [|x a IH]; intros [|y b] H; simpl in *; try discriminate; [reflexivity|]. f_equal. apply IH. lia. Qed.
Lemma combine_map_snd {A B} (a : list A) (b : list B) : length b = length a -> map snd (combine a b) = b.
Proof. revert b; induction a as [|x a IH]; intros [|y b] H; simpl in *; try discriminate; [reflexivity|]. f_equal. apply IH. lia. Qed.

(* the readable form: as long as no operation reports failure, the outputs and the final contents are those
   of the list program *)
Theorem vrun_lrun : forall ops v,
  vinv v -> Forall op_wf ops ->
  let '(v', tr) := vrun v ops in
  forallb (fun p => negb (is_failure (fst p) (snd p))) (trace_of ops tr) = true ->
  map fst tr = snd (lrun (v_elems v) ops) /\ v_elems v' = fst (lrun (v_elems v) ops).
Proof.
  intros ops v Hi Hwf. pose proof (vrun_refines ops v Hi Hwf) as H.
  destruct (vrun v ops) as [v' tr]. destruct H as (Hl & Hok & Hfin & _). intros Hnf.
  pose proof (spec_ok_no_failure _ _ Hok Hnf) as [H1 H2]. unfold trace_of in *.
  rewrite combine_map_fst in H1, H2 by (now rewrite map_length).
  rewrite combine_map_snd in H1 by (now rewrite map_length).
  split; [assumption|congruence].
Qed.

End Refinement.
