(* VectorSpec.v - the growable array as the obvious list program, with no
   capacity, no header, no doubling; and the boolean oracle that replays an
   observed trace (operation, result) against it.

   Failure: ALLOC/CALLOC/RESERVE may report failure (allocation refused or size
   arithmetic would overflow).  The specification says a failed operation
   changes nothing, that a request is refused whenever the resulting element
   count times the element size plus the header cannot be represented in a
   size_t ([must_fail]), and that a small request ([small_request]: fewer than
   2^32 elements in total) is never refused when the allocator cooperates. *)
From Robsd Require Export Ks.VectorDefs.
Local Open Scope Z_scope.

Definition lstep (l : list Z) (op : vop) : list Z * vout :=
  match op with
  | VPush x => (l ++ [x], VoIdx (zlen l) x)
  | VCalloc => (l ++ [0], VoIdx (zlen l) 0)
  | VReserve _ => (l, VoInt 0)
  | VPop =>
      match rev l with
      | [] => (l, VoNull)
      | x :: r => (rev r, VoIdx (zlen l - 1) x)
      end
  | VClear => ([], VoUnit)
  | VFirst => (l, match l with [] => VoNull | x :: _ => VoIdx 0 x end)
  | VLast => (l, match rev l with [] => VoNull | x :: _ => VoIdx (zlen l - 1) x end)
  | VSort => (isort l, VoUnit)
  | VLen => (l, VoInt (zlen l))
  | VDump => (l, VoList l)
  end.

Fixpoint lrun (l : list Z) (ops : list vop) : list Z * list vout :=
  match ops with
  | [] => (l, [])
  | op :: ops' =>
      let '(l1, o) := lstep l op in
      let '(l2, os) := lrun l1 ops' in (l2, o :: os)
  end.

(* how many more elements the operation asks room for *)
Definition request (op : vop) : option Z :=
  match op with
  | VPush _ | VCalloc => Some 1
  | VReserve n => Some n
  | _ => None
  end.

Definition is_failure (op : vop) (o : vout) : bool :=
  match op, o with
  | VPush _, VoErr | VCalloc, VoErr => true
  | VReserve _, VoInt 1 => true
  | _, _ => false
  end.

Definition SMALL : Z := 4294967296.

Section Limits.
Variables stride hdr : Z.

Definition must_fail (l : list Z) (op : vop) : bool :=
  match request op with
  | Some n => ULONG_MAX <? (zlen l + n) * stride + hdr
  | None => false
  end.

Definition small_request (l : list Z) (op : vop) : bool :=
  match request op with
  | Some n => zlen l + n <=? SMALL
  | None => true
  end.

Fixpoint zlist_eqb (a b : list Z) : bool :=
  match a, b with
  | [], [] => true
  | x :: a', y :: b' => (x =? y) && zlist_eqb a' b'
  | _, _ => false
  end.

Definition vout_eqb (a b : vout) : bool :=
  match a, b with
  | VoErr, VoErr | VoNull, VoNull | VoUnit, VoUnit => true
  | VoIdx i x, VoIdx j y => (i =? j) && (x =? y)
  | VoInt n, VoInt m => n =? m
  | VoList l, VoList m => zlist_eqb l m
  | _, _ => false
  end.

(* replay of an observed trace, starting from contents l *)
Fixpoint spec_ok_vec (l : list Z) (tr : list (vop * vout)) : bool :=
  match tr with
  | [] => true
  | (op, o) :: tr' =>
      if is_failure op o then negb (small_request l op) && spec_ok_vec l tr'
      else negb (must_fail l op) && vout_eqb o (snd (lstep l op)) && spec_ok_vec (fst (lstep l op)) tr'
  end.

(* the same replay when allocation failures may strike anywhere (fault injection, a full arena): a failed
   ALLOC / CALLOC / RESERVE is accepted at any size - and must still change nothing: the replay goes on
   from the unchanged contents *)
Fixpoint spec_ok_vec_faulty (l : list Z) (tr : list (vop * vout)) : bool :=
  match tr with
  | [] => true
  | (op, o) :: tr' =>
      if is_failure op o then spec_ok_vec_faulty l tr'
      else negb (must_fail l op) && vout_eqb o (snd (lstep l op)) && spec_ok_vec_faulty (fst (lstep l op)) tr'
  end.

(* the contents the specification arrives at after the trace *)
Fixpoint spec_final (l : list Z) (tr : list (vop * vout)) : list Z :=
  match tr with
  | [] => l
  | (op, o) :: tr' => if is_failure op o then spec_final l tr' else spec_final (fst (lstep l op)) tr'
  end.

End Limits.
