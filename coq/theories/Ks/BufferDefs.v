(* BufferDefs.v - executable model of libks/buffer.c.

   struct buffer { callbacks; bf_ptr; bf_siz; bf_len }.  Model state: capacity
   [b_siz] (0 = no allocation, bf_ptr NULL after buffer_release) and the live
   bytes [b_data] (length = bf_len).  Parameters: [init_cap] (the literal 16 of
   buffer_reserve), [alloc_ok] (does realloc satisfy a request of that size).

   buffer_vprintf is modelled as "append an already formatted byte string":
   first pass vsnprintf(NULL, 0) = its length n, reservation of n + 1, second
   pass writes n bytes and a NUL beyond the new length.  What vsnprintf makes
   of a format is libc's (trusted base). *)
From Robsd Require Export Base.Bytes Ks.VectorDefs.
From RobsdGen Require Gen_KsConst.
Local Open Scope Z_scope.

Inductive bop :=
  | BPuts (s : bytes)      (* buffer_puts(bf, s, |s|) *)
  | BPutc (c : N)
  | BPrintf (s : bytes)    (* buffer_printf(bf, fmt, ...) whose formatted output is s (no NUL inside) *)
  | BPutsHuge (n : Z)      (* buffer_puts with a length that cannot be satisfied *)
  | BStr                   (* buffer_str: NUL-terminate, hand out the storage (seen by the caller as a C string), leave the buffer empty *)
  | BReset
  | BPop (n : Z)
  | BCmp (s : bytes)       (* buffer_cmp(bf, other) where other holds s *)
  | BLen
  | BDump                  (* bytes [0, len) behind buffer_get_ptr *)
  | BLines.                (* all lines through buffer_getline *)

Inductive bout :=
  | BoInt (r : Z)
  | BoBytes (l : bytes)
  | BoNull
  | BoUnit
  | BoLines (ls : list bytes).

Record buf := mkbuf { b_siz : Z; b_data : bytes }.

(* memcmp's sign on equally long strings, bytes compared as unsigned char *)
Fixpoint memcmp_sign (a b : bytes) : Z :=
  match a, b with
  | x :: a', y :: b' => if (x <? y)%N then -1 else if (y <? x)%N then 1 else memcmp_sign a' b'
  | _, _ => 0
  end.

(* split at the first newline: (line, rest after the newline, was there a newline) *)
Fixpoint cut_line (l : bytes) : bytes * bytes :=
  match l with
  | [] => ([], [])
  | c :: l' => if (c =? 10)%N then ([], l') else let '(a, r) := cut_line l' in (c :: a, r)
  end.

(* buffer_getline_impl iterated until it returns NULL: the buffer's bytes from
   offset [off] on are [rest]; every returned line is the C string made of the
   bytes up to the newline (or the end), then off += linelen + 1 *)
Fixpoint getline_loop (fuel : nat) (rest : bytes) : list bytes :=
  match fuel with
  | O => []
  | S f =>
      match rest with
      | [] => []                                  (* off >= len: done *)
      | _ => let '(line, rest') := cut_line rest in cstr line :: getline_loop f rest'
      end
  end.

Section Buffer.
Variable init_cap : Z.
Variable alloc_ok : Z -> bool.

(* buffer_reserve(bf, n): None = failure, Some newsiz *)
Definition breserve (b : buf) (n : Z) : option Z :=
  let len := zlen (b_data b) in
  if ULONG_MAX - len <? n then None
  else if (0 <? b_siz b) && (len + n <=? b_siz b) then Some (b_siz b)
  else match grow GROW_FUEL (if b_siz b =? 0 then init_cap else b_siz b) (len + n) with
       | None => None
       | Some s => if alloc_ok s then Some s else None
       end.

Definition bputs (b : buf) (s : bytes) : buf * bout :=
  match s with
  | [] => (b, BoInt 0)
  | _ => match breserve b (zlen s) with
         | None => (b, BoInt 1)
         | Some siz => (mkbuf siz (b_data b ++ s), BoInt 0)
         end
  end.

Definition bstep (b : buf) (op : bop) : buf * bout :=
  match op with
  | BPuts s => bputs b s
  | BPutc c => bputs b [c]
  | BPrintf s =>
      (* the reservation is the expression regenerated from buffer_vprintf: (size_t)n + 1 *)
      match breserve b (Gen_KsConst.printf_reserve (zlen s)) with
      | None => (b, BoInt 1)
      | Some siz =>
          if siz - zlen (b_data b) <=? zlen s then (mkbuf siz (b_data b), BoInt 1)
          else (mkbuf siz (b_data b ++ s), BoInt 0)
      end
  | BPutsHuge n =>
      if n =? 0 then (b, BoInt 0)
      else match breserve b n with
           | None => (b, BoInt 1)
           | Some siz => (mkbuf siz (b_data b), BoInt 2)   (* the harness never lets this happen: memcpy would run *)
           end
  | BStr =>
      let needs_nul := match rev (b_data b) with [] => true | c :: _ => negb (c =? 0)%N end in
      if needs_nul then
        match breserve b 1 with
        | None => (b, BoNull)
        | Some _ => (mkbuf 0 [], BoBytes (cstr (b_data b ++ [0%N])))
        end
      else (mkbuf 0 [], BoBytes (cstr (b_data b)))
  | BReset => (mkbuf (b_siz b) [], BoUnit)
  | BPop n =>
      let len := zlen (b_data b) in
      let k := if len <? n then len else n in
      (mkbuf (b_siz b) (firstn (Z.to_nat (len - k)) (b_data b)), BoInt k)
  | BCmp s =>
      (b, BoInt (if negb (zlen (b_data b) =? zlen s) then 1
                 else if zlen (b_data b) =? 0 then 0 else memcmp_sign (b_data b) s))
  | BLen => (b, BoInt (zlen (b_data b)))
  | BDump => (b, BoBytes (b_data b))
  | BLines => (b, BoLines (getline_loop (S (length (b_data b))) (b_data b)))
  end.

Fixpoint brun (b : buf) (ops : list bop) : buf * list (bout * Z) :=
  match ops with
  | [] => (b, [])
  | op :: ops' =>
      let '(b1, o) := bstep b op in
      let '(b2, tr) := brun b1 ops' in
      (b2, (o, b_siz b1) :: tr)
  end.

(* buffer_alloc(init_size) *)
Definition balloc (init_size : Z) : option buf :=
  match breserve (mkbuf 0 []) init_size with
  | None => None
  | Some s => Some (mkbuf s [])
  end.

End Buffer.
