(* BufferRun.v - the buffer at the level of BYTES over whole operation sequences ("growth preserves
   contents" for buffers, the twin of Ks/VectorMem.v).

   BufferDefs.v keeps the live bytes as a list, so a reallocation cannot lose anything there.  Here the buffer
   is what libks/buffer.c manages: the capacity bf_siz, the length bf_len and the BLOCK bf_ptr points to
   ([mb_raw], bf_siz bytes; absent = the empty list after buffer_release).  The block changes only through
     - the realloc callback  bf_callbacks.realloc(bf->bf_ptr, <old size>, newsiz, arg)  - ANY function [mv]
       returning a block of the new size whose first <old size> bytes are those of the old block
       (realloc(3); arena_realloc: memcpy of old_size bytes); what lies beyond is whatever the allocator left;
       <old size> = [oldsize len siz], the expression regenerated from buffer_reserve (Gen_KsConst.buffer_oldlen);
     - the store of the appended bytes at offset bf_len ([poke]): the argument of buffer_puts / buffer_putc,
       the formatted string AND its NUL for buffer_vprintf (which reserves Gen_KsConst.printf_reserve bytes),
       the NUL of buffer_str.
   The capacity arithmetic is BufferDefs.breserve, unchanged.  Every answer that depends on the contents
   (dump, lines, cmp, str) is computed from the bytes READ FROM THE BLOCK ([view]).

   Theorem [bmrun_views]: if len <= oldsize len siz <= siz, then for EVERY allocator, mover and operation
   sequence the bytes read from the block after each operation are the abstract contents of BufferDefs.brun,
   every answer is brun's, and the block has the size the capacity says. *)
From Coq Require Import Lia.
From Robsd Require Import Base.Bytes Ks.BufferSpec Ks.BufferProofs Ks.VectorProofs Ks.VectorMem Ks.BufferMem.
From RobsdGen Require Gen_KsConst.
Local Open Scope Z_scope.

Record mbuf := mkmbuf { mb_siz : Z; mb_len : Z; mb_raw : bytes }.

(* the abstract buffer read off the block *)
Definition view (m : mbuf) : buf := mkbuf (mb_siz m) (firstn (Z.to_nat (mb_len m)) (mb_raw m)).

Section BRun.
Variable init_cap : Z.
Variable alloc_ok : Z -> bool.
Variable mv : bytes -> Z -> Z -> bytes.
Variable oldsize : Z -> Z -> Z.

Notation breserve := (breserve init_cap alloc_ok).

(* buffer_reserve succeeded with capacity newsiz: the block is the old one, or went through the callback *)
Definition reserve_raw (m : mbuf) (newsiz : Z) : bytes :=
  if newsiz =? mb_siz m then mb_raw m else mv (mb_raw m) (oldsize (mb_len m) (mb_siz m)) newsiz.

Definition append (m : mbuf) (newsiz : Z) (s : bytes) : mbuf :=
  mkmbuf newsiz (mb_len m + zlen s) (poke (reserve_raw m newsiz) (Z.to_nat (mb_len m)) s).

Definition needs_nul (data : bytes) : bool := match rev data with [] => true | c :: _ => negb (c =? 0)%N end.

Definition bmstep (m : mbuf) (op : bop) : mbuf * bout :=
  let b := view m in
  let len := mb_len m in
  match op with
  | BPuts s =>
      match s with
      | [] => (m, BoInt 0)
      | _ => match breserve b (zlen s) with None => (m, BoInt 1) | Some siz => (append m siz s, BoInt 0) end
      end
  | BPutc c => match breserve b 1 with None => (m, BoInt 1) | Some siz => (append m siz [c], BoInt 0) end
  | BPrintf s =>
      match breserve b (Gen_KsConst.printf_reserve (zlen s)) with
      | None => (m, BoInt 1)
      | Some siz =>
          if siz - len <=? zlen s then (mkmbuf siz len (reserve_raw m siz), BoInt 1)
          else (mkmbuf siz (len + zlen s) (poke (reserve_raw m siz) (Z.to_nat len) (s ++ [0%N])), BoInt 0)
      end
  | BPutsHuge n =>
      if n =? 0 then (m, BoInt 0)
      else match breserve b n with None => (m, BoInt 1) | Some siz => (mkmbuf siz len (reserve_raw m siz), BoInt 2) end
  | BStr =>
      if needs_nul (b_data b) then
        match breserve b 1 with
        | None => (m, BoNull)
        | Some siz =>
            (mkmbuf 0 0 [], BoBytes (cstr (firstn (Z.to_nat (len + 1)) (poke (reserve_raw m siz) (Z.to_nat len) [0%N]))))
        end
      else (mkmbuf 0 0 [], BoBytes (cstr (b_data b)))
  | BReset => (mkmbuf (mb_siz m) 0 (mb_raw m), BoUnit)
  | BPop n => let k := if len <? n then len else n in (mkmbuf (mb_siz m) (len - k) (mb_raw m), BoInt k)
  | BCmp _ | BLen | BDump | BLines => (m, snd (bstep init_cap alloc_ok b op))
  end.

Fixpoint bmrun (m : mbuf) (ops : list bop) : mbuf * list bout :=
  match ops with
  | [] => (m, [])
  | op :: ops' => let '(m1, o) := bmstep m op in let '(m2, os) := bmrun m1 ops' in (m2, o :: os)
  end.

(* ---- proofs ------------------------------------------------------------------------------------ *)
Hypothesis init_range : 0 < init_cap <= 65536.
Hypothesis alloc_bounded : forall sz, alloc_ok sz = true -> sz <= 4611686018427387904.
Hypothesis mv_len : forall raw old new, 0 <= new -> zlen (mv raw old new) = new.
Hypothesis mv_keep : forall raw old new, 0 <= old <= zlen raw -> old <= new ->
  firstn (Z.to_nat old) (mv raw old new) = firstn (Z.to_nat old) raw.
Hypothesis oldsize_ok : forall len siz, 0 <= len <= siz -> len <= oldsize len siz <= siz.

Definition MI (m : mbuf) : Prop :=
  0 <= mb_len m <= mb_siz m /\ zlen (mb_raw m) = mb_siz m /\ mb_siz m <= 4611686018427387904.

Lemma view_len m : MI m -> zlen (b_data (view m)) = mb_len m.
Proof. intros (Hl & Hr & _). unfold view. cbn [b_data]. apply zlen_firstn. lia. Qed.

Lemma view_binv m : MI m -> binv (view m).
Proof. intros Hm. pose proof (view_len m Hm) as E. destruct Hm as (Hl & Hr & Hs). unfold binv. rewrite E. cbn [view b_siz]. lia. Qed.

(* a successful reservation: the block has the new size and its first len bytes are the old ones *)
Lemma reserve_ok m n siz :
  MI m -> 0 <= n <= ULONG_MAX -> breserve (view m) n = Some siz ->
  zlen (reserve_raw m siz) = siz /\
  firstn (Z.to_nat (mb_len m)) (reserve_raw m siz) = firstn (Z.to_nat (mb_len m)) (mb_raw m) /\
  mb_len m + n <= siz /\ mb_siz m <= siz /\ 0 < siz <= 4611686018427387904.
Proof.
  intros Hm Hn Hr. pose proof (breserve_spec init_cap alloc_ok init_range alloc_bounded (view m) n (view_binv m Hm) Hn) as Hs.
  rewrite Hr in Hs. rewrite (view_len m Hm) in Hs. cbn [view b_siz] in Hs. destruct Hs as (H1 & H2 & H3).
  destruct Hm as (Hl & Hraw & Hsz). unfold reserve_raw.
  destruct (Z.eqb_spec siz (mb_siz m)) as [->|Hne].
  - repeat split; try lia.
  - pose proof (buffer_growth_keeps mv oldsize mv_len mv_keep oldsize_ok (mb_raw m) (mb_len m) (mb_siz m) siz Hraw Hl H2) as [G1 G2].
    repeat split; try lia; assumption.
Qed.

Lemma firstn_poke_app raw len s :
  (len + length s <= length raw)%nat -> firstn (len + length s) (poke raw len s) = firstn len raw ++ s.
Proof. intros H. unfold poke. apply buffer_append_bytes. assumption. Qed.

(* appending s behind len bytes of a block that has room *)
Lemma append_ok m siz s raw1 :
  0 <= mb_len m -> zlen raw1 = siz -> mb_len m + zlen s <= siz ->
  zlen (poke raw1 (Z.to_nat (mb_len m)) s) = siz /\
  firstn (Z.to_nat (mb_len m + zlen s)) (poke raw1 (Z.to_nat (mb_len m)) s) = firstn (Z.to_nat (mb_len m)) raw1 ++ s.
Proof.
  intros H0 Hr Hfit. unfold zlen in *.
  assert (Hn : (Z.to_nat (mb_len m) + length s <= length raw1)%nat) by lia.
  split.
  - rewrite poke_length by assumption. assumption.
  - replace (Z.to_nat (mb_len m + Z.of_nat (length s))) with (Z.to_nat (mb_len m) + length s)%nat by lia.
    apply firstn_poke_app. assumption.
Qed.

Lemma zlen_cons {A} (c : A) l : zlen (c :: l) = 1 + zlen l.
Proof. unfold zlen. cbn [length]. lia. Qed.

Lemma bmstep_views m op :
  MI m -> bop_wf op -> bsize_ok op ->
  view (fst (bmstep m op)) = fst (bstep init_cap alloc_ok (view m) op) /\
  snd (bmstep m op) = snd (bstep init_cap alloc_ok (view m) op) /\
  MI (fst (bmstep m op)).
Proof.
  intros Hm Hwf Hsz. pose proof Hm as (Hl & Hraw & Hs). pose proof (view_len m Hm) as Evl.
  destruct op as [s|c|s|n| | |n|s| | |]; cbn [bmstep BufferDefs.bstep].
  - (* puts *)
    destruct s as [|c s]; [cbn [bputs fst snd]; split; [reflexivity|split; [reflexivity|exact Hm]]|].
    unfold bputs. cbn [bsize_ok] in Hsz. pose proof (zlen_nonneg (c :: s)) as Hs0.
    destruct (breserve (view m) (zlen (c :: s))) as [siz|] eqn:Er; cbn [fst snd]; [|split; [reflexivity|split; [reflexivity|exact Hm]]].
    destruct (reserve_ok m (zlen (c :: s)) siz Hm ltac:(lia) Er) as (R1 & R2 & R3 & R4 & R5).
    destruct (append_ok m siz (c :: s) _ ltac:(lia) R1 R3) as [A1 A2].
    split; [|split; [reflexivity|]].
    + unfold view, append. cbn [mb_siz mb_len mb_raw b_data]. f_equal. rewrite A2, R2. reflexivity.
    + unfold MI, append. cbn [mb_siz mb_len mb_raw]. lia.
  - (* putc *)
    unfold bputs. change (zlen [c]) with 1.
    destruct (breserve (view m) 1) as [siz|] eqn:Er; cbn [fst snd]; [|split; [reflexivity|split; [reflexivity|exact Hm]]].
    destruct (reserve_ok m 1 siz Hm ltac:(unfold ULONG_MAX; lia) Er) as (R1 & R2 & R3 & R4 & R5).
    assert (Hz : zlen [c] = 1) by reflexivity.
    destruct (append_ok m siz [c] _ ltac:(lia) R1 ltac:(lia)) as [A1 A2].
    split; [|split; [reflexivity|]].
    + unfold view, append. cbn [mb_siz mb_len mb_raw b_data]. f_equal. rewrite A2, R2. reflexivity.
    + unfold MI, append. cbn [mb_siz mb_len mb_raw]. lia.
  - (* printf *)
    cbn [bsize_ok] in Hsz. pose proof (zlen_nonneg s) as Hs0.
    assert (Epr : Gen_KsConst.printf_reserve (zlen s) = zlen s + 1) by reflexivity.
    destruct (breserve (view m) (Gen_KsConst.printf_reserve (zlen s))) as [siz|] eqn:Er; cbn [fst snd]; [|split; [reflexivity|split; [reflexivity|exact Hm]]].
    rewrite Epr in Er.
    destruct (reserve_ok m (zlen s + 1) siz Hm ltac:(lia) Er) as (R1 & R2 & R3 & R4 & R5).
    rewrite Evl. destruct (Z.leb_spec (siz - mb_len m) (zlen s)) as [Hbad|Hgood]; cbn [fst snd].
    + split; [|split; [reflexivity|]].
      * unfold view. cbn [mb_siz mb_len mb_raw]. f_equal. exact R2.
      * unfold MI. cbn [mb_siz mb_len mb_raw]. lia.
    + assert (Hz : zlen (s ++ [0%N]) = zlen s + 1) by (rewrite zlen_app; reflexivity).
      destruct (append_ok m siz (s ++ [0%N]) _ ltac:(lia) R1 ltac:(lia)) as [A1 A2].
      split; [|split; [reflexivity|]].
      * unfold view. cbn [mb_siz mb_len mb_raw b_data]. f_equal.
        (* the live bytes are the first len + |s| of the len + |s| + 1 just written *)
        assert (E : firstn (Z.to_nat (mb_len m + zlen s)) (poke (reserve_raw m siz) (Z.to_nat (mb_len m)) (s ++ [0%N])) =
                    firstn (Z.to_nat (mb_len m + zlen s)) (firstn (Z.to_nat (mb_len m + zlen (s ++ [0%N]))) (poke (reserve_raw m siz) (Z.to_nat (mb_len m)) (s ++ [0%N])))).
        { rewrite firstn_firstn. f_equal. lia. }
        rewrite E, A2, R2. clear E.
        rewrite app_assoc, firstn_app.
        assert (Hlen : length (firstn (Z.to_nat (mb_len m)) (mb_raw m) ++ s) = Z.to_nat (mb_len m + zlen s)).
        { rewrite app_length, firstn_length. unfold zlen in *. lia. }
        rewrite Hlen, Nat.sub_diag. cbn [firstn]. rewrite app_nil_r. rewrite <- Hlen. apply firstn_all.
      * unfold MI. cbn [mb_siz mb_len mb_raw]. lia.
  - (* huge *)
    cbn [bop_wf] in Hwf. destruct (Z.eqb_spec n 0) as [->|Hn0]; cbn [fst snd]; [split; [reflexivity|split; [reflexivity|exact Hm]]|].
    destruct Hwf as [->|Hn]; [congruence|].
    destruct (breserve (view m) n) as [siz|] eqn:Er; cbn [fst snd]; [|split; [reflexivity|split; [reflexivity|exact Hm]]].
    destruct (reserve_ok m n siz Hm ltac:(lia) Er) as (R1 & R2 & R3 & R4 & R5).
    split; [|split; [reflexivity|]].
    + unfold view. cbn [mb_siz mb_len mb_raw]. f_equal. exact R2.
    + unfold MI. cbn [mb_siz mb_len mb_raw]. lia.
  - (* str *)
    fold (needs_nul (b_data (view m))). destruct (needs_nul (b_data (view m))); cbn [fst snd].
    + destruct (breserve (view m) 1) as [siz|] eqn:Er; cbn [fst snd]; [|split; [reflexivity|split; [reflexivity|exact Hm]]].
      destruct (reserve_ok m 1 siz Hm ltac:(unfold ULONG_MAX; lia) Er) as (R1 & R2 & R3 & R4 & R5).
      assert (Hz : zlen [0%N] = 1) by reflexivity.
      destruct (append_ok m siz [0%N] _ ltac:(lia) R1 ltac:(lia)) as [A1 A2]. rewrite Hz in A2.
      split; [reflexivity|]. split; [|unfold MI; cbn [mb_siz mb_len mb_raw]; change (zlen []) with 0; lia].
      f_equal. f_equal. rewrite A2, R2. reflexivity.
    + split; [reflexivity|]. split; [reflexivity|unfold MI; cbn [mb_siz mb_len mb_raw]; change (zlen []) with 0; lia].
  - (* reset *)
    cbn [fst snd]. split; [reflexivity|]. split; [reflexivity|]. unfold MI. cbn [mb_siz mb_len mb_raw]. lia.
  - (* pop *)
    cbn [bop_wf] in Hwf. rewrite Evl. cbn [fst snd].
    set (k := if mb_len m <? n then mb_len m else n).
    assert (Hk : 0 <= k <= mb_len m) by (unfold k; destruct (Z.ltb_spec (mb_len m) n); lia).
    split; [|split; [reflexivity|]].
    + unfold view. cbn [mb_siz mb_len mb_raw b_siz b_data]. f_equal. rewrite firstn_firstn. f_equal. lia.
    + unfold MI. cbn [mb_siz mb_len mb_raw]. lia.
  - cbn [fst snd]. split; [reflexivity|split; [reflexivity|exact Hm]].
  - cbn [fst snd]. split; [reflexivity|split; [reflexivity|exact Hm]].
  - cbn [fst snd]. split; [reflexivity|split; [reflexivity|exact Hm]].
  - cbn [fst snd]. split; [reflexivity|split; [reflexivity|exact Hm]].
Qed.

Theorem bmrun_views : forall ops m,
  MI m -> Forall bop_wf ops -> Forall bsize_ok ops ->
  let '(m', os) := bmrun m ops in
  view m' = fst (brun init_cap alloc_ok (view m) ops) /\
  os = map fst (snd (brun init_cap alloc_ok (view m) ops)) /\
  MI m'.
Proof.
  induction ops as [|op ops IH]; intros m Hm Hwf Hsz; [cbn [bmrun BufferDefs.brun fst snd map]; split; [reflexivity|split; [reflexivity|exact Hm]]|].
  inversion Hwf as [|? ? Hop Hops]; subst. inversion Hsz as [|? ? Hs1 Hs2]; subst.
  cbn [bmrun BufferDefs.brun].
  pose proof (bmstep_views m op Hm Hop Hs1) as (Hv & Ho & Hm1).
  destruct (bmstep m op) as [m1 o]. cbn [fst snd] in *.
  destruct (bstep init_cap alloc_ok (view m) op) as [b1 o1]. cbn [fst snd] in *. subst b1 o1.
  specialize (IH m1 Hm1 Hops Hs2). destruct (bmrun m1 ops) as [m2 os].
  destruct (brun init_cap alloc_ok (view m1) ops) as [b2 tr]. cbn [fst snd map] in *.
  destruct IH as (I1 & I2 & I3). split; [assumption|]. split; [f_equal; assumption|assumption].
Qed.

End BRun.

(* buffer_alloc: the block buffer_alloc obtained, of any contents *)
Definition mbuf_alloc (siz : Z) (raw : bytes) : mbuf := mkmbuf siz 0 raw.

Lemma MI_alloc siz raw : 0 <= siz <= 4611686018427387904 -> zlen raw = siz -> MI (mbuf_alloc siz raw).
Proof. intros H Hr. unfold MI, mbuf_alloc. cbn [mb_siz mb_len mb_raw]. lia. Qed.
