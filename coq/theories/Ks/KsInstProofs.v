(* KsInstProofs.v - the hypotheses of the refinement theorems hold for the
   constants regenerated from the sources and for the executed instance. *)
From Robsd Require Import Ks.KsInst Ks.VectorProofs Ks.BufferProofs.
From RobsdGen Require Import Gen_KsConst.
Local Open Scope Z_scope.

Lemma vector_init_cap_ok : 0 < vector_init_cap <= 65536.
Proof. unfold vector_init_cap. lia. Qed.
Lemma buffer_init_cap_ok : 0 < buffer_init_cap <= 65536.
Proof. unfold buffer_init_cap. lia. Qed.

Lemma alloc_inst_small sz : sz <= 1125899906842624 -> alloc_ok_inst sz = true.
Proof. intros H. unfold alloc_ok_inst. apply Z.leb_le. assumption. Qed.
Lemma alloc_inst_bounded sz : alloc_ok_inst sz = true -> sz <= 4611686018427387904.
Proof. unfold alloc_ok_inst. intros H. apply Z.leb_le in H. lia. Qed.

(* every trace the executed vector model produces is accepted by the list-program oracle *)
Lemma vrun_inst_ok stride hdr ops :
  0 < stride <= 65536 -> 0 <= hdr <= 65536 -> Forall op_wf ops ->
  spec_ok_vec_inst stride hdr (trace_of ops (vrun_inst stride hdr ops)) = true.
Proof.
  intros Hs Hh Hwf. unfold spec_ok_vec_inst, vrun_inst.
  pose proof (vrun_refines stride hdr vector_init_cap alloc_ok_inst isort Hs Hh vector_init_cap_ok
                isort_sorts alloc_inst_small ops vec0 (vinv0 stride hdr Hh) Hwf) as H.
  destruct (vrun stride hdr vector_init_cap alloc_ok_inst isort vec0 ops) as [v' tr].
  destruct H as (_ & Hok & _). exact Hok.
Qed.

Lemma brun_inst_ok init ops :
  0 <= init <= ULONG_MAX -> Forall bop_wf ops -> Forall bsize_ok ops ->
  match brun_inst init ops with
  | None => True
  | Some (_, tr) => spec_ok_buf_inst (btrace_of ops tr) = true
  end.
Proof.
  intros Hinit Hwf Hsz. unfold brun_inst, spec_ok_buf_inst.
  destruct (balloc buffer_init_cap alloc_ok_inst init) as [b|] eqn:Eb; [|exact I].
  pose proof (binv_alloc buffer_init_cap alloc_ok_inst buffer_init_cap_ok alloc_inst_bounded
                init b Hinit Eb) as [Hi Hd].
  pose proof (brun_refines buffer_init_cap alloc_ok_inst buffer_init_cap_ok alloc_inst_bounded alloc_inst_small
                ops b Hi Hwf Hsz) as H.
  destruct (brun buffer_init_cap alloc_ok_inst b ops) as [b' tr]. cbn [snd].
  destruct H as (_ & Hok & _). rewrite Hd in Hok. exact Hok.
Qed.

(* ---- map ---------------------------------------------------------------------------- *)
From Robsd Require Import Ks.MapProofs Ks.MapIterProofs.

(* HASH_INITIAL_NUM_BUCKETS is 2 ^ HASH_INITIAL_NUM_BUCKETS_LOG2 *)
Lemma map_nb_pow2 : exists k, map_nb = (2 ^ k)%N.
Proof. exists map_log2. vm_compute. reflexivity. Qed.

(* the dictionary oracle accepts every trace of the executed map model *)
Lemma mrun_inst_ok ops : spec_ok_map ops (map fst (fst (mrun_inst ops))) = true.
Proof.
  unfold spec_ok_map, mrun_inst. destruct (disciplined dict0 ops) eqn:Ed; [|reflexivity].
  pose proof (mrun_refines hash_jen map_nb map_log2 map_thresh map_nb_pow2 ops map0 dict0 (R0 hash_jen) Ed) as [H _].
  destruct (mrun hash_jen map_nb map_log2 map_thresh map0 ops) as [m tr]. cbn [fst snd] in *.
  rewrite H. apply mouts_eqb_refl.
Qed.
