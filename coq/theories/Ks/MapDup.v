(* MapDup.v - what the table model of MapDefs.v guarantees WITHOUT the call-site
   discipline "insert only absent keys": every lemma here needs the structural
   invariant [minv] only (never [keys_nodup] / [disciplined]), and [minv] is shown
   to hold after EVERY operation sequence from the empty map.

     hfind_sound / hfind_none_iff   lookup answers some live element with that key,
                                     NULL exactly when no live element has the key
     mremove_one                    MAP_REMOVE takes out exactly the element the
                                     lookup answers, everything else stays
     mstep_multi / mrun_multi       every operation sequence is a run of the
                                     multi-dictionary of MapMultiSpec.v
     spec_ok_multi_model            ... so that oracle accepts every trace of the model
     mdrun_sound                    and the oracle accepts only runs of the relation
   The duplicate the lookup answers is NOT stable: see KsInstProofs
   (dup_lookup_flips), replayed on libks in findings/C20_map_duplicate_keys.md. *)
From Coq Require Import Lia.
From Robsd Require Import Ks.MapMultiSpec Ks.MapProofs Ks.MapIterProofs.
Local Open Scope N_scope.

Lemma filter_nil_iff {A} (f : A -> bool) l : filter f l = [] <-> forall x, In x l -> f x = false.
Proof.
  induction l as [|x l IH]; simpl; [split; [intros _ ? []|reflexivity]|].
  destruct (f x) eqn:E.
  - split; [discriminate|]. intros H. rewrite (H x (or_introl eq_refl)) in E. discriminate.
  - rewrite IH. split; [intros H y [<-|Hy]; auto|intros H y Hy; apply H; now right].
Qed.

Section Dup.
Variable hash : bytes -> N.
Variables init_nb init_log2 thresh : N.
Hypothesis init_pow2 : exists k, init_nb = 2 ^ k.

Notation hfind := (hfind hash).
Notation hinsert := (hinsert hash init_nb init_log2 thresh).
Notation mstep := (mstep hash init_nb init_log2 thresh).
Notation mrun := (mrun hash init_nb init_log2 thresh).
Notation minv := (minv hash).

(* ---- lookup ---------------------------------------------------------------------- *)

Lemma hfind_sound m k e : minv m -> hfind m k = Some e -> In e (m_list m) /\ e_key e = k.
Proof.
  intros (Hh & Hid & Hnd & Ht) Hf. unfold MapDefs.hfind in Hf.
  destruct (m_tbl m) as [t|]; [|discriminate].
  destruct Ht as [Hne (Hlen & (kk & Hkk) & Hmem)].
  apply find_some in Hf. destruct Hf as [Hin Hm].
  unfold key_matches in Hm. apply andb_true_iff in Hm. destruct Hm as [_ Hb]. apply beq_eq in Hb.
  split; [|assumption].
  assert (Hi : (to_bkt (hash k) (t_nb t) < length (t_bkts t))%nat) by (rewrite Hlen, Hkk; apply to_bkt_lt).
  apply (Hmem _ e Hi) in Hin. tauto.
Qed.

Lemma hfind_none_iff m k : minv m -> (hfind m k = None <-> ~ In k (map e_key (m_list m))).
Proof.
  intros Hi. split.
  - intros Hf Hin. apply in_map_iff in Hin. destruct Hin as (e & Ek & He).
    destruct Hi as (Hh & Hid & Hnd & Ht). unfold MapDefs.hfind in Hf.
    destruct (m_tbl m) as [t|]; [|rewrite Ht in He; destruct He].
    destruct Ht as [Hne (Hlen & (kk & Hkk) & Hmem)].
    rewrite find_none_iff in Hf.
    assert (Hlt : (to_bkt (hash k) (t_nb t) < length (t_bkts t))%nat) by (rewrite Hlen, Hkk; apply to_bkt_lt).
    assert (Hc : In e (bk_chain (nth (to_bkt (hash k) (t_nb t)) (t_bkts t) empty_bkt))).
    { apply Hmem; [assumption|]. split; [assumption|]. rewrite (Hh e He), Ek. reflexivity. }
    specialize (Hf e Hc). unfold key_matches in Hf. rewrite (Hh e He), Ek, N.eqb_refl, beq_refl in Hf. discriminate.
  - intros Hn. destruct (hfind m k) as [e|] eqn:Hf; [|reflexivity].
    exfalso. apply Hn. destruct (hfind_sound m k e Hi Hf) as [Hin <-]. now apply in_map.
Qed.

(* the two together, in the form of the review's sketch *)
Theorem hfind_sound_complete m k :
  minv m ->
  (forall e, hfind m k = Some e -> In e (m_list m) /\ e_key e = k) /\
  (hfind m k = None <-> ~ In k (map e_key (m_list m))).
Proof. intros Hi. split; [intros e; apply hfind_sound; assumption|apply hfind_none_iff; assumption]. Qed.

(* ---- deletion -------------------------------------------------------------------- *)

Lemma hdelete_inv m d :
  minv m -> In d (m_list m) ->
  minv (hdelete m d) /\
  m_list (hdelete m d) = drop_id (e_id d) (m_list m) /\
  m_next (hdelete m d) = m_next m /\ m_it (hdelete m d) = m_it m.
Proof.
  intros (Hh & Hid & Hnd & Ht) Hd. unfold hdelete.
  destruct (m_tbl m) as [t|] eqn:Et; [|rewrite Ht in Hd; destruct Hd].
  destruct Ht as [Hne (Hlen & (kk & Hkk) & Hmem)].
  assert (Hsub : forall e, In e (drop_id (e_id d) (m_list m)) -> In e (m_list m)) by (intros e He; apply drop_id_in in He; tauto).
  assert (Hnd' : NoDup (map e_id (drop_id (e_id d) (m_list m)))) by (apply nodup_map_filter; assumption).
  destruct (drop_id (e_id d) (m_list m)) as [|y l'] eqn:El.
  - cbn [m_list m_tbl m_next m_it]. split; [|repeat split].
    unfold MapProofs.minv. cbn [m_list m_tbl m_next]. repeat split; try (intros ? []); constructor.
  - rewrite <- El in *. cbn [m_list m_tbl m_next m_it]. split; [|repeat split].
    unfold MapProofs.minv. cbn [m_list m_tbl m_next].
    split; [intros e He; apply Hh, Hsub, He|]. split; [intros e He; apply Hid, Hsub, He|].
    split; [assumption|]. split; [rewrite El; discriminate|].
    set (i := to_bkt (e_hash d) (t_nb t)).
    assert (Hi : (i < length (t_bkts t))%nat) by (unfold i; rewrite Hlen, Hkk; apply to_bkt_lt).
    unfold bkt_ok. cbn [t_bkts t_nb]. rewrite upd_length. split; [assumption|]. split; [eauto|].
    intros j e Hj. rewrite nth_upd by assumption.
    destruct (Nat.eqb_spec i j) as [E|E]; cbn [bk_chain].
    + subst j. rewrite !drop_id_in, (Hmem i e Hi). tauto.
    + rewrite (Hmem j e Hj), drop_id_in. split; [|tauto].
      intros [Hin Hb]. split; [split; [assumption|]|assumption].
      intros Eid. assert (e = d) by (eapply nodup_map_inj; [exact Hnd|assumption|assumption|assumption]).
      subst e. unfold i in E. contradiction.
Qed.

(* MAP_REMOVE(k): nothing when no live element has the key; otherwise exactly the element the lookup
   answers disappears - the list keeps every other element, in order *)
Definition mremove (m : hmap) (k : bytes) : hmap := fst (mstep m (MRemove k)).

Theorem mremove_one m k :
  minv m ->
  minv (mremove m k) /\ m_next (mremove m k) = m_next m /\ m_it (mremove m k) = m_it m /\
  match hfind m k with
  | None => ~ In k (map e_key (m_list m)) /\ mremove m k = m
  | Some e => In e (m_list m) /\ e_key e = k /\ m_list (mremove m k) = drop_id (e_id e) (m_list m)
  end.
Proof.
  intros Hi. unfold mremove. cbn [MapDefs.mstep fst].
  destruct (hfind m k) as [e|] eqn:Hf.
  - destruct (hfind_sound m k e Hi Hf) as [Hin Hk].
    destruct (hdelete_inv m e Hi Hin) as (Hi' & Hl & Hn & Hit).
    split; [assumption|]. split; [assumption|]. split; [assumption|]. split; [assumption|]. split; assumption.
  - split; [assumption|]. split; [reflexivity|]. split; [reflexivity|]. split; [|reflexivity].
    apply hfind_none_iff; assumption.
Qed.

(* ---- the invariant holds after every operation, disciplined or not ---------------- *)

Lemma set_it_inv m it : minv m -> minv (set_it m it).
Proof. intros H. exact H. Qed.

Lemma remove_key_inv m k : minv m -> minv (match hfind m k with Some e => hdelete m e | None => m end).
Proof.
  intros Hi. destruct (hfind m k) as [e|] eqn:Hf; [|assumption].
  destruct (hfind_sound m k e Hi Hf) as [Hin _]. apply hdelete_inv; assumption.
Qed.

Lemma mstep_inv m op : minv m -> minv (fst (mstep m op)).
Proof.
  intros Hi. destruct op as [k v|k|k| | |]; cbn [MapDefs.mstep].
  - pose proof (hinsert_inv hash init_nb init_log2 thresh init_pow2 m k v Hi) as H.
    destruct (hinsert m k v) as [m' e]. exact H.
  - exact Hi.
  - cbn [fst]. apply remove_key_inv; assumption.
  - exact Hi.
  - destruct (iterate m) as [[it [e|]]|]; cbn [fst]; assumption.
  - destruct (iterate m) as [[it [e|]]|]; cbn [fst]; try assumption.
    apply (remove_key_inv (set_it m it)). assumption.
Qed.

Theorem mrun_inv : forall ops m, minv m -> minv (fst (mrun m ops)).
Proof.
  induction ops as [|op ops IH]; intros m Hi; [assumption|].
  cbn [MapDefs.mrun]. pose proof (mstep_inv m op Hi) as H1.
  destruct (mstep m op) as [m1 o]. cbn [fst] in H1. specialize (IH m1 H1).
  destruct (mrun m1 ops) as [m2 tr]. exact IH.
Qed.

(* ---- abstraction to the multi-dictionary ------------------------------------------- *)

Definition absm (m : hmap) : dict := mkdict (map abs_e (m_list m)) (m_next m) (m_it m).

Lemma with_key_abs k l : with_key k (map abs_e l) = map abs_e (filter (fun e => beq (e_key e) k) l).
Proof. unfold with_key. rewrite filter_map_comm. reflexivity. Qed.

Lemma dremove_id_abs l i : dremove_id (map abs_e l) i = map abs_e (drop_id i l).
Proof. unfold dremove_id, drop_id. rewrite filter_map_comm. reflexivity. Qed.

Lemma diterate_absm m :
  diterate (absm m) = option_map (fun p => (fst p, option_map abs_e (snd p))) (iterate m).
Proof.
  unfold diterate, iterate, absm. cbn [d_it d_ents].
  destruct (m_it m) as [[i|]|].
  - rewrite dlocate_abs. destruct (locate i (m_list m)) as [[e nx]|]; reflexivity.
  - reflexivity.
  - destruct (m_list m) as [|e [|e' l]]; reflexivity.
Qed.

Lemma absm_set_it m it : absm (set_it m it) = set_dit (absm m) it.
Proof. reflexivity. Qed.

(* removal by key, as MAP_REMOVE and MAP_ITERATE+MAP_REMOVE perform it *)
Lemma remove_key_multi m k :
  minv m ->
  In (absm (match hfind m k with Some e => hdelete m e | None => m end)) (md_remove (absm m) k).
Proof.
  intros Hi. unfold md_remove. cbn [absm d_ents d_next d_it]. rewrite with_key_abs.
  destruct (hfind m k) as [e|] eqn:Hf.
  - destruct (hfind_sound m k e Hi Hf) as [Hin Hk].
    destruct (hdelete_inv m e Hi Hin) as (_ & Hl & Hn & Hit).
    assert (Hw : In (abs_e e) (map abs_e (filter (fun x => beq (e_key x) k) (m_list m)))).
    { apply in_map. apply filter_In. split; [assumption|]. apply beq_eq. assumption. }
    destruct (map abs_e (filter (fun x => beq (e_key x) k) (m_list m))) as [|x xs] eqn:Ew; [destruct Hw|].
    rewrite <- Ew in *. apply in_map_iff. exists (abs_e e). split; [|assumption].
    unfold absm. rewrite Hl, Hn, Hit, dremove_id_abs. reflexivity.
  - apply hfind_none_iff in Hf; [|assumption].
    assert (Hnil : filter (fun x => beq (e_key x) k) (m_list m) = []).
    { apply filter_nil_iff. intros x Hx. destruct (beq_spec (e_key x) k) as [E|E]; [|reflexivity].
      exfalso. apply Hf. rewrite <- E. now apply in_map. }
    rewrite Hnil. cbn [map]. left. reflexivity.
Qed.

(* one operation: the answer and the new state are allowed by the multi-dictionary *)
Theorem mstep_multi m op :
  minv m -> In (absm (fst (mstep m op))) (mdsteps (absm m) op (snd (mstep m op))).
Proof.
  intros Hi. destruct op as [k v|k|k| | |]; cbn [MapDefs.mstep mdsteps].
  - (* insert: always appends *)
    unfold MapDefs.hinsert. destruct Hi as (_ & _ & _ & Ht).
    destruct (m_tbl m) as [t|] eqn:Et; cbn [fst snd e_id e_val absm d_next d_ents d_it m_list m_next m_it].
    + rewrite mout_eqb_refl. left. unfold absm. cbn [m_list m_next m_it]. rewrite map_app. reflexivity.
    + rewrite mout_eqb_refl. left. unfold absm. cbn [m_list m_next m_it]. rewrite Ht. reflexivity.
  - (* find *)
    cbn [fst snd]. destruct (hfind m k) as [e|] eqn:Hf.
    + destruct (hfind_sound m k e Hi Hf) as [Hin Hk].
      cbn [absm d_ents]. rewrite with_key_abs.
      assert (Hex : existsb (fun x => (ent_id x =? e_id e) && (ent_val x =? e_val e)%Z)
                      (map abs_e (filter (fun x => beq (e_key x) k) (m_list m))) = true).
      { apply existsb_exists. exists (abs_e e). split.
        - apply in_map. apply filter_In. split; [assumption|]. apply beq_eq. assumption.
        - unfold ent_id, ent_val. cbn [abs_e fst snd]. rewrite N.eqb_refl, Z.eqb_refl. reflexivity. }
      rewrite Hex. left. reflexivity.
    + apply hfind_none_iff in Hf; [|assumption]. cbn [absm d_ents]. rewrite with_key_abs.
      assert (Hnil : filter (fun x => beq (e_key x) k) (m_list m) = []).
      { apply filter_nil_iff. intros x Hx. destruct (beq_spec (e_key x) k) as [E|E]; [|reflexivity].
        exfalso. apply Hf. rewrite <- E. now apply in_map. }
      rewrite Hnil. left. reflexivity.
  - cbn [fst snd]. apply remove_key_multi. assumption.
  - cbn [fst snd]. left. reflexivity.
  - rewrite diterate_absm. destruct (iterate m) as [[it [e|]]|]; cbn [option_map fst snd].
    + unfold ent_mout, ent_id, ent_key, ent_val. cbn [abs_e fst snd mout_eqb].
      rewrite N.eqb_refl, beq_refl, Z.eqb_refl. cbn [andb]. left. reflexivity.
    + left. reflexivity.
    + left. reflexivity.
  - rewrite diterate_absm. destruct (iterate m) as [[it [e|]]|]; cbn [option_map fst snd].
    + unfold ent_mout, ent_id, ent_key, ent_val. cbn [abs_e fst snd mout_eqb].
      rewrite N.eqb_refl, beq_refl, Z.eqb_refl. cbn [andb].
      rewrite <- absm_set_it. apply (remove_key_multi (set_it m it)). assumption.
    + left. reflexivity.
    + left. reflexivity.
Qed.

Lemma mdrun_mono : forall ops outs ds ds',
  (forall d, In d ds -> In d ds') -> forall d, In d (mdrun ds ops outs) -> In d (mdrun ds' ops outs).
Proof.
  induction ops as [|op ops IH]; intros [|o outs] ds ds' Hsub d Hd; cbn [mdrun] in *; try assumption; try (destruct Hd).
  - apply Hsub. assumption.
  - eapply IH; [|exact Hd]. intros x Hx. apply in_flat_map in Hx. destruct Hx as (y & Hy & Hxy).
    apply in_flat_map. exists y. split; [apply Hsub; assumption|assumption].
Qed.

(* every operation sequence, from any structurally sound state: no discipline *)
Theorem mrun_multi : forall ops m,
  minv m ->
  In (absm (fst (mrun m ops))) (mdrun [absm m] ops (map fst (snd (mrun m ops)))) /\ minv (fst (mrun m ops)).
Proof.
  induction ops as [|op ops IH]; intros m Hi; [split; [now left|assumption]|].
  cbn [MapDefs.mrun]. pose proof (mstep_multi m op Hi) as H1. pose proof (mstep_inv m op Hi) as Hi1.
  destruct (mstep m op) as [m1 o]. cbn [fst snd] in *.
  specialize (IH m1 Hi1). destruct (mrun m1 ops) as [m2 tr]. cbn [fst snd map] in *.
  destruct IH as [IH1 IH2]. split; [|assumption].
  cbn [mdrun flat_map]. rewrite app_nil_r.
  eapply mdrun_mono; [|exact IH1]. intros d [<-|[]]. assumption.
Qed.

End Dup.

(* ---- the oracle is exactly "some run of the relation explains the trace" ------------- *)

(* the relation read off [mdsteps] *)
Inductive mdtrace : dict -> list mop -> list mout -> dict -> Prop :=
  | MdNil d : mdtrace d [] [] d
  | MdCons d op o d1 ops outs d2 :
      In d1 (mdsteps d op o) -> mdtrace d1 ops outs d2 -> mdtrace d (op :: ops) (o :: outs) d2.

Lemma mdrun_spec : forall ops outs ds d2,
  In d2 (mdrun ds ops outs) <-> exists d, In d ds /\ mdtrace d ops outs d2.
Proof.
  induction ops as [|op ops IH]; intros [|o outs] ds d2; cbn [mdrun].
  - split; [intros H; exists d2; split; [assumption|constructor]|intros (d & Hd & Ht); inversion Ht; subst; assumption].
  - split; [intros []|intros (d & _ & Ht); inversion Ht].
  - split; [intros []|intros (d & _ & Ht); inversion Ht].
  - rewrite IH. split.
    + intros (d1 & H1 & Ht). apply in_flat_map in H1. destruct H1 as (d & Hd & H1).
      exists d. split; [assumption|]. econstructor; eassumption.
    + intros (d & Hd & Ht). inversion Ht as [|? ? ? d1 ? ? ? H1 Ht']; subst.
      exists d1. split; [|assumption]. apply in_flat_map. exists d. split; assumption.
Qed.

Theorem spec_ok_multi_iff ops outs :
  spec_ok_multi ops outs = true <-> exists d, mdtrace dict0 ops outs d.
Proof.
  unfold spec_ok_multi. split.
  - destruct (mdrun [dict0] ops outs) as [|d l] eqn:E; [discriminate|]. intros _.
    assert (H : In d (mdrun [dict0] ops outs)) by (rewrite E; now left).
    apply mdrun_spec in H. destruct H as (d0 & [<-|[]] & Ht). eauto.
  - intros (d & Ht).
    assert (H : In d (mdrun [dict0] ops outs)) by (apply mdrun_spec; exists dict0; split; [now left|assumption]).
    destruct (mdrun [dict0] ops outs); [destruct H|reflexivity].
Qed.
