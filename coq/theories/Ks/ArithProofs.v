(* ArithProofs.v - every regenerated fallback satisfies the specification for
   ALL operands of its type.  The proofs are symbolic execution of the
   translated function along C's evaluation order (tactic [cexec]) followed by
   linear / non-linear integer arithmetic over Z; nothing is enumerated.

   The proofs are about coq/gen/Gen_Arith.v as regenerated from /repo on this
   run: editing a formula in libks/arithmetic.c changes the term these lemmas
   are about. *)
From Coq Require Import Lia.
From Robsd Require Import Ks.ArithSpec.
From RobsdGen Require Import Gen_Arith.
Local Open Scope Z_scope.

Lemma spec_ok_checked_iff ty op a b r :
  spec_ok_checked ty op a b r = true <-> checked_post ty op a b r.
Proof.
  unfold spec_ok_checked, checked_post, representableb, representable.
  destruct r as [[flag st]|].
  - destruct (Z.leb_spec (ty_lo ty) (exact op a b)) as [Hlo|Hlo];
    destruct (Z.leb_spec (exact op a b) (ty_hi ty)) as [Hhi|Hhi]; cbn [andb].
    + rewrite andb_true_iff, Z.eqb_eq. split.
      * intros [-> Hst]. exists 0, st. split; [reflexivity|]. split; [|lia].
        intros _. split; [reflexivity|]. destruct st as [v|]; [|discriminate].
        simpl in Hst. apply Z.eqb_eq in Hst. now subst.
      * intros (f & s & E & Hin & _). injection E as <- <-.
        destruct (Hin ltac:(lia)) as [-> ->]. split; [reflexivity|]. simpl. apply Z.eqb_refl.
    + rewrite Z.eqb_eq. split.
      * intros ->. exists 1, st. split; [reflexivity|]. split; [lia|reflexivity].
      * intros (f & s & E & _ & Hout). injection E as <- <-. apply Hout. lia.
    + rewrite Z.eqb_eq. split.
      * intros ->. exists 1, st. split; [reflexivity|]. split; [lia|reflexivity].
      * intros (f & s & E & _ & Hout). injection E as <- <-. apply Hout. lia.
    + rewrite Z.eqb_eq. split.
      * intros ->. exists 1, st. split; [reflexivity|]. split; [lia|reflexivity].
      * intros (f & s & E & _ & Hout). injection E as <- <-. apply Hout. lia.
  - split; [discriminate|]. intros (f & s & E & _). discriminate.
Qed.

(* ---- symbolic execution ---------------------------------------------------- *)

(* the comparison that C evaluates next: descend through the scrutinees *)
Ltac head_scrut t :=
  lazymatch t with
  | (if ?c then _ else _) => head_scrut c
  | (match ?x with Some _ => _ | None => _ end) => head_scrut x
  | Z.eqb ?x ?y =>
      lazymatch x with
      | (if _ then _ else _) => head_scrut x
      | _ => t
      end
  | _ => t
  end.

(* decide the comparison from the context when linear arithmetic can (this both
   evaluates closed comparisons and prunes infeasible paths), split otherwise *)
Ltac split_atom c :=
  lazymatch c with
  | Z.ltb ?x ?y =>
      first [ rewrite (proj2 (Z.ltb_lt x y)) by lia
            | rewrite (proj2 (Z.ltb_ge x y)) by lia
            | destruct (Z.ltb_spec x y) ]
  | Z.leb ?x ?y =>
      first [ rewrite (proj2 (Z.leb_le x y)) by lia
            | rewrite (proj2 (Z.leb_gt x y)) by lia
            | destruct (Z.leb_spec x y) ]
  | Z.eqb ?x ?y =>
      first [ rewrite (proj2 (Z.eqb_eq x y)) by lia
            | rewrite (proj2 (Z.eqb_neq x y)) by lia
            | destruct (Z.eqb_spec x y) ]
  end.

Ltac quot_facts :=
  repeat match goal with
  | H : context [Z.quot ?x ?y] |- _ =>
      lazymatch goal with
      | _ : x = y * Z.quot x y + Z.rem x y |- _ => fail
      | _ => let Hq := fresh "Hq" in
             assert (Hq : y <> 0) by lia;
             pose proof (quot_rem_facts x y Hq) as [? [? ?]]; clear Hq
      end
  end.

Ltac cstep :=
  lazymatch goal with
  | |- checked_post _ _ _ _ ?r =>
      lazymatch r with
      | Some _ => fail
      | None => fail
      | _ => let c := head_scrut r in split_atom c; cbv beta iota; quot_facts
      end
  end.

Ltac arith_close :=
  quot_facts;
  try (Z.div_mod_to_equations);
  nia.

Ltac cfinish :=
  lazymatch goal with
  | |- checked_post _ _ _ _ None => exfalso; arith_close
  | |- checked_post ?ty ?op ?a ?b (Some (?f, ?s)) =>
      exists f, s; split; [reflexivity|];
      unfold representable, exact; cbv [ty_lo ty_hi];
      split; [intros ?; split; [try reflexivity|try (f_equal)]|intros ?; try reflexivity];
      try arith_close
  end.

Ltac cexec f :=
  unfold checked_exact, representable; cbv [ty_lo ty_hi];
  change (2 ^ 31) with 2147483648; change (2 ^ 32) with 4294967296;
  change (2 ^ 63) with 9223372036854775808; change (2 ^ 64) with 18446744073709551616;
  intros a b Ha Hb;
  unfold f; rewrite ?ccast_clit by reflexivity;
  cbv beta iota zeta delta [cif cand cor ccond cgt clt cge cle ceq cne clnot cadd csub cmul cdiv crem cneg
       ccast cvar clit cbool cbind1 cbind2 carith csigned in_rangeb cmin cmax cwrap cmodulus
       creturn cstore clet andb orb negb];
  repeat cstep.

(* ---- the 15 functions ------------------------------------------------------ *)

Lemma i32_add_exact : checked_exact I32 OAdd KS_i32_add_overflow0.
Proof. cexec KS_i32_add_overflow0. all: cfinish. Qed.

Lemma i32_sub_exact : checked_exact I32 OSub KS_i32_sub_overflow0.
Proof. cexec KS_i32_sub_overflow0. all: cfinish. Qed.

Lemma i32_mul_exact : checked_exact I32 OMul KS_i32_mul_overflow0.
Proof. cexec KS_i32_mul_overflow0. all: cfinish. Qed.

Lemma i64_add_exact : checked_exact I64 OAdd KS_i64_add_overflow0.
Proof. cexec KS_i64_add_overflow0. all: cfinish. Qed.

Lemma i64_sub_exact : checked_exact I64 OSub KS_i64_sub_overflow0.
Proof. cexec KS_i64_sub_overflow0. all: cfinish. Qed.

Lemma i64_mul_exact : checked_exact I64 OMul KS_i64_mul_overflow0.
Proof. cexec KS_i64_mul_overflow0. all: cfinish. Qed.

Lemma u32_add_exact : checked_exact U32 OAdd KS_u32_add_overflow0.
Proof. cexec KS_u32_add_overflow0. all: cfinish. Qed.

Lemma u32_sub_exact : checked_exact U32 OSub KS_u32_sub_overflow0.
Proof. cexec KS_u32_sub_overflow0. all: cfinish. Qed.

Lemma u32_mul_exact : checked_exact U32 OMul KS_u32_mul_overflow0.
Proof. cexec KS_u32_mul_overflow0. all: cfinish. Qed.

Lemma u64_add_exact : checked_exact U64 OAdd KS_u64_add_overflow0.
Proof. cexec KS_u64_add_overflow0. all: cfinish. Qed.

Lemma u64_sub_exact : checked_exact U64 OSub KS_u64_sub_overflow0.
Proof. cexec KS_u64_sub_overflow0. all: cfinish. Qed.

Lemma u64_mul_exact : checked_exact U64 OMul KS_u64_mul_overflow0.
Proof. cexec KS_u64_mul_overflow0. all: cfinish. Qed.

Lemma size_add_exact : checked_exact USize OAdd KS_size_add_overflow0.
Proof. cexec KS_size_add_overflow0. all: cfinish. Qed.

Lemma size_sub_exact : checked_exact USize OSub KS_size_sub_overflow0.
Proof. cexec KS_size_sub_overflow0. all: cfinish. Qed.

Lemma size_mul_exact : checked_exact USize OMul KS_size_mul_overflow0.
Proof. cexec KS_size_mul_overflow0. all: cfinish. Qed.

(* all of them at once, through the table of ArithDefs.v *)
Lemma fallback_exact ty op : checked_exact ty op (fallback ty op).
Proof.
  destruct ty, op; cbv [fallback].
  - exact i32_add_exact. - exact i32_sub_exact. - exact i32_mul_exact.
  - exact i64_add_exact. - exact i64_sub_exact. - exact i64_mul_exact.
  - exact u32_add_exact. - exact u32_sub_exact. - exact u32_mul_exact.
  - exact u64_add_exact. - exact u64_sub_exact. - exact u64_mul_exact.
  - exact size_add_exact. - exact size_sub_exact. - exact size_mul_exact.
Qed.

(* the translator found the operand and result types the names promise *)
Lemma fallback_sig_ok ty op :
  fallback_sig ty op =
  let t := match ty with I32 => TInt | I64 => TLong | U32 => TUInt | U64 | USize => TULong end in
  (cons t (cons t nil), t).
Proof. destruct ty, op; reflexivity. Qed.

(* ---- the entry points of arithmetic.h ----------------------------------------------- *)
From Robsd Require Import Ks.ArithBuiltinDefs.

(* the builtin's contract, at the C type whose range is the range of [ty], satisfies the specification *)
Lemma cbuiltin_exact ty op t o :
  cmin t = ty_lo ty -> cmax t = ty_hi ty -> (forall a b, bexact o a b = exact op a b) ->
  checked_exact ty op (cbuiltin_overflow t o).
Proof.
  intros Hlo Hhi Hex a b _ _. unfold checked_post, cbuiltin_overflow, representable. rewrite Hex.
  destruct (in_rangeb_spec t (exact op a b)) as [Hin|Hout].
  - exists 0, (Some (cwrap t (exact op a b))). split; [reflexivity|]. split.
    + intros _. split; [reflexivity|]. f_equal. apply cwrap_id. assumption.
    + intros Hn. exfalso. apply Hn. unfold in_range in Hin. rewrite Hlo, Hhi in Hin. assumption.
  - exists 1, (Some (cwrap t (exact op a b))). split; [reflexivity|]. split; [|reflexivity].
    intros Hr. exfalso. apply Hout. unfold in_range. rewrite Hlo, Hhi. assumption.
Qed.

Lemma builtin_exact ty op : checked_exact ty op (builtin ty op).
Proof. destruct ty, op; cbv [builtin]; apply cbuiltin_exact; try reflexivity; intros; reflexivity. Qed.

Lemma nobuiltin_is_fallback ty op : nobuiltin ty op = fallback ty op.
Proof. destruct ty, op; reflexivity. Qed.

(* whichever branch the preprocessor selects, the entry point is exact *)
Lemma entry_exact hb ty op : checked_exact ty op (entry_point hb ty op).
Proof.
  destruct hb; unfold entry_point; [apply builtin_exact|rewrite nobuiltin_is_fallback; apply fallback_exact].
Qed.
