(* MapAllocProofs.v - the allocator-aware map model (MapAllocDefs.v).

     astep_cases      whenever MAP_INSERT does not return NULL, and for every other
                      operation, new state and answer are EXACTLY MapDefs.mstep's: every
                      theorem about the table model applies to the runs that do not hit
                      an allocation failure.  The three NULL outcomes are characterised:
                      nothing changed / nothing changed but one element block leaked /
                      the element IS in the map (linked-but-NULL).
     astep_inv        the structural invariant survives every allocation failure.
     null_linked_found the linked-but-NULL element is found by the next lookup.
     astep_events     allocator discipline, for every failure plan: the calls of an operation
                      are legal in order (nothing allocated twice, nothing freed that is not
                      allocated) and lead from the blocks owned before to exactly the blocks
                      owned after = one block per live element, the table and its bucket
                      array, and the leaked elements.
     live_elt_untouched   "values stable in memory": no allocator call of any operation -
                      in particular of a bucket expansion - names the block of an element
                      that is live before and after it: an element is allocated once, by its
                      insert, and freed once, by its removal; nothing is moved. *)
From Coq Require Import Lia.
From Robsd Require Import Ks.MapSpec Ks.MapProofs Ks.MapIterProofs Ks.MapDup Ks.MapAllocDefs.
Local Open Scope N_scope.

Lemma expand_nb t : t_nb (expand t) = 2 * t_nb t.
Proof. unfold expand. destruct (fold_left _ _ _). reflexivity. Qed.

Section AllocProofs.
Variable hash : bytes -> N.
Variables init_nb init_log2 thresh : N.
Variable fails : N -> bool.
Hypothesis init_pow2 : exists k, init_nb = 2 ^ k.

Notation hfind := (hfind hash).
Notation mstep := (mstep hash init_nb init_log2 thresh).
Notation minv := (minv hash).
Notation astep := (astep hash init_nb init_log2 thresh fails).
Notation ainsert := (ainsert hash init_nb init_log2 thresh fails).
Notation alink := (alink thresh fails).

Lemma add_to_table_split t e :
  add_to_table thresh t e = if expand_needed thresh t e then expand (add_linked t e) else add_linked t e.
Proof. reflexivity. Qed.

(* the element is in its bucket, nothing else changed *)
Lemma add_linked_ok t l e : bkt_ok t l -> bkt_ok (add_linked t e) (l ++ [e]).
Proof.
  intros (Hlen & (k & Hk) & Hmem). unfold add_linked.
  set (i := to_bkt (e_hash e) (t_nb t)). set (b := nth i (t_bkts t) empty_bkt).
  assert (Hi : (i < length (t_bkts t))%nat) by (unfold i; rewrite Hlen, Hk; apply to_bkt_lt).
  unfold bkt_ok. cbn [t_bkts t_nb]. rewrite upd_length. split; [assumption|]. split; [eauto|].
  intros j x Hj. rewrite nth_upd by assumption. rewrite in_app_iff.
  destruct (Nat.eqb_spec i j) as [E|E]; cbn [bk_chain].
  - subst j. pose proof (Hmem i x Hi) as Hm. fold b in Hm. cbn [In]. rewrite Hm. split.
    + intros [<-|[H2 H3]]; [split; [right; now left|reflexivity]|split; [now left|assumption]].
    + intros [[H2|[<-|[]]] H3]; [right; split; assumption|now left].
  - rewrite (Hmem j x Hj). cbn [In]. split.
    + intros [H2 H3]. split; [now left|assumption].
    + intros [[H2|[<-|[]]] H3]; [split; assumption|]. unfold i in E. contradiction.
Qed.

Lemma remove_key_next m k :
  minv m -> m_next (match hfind m k with Some d => hdelete m d | None => m end) = m_next m.
Proof.
  intros Hi. destruct (hfind m k) as [d|] eqn:Hf; [|reflexivity].
  destruct (hfind_sound hash _ _ _ Hi Hf) as [Hin _]. apply (hdelete_inv hash m d Hi Hin).
Qed.

(* ---- outcomes of one operation -------------------------------------------------------- *)

Definition linked_state (m : hmap) (k : bytes) : hmap :=
  let e0 := mkelt (m_next m) k 0 (hash k) in
  match m_tbl m with
  | None => mkmap [e0] (Some (add_linked (make_table init_nb init_log2) e0)) (m_next m + 1) (m_it m)
  | Some t => mkmap (m_list m ++ [e0]) (Some (add_linked t e0)) (m_next m + 1) (m_it m)
  end.

Lemma alink_cases a t lpre k v c evs :
  let m := a_map a in
  let e := mkelt (m_next m) k v (hash k) in
  let e0 := mkelt (m_next m) k 0 (hash k) in
  let '(a', o, evs') := alink a t lpre e e0 c evs in
  a_leaked a' = a_leaked a /\
  ((o = AOk (MoPtr (m_next m) v) /\
    a_map a' = mkmap (lpre ++ [e]) (Some (add_to_table thresh t e)) (m_next m + 1) (m_it m)) \/
   (o = ANullLinked (m_next m) /\ expand_needed thresh t e = true /\
    a_map a' = mkmap (lpre ++ [e0]) (Some (add_linked t e0)) (m_next m + 1) (m_it m))).
Proof.
  cbv zeta. unfold MapAllocDefs.alink. rewrite add_to_table_split.
  destruct (expand_needed thresh t _) eqn:Ex.
  - destruct (4294967296 <=? 2 * t_nb t).
    + split; [reflexivity|]. right. repeat split.
    + destruct (fails c).
      * split; [reflexivity|]. right. repeat split.
      * split; [reflexivity|]. left. split; reflexivity.
  - split; [reflexivity|]. left. split; reflexivity.
Qed.

(* whenever the answer is not NULL the allocator-aware step IS the step of MapDefs.v *)
Theorem astep_cases a op :
  let m := a_map a in
  let '(a', o, evs) := astep a op in
  match o with
  | AOk mo => a_map a' = fst (mstep m op) /\ mo = snd (mstep m op) /\ a_leaked a' = a_leaked a
  | ANullFresh => (exists k v, op = MInsert k v) /\ a_map a' = m /\ a_leaked a' = a_leaked a
  | ANullLeak id =>
      (exists k v, op = MInsert k v) /\ id = m_next m /\ m_tbl m = None /\
      a_map a' = bump m /\ a_leaked a' = id :: a_leaked a
  | ANullLinked id =>
      exists k v, op = MInsert k v /\ id = m_next m /\ a_map a' = linked_state m k /\ a_leaked a' = a_leaked a
  end.
Proof.
  cbv zeta. destruct op as [k v|k|k| | |]; cbn [MapAllocDefs.astep].
  - unfold MapAllocDefs.ainsert. destruct (fails (a_calls a)); [split; [eauto|split; reflexivity]|].
    destruct (m_tbl (a_map a)) as [t|] eqn:Et.
    + pose proof (alink_cases a t (m_list (a_map a)) k v (a_calls a + 1) [ACalloc (BElt (m_next (a_map a)))]) as H.
      cbv zeta in H. destruct (alink a t _ _ _ _ _) as [[a' o] evs]. destruct H as [Hl [[-> Hm]|(-> & _ & Hm)]].
      * cbn [MapDefs.mstep]. unfold hinsert. rewrite Et. cbn [fst snd e_id e_val]. repeat split; assumption.
      * exists k, v. unfold linked_state. rewrite Et. repeat split; assumption.
    + destruct (fails (a_calls a + 1)); [repeat split; eauto|].
      destruct (fails (a_calls a + 2)); [repeat split; eauto|].
      pose proof (alink_cases a (make_table init_nb init_log2) [] k v (a_calls a + 3)
                    [ACalloc (BElt (m_next (a_map a))); ACalloc BTbl; ACalloc (BBkts init_nb)]) as H.
      cbv zeta in H. destruct (alink a _ _ _ _ _ _) as [[a' o] evs]. destruct H as [Hl [[-> Hm]|(-> & _ & Hm)]].
      * cbn [MapDefs.mstep]. unfold hinsert. rewrite Et. cbn [fst snd e_id e_val app] in *. repeat split; assumption.
      * exists k, v. unfold linked_state. rewrite Et. cbn [app] in Hm. repeat split; assumption.
  - destruct (mstep (a_map a) (MFind k)) as [m' o] eqn:E. repeat split.
  - cbn [a_map a_leaked]. repeat split.
  - destruct (mstep (a_map a) MIterStart) as [m' o] eqn:E. repeat split.
  - destruct (mstep (a_map a) MIterNext) as [m' o] eqn:E. repeat split.
  - destruct (mstep (a_map a) MIterNextDel) as [m' o] eqn:E. repeat split.
Qed.

(* ---- the invariant survives every failure --------------------------------------------- *)

Lemma linked_state_inv m k : minv m -> minv (linked_state m k).
Proof.
  intros (Hh & Hid & Hnd & Ht). unfold linked_state.
  set (e := mkelt (m_next m) k 0 (hash k)).
  destruct (m_tbl m) as [t|] eqn:Et.
  - destruct Ht as [Hne Hok]. unfold MapProofs.minv. cbn [m_list m_tbl m_next].
    split; [intros x Hx; apply in_app_iff in Hx; destruct Hx as [Hx|[<-|[]]]; [now apply Hh|reflexivity]|].
    split; [intros x Hx; apply in_app_iff in Hx; destruct Hx as [Hx|[<-|[]]]; [specialize (Hid x Hx); lia|simpl; lia]|].
    split.
    + rewrite map_app. simpl. apply NoDup_app_one; [assumption|].
      intros Hin. apply in_map_iff in Hin. destruct Hin as (x & E & Hx). specialize (Hid x Hx). rewrite E in Hid. lia.
    + split; [destruct (m_list m); discriminate|]. now apply add_linked_ok.
  - unfold MapProofs.minv. cbn [m_list m_tbl m_next].
    split; [intros x [<-|[]]; reflexivity|]. split; [intros x [<-|[]]; simpl; lia|].
    split; [simpl; constructor; [intros []|constructor]|].
    split; [discriminate|]. change [e] with ([] ++ [e]). apply add_linked_ok.
    apply (make_table_ok init_nb init_log2 init_pow2).
Qed.

Lemma bump_inv m : minv m -> minv (bump m).
Proof.
  intros (Hh & Hid & Hnd & Ht). unfold MapProofs.minv, bump. cbn [m_list m_tbl m_next].
  split; [assumption|]. split; [intros e He; specialize (Hid e He); lia|]. split; assumption.
Qed.

Theorem astep_inv a op : minv (a_map a) -> minv (a_map (fst (fst (astep a op)))).
Proof.
  intros Hi. pose proof (astep_cases a op) as H. cbv zeta in H.
  destruct (astep a op) as [[a' o] evs]. cbn [fst].
  destruct o as [mo| |id|id].
  - destruct H as (-> & _). apply (mstep_inv hash init_nb init_log2 thresh init_pow2). assumption.
  - destruct H as (_ & -> & _). assumption.
  - destruct H as (_ & _ & _ & -> & _). apply bump_inv. assumption.
  - destruct H as (k & v & _ & _ & -> & _). apply linked_state_inv. assumption.
Qed.

(* a NULL from the expansion path: the element is in the map all the same *)
Theorem null_linked_found a k v id :
  minv (a_map a) -> snd (fst (astep a (MInsert k v))) = ANullLinked id ->
  let m' := a_map (fst (fst (astep a (MInsert k v)))) in
  exists e, hfind m' k = Some e /\ In e (m_list m') /\
  In (mkelt id k 0 (hash k)) (m_list m') /\ ~ In id (map e_id (m_list (a_map a))).
Proof.
  intros Hi Ho. pose proof (astep_cases a (MInsert k v)) as H. cbv zeta in *.
  pose proof (astep_inv a (MInsert k v) Hi) as Hi'.
  destruct (astep a (MInsert k v)) as [[a' o] evs]. cbn [fst snd] in *. subst o.
  destruct H as (k' & v' & E & -> & Hm & _). injection E as <- <-.
  assert (Hin : In (mkelt (m_next (a_map a)) k 0 (hash k)) (m_list (a_map a'))).
  { rewrite Hm. unfold linked_state. destruct (m_tbl (a_map a)); cbn [m_list]; [apply in_or_app; right|]; now left. }
  destruct (hfind (a_map a') k) as [e|] eqn:Hf.
  - exists e. destruct (hfind_sound hash _ _ _ Hi' Hf) as [He _]. repeat split; try assumption.
    intros Hold. apply in_map_iff in Hold. destruct Hold as (x & Ex & Hx).
    destruct Hi as (_ & Hid & _). specialize (Hid x Hx). lia.
  - exfalso. apply (hfind_none_iff hash _ _ Hi') in Hf. apply Hf.
    apply in_map_iff. eexists. split; [|exact Hin]. reflexivity.
Qed.

(* ---- allocator discipline ----------------------------------------------------------------- *)

(* the blocks map.c owns in a state *)
Definition live (a : amap) (b : blk) : Prop :=
  match b with
  | BElt i => In i (map e_id (m_list (a_map a))) \/ In i (a_leaked a)
  | BTbl => m_tbl (a_map a) <> None
  | BBkts n => exists t, m_tbl (a_map a) = Some t /\ t_nb t = n
  end.

Fixpoint legal (S : blk -> Prop) (evs : list aev) : Prop :=
  match evs with
  | [] => True
  | ACalloc x :: r => ~ S x /\ legal (fun b => b = x \/ S b) r
  | ACallocFail _ :: r => legal S r
  | AFree x :: r => S x /\ legal (fun b => S b /\ b <> x) r
  end.

Fixpoint after (S : blk -> Prop) (evs : list aev) : blk -> Prop :=
  match evs with
  | [] => S
  | ACalloc x :: r => after (fun b => b = x \/ S b) r
  | ACallocFail _ :: r => after S r
  | AFree x :: r => after (fun b => S b /\ b <> x) r
  end.

Lemma legal_app S e1 e2 : legal S (e1 ++ e2) <-> legal S e1 /\ legal (after S e1) e2.
Proof.
  revert S. induction e1 as [|[x|x|x] e1 IH]; intros S; cbn [app legal after]; [tauto| | |]; rewrite ?IH; tauto.
Qed.
Lemma after_app S e1 e2 : after S (e1 ++ e2) = after (after S e1) e2.
Proof. revert S. induction e1 as [|[x|x|x] e1 IH]; intros S; cbn [app after]; [reflexivity| | |]; apply IH. Qed.

(* leaked elements have identities of their own *)
Definition ainv (a : amap) : Prop :=
  minv (a_map a) /\
  forall i, In i (a_leaked a) -> i < m_next (a_map a) /\ ~ In i (map e_id (m_list (a_map a))).

Lemma ainv0 : ainv amap0.
Proof. split; [apply minv0|intros i []]. Qed.

Lemma tbl_nb_pos m t : minv m -> m_tbl m = Some t -> t_nb t <> 0.
Proof.
  intros (_ & _ & _ & Ht) Et. rewrite Et in Ht. destruct Ht as [_ (_ & (k & ->) & _)].
  apply N.pow_nonzero. discriminate.
Qed.

(* removal of a live element: HASH_DELETE's frees are legal and leave exactly the blocks of the new state *)
Lemma del_events_ok a d :
  ainv a -> In d (m_list (a_map a)) ->
  let a' := mkamap (hdelete (a_map a) d) (a_calls a) (a_leaked a) in
  legal (live a) (del_events (a_map a) d) /\
  (forall b, after (live a) (del_events (a_map a) d) b <-> live a' b) /\ ainv a'.
Proof.
  intros [Hi Hlk] Hd. cbv zeta.
  destruct (hdelete_inv hash _ d Hi Hd) as (Hi' & Hl & Hn & Hit).
  pose proof Hi as (Hh & Hid & Hnd & Ht).
  assert (Hainv : ainv (mkamap (hdelete (a_map a) d) (a_calls a) (a_leaked a))).
  { split; [exact Hi'|]. cbn [a_map a_leaked]. intros i Hin. destruct (Hlk i Hin) as [H1 H2].
    rewrite Hn, Hl. split; [assumption|]. intros H. apply H2.
    apply in_map_iff in H. destruct H as (x & <- & Hx). apply drop_id_in in Hx. apply in_map. tauto. }
  split; [|split; [|exact Hainv]].
  - unfold del_events. destruct (m_tbl (a_map a)) as [t|] eqn:Et; [|exact I].
    assert (Hdl : live a (BElt (e_id d))) by (left; now apply in_map).
    destruct (drop_id (e_id d) (m_list (a_map a))); cbn [legal live].
    + split; [exists t; split; [assumption|reflexivity]|].
      split; [split; [rewrite Et; discriminate|discriminate]|].
      split; [|exact I]. split; [split; [exact Hdl|discriminate]|discriminate].
    + split; [exact Hdl|exact I].
  - intros b. unfold del_events, live. cbn [a_map a_leaked]. rewrite Hl.
    assert (Hids : forall i, In i (map e_id (drop_id (e_id d) (m_list (a_map a)))) <->
                             In i (map e_id (m_list (a_map a))) /\ i <> e_id d).
    { intros i. rewrite !in_map_iff. split.
      - intros (x & <- & Hx). apply drop_id_in in Hx. split; [exists x; tauto|tauto].
      - intros [(x & <- & Hx) Hne]. exists x. split; [reflexivity|]. apply drop_id_in. tauto. }
    assert (Hnl : ~ In (e_id d) (a_leaked a)) by (intros H; apply (Hlk _ H); now apply in_map).
    unfold hdelete. destruct (m_tbl (a_map a)) as [t|] eqn:Et; [|rewrite Ht in Hd; destruct Hd].
    destruct (drop_id (e_id d) (m_list (a_map a))) as [|y l'] eqn:El; cbn [after m_tbl m_list].
    + (* the last element: table and buckets go *)
      assert (Hall : forall i, In i (map e_id (m_list (a_map a))) -> i = e_id d).
      { intros i Hin. destruct (N.eq_dec i (e_id d)) as [E|E]; [assumption|].
        assert (In i (map e_id (@nil elt))) as [] by (apply Hids; tauto). }
      destruct b as [i| |n]; cbn [map In].
      * split.
        -- intros [[[[Hin|Hin] _] _] Hne]; [exfalso; apply Hne; f_equal; apply Hall; assumption|now right].
        -- intros [[]|Hin]. repeat split; try discriminate; [now right|]. intros E. injection E as ->. contradiction.
      * split; [intros [[[_ _] Hne] _]; now contradiction Hne|intros H; now contradiction H].
      * split; [intros [[[(t0 & E0 & En) Hne] _] _]; injection E0 as <-; subst n; now contradiction Hne|].
        intros (t0 & E0 & _). discriminate.
    + destruct b as [i| |n].
      * rewrite Hids. split.
        -- intros [[Hin|Hin] Hne]; [left; split; [assumption|]; intros E; apply Hne; now f_equal|now right].
        -- intros [[Hin Hne]|Hin]; (split; [tauto|]); intros E; injection E as ->; contradiction.
      * split; [intros [H _]; discriminate|intros _; split; discriminate].
      * split.
        -- intros [(t0 & E0 & En) _]. injection E0 as <-. eexists. split; [reflexivity|exact En].
        -- intros (t0 & E0 & En). injection E0 as <-. cbn [t_nb] in En. split; [exists t; split; [reflexivity|assumption]|discriminate].
Qed.

Lemma remove_events_ok a k :
  ainv a ->
  let a' := mkamap (match hfind (a_map a) k with Some d => hdelete (a_map a) d | None => a_map a end) (a_calls a) (a_leaked a) in
  legal (live a) (remove_events hash (a_map a) k) /\
  (forall b, after (live a) (remove_events hash (a_map a) k) b <-> live a' b) /\ ainv a'.
Proof.
  intros Ha. cbv zeta. unfold remove_events. destruct (hfind (a_map a) k) as [d|] eqn:Hf.
  - destruct (hfind_sound hash _ _ _ (proj1 Ha) Hf) as [Hin _]. exact (del_events_ok a d Ha Hin).
  - split; [exact I|]. split; [intros b; cbn [after]; destruct b; reflexivity|exact Ha].
Qed.

(* the insert: element block, first-table blocks, expansion *)
Lemma alink_events a t lpre k v c evs S0 :
  let m := a_map a in
  let e := mkelt (m_next m) k v (hash k) in
  let e0 := mkelt (m_next m) k 0 (hash k) in
  t_nb t <> 0 ->
  legal S0 evs ->
  (forall b, after S0 evs b <->
     match b with
     | BElt i => i = m_next m \/ In i (map e_id lpre) \/ In i (a_leaked a)
     | BTbl => True
     | BBkts n => n = t_nb t
     end) ->
  let '(a', o, evs') := alink a t lpre e e0 c evs in
  legal S0 evs' /\
  forall b, after S0 evs' b <->
     match b with
     | BElt i => i = m_next m \/ In i (map e_id lpre) \/ In i (a_leaked a)
     | BTbl => True
     | BBkts n => exists t', m_tbl (a_map a') = Some t' /\ t_nb t' = n
     end.
Proof.
  cbv zeta. intros Hnb Hleg Haft. unfold MapAllocDefs.alink.
  assert (Hsame : forall tb, t_nb tb = t_nb t -> forall b,
            after S0 evs b <->
            match b with
            | BElt i => i = m_next (a_map a) \/ In i (map e_id lpre) \/ In i (a_leaked a)
            | BTbl => True
            | BBkts n => exists t', Some tb = Some t' /\ t_nb t' = n
            end).
  { intros tb Htb b. rewrite Haft. destruct b as [i| |n]; try reflexivity.
    split; [intros ->; eexists; split; [reflexivity|assumption]|intros (t' & E & <-); injection E as <-; now symmetry]. }
  destruct (expand_needed thresh t _).
  - destruct (4294967296 <=? 2 * t_nb t); [split; [assumption|]; cbn [a_map m_tbl]; apply Hsame; reflexivity|].
    destruct (fails c).
    + split; [apply legal_app; split; [assumption|exact I]|]. rewrite after_app. cbn [after a_map m_tbl]. apply Hsame. reflexivity.
    + split.
      * apply legal_app. split; [assumption|]. cbn [legal]. split.
        -- rewrite Haft. lia.
        -- split; [right; rewrite Haft; reflexivity|exact I].
      * intros b. rewrite after_app. cbn [after a_map m_tbl]. destruct b as [i| |n].
        -- rewrite Haft. split; [intros [[E|H] _]; [discriminate|assumption]|intros H; split; [now right|discriminate]].
        -- rewrite Haft. split; [trivial|intros _; split; [now right|discriminate]].
        -- rewrite Haft. split.
           ++ intros [[E|E] Hne]; [injection E as ->; eexists; split; [reflexivity|rewrite expand_nb; reflexivity]|].
              subst n. now contradiction Hne.
           ++ intros (t' & E & <-). injection E as <-. rewrite expand_nb. cbn [add_linked t_nb].
              split; [now left|]. intros E. apply (f_equal (fun b => match b with BBkts n => n | _ => 0 end)) in E.
              change (2 * t_nb t = t_nb t) in E. lia.
  - split; [assumption|]. cbn [a_map m_tbl]. apply Hsame. reflexivity.
Qed.

Theorem astep_events a op :
  ainv a ->
  let '(a', o, evs) := astep a op in
  legal (live a) evs /\ (forall b, after (live a) evs b <-> live a' b) /\ ainv a'.
Proof.
  intros Ha. pose proof Ha as [Hi Hlk].
  assert (Hinv' : ainv (fst (fst (astep a op)))).
  { split; [apply astep_inv; assumption|].
    pose proof (astep_cases a op) as H. cbv zeta in H. destruct (astep a op) as [[a' o] evs]. cbn [fst].
    assert (Hmono : forall m', (forall e, In e (m_list m') -> In e (m_list (a_map a)) \/ e_id e = m_next (a_map a)) ->
                      m_next (a_map a) <= m_next m' ->
                      forall i, In i (a_leaked a) -> i < m_next m' /\ ~ In i (map e_id (m_list m'))).
    { intros m' Hsub Hn i Hin. destruct (Hlk i Hin) as [H1 H2]. split; [lia|].
      intros H3. apply in_map_iff in H3. destruct H3 as (x & <- & Hx).
      destruct (Hsub x Hx) as [Hx'|Hx']; [apply H2; now apply in_map|lia]. }
    destruct o as [mo| |id|id].
    - destruct H as (-> & _ & ->). apply Hmono.
      + intros e He. destruct (elements_never_change hash init_nb init_log2 thresh (a_map a) op e He) as [?|(k & v & _ & ->)]; [now left|now right].
      + destruct op as [k v|k|k| | |]; cbn [MapDefs.mstep].
        * unfold hinsert. destruct (m_tbl (a_map a)); cbn [fst m_next]; lia.
        * cbn [fst]. lia.
        * cbn [fst]. rewrite remove_key_next by assumption. lia.
        * cbn [fst set_it m_next]. lia.
        * destruct (iterate (a_map a)) as [[it [e|]]|]; cbn [fst set_it m_next]; lia.
        * destruct (iterate (a_map a)) as [[it [e|]]|]; cbn [fst set_it m_next]; try lia.
          rewrite (remove_key_next (set_it (a_map a) it)) by assumption. cbn [set_it m_next]. lia.
    - destruct H as (_ & -> & ->). exact Hlk.
    - destruct H as (_ & -> & _ & -> & ->). intros i [<-|Hin].
      + unfold bump. cbn [m_next m_list]. split; [lia|]. intros H3. apply in_map_iff in H3. destruct H3 as (x & E & Hx).
        destruct Hi as (_ & Hid & _). specialize (Hid x Hx). lia.
      + destruct (Hlk i Hin). unfold bump. cbn [m_next m_list]. split; [lia|assumption].
    - destruct H as (k & v & _ & _ & -> & ->). apply Hmono.
      + unfold linked_state. destruct (m_tbl (a_map a)); cbn [m_list]; intros e He.
        * apply in_app_iff in He. destruct He as [?|[<-|[]]]; [now left|now right].
        * destruct He as [<-|[]]. now right.
      + unfold linked_state. destruct (m_tbl (a_map a)); cbn [m_next]; lia. }
  destruct op as [k v|k|k| | |]; cbn [MapAllocDefs.astep] in *.
  - (* insert *)
    unfold MapAllocDefs.ainsert in *.
    assert (Hfresh : ~ live a (BElt (m_next (a_map a)))).
    { intros [H|H]; [|destruct (Hlk _ H); lia]. apply in_map_iff in H. destruct H as (x & E & Hx).
      destruct Hi as (_ & Hid & _). specialize (Hid x Hx). lia. }
    destruct (fails (a_calls a)).
    { split; [exact I|]. split; [|exact Hinv']. intros b. cbn [after]. destruct b; reflexivity. }
    destruct (m_tbl (a_map a)) as [t|] eqn:Et.
    + pose proof (alink_events a t (m_list (a_map a)) k v (a_calls a + 1) [ACalloc (BElt (m_next (a_map a)))] (live a)
                    (tbl_nb_pos _ _ Hi Et)) as H. cbv zeta in H.
      pose proof (alink_cases a t (m_list (a_map a)) k v (a_calls a + 1) [ACalloc (BElt (m_next (a_map a)))]) as Hc. cbv zeta in Hc.
      destruct (alink a t _ _ _ _ _) as [[a' o] evs]. cbn [fst] in Hinv'.
      destruct H as [Hleg Haft].
      * cbn [legal]. split; [assumption|exact I].
      * intros b. cbn [after]. destruct b as [i| |n]; cbn [live]; rewrite ?Et.
        -- split; [intros [E|[H|H]]; [injection E as ->; now left|right; now left|right; now right]|].
           intros [->|[H|H]]; [now left|right; now left|right; now right].
        -- split; [trivial|intros _; right; discriminate].
        -- split; [intros [E|(t0 & E0 & En)]; [discriminate|injection E0 as <-; now symmetry]|].
           intros ->. right. exists t. split; reflexivity.
      * split; [assumption|]. split; [|assumption]. intros b. rewrite Haft. unfold live.
        destruct Hc as [Hl [[_ Hm]|(_ & _ & Hm)]]; rewrite Hm, Hl; cbn [m_list m_tbl]; rewrite map_app; cbn [map e_id];
          (destruct b as [i| |n]; [rewrite in_app_iff; cbn [In]; split; [intros [->|[H|H]]; [left; right; now left|left; now left|now right]|
             intros [[H|[<-|[]]]|H]; [right; now left|now left|right; now right]]|split; [discriminate|trivial]|reflexivity]).
    + destruct Hi as (Hh & Hid & Hnd & Ht). rewrite Et in Ht.
      destruct (fails (a_calls a + 1)).
      { cbn [legal after]. split; [split; [assumption|exact I]|]. split; [|exact Hinv'].
        intros b. unfold live, bump. cbn [a_map a_leaked m_list m_tbl In]. destruct b as [i| |n].
        - split; [intros [E|[H|H]]; [injection E as ->; right; now left|now left|right; now right]|].
          intros [H|[<-|H]]; [right; now left|now left|right; now right].
        - split; [intros [E|H]; [discriminate|assumption]|intros H; now right].
        - split; [intros [E|H]; [discriminate|assumption]|intros H; now right]. }
      destruct (fails (a_calls a + 2)).
      { cbn [legal after]. split.
        - split; [assumption|]. split; [intros [E|H]; [discriminate|apply H; exact Et]|].
          split; [now left|exact I].
        - split; [|exact Hinv']. intros b. unfold live, bump. cbn [a_map a_leaked m_list m_tbl In]. destruct b as [i| |n].
          + split; [intros [[E|[E|[H|H]]] _]; [discriminate|injection E as ->; right; now left|now left|right; now right]|].
            intros [H|[<-|H]]; (split; [|discriminate]); [right; right; now left|right; now left|right; right; now right].
          + split; [intros [_ H]; now contradiction H|intros H; rewrite Et in H; now contradiction H].
          + split; [intros [[E|[E|(t0 & E0 & _)]] _]; congruence|intros (t0 & E0 & _); congruence]. }
      pose proof (alink_events a (make_table init_nb init_log2) [] k v (a_calls a + 3)
                    [ACalloc (BElt (m_next (a_map a))); ACalloc BTbl; ACalloc (BBkts init_nb)] (live a)) as H. cbv zeta in H.
      pose proof (alink_cases a (make_table init_nb init_log2) [] k v (a_calls a + 3)
                    [ACalloc (BElt (m_next (a_map a))); ACalloc BTbl; ACalloc (BBkts init_nb)]) as Hc. cbv zeta in Hc.
      destruct (alink a _ _ _ _ _ _) as [[a' o] evs]. cbn [fst] in Hinv'.
      destruct H as [Hleg Haft].
      * cbn [make_table t_nb]. destruct init_pow2 as [kk ->]. apply N.pow_nonzero. discriminate.
      * cbn [legal]. split; [assumption|]. split; [intros [E|H]; [discriminate|apply H; exact Et]|].
        split; [intros [E|[E|(t0 & E0 & _)]]; congruence|exact I].
      * intros b. cbn [after make_table t_nb]. destruct b as [i| |n]; cbn [live]; rewrite ?Et, ?Ht; cbn [map In].
        -- split; [intros [E|[E|[E|[[]|H]]]]; try discriminate; [injection E as ->; now left|right; now right]|].
           intros [->|[[]|H]]; [right; right; now left|right; right; right; now right].
        -- split; [trivial|intros _; right; now left].
        -- split; [intros [E|[E|[E|(t0 & E0 & _)]]]; try congruence|intros ->; now left].
      * split; [assumption|]. split; [|assumption]. intros b. rewrite Haft. unfold live.
        destruct Hc as [Hl [[_ Hm]|(_ & _ & Hm)]]; rewrite Hm, Hl, ?Ht; cbn [m_list m_tbl app map e_id In];
          (destruct b as [i| |n]; [split; [intros [->|[[]|H]]; [left; now left|now right]|
             intros [[<-|[]]|H]; [now left|right; now right]]|split; [discriminate|trivial]|reflexivity]).
  - split; [exact I|]. split; [|exact Hinv']. intros b. cbn [after]. destruct b; reflexivity.
  - exact (remove_events_ok a k Ha).
  - split; [exact I|]. split; [|exact Hinv']. intros b. cbn [after]. destruct b; reflexivity.
  - cbn [MapDefs.mstep] in *.
    destruct (iterate (a_map a)) as [[it [e|]]|]; (split; [exact I|]); (split; [|exact Hinv']); intros b; cbn [after]; destruct b; reflexivity.
  - cbn [MapDefs.mstep] in *. destruct (iterate (a_map a)) as [[it [e|]]|] eqn:Ei; cbn [fst] in *;
      try (split; [exact I|]; split; [|exact Hinv']; intros b; cbn [after]; destruct b; reflexivity).
    exact (remove_events_ok (mkamap (set_it (a_map a) it) (a_calls a) (a_leaked a)) (e_key e) Ha).
Qed.

(* every state an allocator-aware run reaches owns its blocks properly *)
Theorem arun_ainv : forall ops a, ainv a -> ainv (fst (MapAllocDefs.arun hash init_nb init_log2 thresh fails a ops)).
Proof.
  induction ops as [|op ops IH]; intros a Ha; [assumption|].
  cbn [MapAllocDefs.arun]. pose proof (astep_events a op Ha) as H.
  destruct (astep a op) as [[a1 o] evs]. destruct H as (_ & _ & Ha1).
  specialize (IH a1 Ha1). destruct (MapAllocDefs.arun hash init_nb init_log2 thresh fails a1 ops) as [a2 tr]. exact IH.
Qed.

(* ---- values never move -------------------------------------------------------------------- *)

Definition ev_blk (ev : aev) : blk := match ev with ACalloc b | ACallocFail b | AFree b => b end.

Theorem live_elt_untouched a op e :
  ainv a ->
  In e (m_list (a_map a)) -> In (e_id e) (map e_id (m_list (a_map (fst (fst (astep a op)))))) ->
  forall ev, In ev (snd (astep a op)) -> ev_blk ev <> BElt (e_id e).
Proof.
  intros [Hi Hlk] He He' ev Hev.
  assert (Hlt : e_id e < m_next (a_map a)) by (destruct Hi as (_ & Hid & _); apply Hid; assumption).
  assert (Hdel : forall m d, minv m -> m_next m = m_next (a_map a) -> In d (m_list m) ->
            In (e_id e) (map e_id (m_list (hdelete m d))) -> In ev (del_events m d) -> ev_blk ev <> BElt (e_id e)).
  { intros m d Hm _ Hd Hin Hin'. destruct (hdelete_inv hash m d Hm Hd) as (_ & Hl & _).
    rewrite Hl in Hin. apply in_map_iff in Hin. destruct Hin as (x & Ex & Hx). apply drop_id_in in Hx.
    unfold del_events in Hin'. destruct (m_tbl m); [|destruct Hin'].
    destruct (drop_id (e_id d) (m_list m)); cbn [In] in Hin';
      repeat (destruct Hin' as [<-|Hin']; [cbn [ev_blk]; try discriminate; intros E; injection E as E; destruct Hx as [_ Hx]; congruence|]); destruct Hin'. }
  assert (Hrm : forall m k, minv m -> m_next m = m_next (a_map a) ->
            In (e_id e) (map e_id (m_list (match hfind m k with Some d => hdelete m d | None => m end))) ->
            In ev (remove_events hash m k) -> ev_blk ev <> BElt (e_id e)).
  { intros m k Hm Hn Hin Hin'. unfold remove_events in Hin'. destruct (hfind m k) as [d|] eqn:Hf; [|destruct Hin'].
    destruct (hfind_sound hash _ _ _ Hm Hf) as [Hd _]. exact (Hdel m d Hm Hn Hd Hin Hin'). }
  destruct op as [k v|k|k| | |]; cbn [MapAllocDefs.astep] in *.
  - (* insert: every event names the new identity or a table block *)
    assert (Hall : forall ev', In ev' (snd (ainsert a k v)) ->
              match ev_blk ev' with BElt i => i = m_next (a_map a) | _ => True end).
    { unfold MapAllocDefs.ainsert. destruct (fails (a_calls a)); [intros ev' [<-|[]]; reflexivity|].
      assert (Hlink : forall t lpre c evs0,
                (forall ev', In ev' evs0 -> match ev_blk ev' with BElt i => i = m_next (a_map a) | _ => True end) ->
                forall ev', In ev' (snd (alink a t lpre (mkelt (m_next (a_map a)) k v (hash k)) (mkelt (m_next (a_map a)) k 0 (hash k)) c evs0)) ->
                match ev_blk ev' with BElt i => i = m_next (a_map a) | _ => True end).
      { intros t lpre c evs0 H0 ev'. unfold MapAllocDefs.alink. destruct (expand_needed thresh t _); [|apply H0].
        destruct (4294967296 <=? 2 * t_nb t); [apply H0|]. destruct (fails c); cbn [snd]; intros H; apply in_app_iff in H;
          (destruct H as [H|H]; [now apply H0|]); cbn [In] in H; repeat (destruct H as [<-|H]; [exact I|]); destruct H. }
      destruct (m_tbl (a_map a)).
      - apply Hlink. intros ev' [<-|[]]. reflexivity.
      - destruct (fails (a_calls a + 1)); [intros ev' [<-|[<-|[]]]; [reflexivity|exact I]|].
        destruct (fails (a_calls a + 2)); [intros ev' [<-|[<-|[<-|[<-|[]]]]]; try exact I; reflexivity|].
        apply Hlink. intros ev' [<-|[<-|[<-|[]]]]; try exact I. reflexivity. }
    specialize (Hall ev Hev). intros E. rewrite E in Hall. lia.
  - destruct (mstep (a_map a) (MFind k)). destruct Hev.
  - cbn [fst snd a_map MapDefs.mstep] in *. exact (Hrm (a_map a) k Hi eq_refl He' Hev).
  - destruct (mstep (a_map a) MIterStart). destruct Hev.
  - destruct (mstep (a_map a) MIterNext). destruct Hev.
  - cbn [MapDefs.mstep] in *. destruct (iterate (a_map a)) as [[it [x|]]|]; cbn [fst snd a_map] in *; try (destruct Hev).
    exact (Hrm (set_it (a_map a) it) (e_key x) Hi eq_refl He' Hev).
Qed.

End AllocProofs.
