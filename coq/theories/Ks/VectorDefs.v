(* VectorDefs.v - executable model of libks/vector.c (and of the doubling loop
   it shares with buffer.c).

   struct vector { callbacks; vc_siz; vc_stride; p.len } followed by the
   elements.  Model state: capacity [v_siz] (elements), live elements
   [v_elems] (length = p.len).  Elements are integers (the harness uses 8-byte
   and 24-byte elements whose first word is the value).

   Parameters of the model (Section variables; the extracted instance takes
   them from the running harness / coq/gen/Gen_KsConst.v):
     stride     sizeof(element)            (> 0; vector_reserve1 divides by it)
     hdr        sizeof(struct vector)
     init_cap   the literal 16 of vector_reserve1
     alloc_ok   does the allocator satisfy a request of that many bytes
     sortf      what qsort(3) with an integer comparison does to the elements *)
From Coq Require Export ZArith List Bool Lia.
Export ListNotations.
Local Open Scope Z_scope.

Definition ULONG_MAX : Z := 18446744073709551615.

(* while (newsiz < need) { if (newsiz > ULONG_MAX / 2) goto overflow; newsiz *= 2; }
   [None] = overflow.  65 rounds of fuel always suffice (VectorProofs.grow_fuel). *)
Fixpoint grow (fuel : nat) (s need : Z) : option Z :=
  if need <=? s then Some s
  else match fuel with
       | O => None
       | S f => if ULONG_MAX / 2 <? s then None else grow f (2 * s) need
       end.
Definition GROW_FUEL : nat := 65.

Inductive vop :=
  | VPush (x : Z)      (* p = VECTOR_ALLOC(v); *p = x *)
  | VCalloc            (* p = VECTOR_CALLOC(v) *)
  | VReserve (n : Z)   (* VECTOR_RESERVE(v, n) *)
  | VPop | VClear | VFirst | VLast | VSort
  | VLen               (* VECTOR_LENGTH *)
  | VDump.             (* read v[0 .. len-1] *)

Inductive vout :=
  | VoErr                    (* NULL from ALLOC/CALLOC *)
  | VoIdx (i : Z) (x : Z)    (* pointer to element i, which holds x *)
  | VoNull                   (* NULL: empty vector *)
  | VoUnit
  | VoInt (n : Z)
  | VoList (l : list Z).

Record vec := mkvec { v_siz : Z; v_elems : list Z }.

Definition zlen {A} (l : list A) : Z := Z.of_nat (length l).

Inductive rsv := RsvSame | RsvGrown (newsiz : Z) | RsvErr.

Section Vector.
Variables stride hdr init_cap : Z.
Variable alloc_ok : Z -> bool.
Variable sortf : list Z -> list Z.

(* vector_reserve1(&vc, n) *)
Definition vreserve1 (v : vec) (n : Z) : rsv :=
  let len := zlen (v_elems v) in
  if ULONG_MAX - n <? len then RsvErr
  else if len + n <=? v_siz v then RsvSame
  else match grow GROW_FUEL (if v_siz v =? 0 then init_cap else v_siz v) (len + n) with
       | None => RsvErr
       | Some newsiz =>
           if ULONG_MAX / stride <? newsiz then RsvErr
           else if ULONG_MAX - hdr <? newsiz * stride then RsvErr
           else if alloc_ok (newsiz * stride + hdr) then RsvGrown newsiz else RsvErr
       end.

Definition vpush (v : vec) (x : Z) : vec * vout :=
  let i := zlen (v_elems v) in
  match vreserve1 v 1 with
  | RsvErr => (v, VoErr)
  | RsvSame => (mkvec (v_siz v) (v_elems v ++ [x]), VoIdx i x)
  | RsvGrown s => (mkvec s (v_elems v ++ [x]), VoIdx i x)
  end.

Definition vstep (v : vec) (op : vop) : vec * vout :=
  match op with
  | VPush x => vpush v x
  | VCalloc => vpush v 0
  | VReserve n =>
      match vreserve1 v n with
      | RsvErr => (v, VoInt 1)
      | RsvSame => (v, VoInt 0)
      | RsvGrown s => (mkvec s (v_elems v), VoInt 0)
      end
  | VPop =>
      match v_elems v with
      | [] => (v, VoNull)
      | _ => (mkvec (v_siz v) (removelast (v_elems v)), VoIdx (zlen (v_elems v) - 1) (last (v_elems v) 0))
      end
  | VClear => (mkvec (v_siz v) [], VoUnit)
  | VFirst =>
      (v, match v_elems v with [] => VoNull | x :: _ => VoIdx 0 x end)
  | VLast =>
      (v, match v_elems v with [] => VoNull | _ => VoIdx (zlen (v_elems v) - 1) (last (v_elems v) 0) end)
  | VSort =>
      (match v_elems v with [] => v | _ => mkvec (v_siz v) (sortf (v_elems v)) end, VoUnit)
  | VLen => (v, VoInt (zlen (v_elems v)))
  | VDump => (v, VoList (v_elems v))
  end.

(* outputs, and the capacity after every operation (second observation channel of the harness) *)
Fixpoint vrun (v : vec) (ops : list vop) : vec * list (vout * Z) :=
  match ops with
  | [] => (v, [])
  | op :: ops' =>
      let '(v1, o) := vstep v op in
      let '(v2, tr) := vrun v1 ops' in
      (v2, (o, v_siz v1) :: tr)
  end.

End Vector.

Definition vec0 : vec := mkvec 0 [].   (* vector_init: calloc'ed header, vc_siz = 0, len = 0 *)

(* insertion sort: the instance of [sortf] used when the model is executed *)
Fixpoint zinsert (x : Z) (l : list Z) : list Z :=
  match l with
  | [] => [x]
  | y :: l' => if x <=? y then x :: l else y :: zinsert x l'
  end.
Fixpoint isort (l : list Z) : list Z :=
  match l with [] => [] | x :: l' => zinsert x (isort l') end.
