(* MapSpec.v - the map as a dictionary: an association list in insertion order,
   no hashing, no buckets.  An entry is (key, (handle, value)); the handle is
   the number of the insert that created it and stands for the address of the
   value, which the specification never changes.

   The iterator of the specification walks the association list: fresh, or the
   handle of the entry to return next.  Call-site discipline (hypothesis of the
   refinement theorem, [disciplined]): a key is inserted only while absent, and
   the entry the iterator will return next is not removed behind its back. *)
From Robsd Require Export Ks.MapDefs.
Local Open Scope N_scope.

Definition entry := (bytes * (N * Z))%type.
Record dict := mkdict { d_ents : list entry; d_next : N; d_it : option (option N) }.
Definition dict0 : dict := mkdict [] 0 None.

Definition ent_key (e : entry) : bytes := fst e.
Definition ent_id (e : entry) : N := fst (snd e).
Definition ent_val (e : entry) : Z := snd (snd e).

Definition dfind (d : list entry) (k : bytes) : option entry := find (fun e => beq (ent_key e) k) d.
Definition dremove (d : list entry) (k : bytes) : list entry := filter (fun e => negb (beq (ent_key e) k)) d.

Fixpoint dlocate (i : N) (l : list entry) : option (entry * option N) :=
  match l with
  | [] => None
  | e :: l' => if ent_id e =? i then Some (e, match l' with [] => None | e' :: _ => Some (ent_id e') end)
               else dlocate i l'
  end.

Definition diterate (d : dict) : option (option (option N) * option entry) :=
  match d_it d with
  | None =>
      match d_ents d with
      | [] => Some (None, None)
      | e :: l' => Some (Some (match l' with [] => None | e' :: _ => Some (ent_id e') end), Some e)
      end
  | Some None => Some (Some None, None)
  | Some (Some i) =>
      match dlocate i (d_ents d) with
      | None => None
      | Some (e, nx) => Some (Some nx, Some e)
      end
  end.

Definition dstep (d : dict) (op : mop) : dict * mout :=
  match op with
  | MInsert k v => (mkdict (d_ents d ++ [(k, (d_next d, v))]) (d_next d + 1) (d_it d), MoPtr (d_next d) v)
  | MFind k => (d, match dfind (d_ents d) k with Some e => MoPtr (ent_id e) (ent_val e) | None => MoNull end)
  | MRemove k => (mkdict (dremove (d_ents d) k) (d_next d) (d_it d), MoUnit)
  | MIterStart => (mkdict (d_ents d) (d_next d) None, MoUnit)
  | MIterNext =>
      match diterate d with
      | None => (d, MoUB)
      | Some (it, None) => (mkdict (d_ents d) (d_next d) it, MoNull)
      | Some (it, Some e) => (mkdict (d_ents d) (d_next d) it, MoEnt (ent_id e) (ent_key e) (ent_val e))
      end
  | MIterNextDel =>
      match diterate d with
      | None => (d, MoUB)
      | Some (it, None) => (mkdict (d_ents d) (d_next d) it, MoNull)
      | Some (it, Some e) => (mkdict (dremove (d_ents d) (ent_key e)) (d_next d) it, MoEnt (ent_id e) (ent_key e) (ent_val e))
      end
  end.

Fixpoint drun (d : dict) (ops : list mop) : dict * list mout :=
  match ops with
  | [] => (d, [])
  | op :: ops' =>
      let '(d1, o) := dstep d op in
      let '(d2, os) := drun d1 ops' in (d2, o :: os)
  end.

(* the discipline, decided along the specification's own run *)
Definition op_ok (d : dict) (op : mop) : bool :=
  match op with
  | MInsert k _ => match dfind (d_ents d) k with None => true | Some _ => false end
  | MRemove k =>
      (* do not remove the entry the iterator is about to return *)
      match d_it d, dfind (d_ents d) k with
      | Some (Some i), Some e => negb (ent_id e =? i)
      | _, _ => true
      end
  | MIterNext | MIterNextDel => match diterate d with None => false | Some _ => true end
  | _ => true
  end.

Fixpoint disciplined (d : dict) (ops : list mop) : bool :=
  match ops with
  | [] => true
  | op :: ops' => op_ok d op && disciplined (fst (dstep d op)) ops'
  end.

Definition mout_eqb (a b : mout) : bool :=
  match a, b with
  | MoPtr i v, MoPtr j w => (i =? j) && (v =? w)%Z
  | MoNull, MoNull | MoUnit, MoUnit | MoUB, MoUB => true
  | MoEnt i k v, MoEnt j l w => (i =? j) && beq k l && (v =? w)%Z
  | _, _ => false
  end.

Fixpoint mouts_eqb (a b : list mout) : bool :=
  match a, b with
  | [], [] => true
  | x :: a', y :: b' => mout_eqb x y && mouts_eqb a' b'
  | _, _ => false
  end.

(* the oracle: the observed results of a disciplined sequence are the dictionary's; an undisciplined
   sequence is outside the specification (the harness counts and reports those separately) *)
Definition spec_ok_map (ops : list mop) (outs : list mout) : bool :=
  if disciplined dict0 ops then mouts_eqb outs (snd (drun dict0 ops)) else true.
